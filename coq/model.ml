
(** val negb : bool -> bool **)

let negb = function
| true -> false
| false -> true

type nat =
| O
| S of nat

(** val option_map : ('a1 -> 'a2) -> 'a1 option -> 'a2 option **)

let option_map f = function
| Some a -> Some (f a)
| None -> None

(** val fst : ('a1 * 'a2) -> 'a1 **)

let fst = function
| (x, _) -> x

(** val snd : ('a1 * 'a2) -> 'a2 **)

let snd = function
| (_, y) -> y

(** val length : 'a1 list -> nat **)

let rec length = function
| [] -> O
| _ :: l' -> S (length l')

(** val app : 'a1 list -> 'a1 list -> 'a1 list **)

let rec app l m0 =
  match l with
  | [] -> m0
  | a :: l1 -> a :: (app l1 m0)

type uint =
| Nil
| D0 of uint
| D1 of uint
| D2 of uint
| D3 of uint
| D4 of uint
| D5 of uint
| D6 of uint
| D7 of uint
| D8 of uint
| D9 of uint

type signed_int =
| Pos of uint
| Neg of uint

(** val revapp : uint -> uint -> uint **)

let rec revapp d d' =
  match d with
  | Nil -> d'
  | D0 d0 -> revapp d0 (D0 d')
  | D1 d0 -> revapp d0 (D1 d')
  | D2 d0 -> revapp d0 (D2 d')
  | D3 d0 -> revapp d0 (D3 d')
  | D4 d0 -> revapp d0 (D4 d')
  | D5 d0 -> revapp d0 (D5 d')
  | D6 d0 -> revapp d0 (D6 d')
  | D7 d0 -> revapp d0 (D7 d')
  | D8 d0 -> revapp d0 (D8 d')
  | D9 d0 -> revapp d0 (D9 d')

(** val rev : uint -> uint **)

let rev d =
  revapp d Nil

module Little =
 struct
  (** val double : uint -> uint **)

  let rec double = function
  | Nil -> Nil
  | D0 d0 -> D0 (double d0)
  | D1 d0 -> D2 (double d0)
  | D2 d0 -> D4 (double d0)
  | D3 d0 -> D6 (double d0)
  | D4 d0 -> D8 (double d0)
  | D5 d0 -> D0 (succ_double d0)
  | D6 d0 -> D2 (succ_double d0)
  | D7 d0 -> D4 (succ_double d0)
  | D8 d0 -> D6 (succ_double d0)
  | D9 d0 -> D8 (succ_double d0)

  (** val succ_double : uint -> uint **)

  and succ_double = function
  | Nil -> D1 Nil
  | D0 d0 -> D1 (double d0)
  | D1 d0 -> D3 (double d0)
  | D2 d0 -> D5 (double d0)
  | D3 d0 -> D7 (double d0)
  | D4 d0 -> D9 (double d0)
  | D5 d0 -> D1 (succ_double d0)
  | D6 d0 -> D3 (succ_double d0)
  | D7 d0 -> D5 (succ_double d0)
  | D8 d0 -> D7 (succ_double d0)
  | D9 d0 -> D9 (succ_double d0)
 end

module Coq__1 = struct
 (** val add : nat -> nat -> nat **)
 let rec add n0 m0 =
   match n0 with
   | O -> m0
   | S p -> S (add p m0)
end
include Coq__1

(** val mul : nat -> nat -> nat **)

let rec mul n0 m0 =
  match n0 with
  | O -> O
  | S p -> add m0 (mul p m0)

(** val eqb : bool -> bool -> bool **)

let eqb b1 b2 =
  if b1 then b2 else if b2 then false else true

module Nat =
 struct
  (** val sub : nat -> nat -> nat **)

  let rec sub n0 m0 =
    match n0 with
    | O -> n0
    | S k -> (match m0 with
              | O -> n0
              | S l -> sub k l)

  (** val eqb : nat -> nat -> bool **)

  let rec eqb n0 m0 =
    match n0 with
    | O -> (match m0 with
            | O -> true
            | S _ -> false)
    | S n' -> (match m0 with
               | O -> false
               | S m' -> eqb n' m')

  (** val leb : nat -> nat -> bool **)

  let rec leb n0 m0 =
    match n0 with
    | O -> true
    | S n' -> (match m0 with
               | O -> false
               | S m' -> leb n' m')

  (** val ltb : nat -> nat -> bool **)

  let ltb n0 m0 =
    leb (S n0) m0

  (** val divmod : nat -> nat -> nat -> nat -> nat * nat **)

  let rec divmod x y q u =
    match x with
    | O -> (q, u)
    | S x' ->
      (match u with
       | O -> divmod x' y (S q) y
       | S u' -> divmod x' y q u')

  (** val modulo : nat -> nat -> nat **)

  let modulo x = function
  | O -> x
  | S y' -> sub y' (snd (divmod x y' O y'))
 end

(** val nth_error : 'a1 list -> nat -> 'a1 option **)

let rec nth_error l = function
| O -> (match l with
        | [] -> None
        | x :: _ -> Some x)
| S n1 -> (match l with
           | [] -> None
           | _ :: l0 -> nth_error l0 n1)

(** val rev0 : 'a1 list -> 'a1 list **)

let rec rev0 = function
| [] -> []
| x :: l' -> app (rev0 l') (x :: [])

(** val map : ('a1 -> 'a2) -> 'a1 list -> 'a2 list **)

let rec map f = function
| [] -> []
| a :: t -> (f a) :: (map f t)

(** val fold_left : ('a1 -> 'a2 -> 'a1) -> 'a2 list -> 'a1 -> 'a1 **)

let rec fold_left f l a0 =
  match l with
  | [] -> a0
  | b :: t -> fold_left f t (f a0 b)

(** val existsb : ('a1 -> bool) -> 'a1 list -> bool **)

let rec existsb f = function
| [] -> false
| a :: l0 -> (||) (f a) (existsb f l0)

(** val forallb : ('a1 -> bool) -> 'a1 list -> bool **)

let rec forallb f = function
| [] -> true
| a :: l0 -> (&&) (f a) (forallb f l0)

(** val filter : ('a1 -> bool) -> 'a1 list -> 'a1 list **)

let rec filter f = function
| [] -> []
| x :: l0 -> if f x then x :: (filter f l0) else filter f l0

(** val seq : nat -> nat -> nat list **)

let rec seq start = function
| O -> []
| S len1 -> start :: (seq (S start) len1)

type positive =
| XI of positive
| XO of positive
| XH

type n =
| N0
| Npos of positive

type z =
| Z0
| Zpos of positive
| Zneg of positive

module Pos =
 struct
  (** val succ : positive -> positive **)

  let rec succ = function
  | XI p -> XO (succ p)
  | XO p -> XI p
  | XH -> XO XH

  (** val add : positive -> positive -> positive **)

  let rec add x y =
    match x with
    | XI p ->
      (match y with
       | XI q -> XO (add_carry p q)
       | XO q -> XI (add p q)
       | XH -> XO (succ p))
    | XO p ->
      (match y with
       | XI q -> XI (add p q)
       | XO q -> XO (add p q)
       | XH -> XI p)
    | XH -> (match y with
             | XI q -> XO (succ q)
             | XO q -> XI q
             | XH -> XO XH)

  (** val add_carry : positive -> positive -> positive **)

  and add_carry x y =
    match x with
    | XI p ->
      (match y with
       | XI q -> XI (add_carry p q)
       | XO q -> XO (add_carry p q)
       | XH -> XI (succ p))
    | XO p ->
      (match y with
       | XI q -> XO (add_carry p q)
       | XO q -> XI (add p q)
       | XH -> XO (succ p))
    | XH ->
      (match y with
       | XI q -> XI (succ q)
       | XO q -> XO (succ q)
       | XH -> XI XH)

  (** val mul : positive -> positive -> positive **)

  let rec mul x y =
    match x with
    | XI p -> add y (XO (mul p y))
    | XO p -> XO (mul p y)
    | XH -> y

  (** val iter_op : ('a1 -> 'a1 -> 'a1) -> positive -> 'a1 -> 'a1 **)

  let rec iter_op op0 p a =
    match p with
    | XI p0 -> op0 a (iter_op op0 p0 (op0 a a))
    | XO p0 -> iter_op op0 p0 (op0 a a)
    | XH -> a

  (** val to_nat : positive -> nat **)

  let to_nat x =
    iter_op Coq__1.add x (S O)

  (** val of_succ_nat : nat -> positive **)

  let rec of_succ_nat = function
  | O -> XH
  | S x -> succ (of_succ_nat x)

  (** val of_uint_acc : uint -> positive -> positive **)

  let rec of_uint_acc d acc =
    match d with
    | Nil -> acc
    | D0 l -> of_uint_acc l (mul (XO (XI (XO XH))) acc)
    | D1 l -> of_uint_acc l (add XH (mul (XO (XI (XO XH))) acc))
    | D2 l -> of_uint_acc l (add (XO XH) (mul (XO (XI (XO XH))) acc))
    | D3 l -> of_uint_acc l (add (XI XH) (mul (XO (XI (XO XH))) acc))
    | D4 l -> of_uint_acc l (add (XO (XO XH)) (mul (XO (XI (XO XH))) acc))
    | D5 l -> of_uint_acc l (add (XI (XO XH)) (mul (XO (XI (XO XH))) acc))
    | D6 l -> of_uint_acc l (add (XO (XI XH)) (mul (XO (XI (XO XH))) acc))
    | D7 l -> of_uint_acc l (add (XI (XI XH)) (mul (XO (XI (XO XH))) acc))
    | D8 l ->
      of_uint_acc l (add (XO (XO (XO XH))) (mul (XO (XI (XO XH))) acc))
    | D9 l ->
      of_uint_acc l (add (XI (XO (XO XH))) (mul (XO (XI (XO XH))) acc))

  (** val of_uint : uint -> n **)

  let rec of_uint = function
  | Nil -> N0
  | D0 l -> of_uint l
  | D1 l -> Npos (of_uint_acc l XH)
  | D2 l -> Npos (of_uint_acc l (XO XH))
  | D3 l -> Npos (of_uint_acc l (XI XH))
  | D4 l -> Npos (of_uint_acc l (XO (XO XH)))
  | D5 l -> Npos (of_uint_acc l (XI (XO XH)))
  | D6 l -> Npos (of_uint_acc l (XO (XI XH)))
  | D7 l -> Npos (of_uint_acc l (XI (XI XH)))
  | D8 l -> Npos (of_uint_acc l (XO (XO (XO XH))))
  | D9 l -> Npos (of_uint_acc l (XI (XO (XO XH))))

  (** val to_little_uint : positive -> uint **)

  let rec to_little_uint = function
  | XI p0 -> Little.succ_double (to_little_uint p0)
  | XO p0 -> Little.double (to_little_uint p0)
  | XH -> D1 Nil

  (** val to_uint : positive -> uint **)

  let to_uint p =
    rev (to_little_uint p)
 end

module Z =
 struct
  (** val opp : z -> z **)

  let opp = function
  | Z0 -> Z0
  | Zpos x0 -> Zneg x0
  | Zneg x0 -> Zpos x0

  (** val to_nat : z -> nat **)

  let to_nat = function
  | Zpos p -> Pos.to_nat p
  | _ -> O

  (** val of_nat : nat -> z **)

  let of_nat = function
  | O -> Z0
  | S n1 -> Zpos (Pos.of_succ_nat n1)

  (** val of_N : n -> z **)

  let of_N = function
  | N0 -> Z0
  | Npos p -> Zpos p

  (** val of_uint : uint -> z **)

  let of_uint d =
    of_N (Pos.of_uint d)

  (** val of_int : signed_int -> z **)

  let of_int = function
  | Pos d0 -> of_uint d0
  | Neg d0 -> opp (of_uint d0)

  (** val to_int : z -> signed_int **)

  let to_int = function
  | Z0 -> Pos (D0 Nil)
  | Zpos p -> Pos (Pos.to_uint p)
  | Zneg p -> Neg (Pos.to_uint p)
 end

type ascii =
| Ascii of bool * bool * bool * bool * bool * bool * bool * bool

(** val eqb0 : ascii -> ascii -> bool **)

let eqb0 a b =
  let Ascii (a0, a1, a2, a3, a4, a5, a6, a7) = a in
  let Ascii (b0, b1, b2, b3, b4, b5, b6, b7) = b in
  if if if if if if if eqb a0 b0 then eqb a1 b1 else false
                 then eqb a2 b2
                 else false
              then eqb a3 b3
              else false
           then eqb a4 b4
           else false
        then eqb a5 b5
        else false
     then eqb a6 b6
     else false
  then eqb a7 b7
  else false

type string =
| EmptyString
| String of ascii * string

(** val eqb1 : string -> string -> bool **)

let rec eqb1 s1 s2 =
  match s1 with
  | EmptyString ->
    (match s2 with
     | EmptyString -> true
     | String (_, _) -> false)
  | String (c1, s1') ->
    (match s2 with
     | EmptyString -> false
     | String (c2, s2') -> if eqb0 c1 c2 then eqb1 s1' s2' else false)

(** val append : string -> string -> string **)

let rec append s1 s2 =
  match s1 with
  | EmptyString -> s2
  | String (c, s1') -> String (c, (append s1' s2))

(** val uint_of_char : ascii -> uint option -> uint option **)

let uint_of_char a = function
| Some d0 ->
  let Ascii (b, b0, b1, b2, b3, b4, b5, b6) = a in
  if b
  then if b0
       then if b1
            then if b2
                 then None
                 else if b3
                      then if b4
                           then if b5
                                then None
                                else if b6 then None else Some (D7 d0)
                           else None
                      else None
            else if b2
                 then None
                 else if b3
                      then if b4
                           then if b5
                                then None
                                else if b6 then None else Some (D3 d0)
                           else None
                      else None
       else if b1
            then if b2
                 then None
                 else if b3
                      then if b4
                           then if b5
                                then None
                                else if b6 then None else Some (D5 d0)
                           else None
                      else None
            else if b2
                 then if b3
                      then if b4
                           then if b5
                                then None
                                else if b6 then None else Some (D9 d0)
                           else None
                      else None
                 else if b3
                      then if b4
                           then if b5
                                then None
                                else if b6 then None else Some (D1 d0)
                           else None
                      else None
  else if b0
       then if b1
            then if b2
                 then None
                 else if b3
                      then if b4
                           then if b5
                                then None
                                else if b6 then None else Some (D6 d0)
                           else None
                      else None
            else if b2
                 then None
                 else if b3
                      then if b4
                           then if b5
                                then None
                                else if b6 then None else Some (D2 d0)
                           else None
                      else None
       else if b1
            then if b2
                 then None
                 else if b3
                      then if b4
                           then if b5
                                then None
                                else if b6 then None else Some (D4 d0)
                           else None
                      else None
            else if b2
                 then if b3
                      then if b4
                           then if b5
                                then None
                                else if b6 then None else Some (D8 d0)
                           else None
                      else None
                 else if b3
                      then if b4
                           then if b5
                                then None
                                else if b6 then None else Some (D0 d0)
                           else None
                      else None
| None -> None

module NilEmpty =
 struct
  (** val string_of_uint : uint -> string **)

  let rec string_of_uint = function
  | Nil -> EmptyString
  | D0 d0 ->
    String ((Ascii (false, false, false, false, true, true, false, false)),
      (string_of_uint d0))
  | D1 d0 ->
    String ((Ascii (true, false, false, false, true, true, false, false)),
      (string_of_uint d0))
  | D2 d0 ->
    String ((Ascii (false, true, false, false, true, true, false, false)),
      (string_of_uint d0))
  | D3 d0 ->
    String ((Ascii (true, true, false, false, true, true, false, false)),
      (string_of_uint d0))
  | D4 d0 ->
    String ((Ascii (false, false, true, false, true, true, false, false)),
      (string_of_uint d0))
  | D5 d0 ->
    String ((Ascii (true, false, true, false, true, true, false, false)),
      (string_of_uint d0))
  | D6 d0 ->
    String ((Ascii (false, true, true, false, true, true, false, false)),
      (string_of_uint d0))
  | D7 d0 ->
    String ((Ascii (true, true, true, false, true, true, false, false)),
      (string_of_uint d0))
  | D8 d0 ->
    String ((Ascii (false, false, false, true, true, true, false, false)),
      (string_of_uint d0))
  | D9 d0 ->
    String ((Ascii (true, false, false, true, true, true, false, false)),
      (string_of_uint d0))

  (** val uint_of_string : string -> uint option **)

  let rec uint_of_string = function
  | EmptyString -> Some Nil
  | String (a, s0) -> uint_of_char a (uint_of_string s0)
 end

module NilZero =
 struct
  (** val string_of_uint : uint -> string **)

  let string_of_uint d = match d with
  | Nil ->
    String ((Ascii (false, false, false, false, true, true, false, false)),
      EmptyString)
  | _ -> NilEmpty.string_of_uint d

  (** val uint_of_string : string -> uint option **)

  let uint_of_string s = match s with
  | EmptyString -> None
  | String (_, _) -> NilEmpty.uint_of_string s

  (** val string_of_int : signed_int -> string **)

  let string_of_int = function
  | Pos d0 -> string_of_uint d0
  | Neg d0 ->
    String ((Ascii (true, false, true, true, false, true, false, false)),
      (string_of_uint d0))

  (** val int_of_string : string -> signed_int option **)

  let int_of_string s = match s with
  | EmptyString -> None
  | String (a, s') ->
    if eqb0 a (Ascii (true, false, true, true, false, true, false, false))
    then option_map (fun x -> Neg x) (uint_of_string s')
    else option_map (fun x -> Pos x) (uint_of_string s)
 end

type sexp =
| A of string
| L of sexp list

(** val sexp_eqb : sexp -> sexp -> bool **)

let rec sexp_eqb a b =
  match a with
  | A x -> (match b with
            | A y -> eqb1 x y
            | L _ -> false)
  | L xs ->
    (match b with
     | A _ -> false
     | L ys ->
       let rec go xs0 ys0 =
         match xs0 with
         | [] -> (match ys0 with
                  | [] -> true
                  | _ :: _ -> false)
         | x :: xs' ->
           (match ys0 with
            | [] -> false
            | y :: ys' -> (&&) (sexp_eqb x y) (go xs' ys'))
       in go xs ys)

(** val sbool : bool -> sexp **)

let sbool b =
  A
    (if b
     then String ((Ascii (false, false, true, false, true, true, true,
            false)), EmptyString)
     else String ((Ascii (false, true, true, false, false, true, true,
            false)), EmptyString))

(** val z_to_string : z -> string **)

let z_to_string z0 =
  NilZero.string_of_int (Z.to_int z0)

(** val nat_to_string : nat -> string **)

let nat_to_string n0 =
  z_to_string (Z.of_nat n0)

(** val string_to_z : string -> z option **)

let string_to_z s =
  match NilZero.int_of_string s with
  | Some i -> Some (Z.of_int i)
  | None -> None

(** val snat : nat -> sexp **)

let snat n0 =
  A (nat_to_string n0)

(** val atom_of : sexp -> string **)

let atom_of = function
| A x -> x
| L _ -> EmptyString

(** val nat_of : sexp -> nat **)

let nat_of s =
  match string_to_z (atom_of s) with
  | Some z0 -> Z.to_nat z0
  | None -> O

(** val sopt : ('a1 -> sexp) -> 'a1 option -> sexp **)

let sopt f = function
| Some x -> L ((f x) :: [])
| None -> L []

type 'v slot = { skey : string; sval : 'v; sdel : bool }

type 'v omap = { items : 'v slot list; index : (string * nat) list }

(** val empty : 'a1 omap **)

let empty =
  { items = []; index = [] }

(** val idx_get : string -> (string * nat) list -> nat option **)

let rec idx_get k = function
| [] -> None
| p :: r -> let (k', i) = p in if eqb1 k k' then Some i else idx_get k r

(** val idx_del : string -> (string * nat) list -> (string * nat) list **)

let rec idx_del k = function
| [] -> []
| p :: r ->
  let (k', i) = p in
  if eqb1 k k' then idx_del k r else (k', i) :: (idx_del k r)

(** val idx_set :
    string -> nat -> (string * nat) list -> (string * nat) list **)

let idx_set k i ix =
  (k, i) :: (idx_del k ix)

(** val upd : nat -> ('a1 -> 'a1) -> 'a1 list -> 'a1 list **)

let rec upd i f = function
| [] -> []
| x :: r -> (match i with
             | O -> (f x) :: r
             | S j -> x :: (upd j f r))

(** val tomb : 'a1 slot -> 'a1 slot **)

let tomb s =
  { skey = s.skey; sval = s.sval; sdel = true }

(** val setv : 'a1 -> 'a1 slot -> 'a1 slot **)

let setv v s =
  { skey = s.skey; sval = v; sdel = s.sdel }

(** val len : 'a1 omap -> nat **)

let len m0 =
  length m0.index

(** val is_zero : 'a1 omap -> bool **)

let is_zero m0 =
  Nat.eqb (len m0) O

(** val get : string -> 'a1 omap -> 'a1 option **)

let get k m0 =
  match idx_get k m0.index with
  | Some i ->
    (match nth_error m0.items i with
     | Some s -> Some s.sval
     | None -> None)
  | None -> None

(** val contains : string -> 'a1 omap -> bool **)

let contains k m0 =
  match idx_get k m0.index with
  | Some _ -> true
  | None -> false

(** val set : string -> 'a1 -> 'a1 omap -> 'a1 omap **)

let set k v m0 =
  match idx_get k m0.index with
  | Some i -> { items = (upd i (setv v) m0.items); index = m0.index }
  | None ->
    { items = (app m0.items ({ skey = k; sval = v; sdel = false } :: []));
      index = (idx_set k (length m0.items) m0.index) }

(** val replace : string -> string -> 'a1 -> 'a1 omap -> 'a1 omap **)

let replace old new0 v m0 =
  match idx_get old m0.index with
  | Some i ->
    let p = (i, true) in
    let items1 = m0.items in
    let (idx, ex) = p in
    if (||) (negb (eqb1 old new0)) (negb ex)
    then let items2 =
           match idx_get new0 m0.index with
           | Some ni -> upd ni tomb items1
           | None -> items1
         in
         let index2 = idx_set new0 idx (idx_del old m0.index) in
         { items =
         (upd idx (fun _ -> { skey = new0; sval = v; sdel = false }) items2);
         index = index2 }
    else let index2 = m0.index in
         { items =
         (upd idx (fun _ -> { skey = new0; sval = v; sdel = false }) items1);
         index = index2 }
  | None ->
    let p = ((length m0.items), false) in
    let items1 = app m0.items ({ skey = new0; sval = v; sdel = false } :: [])
    in
    let (idx, ex) = p in
    if (||) (negb (eqb1 old new0)) (negb ex)
    then let items2 =
           match idx_get new0 m0.index with
           | Some ni -> upd ni tomb items1
           | None -> items1
         in
         let index2 = idx_set new0 idx (idx_del old m0.index) in
         { items =
         (upd idx (fun _ -> { skey = new0; sval = v; sdel = false }) items2);
         index = index2 }
    else let index2 = m0.index in
         { items =
         (upd idx (fun _ -> { skey = new0; sval = v; sdel = false }) items1);
         index = index2 }

(** val live : 'a1 slot list -> 'a1 slot list **)

let rec live = function
| [] -> []
| s :: r -> if s.sdel then live r else s :: (live r)

(** val reindex :
    nat -> 'a1 slot list -> (string * nat) list -> (string * nat) list **)

let rec reindex n0 l ix =
  match l with
  | [] -> ix
  | s :: r -> reindex (S n0) r (idx_set s.skey n0 ix)

(** val compact : 'a1 omap -> 'a1 omap **)

let compact m0 =
  let pairs0 = live m0.items in
  { items =
  (map (fun s -> { skey = s.skey; sval = s.sval; sdel = false }) pairs0);
  index = (reindex O pairs0 m0.index) }

(** val delete : string -> 'a1 omap -> 'a1 omap **)

let delete k m0 =
  match idx_get k m0.index with
  | Some i ->
    let m' = { items = (upd i tomb m0.items); index = (idx_del k m0.index) }
    in
    if Nat.leb (mul (S (S O)) (length m'.index)) (length m'.items)
    then compact m'
    else m'
  | None -> m0

(** val range : 'a1 omap -> (string * 'a1) list **)

let range m0 =
  if is_zero m0 then [] else map (fun s -> (s.skey, s.sval)) (live m0.items)

(** val equal_loop :
    ('a1 -> 'a1 -> bool) -> 'a1 slot list -> 'a1 slot list -> bool **)

let rec equal_loop veq0 la lb =
  match la with
  | [] -> true
  | a :: ra ->
    if a.sdel
    then equal_loop veq0 ra lb
    else let rec inner = function
         | [] -> true
         | b :: rb ->
           if b.sdel
           then inner rb
           else if eqb1 a.skey b.skey
                then if veq0 a.sval b.sval
                     then equal_loop veq0 ra rb
                     else false
                else false
         in inner lb

(** val equal : ('a1 -> 'a1 -> bool) -> 'a1 omap -> 'a1 omap -> bool **)

let equal veq0 a b =
  if Nat.eqb (len a) (len b) then equal_loop veq0 a.items b.items else false

(** val equal_opt :
    ('a1 -> 'a1 -> bool) -> 'a1 omap option -> 'a1 omap option -> bool **)

let equal_opt veq0 a b =
  match a with
  | Some x -> (match b with
               | Some y -> equal veq0 x y
               | None -> false)
  | None -> (match b with
             | Some _ -> false
             | None -> true)

(** val range_rename :
    (string -> string) -> (string -> 'a1 -> 'a1) -> 'a1 omap -> 'a1 omap **)

let range_rename fk fv m0 =
  if is_zero m0
  then m0
  else fold_left (fun m1 i ->
         match nth_error m1.items i with
         | Some s ->
           if s.sdel
           then m1
           else replace s.skey (fk s.skey) (fv s.skey s.sval) m1
         | None -> m1) (seq O (length m0.items)) m0

type 'v pairs = (string * 'v) list

(** val p_get : string -> 'a1 pairs -> 'a1 option **)

let rec p_get k = function
| [] -> None
| p :: r -> let (k', v) = p in if eqb1 k k' then Some v else p_get k r

(** val p_has : string -> 'a1 pairs -> bool **)

let p_has k l =
  match p_get k l with
  | Some _ -> true
  | None -> false

(** val p_remove : string -> 'a1 pairs -> 'a1 pairs **)

let rec p_remove k = function
| [] -> []
| p :: r ->
  let (k', v) = p in
  if eqb1 k k' then p_remove k r else (k', v) :: (p_remove k r)

(** val p_update : string -> 'a1 -> 'a1 pairs -> 'a1 pairs **)

let rec p_update k v = function
| [] -> []
| p :: r ->
  let (k', v') = p in
  if eqb1 k k' then (k', v) :: r else (k', v') :: (p_update k v r)

(** val p_set : string -> 'a1 -> 'a1 pairs -> 'a1 pairs **)

let p_set k v l =
  if p_has k l then p_update k v l else app l ((k, v) :: [])

(** val p_rekey : string -> string -> 'a1 -> 'a1 pairs -> 'a1 pairs **)

let rec p_rekey old new0 v = function
| [] -> []
| p :: r ->
  let (k', v') = p in
  if eqb1 old k' then (new0, v) :: r else (k', v') :: (p_rekey old new0 v r)

(** val p_replace : string -> string -> 'a1 -> 'a1 pairs -> 'a1 pairs **)

let p_replace old new0 v l =
  if p_has old l
  then p_rekey old new0 v (if eqb1 old new0 then l else p_remove new0 l)
  else app (p_remove new0 l) ((new0, v) :: [])

(** val p_delete : string -> 'a1 pairs -> 'a1 pairs **)

let p_delete =
  p_remove

(** val p_rename_go :
    (string -> string) -> (string -> 'a1 -> 'a1) -> nat -> 'a1 pairs -> 'a1
    pairs -> 'a1 pairs **)

let rec p_rename_go fk fv fuel done0 todo =
  match fuel with
  | O -> app done0 todo
  | S fuel' ->
    (match todo with
     | [] -> done0
     | p :: rest ->
       let (k, v) = p in
       let k' = fk k in
       p_rename_go fk fv fuel'
         (app (p_remove k' done0) ((k', (fv k v)) :: [])) (p_remove k' rest))

(** val p_rename :
    (string -> string) -> (string -> 'a1 -> 'a1) -> 'a1 pairs -> 'a1 pairs **)

let p_rename fk fv l =
  p_rename_go fk fv (length l) [] l

type 'v op =
| OSet of string * 'v
| OReplace of string * string * 'v
| ODelete of string

(** val step : 'a1 omap -> 'a1 op -> 'a1 omap **)

let step m0 = function
| OSet (k, v) -> set k v m0
| OReplace (a, b, v) -> replace a b v m0
| ODelete k -> delete k m0

(** val spec_step : 'a1 pairs -> 'a1 op -> 'a1 pairs **)

let spec_step l = function
| OSet (k, v) -> p_set k v l
| OReplace (a, b, v) -> p_replace a b v l
| ODelete k -> p_delete k l

(** val veq : string -> string -> bool **)

let veq =
  eqb1

type m = string omap

type gop =
| GOp of string op
| GRR of (string * string) list

(** val parse_op : sexp -> gop **)

let parse_op = function
| A _ -> GOp (ODelete EmptyString)
| L l ->
  (match l with
   | [] -> GOp (ODelete EmptyString)
   | s0 :: l0 ->
     (match s0 with
      | A s1 ->
        (match s1 with
         | EmptyString -> GOp (ODelete EmptyString)
         | String (a0, s2) ->
           let Ascii (b0, b1, b2, b3, b4, b5, b6, b7) = a0 in
           if b0
           then if b1
                then if b2
                     then GOp (ODelete EmptyString)
                     else if b3
                          then GOp (ODelete EmptyString)
                          else if b4
                               then if b5
                                    then if b6
                                         then if b7
                                              then GOp (ODelete EmptyString)
                                              else (match s2 with
                                                    | EmptyString ->
                                                      (match l0 with
                                                       | [] ->
                                                         GOp (ODelete
                                                           EmptyString)
                                                       | s3 :: l1 ->
                                                         (match s3 with
                                                          | A k ->
                                                            (match l1 with
                                                             | [] ->
                                                               GOp (ODelete
                                                                 EmptyString)
                                                             | s4 :: l2 ->
                                                               (match s4 with
                                                                | A v ->
                                                                  (match l2 with
                                                                   | [] ->
                                                                    GOp (OSet
                                                                    (k, v))
                                                                   | _ :: _ ->
                                                                    GOp
                                                                    (ODelete
                                                                    EmptyString))
                                                                | L _ ->
                                                                  GOp
                                                                    (ODelete
                                                                    EmptyString)))
                                                          | L _ ->
                                                            GOp (ODelete
                                                              EmptyString)))
                                                    | String (_, _) ->
                                                      GOp (ODelete
                                                        EmptyString))
                                         else GOp (ODelete EmptyString)
                                    else GOp (ODelete EmptyString)
                               else GOp (ODelete EmptyString)
                else GOp (ODelete EmptyString)
           else if b1
                then if b2
                     then GOp (ODelete EmptyString)
                     else if b3
                          then GOp (ODelete EmptyString)
                          else if b4
                               then if b5
                                    then if b6
                                         then if b7
                                              then GOp (ODelete EmptyString)
                                              else (match s2 with
                                                    | EmptyString ->
                                                      (match l0 with
                                                       | [] ->
                                                         GOp (ODelete
                                                           EmptyString)
                                                       | s3 :: l1 ->
                                                         (match s3 with
                                                          | A a ->
                                                            (match l1 with
                                                             | [] ->
                                                               GOp (ODelete
                                                                 EmptyString)
                                                             | s4 :: l2 ->
                                                               (match s4 with
                                                                | A b ->
                                                                  (match l2 with
                                                                   | [] ->
                                                                    GOp
                                                                    (ODelete
                                                                    EmptyString)
                                                                   | s5 :: l3 ->
                                                                    (match s5 with
                                                                    | A v ->
                                                                    (match l3 with
                                                                    | [] ->
                                                                    GOp
                                                                    (OReplace
                                                                    (a, b, v))
                                                                    | _ :: _ ->
                                                                    GOp
                                                                    (ODelete
                                                                    EmptyString))
                                                                    | L _ ->
                                                                    GOp
                                                                    (ODelete
                                                                    EmptyString)))
                                                                | L _ ->
                                                                  GOp
                                                                    (ODelete
                                                                    EmptyString)))
                                                          | L _ ->
                                                            GOp (ODelete
                                                              EmptyString)))
                                                    | String (a, s3) ->
                                                      let Ascii (b, b8, b9,
                                                                 b10, b11,
                                                                 b12, b13, b14) =
                                                        a
                                                      in
                                                      if b
                                                      then GOp (ODelete
                                                             EmptyString)
                                                      else if b8
                                                           then if b9
                                                                then 
                                                                  GOp
                                                                    (ODelete
                                                                    EmptyString)
                                                                else 
                                                                  if b10
                                                                  then 
                                                                    GOp
                                                                    (ODelete
                                                                    EmptyString)
                                                                  else 
                                                                    if b11
                                                                    then 
                                                                    if b12
                                                                    then 
                                                                    if b13
                                                                    then 
                                                                    if b14
                                                                    then 
                                                                    GOp
                                                                    (ODelete
                                                                    EmptyString)
                                                                    else 
                                                                    (match s3 with
                                                                    | EmptyString ->
                                                                    (match l0 with
                                                                    | [] ->
                                                                    GOp
                                                                    (ODelete
                                                                    EmptyString)
                                                                    | s4 :: l1 ->
                                                                    (match s4 with
                                                                    | A _ ->
                                                                    GOp
                                                                    (ODelete
                                                                    EmptyString)
                                                                    | L tbl ->
                                                                    (match l1 with
                                                                    | [] ->
                                                                    GRR
                                                                    (map
                                                                    (fun e ->
                                                                    match e with
                                                                    | A _ ->
                                                                    (EmptyString,
                                                                    EmptyString)
                                                                    | L l2 ->
                                                                    (match l2 with
                                                                    | [] ->
                                                                    (EmptyString,
                                                                    EmptyString)
                                                                    | s5 :: l3 ->
                                                                    (match s5 with
                                                                    | A a1 ->
                                                                    (match l3 with
                                                                    | [] ->
                                                                    (EmptyString,
                                                                    EmptyString)
                                                                    | s6 :: l4 ->
                                                                    (match s6 with
                                                                    | A b15 ->
                                                                    (match l4 with
                                                                    | [] ->
                                                                    (a1, b15)
                                                                    | _ :: _ ->
                                                                    (EmptyString,
                                                                    EmptyString))
                                                                    | L _ ->
                                                                    (EmptyString,
                                                                    EmptyString)))
                                                                    | L _ ->
                                                                    (EmptyString,
                                                                    EmptyString))))
                                                                    tbl)
                                                                    | _ :: _ ->
                                                                    GOp
                                                                    (ODelete
                                                                    EmptyString))))
                                                                    | String (
                                                                    _, _) ->
                                                                    GOp
                                                                    (ODelete
                                                                    EmptyString))
                                                                    else 
                                                                    GOp
                                                                    (ODelete
                                                                    EmptyString)
                                                                    else 
                                                                    GOp
                                                                    (ODelete
                                                                    EmptyString)
                                                                    else 
                                                                    GOp
                                                                    (ODelete
                                                                    EmptyString)
                                                           else GOp (ODelete
                                                                  EmptyString))
                                         else GOp (ODelete EmptyString)
                                    else GOp (ODelete EmptyString)
                               else GOp (ODelete EmptyString)
                else if b2
                     then if b3
                          then GOp (ODelete EmptyString)
                          else if b4
                               then GOp (ODelete EmptyString)
                               else if b5
                                    then if b6
                                         then if b7
                                              then GOp (ODelete EmptyString)
                                              else (match s2 with
                                                    | EmptyString ->
                                                      (match l0 with
                                                       | [] ->
                                                         GOp (ODelete
                                                           EmptyString)
                                                       | s3 :: l1 ->
                                                         (match s3 with
                                                          | A k ->
                                                            (match l1 with
                                                             | [] ->
                                                               GOp (ODelete k)
                                                             | _ :: _ ->
                                                               GOp (ODelete
                                                                 EmptyString))
                                                          | L _ ->
                                                            GOp (ODelete
                                                              EmptyString)))
                                                    | String (_, _) ->
                                                      GOp (ODelete
                                                        EmptyString))
                                         else GOp (ODelete EmptyString)
                                    else GOp (ODelete EmptyString)
                     else GOp (ODelete EmptyString))
      | L _ -> GOp (ODelete EmptyString)))

(** val tbl_get : string -> (string * string) list -> string **)

let rec tbl_get k = function
| [] -> k
| p :: r -> let (a, b) = p in if eqb1 k a then b else tbl_get k r

(** val rr_fv : string -> string -> string **)

let rr_fv k v =
  append v
    (append (String ((Ascii (true, true, false, true, false, true, false,
      false)), EmptyString)) k)

(** val gstep : m -> gop -> m **)

let gstep m0 = function
| GOp o0 -> step m0 o0
| GRR t -> range_rename (fun k -> tbl_get k t) rr_fv m0

(** val keys_of : gop -> string list **)

let keys_of = function
| GOp o0 ->
  (match o0 with
   | OSet (k, _) -> k :: []
   | OReplace (a, b, _) -> a :: (b :: [])
   | ODelete k -> k :: [])
| GRR _ -> []

(** val spair : (string * string) -> sexp **)

let spair p =
  L ((A (fst p)) :: ((A (snd p)) :: []))

(** val snapshot : m -> sexp **)

let snapshot m0 =
  L (map spair (range m0))

(** val obs_step : m -> gop -> bool -> sexp **)

let obs_step m0 o full =
  L
    (app ((snat (len m0)) :: ((sbool (is_zero m0)) :: []))
      (app
        (map (fun k -> L
          ((sopt (fun x -> A x) (get k m0)) :: ((sbool (contains k m0)) :: [])))
          (keys_of o)) (if full then (snapshot m0) :: [] else [])))

(** val run_trace : nat -> nat -> m -> gop list -> m * sexp list **)

let rec run_trace every i m0 = function
| [] -> (m0, [])
| o :: r ->
  let m' = gstep m0 o in
  let full = Nat.eqb (Nat.modulo i every) O in
  let (mf, tr) = run_trace every (S i) m' r in
  (mf, ((obs_step m' o full) :: tr))

(** val sstep : (string * string) list -> gop -> string pairs **)

let sstep l = function
| GOp o0 -> spec_step l o0
| GRR t -> p_rename (fun k -> tbl_get k t) rr_fv l

(** val spec_agrees : gop list -> m -> bool **)

let spec_agrees ops m0 =
  sexp_eqb (L (map spair (fold_left sstep ops []))) (snapshot m0)

(** val twin : m -> m **)

let twin m0 =
  fold_left (fun t p -> set (fst p) (snd p) t) (range m0) empty

(** val run : sexp -> sexp **)

let run = function
| A _ ->
  A (String ((Ascii (false, true, false, false, false, true, true, false)),
    (String ((Ascii (true, false, false, false, false, true, true, false)),
    (String ((Ascii (false, false, true, false, false, true, true, false)),
    (String ((Ascii (true, false, true, true, false, true, false, false)),
    (String ((Ascii (true, true, false, false, false, true, true, false)),
    (String ((Ascii (true, false, false, false, false, true, true, false)),
    (String ((Ascii (true, true, false, false, true, true, true, false)),
    (String ((Ascii (true, false, true, false, false, true, true, false)),
    EmptyString))))))))))))))))
| L l ->
  (match l with
   | [] ->
     A (String ((Ascii (false, true, false, false, false, true, true,
       false)), (String ((Ascii (true, false, false, false, false, true,
       true, false)), (String ((Ascii (false, false, true, false, false,
       true, true, false)), (String ((Ascii (true, false, true, true, false,
       true, false, false)), (String ((Ascii (true, true, false, false,
       false, true, true, false)), (String ((Ascii (true, false, false,
       false, false, true, true, false)), (String ((Ascii (true, true, false,
       false, true, true, true, false)), (String ((Ascii (true, false, true,
       false, false, true, true, false)), EmptyString))))))))))))))))
   | every :: l0 ->
     (match l0 with
      | [] ->
        A (String ((Ascii (false, true, false, false, false, true, true,
          false)), (String ((Ascii (true, false, false, false, false, true,
          true, false)), (String ((Ascii (false, false, true, false, false,
          true, true, false)), (String ((Ascii (true, false, true, true,
          false, true, false, false)), (String ((Ascii (true, true, false,
          false, false, true, true, false)), (String ((Ascii (true, false,
          false, false, false, true, true, false)), (String ((Ascii (true,
          true, false, false, true, true, true, false)), (String ((Ascii
          (true, false, true, false, false, true, true, false)),
          EmptyString))))))))))))))))
      | s :: l1 ->
        (match s with
         | A _ ->
           A (String ((Ascii (false, true, false, false, false, true, true,
             false)), (String ((Ascii (true, false, false, false, false,
             true, true, false)), (String ((Ascii (false, false, true, false,
             false, true, true, false)), (String ((Ascii (true, false, true,
             true, false, true, false, false)), (String ((Ascii (true, true,
             false, false, false, true, true, false)), (String ((Ascii (true,
             false, false, false, false, true, true, false)), (String ((Ascii
             (true, true, false, false, true, true, true, false)), (String
             ((Ascii (true, false, true, false, false, true, true, false)),
             EmptyString))))))))))))))))
         | L oa ->
           (match l1 with
            | [] ->
              A (String ((Ascii (false, true, false, false, false, true,
                true, false)), (String ((Ascii (true, false, false, false,
                false, true, true, false)), (String ((Ascii (false, false,
                true, false, false, true, true, false)), (String ((Ascii
                (true, false, true, true, false, true, false, false)),
                (String ((Ascii (true, true, false, false, false, true, true,
                false)), (String ((Ascii (true, false, false, false, false,
                true, true, false)), (String ((Ascii (true, true, false,
                false, true, true, true, false)), (String ((Ascii (true,
                false, true, false, false, true, true, false)),
                EmptyString))))))))))))))))
            | s0 :: l2 ->
              (match s0 with
               | A _ ->
                 A (String ((Ascii (false, true, false, false, false, true,
                   true, false)), (String ((Ascii (true, false, false, false,
                   false, true, true, false)), (String ((Ascii (false, false,
                   true, false, false, true, true, false)), (String ((Ascii
                   (true, false, true, true, false, true, false, false)),
                   (String ((Ascii (true, true, false, false, false, true,
                   true, false)), (String ((Ascii (true, false, false, false,
                   false, true, true, false)), (String ((Ascii (true, true,
                   false, false, true, true, true, false)), (String ((Ascii
                   (true, false, true, false, false, true, true, false)),
                   EmptyString))))))))))))))))
               | L ob ->
                 (match l2 with
                  | [] ->
                    let (a, tra) =
                      run_trace (S (nat_of every)) O empty (map parse_op oa)
                    in
                    let (b, _) =
                      run_trace (S (nat_of every)) O empty (map parse_op ob)
                    in
                    L ((L
                    tra) :: ((snapshot a) :: ((snapshot b) :: ((sbool
                                                                 (equal veq a
                                                                   b)) :: (
                    (sbool (equal veq b a)) :: ((sbool (equal veq a a)) :: (
                    (sbool (equal veq b b)) :: ((sbool (equal veq a (twin a))) :: (
                    (sbool
                      ((&&) (spec_agrees (map parse_op oa) a)
                        (spec_agrees (map parse_op ob) b))) :: [])))))))))
                  | _ :: _ ->
                    A (String ((Ascii (false, true, false, false, false,
                      true, true, false)), (String ((Ascii (true, false,
                      false, false, false, true, true, false)), (String
                      ((Ascii (false, false, true, false, false, true, true,
                      false)), (String ((Ascii (true, false, true, true,
                      false, true, false, false)), (String ((Ascii (true,
                      true, false, false, false, true, true, false)), (String
                      ((Ascii (true, false, false, false, false, true, true,
                      false)), (String ((Ascii (true, true, false, false,
                      true, true, true, false)), (String ((Ascii (true,
                      false, true, false, false, true, true, false)),
                      EmptyString))))))))))))))))))))))

(** val run_nil : sexp **)

let run_nil =
  L
    ((snat O) :: ((sbool true) :: ((sopt (fun x -> A x) None) :: ((sbool
                                                                    false) :: ((L
    []) :: ((sbool (equal_opt veq None None)) :: ((sbool
                                                    (equal_opt veq None (Some
                                                      empty))) :: [])))))))

(** val cut : ascii -> string -> string * string option **)

let rec cut c = function
| EmptyString -> (EmptyString, None)
| String (a, r) ->
  if eqb0 a c
  then (EmptyString, (Some r))
  else let (b, t) = cut c r in ((String (a, b)), t)

(** val split : ascii -> string -> string list **)

let rec split c = function
| EmptyString -> EmptyString :: []
| String (a, r) ->
  if eqb0 a c
  then EmptyString :: (split c r)
  else (match split c r with
        | [] -> (String (a, EmptyString)) :: []
        | p :: ps -> (String (a, p)) :: ps)

(** val has_char : ascii -> string -> bool **)

let rec has_char c = function
| EmptyString -> false
| String (a, r) -> (||) (eqb0 a c) (has_char c r)

(** val first_is : ascii -> string -> bool **)

let first_is c = function
| EmptyString -> false
| String (a, _) -> eqb0 a c

(** val join : string -> string list -> string **)

let rec join sep = function
| [] -> EmptyString
| x :: r ->
  (match r with
   | [] -> x
   | _ :: _ -> append x (append sep (join sep r)))

(** val clean_comps : string list -> string list -> string list **)

let rec clean_comps comps stack =
  match comps with
  | [] -> rev0 stack
  | c :: r ->
    if eqb1 c EmptyString
    then clean_comps r stack
    else if eqb1 c (String ((Ascii (false, true, true, true, false, true,
              false, false)), EmptyString))
         then clean_comps r stack
         else if eqb1 c (String ((Ascii (false, true, true, true, false,
                   true, false, false)), (String ((Ascii (false, true, true,
                   true, false, true, false, false)), EmptyString))))
              then (match stack with
                    | [] ->
                      clean_comps r ((String ((Ascii (false, true, true,
                        true, false, true, false, false)), (String ((Ascii
                        (false, true, true, true, false, true, false,
                        false)), EmptyString)))) :: [])
                    | top :: below ->
                      if eqb1 top (String ((Ascii (false, true, true, true,
                           false, true, false, false)), (String ((Ascii
                           (false, true, true, true, false, true, false,
                           false)), EmptyString))))
                      then clean_comps r ((String ((Ascii (false, true, true,
                             true, false, true, false, false)), (String
                             ((Ascii (false, true, true, true, false, true,
                             false, false)), EmptyString)))) :: stack)
                      else clean_comps r below)
              else clean_comps r (c :: stack)

(** val clean : string -> string **)

let clean p =
  match clean_comps
          (split (Ascii (true, true, true, true, false, true, false, false))
            p) [] with
  | [] ->
    String ((Ascii (false, true, true, true, false, true, false, false)),
      EmptyString)
  | s :: l0 ->
    join (String ((Ascii (true, true, true, true, false, true, false,
      false)), EmptyString)) (s :: l0)

(** val path_join : string list -> string **)

let path_join elems =
  match filter (fun e -> negb (eqb1 e EmptyString)) elems with
  | [] -> EmptyString
  | s :: l0 ->
    clean
      (join (String ((Ascii (true, true, true, true, false, true, false,
        false)), EmptyString)) (s :: l0))

(** val plugin_suffix : string **)

let plugin_suffix =
  String ((Ascii (true, false, true, true, false, true, false, false)),
    (String ((Ascii (false, true, false, false, false, true, true, false)),
    (String ((Ascii (true, false, true, false, true, true, true, false)),
    (String ((Ascii (true, false, false, true, false, true, true, false)),
    (String ((Ascii (false, false, true, true, false, true, true, false)),
    (String ((Ascii (false, false, true, false, false, true, true, false)),
    (String ((Ascii (true, true, false, true, false, true, true, false)),
    (String ((Ascii (true, false, false, true, false, true, true, false)),
    (String ((Ascii (false, false, true, false, true, true, true, false)),
    (String ((Ascii (true, false, true, false, false, true, true, false)),
    (String ((Ascii (true, false, true, true, false, true, false, false)),
    (String ((Ascii (false, false, false, false, true, true, true, false)),
    (String ((Ascii (false, false, true, true, false, true, true, false)),
    (String ((Ascii (true, false, true, false, true, true, true, false)),
    (String ((Ascii (true, true, true, false, false, true, true, false)),
    (String ((Ascii (true, false, false, true, false, true, true, false)),
    (String ((Ascii (false, true, true, true, false, true, true, false)),
    EmptyString)))))))))))))))))))))))))))))))))

(** val plugin_host : string **)

let plugin_host =
  String ((Ascii (true, true, true, false, false, true, true, false)),
    (String ((Ascii (true, false, false, true, false, true, true, false)),
    (String ((Ascii (false, false, true, false, true, true, true, false)),
    (String ((Ascii (false, false, false, true, false, true, true, false)),
    (String ((Ascii (true, false, true, false, true, true, true, false)),
    (String ((Ascii (false, true, false, false, false, true, true, false)),
    (String ((Ascii (false, true, true, true, false, true, false, false)),
    (String ((Ascii (true, true, false, false, false, true, true, false)),
    (String ((Ascii (true, true, true, true, false, true, true, false)),
    (String ((Ascii (true, false, true, true, false, true, true, false)),
    EmptyString)))))))))))))))))))

(** val plugin_org : string **)

let plugin_org =
  String ((Ascii (false, true, false, false, false, true, true, false)),
    (String ((Ascii (true, false, true, false, true, true, true, false)),
    (String ((Ascii (true, false, false, true, false, true, true, false)),
    (String ((Ascii (false, false, true, true, false, true, true, false)),
    (String ((Ascii (false, false, true, false, false, true, true, false)),
    (String ((Ascii (true, true, false, true, false, true, true, false)),
    (String ((Ascii (true, false, false, true, false, true, true, false)),
    (String ((Ascii (false, false, true, false, true, true, true, false)),
    (String ((Ascii (true, false, true, false, false, true, true, false)),
    (String ((Ascii (true, false, true, true, false, true, false, false)),
    (String ((Ascii (false, false, false, false, true, true, true, false)),
    (String ((Ascii (false, false, true, true, false, true, true, false)),
    (String ((Ascii (true, false, true, false, true, true, true, false)),
    (String ((Ascii (true, true, true, false, false, true, true, false)),
    (String ((Ascii (true, false, false, true, false, true, true, false)),
    (String ((Ascii (false, true, true, true, false, true, true, false)),
    (String ((Ascii (true, true, false, false, true, true, true, false)),
    EmptyString)))))))))))))))))))))))))))))))))

(** val last_segment : string -> string -> string **)

let last_segment n0 f =
  let n' = append n0 plugin_suffix in
  if eqb1 f EmptyString
  then n'
  else append n'
         (append (String ((Ascii (true, true, false, false, false, true,
           false, false)), EmptyString)) f)

(** val full_source : string -> string **)

let full_source s =
  if eqb1 s EmptyString
  then EmptyString
  else if (||)
            ((||)
              (first_is (Ascii (true, true, true, true, false, true, false,
                false)) s)
              (first_is (Ascii (false, true, true, true, false, true, false,
                false)) s))
            (first_is (Ascii (false, false, true, true, true, false, true,
              false)) s)
       then s
       else let (u, frag) =
              cut (Ascii (true, true, false, false, false, true, false,
                false)) s
            in
            let f = match frag with
                    | Some x -> x
                    | None -> EmptyString in
            if has_char (Ascii (false, true, false, true, true, true, false,
                 false))
                 (fst
                   (cut (Ascii (true, true, true, true, false, true, false,
                     false)) u))
            then s
            else (match split (Ascii (true, true, true, true, false, true,
                          false, false)) u with
                  | [] -> s
                  | o :: l ->
                    (match l with
                     | [] ->
                       path_join
                         (plugin_host :: (plugin_org :: ((last_segment o f) :: [])))
                     | n0 :: l0 ->
                       (match l0 with
                        | [] ->
                          path_join
                            (plugin_host :: (o :: ((last_segment n0 f) :: [])))
                        | _ :: _ -> s)))

(** val run0 : sexp -> sexp **)

let run0 c =
  A (full_source (atom_of c))

type skipval =
| SkAbsent
| SkBool of bool
| SkOther

type adjustment = { awith : (string * string) list; askip : skipval }

type matrix = { msetup : (string * string list option) list;
                madj : adjustment option list }

type perm = (string * string) list

type reject_kind =
| RNilMatrix
| RPermLen
| RPermDim
| RAdjNil
| RAdjLen
| RAdjDim
| RSkipped
| RNoMatch

type verdict =
| Accept
| Reject of reject_kind

(** val assoc : string -> (string * 'a1) list -> 'a1 option **)

let rec assoc k = function
| [] -> None
| p :: r -> let (k', v) = p in if eqb1 k k' then Some v else assoc k r

(** val setup_get : matrix -> string -> string list option **)

let setup_get m0 dim =
  match assoc dim m0.msetup with
  | Some o -> o
  | None -> None

(** val with_get : adjustment -> string -> string **)

let with_get a dim =
  match assoc dim a.awith with
  | Some v -> v
  | None -> EmptyString

(** val should_skip : adjustment -> bool **)

let should_skip a =
  match a.askip with
  | SkAbsent -> false
  | SkBool b -> b
  | SkOther -> true

(** val dims_known : matrix -> string list -> bool **)

let dims_known m0 keys =
  forallb (fun d -> match setup_get m0 d with
                    | Some _ -> true
                    | None -> false) keys

(** val in_setup : matrix -> perm -> bool **)

let in_setup m0 p =
  forallb (fun dv ->
    match setup_get m0 (fst dv) with
    | Some l -> existsb (eqb1 (snd dv)) l
    | None -> false) p

(** val adj_matches : adjustment -> perm -> bool **)

let adj_matches a p =
  forallb (fun dv -> eqb1 (snd dv) (with_get a (fst dv))) p

(** val adj_loop :
    matrix -> perm -> adjustment option list -> bool -> verdict **)

let rec adj_loop m0 p adjs valid =
  match adjs with
  | [] -> if valid then Accept else Reject RNoMatch
  | o :: r ->
    (match o with
     | Some a ->
       if negb (Nat.eqb (length a.awith) (length m0.msetup))
       then Reject RAdjLen
       else if negb (dims_known m0 (map fst a.awith))
            then Reject RAdjDim
            else if negb (adj_matches a p)
                 then adj_loop m0 p r valid
                 else if should_skip a
                      then Reject RSkipped
                      else adj_loop m0 p r true
     | None -> Reject RAdjNil)

(** val validate : matrix option -> perm -> verdict **)

let validate m0 p =
  match m0 with
  | Some m1 ->
    if negb (Nat.eqb (length p) (length m1.msetup))
    then Reject RPermLen
    else if negb (dims_known m1 (map fst p))
         then Reject RPermDim
         else adj_loop m1 p m1.madj (in_setup m1 p)
  | None -> if Nat.ltb O (length p) then Reject RNilMatrix else Accept

(** val accepted : verdict -> bool **)

let accepted = function
| Accept -> true
| Reject _ -> false

(** val pair_of : sexp -> string * string **)

let pair_of = function
| A _ -> (EmptyString, EmptyString)
| L l ->
  (match l with
   | [] -> (EmptyString, EmptyString)
   | s0 :: l0 ->
     (match s0 with
      | A a ->
        (match l0 with
         | [] -> (EmptyString, EmptyString)
         | s1 :: l1 ->
           (match s1 with
            | A b ->
              (match l1 with
               | [] -> (a, b)
               | _ :: _ -> (EmptyString, EmptyString))
            | L _ -> (EmptyString, EmptyString)))
      | L _ -> (EmptyString, EmptyString)))

(** val adj_of : sexp -> adjustment option **)

let adj_of = function
| A _ -> None
| L l ->
  (match l with
   | [] -> None
   | s0 :: l0 ->
     (match s0 with
      | A _ -> None
      | L w ->
        (match l0 with
         | [] -> None
         | s1 :: l1 ->
           (match s1 with
            | A sk ->
              (match l1 with
               | [] ->
                 Some { awith = (map pair_of w); askip =
                   (if eqb1 sk (String ((Ascii (true, false, false, false,
                         false, true, true, false)), (String ((Ascii (false,
                         true, false, false, false, true, true, false)),
                         (String ((Ascii (true, true, false, false, true,
                         true, true, false)), (String ((Ascii (true, false,
                         true, false, false, true, true, false)), (String
                         ((Ascii (false, true, true, true, false, true, true,
                         false)), (String ((Ascii (false, false, true, false,
                         true, true, true, false)), EmptyString))))))))))))
                    then SkAbsent
                    else if eqb1 sk (String ((Ascii (false, false, true,
                              false, true, true, true, false)), (String
                              ((Ascii (false, true, false, false, true, true,
                              true, false)), (String ((Ascii (true, false,
                              true, false, true, true, true, false)), (String
                              ((Ascii (true, false, true, false, false, true,
                              true, false)), EmptyString))))))))
                         then SkBool true
                         else if eqb1 sk (String ((Ascii (false, true, true,
                                   false, false, true, true, false)), (String
                                   ((Ascii (true, false, false, false, false,
                                   true, true, false)), (String ((Ascii
                                   (false, false, true, true, false, true,
                                   true, false)), (String ((Ascii (true,
                                   true, false, false, true, true, true,
                                   false)), (String ((Ascii (true, false,
                                   true, false, false, true, true, false)),
                                   EmptyString))))))))))
                              then SkBool false
                              else SkOther) }
               | _ :: _ -> None)
            | L _ -> None))))

(** val setup_entry_of : sexp -> string * string list option **)

let setup_entry_of = function
| A _ -> (EmptyString, None)
| L l ->
  (match l with
   | [] -> (EmptyString, None)
   | s0 :: l0 ->
     (match s0 with
      | A d ->
        (match l0 with
         | [] -> (EmptyString, None)
         | s1 :: l1 ->
           (match s1 with
            | A _ ->
              (match l1 with
               | [] -> (d, None)
               | _ :: _ -> (EmptyString, None))
            | L l2 ->
              (match l2 with
               | [] ->
                 (match l1 with
                  | [] -> (d, None)
                  | _ :: _ -> (EmptyString, None))
               | s2 :: l3 ->
                 (match s2 with
                  | A _ ->
                    (match l1 with
                     | [] -> (d, None)
                     | _ :: _ -> (EmptyString, None))
                  | L vs ->
                    (match l3 with
                     | [] ->
                       (match l1 with
                        | [] -> (d, (Some (map atom_of vs)))
                        | _ :: _ -> (EmptyString, None))
                     | _ :: _ ->
                       (match l1 with
                        | [] -> (d, None)
                        | _ :: _ -> (EmptyString, None)))))))
      | L _ -> (EmptyString, None)))

(** val matrix_of : sexp -> matrix option **)

let matrix_of = function
| A _ -> None
| L l ->
  (match l with
   | [] -> None
   | s0 :: l0 ->
     (match s0 with
      | A _ -> None
      | L su ->
        (match l0 with
         | [] -> None
         | s1 :: l1 ->
           (match s1 with
            | A _ -> None
            | L ad ->
              (match l1 with
               | [] ->
                 Some { msetup = (map setup_entry_of su); madj =
                   (map adj_of ad) }
               | _ :: _ -> None)))))

(** val run1 : sexp -> sexp **)

let run1 = function
| A _ ->
  A (String ((Ascii (false, true, false, false, false, true, true, false)),
    (String ((Ascii (true, false, false, false, false, true, true, false)),
    (String ((Ascii (false, false, true, false, false, true, true, false)),
    (String ((Ascii (true, false, true, true, false, true, false, false)),
    (String ((Ascii (true, true, false, false, false, true, true, false)),
    (String ((Ascii (true, false, false, false, false, true, true, false)),
    (String ((Ascii (true, true, false, false, true, true, true, false)),
    (String ((Ascii (true, false, true, false, false, true, true, false)),
    EmptyString))))))))))))))))
| L l ->
  (match l with
   | [] ->
     A (String ((Ascii (false, true, false, false, false, true, true,
       false)), (String ((Ascii (true, false, false, false, false, true,
       true, false)), (String ((Ascii (false, false, true, false, false,
       true, true, false)), (String ((Ascii (true, false, true, true, false,
       true, false, false)), (String ((Ascii (true, true, false, false,
       false, true, true, false)), (String ((Ascii (true, false, false,
       false, false, true, true, false)), (String ((Ascii (true, true, false,
       false, true, true, true, false)), (String ((Ascii (true, false, true,
       false, false, true, true, false)), EmptyString))))))))))))))))
   | m0 :: l0 ->
     (match l0 with
      | [] ->
        A (String ((Ascii (false, true, false, false, false, true, true,
          false)), (String ((Ascii (true, false, false, false, false, true,
          true, false)), (String ((Ascii (false, false, true, false, false,
          true, true, false)), (String ((Ascii (true, false, true, true,
          false, true, false, false)), (String ((Ascii (true, true, false,
          false, false, true, true, false)), (String ((Ascii (true, false,
          false, false, false, true, true, false)), (String ((Ascii (true,
          true, false, false, true, true, true, false)), (String ((Ascii
          (true, false, true, false, false, true, true, false)),
          EmptyString))))))))))))))))
      | s :: l1 ->
        (match s with
         | A _ ->
           A (String ((Ascii (false, true, false, false, false, true, true,
             false)), (String ((Ascii (true, false, false, false, false,
             true, true, false)), (String ((Ascii (false, false, true, false,
             false, true, true, false)), (String ((Ascii (true, false, true,
             true, false, true, false, false)), (String ((Ascii (true, true,
             false, false, false, true, true, false)), (String ((Ascii (true,
             false, false, false, false, true, true, false)), (String ((Ascii
             (true, true, false, false, true, true, true, false)), (String
             ((Ascii (true, false, true, false, false, true, true, false)),
             EmptyString))))))))))))))))
         | L p ->
           (match l1 with
            | [] ->
              A
                (if accepted (validate (matrix_of m0) (map pair_of p))
                 then String ((Ascii (true, false, false, false, false, true,
                        true, false)), (String ((Ascii (true, true, false,
                        false, false, true, true, false)), (String ((Ascii
                        (true, true, false, false, false, true, true,
                        false)), (String ((Ascii (true, false, true, false,
                        false, true, true, false)), (String ((Ascii (false,
                        false, false, false, true, true, true, false)),
                        (String ((Ascii (false, false, true, false, true,
                        true, true, false)), EmptyString)))))))))))
                 else String ((Ascii (false, true, false, false, true, true,
                        true, false)), (String ((Ascii (true, false, true,
                        false, false, true, true, false)), (String ((Ascii
                        (false, true, false, true, false, true, true,
                        false)), (String ((Ascii (true, false, true, false,
                        false, true, true, false)), (String ((Ascii (true,
                        true, false, false, false, true, true, false)),
                        (String ((Ascii (false, false, true, false, true,
                        true, true, false)), EmptyString))))))))))))
            | _ :: _ ->
              A (String ((Ascii (false, true, false, false, false, true,
                true, false)), (String ((Ascii (true, false, false, false,
                false, true, true, false)), (String ((Ascii (false, false,
                true, false, false, true, true, false)), (String ((Ascii
                (true, false, true, true, false, true, false, false)),
                (String ((Ascii (true, true, false, false, false, true, true,
                false)), (String ((Ascii (true, false, false, false, false,
                true, true, false)), (String ((Ascii (true, true, false,
                false, true, true, true, false)), (String ((Ascii (true,
                false, true, false, false, true, true, false)),
                EmptyString))))))))))))))))))))

(** val dispatch : string -> sexp -> sexp **)

let dispatch prop c =
  if eqb1 prop (String ((Ascii (true, true, false, false, false, false, true,
       false)), (String ((Ascii (false, false, false, false, true, true,
       false, false)), (String ((Ascii (true, false, true, false, true, true,
       false, false)), EmptyString))))))
  then run c
  else if eqb1 prop (String ((Ascii (true, true, false, false, false, false,
            true, false)), (String ((Ascii (false, false, false, false, true,
            true, false, false)), (String ((Ascii (true, false, true, false,
            true, true, false, false)), (String ((Ascii (false, true, true,
            true, false, true, true, false)), (String ((Ascii (true, false,
            false, true, false, true, true, false)), (String ((Ascii (false,
            false, true, true, false, true, true, false)),
            EmptyString))))))))))))
       then run_nil
       else if eqb1 prop (String ((Ascii (true, true, false, false, false,
                 false, true, false)), (String ((Ascii (true, false, false,
                 false, true, true, false, false)), (String ((Ascii (true,
                 true, true, false, true, true, false, false)),
                 EmptyString))))))
            then run0 c
            else if eqb1 prop (String ((Ascii (true, true, false, false,
                      false, false, true, false)), (String ((Ascii (true,
                      false, false, false, true, true, false, false)),
                      (String ((Ascii (true, false, false, false, true, true,
                      false, false)), EmptyString))))))
                 then run1 c
                 else A (String ((Ascii (true, false, true, false, true,
                        true, true, false)), (String ((Ascii (false, true,
                        true, true, false, true, true, false)), (String
                        ((Ascii (true, true, false, true, false, true, true,
                        false)), (String ((Ascii (false, true, true, true,
                        false, true, true, false)), (String ((Ascii (true,
                        true, true, true, false, true, true, false)), (String
                        ((Ascii (true, true, true, false, true, true, true,
                        false)), (String ((Ascii (false, true, true, true,
                        false, true, true, false)), (String ((Ascii (true,
                        false, true, true, false, true, false, false)),
                        (String ((Ascii (false, false, false, false, true,
                        true, true, false)), (String ((Ascii (false, true,
                        false, false, true, true, true, false)), (String
                        ((Ascii (true, true, true, true, false, true, true,
                        false)), (String ((Ascii (false, false, false, false,
                        true, true, true, false)), (String ((Ascii (true,
                        false, true, false, false, true, true, false)),
                        (String ((Ascii (false, true, false, false, true,
                        true, true, false)), (String ((Ascii (false, false,
                        true, false, true, true, true, false)), (String
                        ((Ascii (true, false, false, true, true, true, true,
                        false)), EmptyString))))))))))))))))))))))))))))))))
