(** The YAML marshal side: what yaml.Marshal(p) emits, given as the value tree that
    ordered.DecodeYAML reads back from the emitted text.  yaml.v3's reflective
    struct encoder (field order, `omitempty` through its own isZero, `,inline`
    maps after the fields), every MarshalYAML override of the library, and
    ordered.Map.MarshalYAML (members in map order).  The emitter and the
    scanner are taken as inverse on this tree (strings stay strings because the
    emitter quotes what would resolve to another type; floats are written with
    strconv 'g' and so come back as ints when that token is integral).

    Go maps are emitted in yaml.v3's own key order; here they are given sorted
    bytewise and every comparison with the implementation sorts members first. *)
From Coq Require Import String List Ascii Bool ZArith.
From GP Require Import Base.Sexp Model.Gv Model.Plugin Model.Pipeline Model.Marshal Model.Reparse.
Import ListNotations.
Local Open Scope string_scope.

Definition ystrs (l : list string) : gv := GSeq (map GStr l).

(** a float64 written by the emitter and resolved again by the scanner *)
Definition y_float (j st : string) : gv :=
  if int_token st then match string_to_z st with Some z => GInt z | None => GFloat j st end
  else GFloat j st.

(** a value of static type `any` *)
Fixpoint my_any (g : gv) : gv :=
  match g with
  | GFloat j st => y_float j st
  | GSeq l => GSeq (map my_any l)
  | GMap l => GMap (map (fun kv => (fst kv, my_any (snd kv))) l)
  | GUMap l => GMap (sort_keys (map (fun kv => (fst kv, my_any (snd kv))) l))
  | _ => g
  end.

(** a struct: fields in declaration order (None = omitted), then the inline map *)
Definition y_struct (fields : list (string * option gv)) (inline : list (string * gv)) : gv :=
  GMap (fold_right (fun kv acc => match snd kv with Some v => (fst kv, v) :: acc | None => acc end) [] fields
        ++ sort_keys (map (fun kv => (fst kv, my_any (snd kv))) inline)).

Definition oy (cond : bool) (v : gv) : option gv := if cond then None else Some v.

Definition y_map_ss (l : list (string * string)) : gv :=
  GMap (sort_keys (map (fun kv => (fst kv, GStr (snd kv))) l)).

Definition my_sig (s : signature) : gv :=
  GMap [("algorithm", GStr (sg_alg s));
        ("signed_fields", ystrs (match sg_fields s with Some l => l | None => [] end));   (* a nil slice is [] *)
        ("value", GStr (sg_value s))].

(** Plugin.MarshalYAML *)
Definition my_plugin (p : plugin) : gv :=
  let cfg := match pl_config p with
             | GUMap [] => GNull
             | GSeq [] => GNull
             | c => my_any c
             end in
  GMap [(full_source (pl_source p), cfg)].

(** MatrixAdjustmentWith.MarshalYAML *)
Definition my_with (w : option (list (string * string))) : gv :=
  match w with
  | None => y_map_ss []
  | Some l => match l with
              | [(k, v)] => if String.eqb k "" then GStr v else y_map_ss l
              | _ => y_map_ss l
              end
  end.

(** yaml.v3 isZero on an interface value: only nil *)
Definition is_nil_any (g : gv) : bool := match g with GNull => true | _ => false end.

Definition my_adj (a : option madj) : gv :=
  match a with
  | None => GNull
  | Some a => y_struct [("with", Some (my_with (ma_with a))); ("skip", oy (is_nil_any (ma_skip a)) (my_any (ma_skip a)))]
                       (ma_rem a)
  end.

(** MatrixSetup.MarshalYAML *)
Definition my_setup (su : option (list (string * option (list string)))) : gv :=
  match su with
  | None => GNull
  | Some [] => GNull
  | Some l => match setup_anon l with
              | Some vs => ystrs vs
              | None => GMap (sort_keys (map (fun kv => (fst kv, ystrs (match snd kv with Some x => x | None => [] end))) l))
              end
  end.

(** Matrix.MarshalYAML *)
Definition my_matrix (m : matrix) : gv :=
  match mx_simple m with
  | Some vs => ystrs vs
  | None => y_struct [("setup", Some (my_setup (mx_setup m)));
                      ("adjustments", oy (match mx_adj m with [] => true | _ => false end) (GSeq (map my_adj (mx_adj m))))]
                     (mx_rem m)
  end.

(** Cache has no MarshalYAML: the reflective encoder, `Disabled` under its lower-cased name *)
Definition my_cache (c : cache) : gv :=
  y_struct [("disabled", oy (negb (ca_disabled c)) (GBool true));
            ("name", oy (String.eqb (ca_name c) "") (GStr (ca_name c)));
            ("paths", oy (match ca_paths c with [] => true | _ => false end) (ystrs (ca_paths c)));
            ("size", oy (String.eqb (ca_size c) "") (GStr (ca_size c)))]
           (ca_rem c).

Definition my_command (c : command_step) : gv :=
  y_struct [("key", oy (String.eqb (cs_key c) "") (GStr (cs_key c)));
            ("label", oy (String.eqb (cs_label c) "") (GStr (cs_label c)));
            ("command", Some (GStr (cs_command c)));
            ("plugins", oy (match cs_plugins c with [] => true | _ => false end) (GSeq (map my_plugin (cs_plugins c))));
            ("env", oy (match cs_env c with [] => true | _ => false end) (y_map_ss (cs_env c)));
            ("signature", option_map my_sig (cs_sig c));
            ("matrix", option_map my_matrix (cs_matrix c));
            ("cache", option_map my_cache (cs_cache c))]
           (cs_rem c).

Definition my_contents (l : list (string * gv)) : gv := my_any (GUMap l).

Fixpoint my_step (s : step) : gv :=
  match s with
  | SCommand c => my_command c
  | SWait sc ct => if negb (String.eqb sc "") then GStr sc
                   else match ct with [] => GStr "wait" | _ => my_contents ct end
  | SInput sc ct => if negb (String.eqb sc "") then GStr sc else my_contents ct
  | STrigger ct => my_contents ct
  | SGroup k g ss rem =>
      y_struct [("key", oy (String.eqb k "") (GStr k));
                ("group", Some (match g with Some x => GStr x | None => GNull end));
                ("steps", Some (GSeq (map my_step ss)))]
               rem
  | SUnknown c => my_any c
  end.

Definition my_env_block (l : list (string * string)) : gv :=
  GMap (map (fun kv => (fst kv, GStr (snd kv))) l).

Definition my_pipeline (p : pipeline) : gv :=
  y_struct [("steps", Some (GSeq (map my_step (pp_steps p))));
            ("env", match pp_env p with
                    | Some [] => None                       (* ordered.Map.IsZero *)
                    | Some e => Some (my_env_block e)
                    | None => None
                    end)]
           (pp_rem p).

(** ---------------------------------------------------------------- *)
(** when yaml.Marshal fails or panics: an empty input step; an inline key that
    collides with a field key of the same struct (the encoder panics) *)
Definition no_clash (keys : list string) (rem : list (string * gv)) : bool :=
  forallb (fun kv => negb (existsb (String.eqb (fst kv)) keys)) rem.

Definition y_matrix_ok (m : matrix) : bool :=
  match mx_simple m with
  | Some _ => true
  | None => no_clash ["setup"; "adjustments"] (mx_rem m) &&
            forallb (fun a => match a with Some a => no_clash ["with"; "skip"] (ma_rem a) | None => true end) (mx_adj m)
  end.

Definition y_command_ok (c : command_step) : bool :=
  no_clash ["key"; "label"; "command"; "plugins"; "env"; "signature"; "matrix"; "cache"] (cs_rem c) &&
  match cs_matrix c with Some m => y_matrix_ok m | None => true end &&
  match cs_cache c with Some x => no_clash ["disabled"; "name"; "paths"; "size"] (ca_rem x) | None => true end.

Fixpoint y_step_ok (s : step) : bool :=
  match s with
  | SCommand c => y_command_ok c
  | SInput sc ct => negb (String.eqb sc "") || match ct with [] => false | _ => true end
  | SGroup _ _ ss rem => forallb y_step_ok ss && no_clash ["key"; "group"; "steps"] rem
  | _ => true
  end.

Definition y_pipeline_ok (p : pipeline) : bool :=
  forallb y_step_ok (pp_steps p) && no_clash ["steps"; "env"] (pp_rem p).

Definition marshal_yaml (p : pipeline) : option gv :=
  if y_pipeline_ok p then Some (my_pipeline p) else None.

(** Parse(yaml.Marshal(p)) *)
Definition reparse_yaml (p : pipeline) : res pipeline := parse_doc (my_pipeline p).

(** member order forgotten, recursively (for comparing with the emitter's own Go-map order) *)
Fixpoint gv_sorted (g : gv) : gv :=
  match g with
  | GSeq l => GSeq (map gv_sorted l)
  | GMap l => GMap (sort_keys (map (fun kv => (fst kv, gv_sorted (snd kv))) l))
  | GUMap l => GUMap (sort_keys (map (fun kv => (fst kv, gv_sorted (snd kv))) l))
  | _ => g
  end.
