(** Model of pipeline.go:interpolateEnvBlock — the loop
      p.Env.Range(func(k, v) { intk := expand(env, k); intv := expand(env, v);
                               p.Env.Replace(k, intk, intv);
                               if _, exists := env.Get(intk); !(prefer && exists) { env.Set(intk, intv) } })
    over the concrete ordered map of Model/OMap.v, parametric in the expansion
    function and in the caller's environment (with its own notion of name
    equality).  Plus the list-level specification it refines. *)
From Coq Require Import String List Bool Arith.
From GP Require Import Model.OMap.
Import ListNotations.

Section EnvBlock.
  Variable E : Type.                                   (* the caller's InterpolationEnv *)
  Variable eget : E -> string -> option string.
  Variable eset : E -> string -> string -> E.
  Variable expand : E -> string -> option string.      (* interpolate.Interpolate; None = error *)

  Definition M := omap string.

  (** what the callback does with one visited pair *)
  Definition visit (prefer : bool) (e : E) (k v : string) : option (string * string * E) :=
    match expand e k with
    | None => None
    | Some k' =>
        match expand e v with
        | None => None
        | Some v' =>
            let e' := match eget e k' with
                      | Some _ => if prefer then e else eset e k' v'
                      | None => eset e k' v'
                      end in
            Some (k', v', e')
        end
    end.

  (** Range over the slot slice captured at loop entry, reading each slot when reached *)
  Fixpoint block_loop (prefer : bool) (idxs : list nat) (m : M) (e : E) : option (M * E) :=
    match idxs with
    | [] => Some (m, e)
    | i :: rest =>
        match nth_error (items m) i with
        | Some s =>
            if sdel s then block_loop prefer rest m e
            else match visit prefer e (skey s) (sval s) with
                 | Some (k', v', e') => block_loop prefer rest (replace (skey s) k' v' m) e'
                 | None => None
                 end
        | None => block_loop prefer rest m e
        end
    end.

  (** interpolateEnvBlock on a non-nil map (a nil or empty map ranges over nothing) *)
  Definition run_block (prefer : bool) (m : M) (e : E) : option (M * E) :=
    if is_zero m then Some (m, e)
    else block_loop prefer (seq 0 (length (items m))) m e.

  (** list-level specification: top to bottom; each entry is expanded with the
      environment as left by the entries before it, rewritten in place (a rename
      onto another entry's name deletes that entry, C05), written back *)
  Fixpoint spec_loop (prefer : bool) (fuel : nat) (done todo : list (string * string)) (e : E)
    : option (list (string * string) * E) :=
    match fuel with
    | O => Some (done ++ todo, e)
    | S fuel' =>
        match todo with
        | [] => Some (done, e)
        | (k, v) :: rest =>
            match visit prefer e k v with
            | Some (k', v', e') =>
                spec_loop prefer fuel' (p_remove k' done ++ [(k', v')]) (p_remove k' rest) e'
            | None => None
            end
        end
    end.
  Definition spec_block (prefer : bool) (l : list (string * string)) (e : E) :=
    spec_loop prefer (length l) [] l e.
End EnvBlock.

Arguments visit {E}. Arguments block_loop {E}. Arguments run_block {E}.
Arguments spec_loop {E}. Arguments spec_block {E}.
