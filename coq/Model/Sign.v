(** Model of the signature package: SignedFields / ValuesForFields
    (pipeline_invariants.go), Sign / Verify / requireKeys / canonicalPayload
    (sign.go), SignSteps (steps.go), over an abstract signature scheme. *)
From Coq Require Import String List Ascii Bool Arith.
From GP Require Import Model.Gv Model.Plugin Model.Pipeline Model.Marshal Model.Jcs.
Import ListNotations.
Local Open Scope string_scope.

Definition env_prefix : string := "env::".
Definition mandatory_fields : list string := ["command"; "env"; "plugins"; "matrix"; "repository_url"].

(** Matrix.IsEmpty *)
Definition matrix_is_empty (m : matrix) : bool :=
  match mx_setup m, mx_adj m, mx_rem m with
  | None, [], [] => true
  | Some [], [], [] => true
  | _, _, _ => false
  end.

(** the value each object field contributes (after the EmptyToNil helpers), as JSON *)
Definition field_value (c : command_step) (repo : string) (f : string) : option json :=
  if String.eqb f "command" then Some (JStr (cs_command c))
  else if String.eqb f "env" then Some (match cs_env c with [] => JNull | e => mj_map_ss e end)
  else if String.eqb f "plugins" then Some (match cs_plugins c with [] => JNull | ps => JArr (map mj_plugin ps) end)
  else if String.eqb f "matrix" then
    Some (match cs_matrix c with
          | Some m => if matrix_is_empty m then JNull else mj_matrix m
          | None => JNull end)
  else if String.eqb f "repository_url" then Some (JStr repo)
  else None.

Fixpoint has_prefix (p s : string) : bool :=
  match p, s with
  | EmptyString, _ => true
  | String a p', String b s' => Ascii.eqb a b && has_prefix p' s'
  | _, _ => false
  end.

(** pipeline env entries not shadowed by the step's own env, namespaced *)
Definition env_values (c : command_step) (penv : list (string * string)) : list (string * json) :=
  map (fun kv => (env_prefix ++ fst kv, JStr (snd kv)))
      (filter (fun kv => negb (ahas (fst kv) (cs_env c))) penv).

(** SignedFields() plus the env:: entries: the map that Sign signs (Go map: order irrelevant) *)
Definition sign_values (c : command_step) (repo : string) (penv : list (string * string)) : list (string * json) :=
  fold_left (fun acc kv => aset (fst kv) (snd kv) acc) (env_values c penv)
            (map (fun f => (f, match field_value c repo f with Some j => j | None => JNull end)) mandatory_fields).

(** canonicalPayload *)
Definition payload (alg : string) (values : list (string * json)) : string :=
  ser (JObj [("alg", JStr alg); ("values", JObj values)]).

(** ValuesForFields *)
Fixpoint values_for_fields (c : command_step) (repo : string) (fields : list string) : option (list (string * json)) :=
  match fields with
  | [] => Some []
  | f :: r =>
      match values_for_fields c repo r with
      | None => None
      | Some acc =>
          match field_value c repo f with
          | Some j => Some (aset f j acc)
          | None => if has_prefix env_prefix f then Some acc else None
          end
      end
  end.
Definition all_mandatory (fields : list string) : bool :=
  forallb (fun m => existsb (String.eqb m) fields) mandatory_fields.

(** requireKeys *)
Fixpoint require_keys (values : list (string * json)) (keys : list string) : option (list (string * json)) :=
  match keys with
  | [] => Some []
  | k :: r =>
      match aget k values, require_keys values r with
      | Some v, Some acc => Some (aset k v acc)
      | _, _ => None
      end
  end.

Section Scheme.
  (** abstract signature scheme (JWS over the detached payload) *)
  Variable K PK : Type.
  Variable pub : K -> PK.
  Variable alg_of : K -> string.
  Variable sgn : K -> string -> string.            (* key, payload -> signature value *)
  Variable vrf : PK -> string -> string -> bool.   (* public key, payload, signature value *)

  Definition sign (k : K) (c : command_step) (repo : string) (penv : list (string * string)) : signature :=
    let values := sign_values c repo penv in
    mkSig (alg_of k) (Some (map fst (sort_keys values))) (sgn k (payload (alg_of k) values)).

  Definition verify_payload (sg : signature) (c : command_step) (repo : string) (penv : list (string * string))
    : option string :=
    match sg_fields sg with
    | None | Some [] => None                                  (* signature covers no fields *)
    | Some fields =>
        if negb (all_mandatory fields) then None
        else match values_for_fields c repo fields with
             | None => None
             | Some vals =>
                 let vals := fold_left (fun acc kv => aset (fst kv) (snd kv) acc) (env_values c penv) vals in
                 match require_keys vals fields with
                 | None => None
                 | Some req => Some (payload (sg_alg sg) req)
                 end
             end
    end.

  Definition verify (pk : PK) (sg : signature) (c : command_step) (repo : string) (penv : list (string * string)) : bool :=
    match verify_payload sg c repo penv with
    | Some p => vrf pk p (sg_value sg)
    | None => false
    end.

  (** SignSteps: None = refusal (unknown step somewhere) *)
  Fixpoint sign_step (k : K) (repo : string) (penv : list (string * string)) (s : step) : option step :=
    match s with
    | SCommand c => Some (SCommand (mkCmd (cs_key c) (cs_label c) (cs_command c) (cs_plugins c) (cs_env c)
                                          (Some (sign k c repo penv)) (cs_matrix c) (cs_cache c) (cs_rem c)))
    | SGroup key g ss rem =>
        match (fix go (ss : list step) : option (list step) :=
                 match ss with
                 | [] => Some []
                 | x :: r => match sign_step k repo penv x with
                             | Some x' => match go r with Some r' => Some (x' :: r') | None => None end
                             | None => None
                             end
                 end) ss with
        | Some ss' => Some (SGroup key g ss' rem)
        | None => None
        end
    | SUnknown _ => None
    | other => Some other
    end.
  Fixpoint sign_steps (k : K) (repo : string) (penv : list (string * string)) (ss : list step) : option (list step) :=
    match ss with
    | [] => Some []
    | x :: r => match sign_step k repo penv x with
                | Some x' => match sign_steps k repo penv r with Some r' => Some (x' :: r') | None => None end
                | None => None
                end
    end.
End Scheme.
