(** Model of the canonical serialisation used for signing:
    json.Marshal followed by jcs.Transform (RFC 8785) over JSON values.
    Numbers are tokens (the theorems need them to be well-formed number tokens
    that JCS leaves unchanged: integers within +-2^53 and float64 tokens as
    encoding/json writes them).  Strings are assumed valid UTF-8.  Keys are
    ordered bytewise, which coincides with RFC 8785's UTF-16 order except
    between astral characters and U+E000..U+FFFF (the harness avoids those in
    keys). *)
From Coq Require Import String List Ascii Bool Arith.
From GP Require Import Model.Gv.
Import ListNotations.
Local Open Scope string_scope.

Definition hex_digit (n : nat) : ascii :=
  if Nat.ltb n 10 then ascii_of_nat (48 + n) else ascii_of_nat (87 + n).

(** RFC 8785 string escaping of one byte *)
Definition esc_byte (a : ascii) : string :=
  let n := nat_of_ascii a in
  if Nat.eqb n 34 then "\"""
  else if Nat.eqb n 92 then "\\"
  else if Nat.eqb n 8 then "\b"
  else if Nat.eqb n 9 then "\t"
  else if Nat.eqb n 10 then "\n"
  else if Nat.eqb n 12 then "\f"
  else if Nat.eqb n 13 then "\r"
  else if Nat.ltb n 32 then "\u00" ++ String (hex_digit (n / 16)) (String (hex_digit (n mod 16)) "")
  else String a "".

Fixpoint esc (s : string) : string :=
  match s with
  | EmptyString => ""
  | String a r => esc_byte a ++ esc r
  end.

Definition quote (s : string) : string := """" ++ esc s ++ """".

Fixpoint join_comma (l : list string) : string :=
  match l with
  | [] => ""
  | [x] => x
  | x :: r => x ++ "," ++ join_comma r
  end.

Fixpoint ser (j : json) : string :=
  match j with
  | JNull => "null"
  | JBool true => "true"
  | JBool false => "false"
  | JNum t => t
  | JStr s => quote s
  | JArr l => "[" ++ join_comma (map ser l) ++ "]"
  | JObj l => "{" ++ join_comma (map (fun kv => quote (fst kv) ++ ":" ++ snd kv)
                                     (sort_keys (map (fun kv => (fst kv, ser (snd kv))) l))) ++ "}"
  end.

(** the canonical form: objects sorted by key, recursively *)
Fixpoint canon (j : json) : json :=
  match j with
  | JArr l => JArr (map canon l)
  | JObj l => JObj (sort_keys (map (fun kv => (fst kv, canon (snd kv))) l))
  | _ => j
  end.

(** well-formedness the injectivity theorem needs *)
Definition num_char (a : ascii) : bool :=
  let n := nat_of_ascii a in
  (Nat.leb 48 n && Nat.leb n 57) || Nat.eqb n 45 || Nat.eqb n 43 || Nat.eqb n 46 || Nat.eqb n 101 || Nat.eqb n 69.
Fixpoint all_chars (f : ascii -> bool) (s : string) : bool :=
  match s with EmptyString => true | String a r => f a && all_chars f r end.
Definition num_ok (t : string) : bool :=
  match t with
  | EmptyString => false
  | String a _ => let n := nat_of_ascii a in ((Nat.leb 48 n && Nat.leb n 57) || Nat.eqb n 45) && all_chars num_char t
  end.
Fixpoint nodup_keys {T} (l : list (string * T)) : bool :=
  match l with
  | [] => true
  | (k, _) :: r => negb (existsb (fun kv => String.eqb k (fst kv)) r) && nodup_keys r
  end.
Fixpoint wf_json (j : json) : bool :=
  match j with
  | JNum t => num_ok t
  | JArr l => forallb wf_json l
  | JObj l => nodup_keys l && forallb (fun kv => wf_json (snd kv)) l
  | _ => true
  end.
