(** The documented NORMAL FORM of a pipeline document (property C03), written
    directly from the property text and the Go behaviour: a structurally
    recursive function from the decoded document tree ([gv]) to the JSON value
    that Parse followed by json.Marshal yields.

    It does NOT go through the typed [pipeline] record, the reflective key
    partition or any of the parse / marshal models (Model/Pipeline.v,
    Model/Marshal.v, Model/Decode.partition_keys); only small pure helpers are
    shared ([aget], [sort_keys], [sprint], [gv_json], [full_source], the kind
    tables of Model/Kinds.v, [first_alias]).  Proofs/NormalFormProofs.v proves
    it equal to the composite [parse_doc] ; [marshal_json] on every document
    whose mappings have distinct keys.

    DEFINITIONS ONLY: this file is extracted and run against the library.

    Conventions: [option] results; [None] means "does not decode".  At the
    level of a step mapping that makes the step fall back to an unknown step
    (kept verbatim); at the level of the document it is the hard parse error.
    json.Marshal's own failure (a non-finite float reaching the output) is
    checked once, on the final value ([nf]). *)
From Coq Require Import String List Ascii Bool ZArith.
From GP Require Import Base.Sexp Model.Gv Model.Decode Model.Kinds Model.Plugin.
Import ListNotations.
Local Open Scope string_scope.

(** ---------------------------------------------------------------- helpers *)

Definition obind {T U} (o : option T) (f : T -> option U) : option U :=
  match o with Some x => f x | None => None end.
Local Notation "'do' x <- o ; k" := (obind o (fun x => k))
  (at level 200, x name, o at level 100, k at level 200).

(** every element decodes *)
Fixpoint all_some {T U} (f : T -> option U) (l : list T) : option (list U) :=
  match l with
  | [] => Some []
  | x :: r => do y <- f x; do ys <- all_some f r; Some (y :: ys)
  end.

(** m without the keys ks (document order kept) *)
Definition drop (ks : list string) (m : list (string * gv)) : list (string * gv) :=
  filter (fun kv => negb (mem (fst kv) ks)) m.

(** the key a field is read from: its primary key when the mapping has it,
    otherwise the first alias the mapping has *)
Definition pick (primary : string) (aliases : list string) (m : list (string * gv)) : option (string * gv) :=
  match aget primary m with
  | Some v => Some (primary, v)
  | None => first_alias aliases m
  end.
Definition picked_key (o : option (string * gv)) : list string :=
  match o with Some (k, _) => [k] | None => [] end.

(** a string-typed member: null and absent give "", scalars are printed
    (fmt.Sprint), sequences / mappings / timestamps do not decode *)
Definition str_of (g : gv) : option string :=
  match g with
  | GNull => Some ""
  | _ => sprint g
  end.
Definition str_at (o : option gv) : option string :=
  match o with Some v => str_of v | None => Some "" end.

(** a string-list-typed member: null gives no strings, a scalar one string *)
Definition strs_of (g : gv) : option (list string) :=
  match g with
  | GNull => Some []
  | GSeq l => all_some str_of l
  | GMap _ | GUMap _ | GTime _ => None
  | _ => option_map (fun s => [s]) (sprint g)
  end.
Definition strs_at (o : option gv) : option (list string) :=
  match o with Some v => strs_of v | None => Some [] end.

Definition newline : string := String (ascii_of_nat 10) EmptyString.

Definition strs_json (l : list string) : json := JArr (map JStr l).
(** a string -> string table: an object of strings, keys sorted *)
Definition strmap_json (l : list (string * string)) : json :=
  JObj (sort_keys (map (fun kv => (fst kv, JStr (snd kv))) l)).

(** `omitempty` members *)
Definition str_entry (s : string) : option json := if String.eqb s "" then None else Some (JStr s).
Definition list_entry {T} (l : list T) (j : json) : option json := match l with [] => None | _ => Some j end.

(** An object with typed members and a catch-all: the typed members that are
    present, then every remaining key with its value verbatim (a typed member
    wins over a remaining key of the same name); keys sorted (the object is a
    Go map when it is marshalled). *)
Definition nf_obj (typed : list (string * option json)) (rest : list (string * gv)) : json :=
  let present := flat_map (fun e => match snd e with Some j => [(fst e, j)] | None => [] end) typed in
  JObj (sort_keys (present ++ map (fun kv => (fst kv, gv_json (snd kv))) (drop (map fst present) rest))).

(** a wait / input / trigger mapping: its contents verbatim, top-level keys sorted *)
Definition contents_json (m : list (string * gv)) : json :=
  JObj (sort_keys (map (fun kv => (fst kv, gv_json (snd kv))) m)).

(** ---------------------------------------------------------------- plugins *)

(** a plugin configuration: verbatim, except that mappings lose their order
    (keys sorted at every depth); a Go map (never produced by the decoder) is
    kept as json.Marshal prints it *)
Fixpoint config_json (g : gv) : json :=
  match g with
  | GSeq l => JArr (map config_json l)
  | GMap l => JObj (sort_keys (map (fun kv => (fst kv, config_json (snd kv))) l))
  | _ => gv_json g
  end.
(** one plugin: a one-entry object keyed by the canonical source; an empty
    configuration (null, {} or []) is null *)
Definition plugin_json (source : string) (config : gv) : json :=
  JObj [(full_source source,
         match config with
         | GMap [] | GUMap [] | GSeq [] => JNull
         | c => config_json c
         end)].
Definition plugins_of_mapping (m : list (string * gv)) : list json :=
  map (fun kv => plugin_json (fst kv) (snd kv)) m.
(** plugins: a mapping source -> config (order kept), or a list whose elements
    are such mappings or bare source strings *)
Definition nf_plugins (v : gv) : option (list json) :=
  match v with
  | GNull => Some []
  | GMap m => Some (plugins_of_mapping m)
  | GSeq l =>
      do ps <- all_some (fun e => match e with
                                  | GMap m => Some (plugins_of_mapping m)
                                  | GStr s => Some [plugin_json s GNull]
                                  | _ => None
                                  end) l;
      Some (concat ps)
  | _ => None
  end.

(** ---------------------------------------------------------------- env, signature *)

(** a step's env: values stringified, keys sorted *)
Definition nf_env (v : gv) : option (list (string * string)) :=
  match v with
  | GNull => Some []
  | GMap m => all_some (fun kv => do s <- str_of (snd kv); Some (fst kv, s)) m
  | _ => None
  end.

(** [Some None] = no signature (absent or null).  Only algorithm / signed_fields /
    value are kept: any OTHER key of the signature mapping is dropped.  That is
    not what the property text says ("every other key, at every depth ...");
    it mirrors the validated model (the Signature struct has no catch-all
    field) and is reported as a finding (signature_extra_key_lost_finding). *)
Definition nf_signature (v : gv) : option (option json) :=
  match v with
  | GNull => Some None
  | GMap m =>
      do a <- str_at (aget "algorithm" m);
      do f <- match aget "signed_fields" m with
              | None | Some GNull => Some JNull
              | Some x => do l <- strs_of x; Some (strs_json l)
              end;
      do s <- str_at (aget "value" m);
      Some (Some (JObj [("algorithm", JStr a); ("signed_fields", f); ("value", JStr s)]))
  | _ => None
  end.

(** ---------------------------------------------------------------- matrix *)

(** a `skip` is left out of the normal form only when it means "do not skip" (null, false) *)
Definition is_empty (g : gv) : bool :=
  match g with
  | GNull => true
  | GBool b => negb b
  | _ => false
  end.

(** matrix scalars: only booleans, integers and strings *)
Definition matrix_scalar (g : gv) : option string :=
  match g with
  | GBool _ | GInt _ | GStr _ => sprint g
  | _ => None
  end.

(** an adjustment's `with`: a bare scalar stays a string (anonymous
    dimension); a mapping dimension -> scalar becomes an object of strings
    (a single dimension named "" prints as the bare string: mirrors the model) *)
Definition nf_with (v : gv) : option json :=
  match v with
  | GMap m =>
      do l <- all_some (fun kv => do s <- matrix_scalar (snd kv); Some (fst kv, s)) m;
      Some (match l with
            | [(k, s)] => if String.eqb k "" then JStr s else strmap_json l
            | _ => strmap_json l
            end)
  | _ => do s <- matrix_scalar v; Some (JStr s)
  end.

Definition nf_adjustment (v : gv) : option json :=
  match v with
  | GNull => Some JNull
  | GMap m =>
      do w <- match aget "with" m with Some x => nf_with x | None => Some (JObj []) end;
      Some (nf_obj [("with", Some w);
                    ("skip", match aget "skip" m with
                             | Some s => if is_empty s then None else Some (gv_json s)
                             | None => None
                             end)]
                   (drop ["with"; "skip"] m))
  | _ => None
  end.

(** the setup: [None] = null; a list = one anonymous dimension; a mapping
    dimension -> values (null = no values, a scalar = one value) *)
Definition nf_setup (v : gv) : option (option (list (string * list string))) :=
  match v with
  | GNull => Some None
  | GSeq l => do ss <- all_some str_of l; Some (Some [("", ss)])
  | GMap m => do su <- all_some (fun kv => do ss <- strs_of (snd kv); Some (fst kv, ss)) m; Some (Some su)
  | _ => None
  end.
(** exactly one dimension, named "", with at least one value *)
Definition anonymous_dimension (su : list (string * list string)) : option (list string) :=
  match su with
  | [(k, x :: r)] => if String.eqb k "" then Some (x :: r) else None
  | _ => None
  end.
Definition setup_json (su : option (list (string * list string))) : json :=
  match su with
  | None | Some [] => JNull
  | Some l => match anonymous_dimension l with
              | Some vs => strs_json vs
              | None => JObj (sort_keys (map (fun kv => (fst kv, strs_json (snd kv))) l))
              end
  end.
(** the canonical matrix: the bare list of values when there is nothing but a
    non-empty anonymous dimension, otherwise {setup, adjustments?, other keys} *)
Definition matrix_json (su : option (list (string * list string))) (adj : list json)
                       (rest : list (string * gv)) : json :=
  match (match su, adj, rest with Some l, [], [] => anonymous_dimension l | _, _, _ => None end) with
  | Some vs => strs_json vs
  | None => nf_obj [("setup", Some (setup_json su)); ("adjustments", list_entry adj (JArr adj))] rest
  end.

(** [Some None] = no matrix (absent or null).  `matrix: []` has an anonymous
    dimension without values, hence the long form {"setup": {"": []}}
    (mirrors the validated model; the property text does not dictate it). *)
Definition nf_matrix (v : gv) : option (option json) :=
  match v with
  | GNull => Some None
  | GSeq l => do ss <- all_some str_of l; Some (Some (matrix_json (Some [("", ss)]) [] []))
  | GMap m =>
      do su <- match aget "setup" m with Some x => nf_setup x | None => Some None end;
      do adj <- match aget "adjustments" m with
                | None | Some GNull => Some []
                | Some (GSeq l) => all_some nf_adjustment l
                | Some _ => None
                end;
      Some (Some (matrix_json su adj (drop ["setup"; "adjustments"] m)))
  | _ => None
  end.

(** ---------------------------------------------------------------- cache *)

Definition cache_json (name : string) (paths : list string) (size : string) (rest : list (string * gv)) : json :=
  nf_obj [("name", str_entry name); ("paths", list_entry paths (strs_json paths)); ("size", str_entry size)] rest.

(** `cache: false` (or `disabled: true`, which drops every other key: mirrors
    the model, known finding F12) is [false]; `cache: true` is {}; a
    string or a list are the paths; a mapping keeps name / paths / size and
    every other key.  [Some None] = no cache (absent or null). *)
Definition nf_cache (v : gv) : option (option json) :=
  match v with
  | GNull => Some None
  | GBool b => Some (Some (if b then cache_json "" [] "" [] else JBool false))
  | GStr s => Some (Some (cache_json "" [s] "" []))
  | GSeq l => do ss <- all_some str_of l; Some (Some (cache_json "" ss "" []))
  | GMap m =>
      do disabled <- match aget "disabled" m with
                     | None | Some GNull => Some false
                     | Some (GBool b) => Some b
                     | Some _ => None
                     end;
      do name <- str_at (aget "name" m);
      do paths <- strs_at (aget "paths" m);
      do size <- str_at (aget "size" m);
      Some (Some (if disabled then JBool false
                  else cache_json name paths size (drop ["disabled"; "name"; "paths"; "size"] m)))
  | _ => None
  end.

(** ---------------------------------------------------------------- command steps *)

(** absent member: nothing to write *)
Definition entry_at {T} (f : gv -> option T) (dflt : T) (o : option gv) : option T :=
  match o with Some v => f v | None => Some dflt end.

(** A command step.  The command text comes from `commands`, or else from
    `command` (string or list), joined with newlines.  When BOTH are present
    `commands` wins and `command` is then only required to be a string-like
    scalar and is dropped: the property text does not say which wins; this
    mirrors the validated model of CommandStep.UnmarshalOrdered. *)
Definition nf_command (m : list (string * gv)) : option json :=
  let text := pick "commands" ["command"] m in
  let m1 := drop (picked_key text) m in
  let key := pick "key" ["id"; "identifier"] m1 in
  let label := pick "label" ["name"] m1 in
  do lines <- strs_at (option_map snd text);
  do k <- str_at (option_map snd key);
  do l <- str_at (option_map snd label);
  do _ignored <- str_at (aget "command" m1);
  do plugins <- entry_at nf_plugins [] (aget "plugins" m1);
  do env <- entry_at nf_env [] (aget "env" m1);
  do sig <- entry_at nf_signature None (aget "signature" m1);
  do matrix <- entry_at nf_matrix None (aget "matrix" m1);
  do cache <- entry_at nf_cache None (aget "cache" m1);
  Some (nf_obj [("key", str_entry k);
                ("label", str_entry l);
                ("command", Some (JStr (join newline lines)));
                ("plugins", list_entry plugins (JArr plugins));
                ("env", list_entry env (strmap_json env));
                ("signature", sig);
                ("matrix", matrix);
                ("cache", cache)]
               (drop (picked_key key ++ picked_key label
                        ++ ["command"; "plugins"; "env"; "signature"; "matrix"; "cache"]) m1)).

(** ---------------------------------------------------------------- steps *)

(** which kind a step mapping is: its `type` (must be a string) when present,
    otherwise inferred from its keys; [None] = hard error *)
Definition kind_of_mapping (m : list (string * gv)) : option kind :=
  match aget "type" m with
  | Some (GStr t) => Some (kind_by_type t)
  | Some _ => None
  | None => Some (kind_by_keys (map fst m))
  end.

(** [fuel] bounds the group nesting; [nf] supplies the depth of the document,
    so the fuel-exhausted [None]s are never reached. *)
Fixpoint nf_steps (fuel : nat) (g : gv) {struct fuel} : option (list json) :=
  match fuel with
  | O => None
  | S fuel' =>
      match g with
      | GNull => Some []
      | GSeq l => all_some (nf_step fuel') l
      | _ => None
      end
  end
with nf_step (fuel : nat) (g : gv) {struct fuel} : option json :=
  match fuel with
  | O => None
  | S fuel' =>
      match g with
      | GStr s => Some (JStr s)    (* wait / block / ... and unknown scalars alike: the string itself *)
      | GMap m =>
          let verbatim := gv_json (GMap m) in
          do k <- kind_of_mapping m;
          Some (match k with
                | KUnknown _ => verbatim
                | KCommand => match nf_command m with Some j => j | None => verbatim end
                | KWait | KInput | KTrigger => contents_json m
                | KGroup =>
                    let key := pick "key" ["id"; "identifier"] m in
                    let group := pick "group" ["label"; "name"] m in
                    match (do ks <- str_at (option_map snd key);
                           do gr <- match option_map snd group with
                                    | None | Some GNull => Some JNull
                                    | Some v => do s <- str_of v; Some (JStr s)
                                    end;
                           do ss <- entry_at (nf_steps fuel') [] (aget "steps" m);
                           Some (nf_obj [("key", str_entry ks); ("group", Some gr); ("steps", Some (JArr ss))]
                                        (drop (picked_key key ++ picked_key group ++ ["steps"]) m))) with
                    | Some j => j
                    | None => verbatim     (* a group that does not decode is an unknown step *)
                    end
                end)
      | _ => None
      end
  end.

(** the pipeline's env block: values stringified, document order kept *)
Definition nf_env_block (v : gv) : option (option json) :=
  match v with
  | GNull => Some None
  | GMap m => do e <- all_some (fun kv => do s <- str_of (snd kv); Some (fst kv, JStr s)) m; Some (Some (JObj e))
  | _ => None
  end.

Definition nf_doc (fuel : nat) (d : gv) : option json :=
  match d with
  | GSeq _ => do ss <- nf_steps fuel d; Some (JObj [("steps", JArr ss)])
  | GMap m =>
      do ss <- entry_at (nf_steps fuel) [] (aget "steps" m);
      do env <- entry_at nf_env_block None (aget "env" m);
      Some (nf_obj [("steps", Some (JArr ss)); ("env", env)] (drop ["steps"; "env"] m))
  | _ => None
  end.

(** nesting depth of the document *)
Fixpoint depth (g : gv) : nat :=
  match g with
  | GSeq l => S (fold_right (fun x acc => Nat.max (depth x) acc) 0 l)
  | GMap l => S (fold_right (fun kv acc => Nat.max (depth (snd kv)) acc) 0 l)
  | GUMap l => S (fold_right (fun kv acc => Nat.max (depth (snd kv)) acc) 0 l)
  | _ => 1
  end.

(** json.Marshal fails on a non-finite float (represented by an empty number token) *)
Fixpoint json_finite (j : json) : bool :=
  match j with
  | JNum t => negb (String.eqb t "")
  | JArr l => forallb json_finite l
  | JObj l => forallb (fun kv => json_finite (snd kv)) l
  | _ => true
  end.

(** THE NORMAL FORM.  [None] = Parse fails, or json.Marshal fails. *)
Definition nf (d : gv) : option json :=
  do j <- nf_doc (S (depth d)) d;
  if json_finite j then Some j else None.
