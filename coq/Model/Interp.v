(** Model of interpolate.go and the per-type interpolate methods under the
    environment transformer: every walker, parametric in the expansion function.
    Ordered maps are renamed at list level (the concrete Range+Replace loop
    refines this: Props/C05 range_rename_refines, Props/C10); Go maps are
    rewritten after ranging, in the order of their original keys (fix of F3). *)
From Coq Require Import String List Ascii Bool Arith.
From GP Require Import Model.Gv Model.Pipeline.
Import ListNotations.
Local Open Scope string_scope.

Section Interp.
  Variable expand : string -> option string.   (* tf.Transform; None = error *)

  Fixpoint omapM {T U} (f : T -> option U) (l : list T) : option (list U) :=
    match l with
    | [] => Some []
    | x :: r => match f x, omapM f r with Some y, Some ys => Some (y :: ys) | _, _ => None end
    end.

  (** ordered-map rename loop over already expanded entries (old key, new key, new value):
      Replace(old, new, v) puts (new, v) where old is and deletes any other entry named new *)
  Fixpoint orename {V} (fuel : nat) (done : list (string * V)) (todo : list (string * string * V)) : list (string * V) :=
    match fuel with
    | O => done
    | S f =>
        match todo with
        | [] => done
        | (_, k', v') :: rest =>
            orename f (filter (fun kv => negb (String.eqb (fst kv) k')) done ++ [(k', v')])
                    (filter (fun e => negb (String.eqb (fst (fst e)) k')) rest)
        end
    end.

  (** Go map rewritten after ranging: entries applied in the order of their original keys *)
  Definition urename {V} (entries : list (string * string * V)) : list (string * V) :=
    fold_left (fun acc e => aset (snd (fst e)) (snd e) acc)
              (map snd (sort_keys (map (fun e => (fst (fst e), e)) entries))) [].

  (** interpolateAny on a free-form value *)
  Fixpoint interp_gv (g : gv) : option gv :=
    match g with
    | GStr s => option_map GStr (expand s)
    | GSeq l =>
        option_map GSeq
          ((fix go (l : list gv) : option (list gv) :=
              match l with
              | [] => Some []
              | x :: r => match interp_gv x, go r with Some y, Some ys => Some (y :: ys) | _, _ => None end
              end) l)
    | GMap l =>
        match (fix go (l : list (string * gv)) : option (list (string * string * gv)) :=
                 match l with
                 | [] => Some []
                 | (k, v) :: r =>
                     match expand k, interp_gv v, go r with
                     | Some k', Some v', Some es => Some ((k, k', v') :: es)
                     | _, _, _ => None
                     end
                 end) l with
        | Some es => Some (GMap (orename (length es) [] es))
        | None => None
        end
    | GUMap l =>
        match (fix go (l : list (string * gv)) : option (list (string * string * gv)) :=
                 match l with
                 | [] => Some []
                 | (k, v) :: r =>
                     match expand k, interp_gv v, go r with
                     | Some k', Some v', Some es => Some ((k, k', v') :: es)
                     | _, _, _ => None
                     end
                 end) l with
        | Some es => Some (GUMap (urename es))
        | None => None
        end
    | _ => Some g
    end.

  (** interpolateMap on map[string]any / map[string]string / map[string][]string *)
  Definition interp_umap {V} (fv : V -> option V) (l : list (string * V)) : option (list (string * V)) :=
    match omapM (fun kv => match expand (fst kv), fv (snd kv) with
                           | Some k', Some v' => Some (fst kv, k', v')
                           | _, _ => None end) l with
    | Some es => Some (urename es)
    | None => None
    end.
  Definition interp_rem := interp_umap interp_gv.
  Definition interp_strs (l : list string) : option (list string) := omapM expand l.

  Definition interp_plugin (p : plugin) : option plugin :=
    match expand (pl_source p), interp_gv (pl_config p) with
    | Some s, Some c => Some (mkPlugin s c)
    | _, _ => None
    end.

  Definition interp_adj (a : option madj) : option (option madj) :=
    match a with
    | None => Some None
    | Some a =>
        match (match ma_with a with
               | None => Some None
               | Some w => option_map Some (interp_umap expand w) end),
              interp_gv (ma_skip a), interp_rem (ma_rem a) with
        | Some w, Some sk, Some r => Some (Some (mkMAdj w sk r))
        | _, _, _ => None
        end
    end.

  Definition interp_matrix (m : matrix) : option matrix :=
    match (match mx_setup m with
           | None => Some None
           | Some su => option_map Some
                          (interp_umap (fun v => match v with
                                                 | None => Some None
                                                 | Some l => option_map Some (interp_strs l) end) su) end),
          omapM interp_adj (mx_adj m), interp_rem (mx_rem m) with
    | Some su, Some ad, Some r => Some (mkMx su ad r)
    | _, _, _ => None
    end.

  Definition interp_cache (c : cache) : option cache :=
    match expand (ca_name c), interp_strs (ca_paths c), expand (ca_size c), interp_rem (ca_rem c) with
    | Some n, Some p, Some s, Some r => Some (mkCache (ca_disabled c) n p s r)
    | _, _, _, _ => None
    end.

  Definition opt_interp {T} (f : T -> option T) (o : option T) : option (option T) :=
    match o with None => Some None | Some x => option_map Some (f x) end.

  (** CommandStep.interpolate under envInterpolator; the signature is not touched *)
  Definition interp_command (c : command_step) : option command_step :=
    match expand (cs_command c), expand (cs_label c), omapM interp_plugin (cs_plugins c),
          expand (cs_key c), interp_umap expand (cs_env c), opt_interp interp_matrix (cs_matrix c),
          opt_interp interp_cache (cs_cache c), interp_rem (cs_rem c) with
    | Some cmd, Some lbl, Some pls, Some key, Some env, Some mx, Some ca, Some rem =>
        Some (mkCmd key lbl cmd pls env (cs_sig c) mx ca rem)
    | _, _, _, _, _, _, _, _ => None
    end.

  (** interpolateMapValues: values only, names untouched *)
  Definition interp_map_values (l : list (string * string)) : option (list (string * string)) :=
    omapM (fun kv => option_map (fun v => (fst kv, v)) (expand (snd kv))) l.

  (** CommandStep.interpolate under matrixInterpolator: command, label, plugins, env VALUES, unknown
      fields; the key, env names, the matrix definition, the cache and the signature are not touched *)
  Definition minterp_command (c : command_step) : option command_step :=
    match expand (cs_command c), expand (cs_label c), omapM interp_plugin (cs_plugins c),
          interp_map_values (cs_env c), interp_rem (cs_rem c) with
    | Some cmd, Some lbl, Some pls, Some env, Some rem =>
        Some (mkCmd (cs_key c) lbl cmd pls env (cs_sig c) (cs_matrix c) (cs_cache c) rem)
    | _, _, _, _, _ => None
    end.

  Fixpoint interp_step (s : step) : option step :=
    match s with
    | SCommand c => option_map SCommand (interp_command c)
    | SWait sc ct => option_map (SWait sc) (interp_rem ct)
    | SInput sc ct => option_map (SInput sc) (interp_rem ct)
    | STrigger ct => option_map STrigger (interp_rem ct)
    | SGroup k g ss rem =>
        match expand k, opt_interp expand g,
              (fix go (l : list step) : option (list step) :=
                 match l with
                 | [] => Some []
                 | x :: r => match interp_step x, go r with Some y, Some ys => Some (y :: ys) | _, _ => None end
                 end) ss,
              interp_rem rem with
        | Some k', Some g', Some ss', Some rem' => Some (SGroup k' g' ss' rem')
        | _, _, _, _ => None
        end
    | SUnknown c => option_map SUnknown (interp_gv c)
    end.

  (** Pipeline.Interpolate after the env block (C10) has been processed *)
  Definition interp_pipeline_rest (p : pipeline) : option pipeline :=
    match omapM interp_step (pp_steps p), interp_rem (pp_rem p) with
    | Some ss, Some rem => Some (mkPipeline ss (pp_env p) rem (pp_nosteps p))
    | _, _ => None
    end.
End Interp.
