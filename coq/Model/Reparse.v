(** Re-reading marshalled JSON: what yaml.v3 + ordered.DecodeYAML produce for the
    text encoding/json wrote (objects become ordered maps in member order,
    integral number tokens become ints, other number tokens floats, every
    string stays a string because JSON strings are quoted). *)
From Coq Require Import String List Ascii Bool ZArith.
From GP Require Import Base.Sexp Model.Gv Model.Pipeline Model.Marshal.
Import ListNotations.
Local Open Scope string_scope.

Fixpoint all_digits (s : string) : bool :=
  match s with
  | EmptyString => true
  | String a r => let n := nat_of_ascii a in Nat.leb 48 n && Nat.leb n 57 && all_digits r
  end.
Definition int_token (t : string) : bool :=
  match t with
  | String "-" r => negb (String.eqb r "") && all_digits r
  | EmptyString => false
  | _ => all_digits t
  end.

Fixpoint gv_of_json (j : json) : gv :=
  match j with
  | JNull => GNull
  | JBool b => GBool b
  | JNum t => if int_token t then match string_to_z t with Some z => GInt z | None => GFloat t t end
              else GFloat t t
  | JStr s => GStr s
  | JArr l => GSeq (map gv_of_json l)
  | JObj l => GMap (map (fun kv => (fst kv, gv_of_json (snd kv))) l)
  end.

(** Parse(json.Marshal(p)) *)
Definition reparse_json (p : pipeline) : res pipeline := parse_doc (gv_of_json (mj_pipeline p)).
