(** Model of ordered/yaml.go: DecodeYAML over yaml.v3's node graph (anchors and
    aliases are shared node ids, so the graph can have cycles), with the `seen`
    set of decodeYAML and the `merged` / `keys` bookkeeping of
    rangeYAMLMapImpl.  What yaml.v3 decides per scalar node (its decoded value,
    its canonical key string, whether its tag is !!merge) is input. *)
From Coq Require Import String List Bool Arith.
From GP Require Import Model.Gv.
Import ListNotations.

Inductive ynode :=
| YScalar (is_merge : bool) (ckey : option string) (dec : option gv)
| YSeq (items : list nat)
| YMap (content : list nat)       (* key, value, key, value, ... *)
| YAlias (target : nat)
| YDoc (content : list nat)
| YOther.

Definition store := list ynode.
Definition node (st : store) (n : nat) : ynode := nth n st YOther.

Definition memn (n : nat) (l : list nat) : bool := existsb (Nat.eqb n) l.
Definition mems (s : string) (l : list string) : bool := existsb (String.eqb s) l.

(** canonicalMapKey: scalars directly, aliases through their target *)
Definition ckey_of (st : store) (k : nat) : option string :=
  match node st k with
  | YScalar _ ck _ => ck
  | YAlias t => match node st t with YScalar _ ck _ => ck | _ => None end
  | _ => None
  end.
Definition is_merge_key (st : store) (k : nat) : bool :=
  match node st k with YScalar m _ _ => m | _ => false end.

Inductive rres := ROk (pairs : list (string * nat)) (merged : list nat) | RErr | RFuel.

(** pass 1 of the mapping case: canonical keys of the non-merge keys; None = error *)
Fixpoint explicit_keys (st : store) (content : list nat) : option (list string) :=
  match content with
  | k :: _ :: rest =>
      if is_merge_key st k then explicit_keys st rest
      else match ckey_of st k, explicit_keys st rest with
           | Some ck, Some ks => Some (ck :: ks)
           | _, _ => None
           end
  | [] => Some []
  | [_] => None       (* odd content length *)
  end.

(** skipKeys applied to the pairs a merge yields, in order *)
Fixpoint skip_keys (keys : list string) (ps : list (string * nat)) : list (string * nat) * list string :=
  match ps with
  | [] => ([], keys)
  | (k, v) :: r =>
      if mems k keys then skip_keys keys r
      else let (out, keys') := skip_keys (k :: keys) r in ((k, v) :: out, keys')
  end.

(** rangeYAMLMapImpl: the pairs handed to f, in order, and the updated merged set *)
Fixpoint range (fuel : nat) (st : store) (merged : list nat) (n : nat) {struct fuel} : rres :=
  match fuel with
  | O => RFuel
  | S fuel' =>
      if memn n merged then ROk [] merged
      else
        let merged := n :: merged in
        match node st n with
        | YMap content =>
            match explicit_keys st content with
            | None => RErr
            | Some keys0 =>
                (fix pairs (content : list nat) (keys : list string) (merged : list nat)
                     (acc : list (string * nat)) {struct content} : rres :=
                   match content with
                   | k :: v :: rest =>
                       if is_merge_key st k then
                         match range fuel' st merged v with
                         | ROk ps merged' =>
                             let (out, keys') := skip_keys keys ps in
                             pairs rest keys' merged' (acc ++ out)
                         | r => r
                         end
                       else match ckey_of st k with
                            | Some ck => pairs rest keys merged (acc ++ [(ck, v)])
                            | None => RErr
                            end
                   | _ => ROk acc merged
                   end) content keys0 merged []
            end
        | YSeq items =>
            (fix each (items : list nat) (merged : list nat) (acc : list (string * nat)) {struct items} : rres :=
               match items with
               | [] => ROk acc merged
               | e :: rest =>
                   match range fuel' st merged e with
                   | ROk ps merged' => each rest merged' (acc ++ ps)
                   | r => r
                   end
               end) items merged []
        | YAlias t => range fuel' st merged t
        | _ => RErr
        end
  end.

Inductive dres := DOk (v : gv) | DErr | DFuel.

(** ordered.Map.Set on the pairs decoded so far *)
Fixpoint oset (k : string) (v : gv) (l : list (string * gv)) : list (string * gv) :=
  match l with
  | [] => [(k, v)]
  | (k', v') :: r => if String.eqb k k' then (k, v) :: r else (k', v') :: oset k v r
  end.

(** decodeYAML(seen, n) *)
Fixpoint decode (fuel : nat) (st : store) (seen : list nat) (n : nat) {struct fuel} : dres :=
  match fuel with
  | O => DFuel
  | S fuel' =>
      if memn n seen then DErr
      else
        let seen' := n :: seen in
        match node st n with
        | YScalar _ _ dec => match dec with Some v => DOk v | None => DErr end
        | YSeq items =>
            (fix each (items : list nat) (acc : list gv) {struct items} : dres :=
               match items with
               | [] => DOk (GSeq acc)
               | c :: rest =>
                   match decode fuel' st seen' c with
                   | DOk v => each rest (acc ++ [v])
                   | r => r
                   end
               end) items []
        | YMap _ =>
            match range (S (length st)) st [] n with
            | RErr => DErr
            | RFuel => DFuel
            | ROk ps _ =>
                (fix each (ps : list (string * nat)) (m : list (string * gv)) {struct ps} : dres :=
                   match ps with
                   | [] => DOk (GMap m)
                   | (k, vn) :: rest =>
                       match decode fuel' st seen' vn with
                       | DOk v => each rest (oset k v m)
                       | r => r
                       end
                   end) ps []
            end
        | YAlias t => decode fuel' st seen' t
        | YDoc content =>
            match content with
            | [] => DOk GNull
            | [c] => decode fuel' st seen' c
            | _ => DErr
            end
        | YOther => DErr
        end
  end.

Definition decode_yaml (st : store) (root : nat) : dres := decode (S (length st)) st [] root.
