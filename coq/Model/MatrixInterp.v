(** Model of interpolate_matrix.go: the token regexp
      \{\{\s*matrix(\.[\w-\.]+)?\s*\}\}
    as a hand-written matcher, and Transform = ReplaceAllStringFunc with
    unknown-token collection (leftmost, non-overlapping, single pass). *)
From Coq Require Import String List Ascii Bool Arith.
Import ListNotations.
Local Open Scope char_scope.

(** RE2 \s = [\t\n\f\r ] *)
Definition is_ws (a : ascii) : bool :=
  let n := nat_of_ascii a in
  Nat.eqb n 9 || Nat.eqb n 10 || Nat.eqb n 12 || Nat.eqb n 13 || Nat.eqb n 32.

(** [\w-\.] = [0-9A-Za-z_] plus '-' and '.' *)
Definition is_dimc (a : ascii) : bool :=
  let n := nat_of_ascii a in
  (Nat.leb 48 n && Nat.leb n 57) || (Nat.leb 65 n && Nat.leb n 90) ||
  (Nat.leb 97 n && Nat.leb n 122) || Nat.eqb n 95 || Nat.eqb n 45 || Nat.eqb n 46.

Fixpoint strip_prefix (p s : string) : option string :=
  match p with
  | EmptyString => Some s
  | String a p' =>
      match s with
      | String b s' => if Ascii.eqb a b then strip_prefix p' s' else None
      | EmptyString => None
      end
  end.

(** longest prefix of characters satisfying f, and the rest *)
Fixpoint span (f : ascii -> bool) (s : string) : string * string :=
  match s with
  | EmptyString => (EmptyString, EmptyString)
  | String a r => if f a then let (x, y) := span f r in (String a x, y) else (EmptyString, s)
  end.

Definition tok_open : string := "{{".
Definition tok_close : string := "}}".
Definition tok_word : string := "matrix".

(** after the optional group: \s*\}\} ; returns the number of bytes consumed *)
Definition match_tail (s : string) : option nat :=
  let (w, r) := span is_ws s in
  match strip_prefix tok_close r with
  | Some _ => Some (String.length w + 2)
  | None => None
  end.

(** a match of the regexp anchored at the start of s:
    Some (submatch 1, total length) *)
Definition match_token (s : string) : option (string * nat) :=
  match strip_prefix tok_open s with
  | None => None
  | Some s1 =>
      let (w1, s2) := span is_ws s1 in
      match strip_prefix tok_word s2 with
      | None => None
      | Some s3 =>
          let pre := 2 + String.length w1 + 6 in
          match s3 with
          | String "." s4 =>
              let (d, s5) := span is_dimc s4 in
              if String.eqb d "" then None   (* ".x" with x outside the class: neither branch can continue *)
              else match match_tail s5 with
                   | Some n => Some (String "." d, pre + 1 + String.length d + n)
                   | None => None
                   end
          | _ => match match_tail s3 with
                 | Some n => Some (EmptyString, pre + n)
                 | None => None
                 end
          end
      end
  end.

(** Transform: out string and the list of unknown submatches, in order.
    [skip] = bytes of an already replaced token still to be passed over. *)
Fixpoint scan (repl : string -> option string) (s : string) (skip : nat) : string * list string :=
  match s with
  | EmptyString => (EmptyString, [])
  | String a r =>
      match skip with
      | S k => scan repl r k
      | O =>
          match match_token s with
          | Some (key, n) =>
              let (o, u) := scan repl r (n - 1) in
              match repl key with
              | Some v => ((v ++ o)%string, u)
              | None => (o, key :: u)
              end
          | None => let (o, u) := scan repl r 0 in (String a o, u)
          end
      end
  end.

Definition transform (repl : string -> option string) (s : string) : string * list string :=
  scan repl s 0.

(** matrixInterpolator.Transform's result: Ok out | Err *)
Definition transform_result (repl : string -> option string) (s : string) : option string :=
  match transform repl s with
  | (o, []) => Some o
  | (_, _ :: _) => None
  end.

(** newMatrixInterpolator: dim "" -> key "", dim d -> key "."++d *)
Definition repl_of_perm (p : list (string * string)) (key : string) : option string :=
  (fix go (p : list (string * string)) :=
     match p with
     | [] => None
     | (d, v) :: r =>
         let k := if String.eqb d "" then EmptyString else String "." d in
         if String.eqb k key then Some v else go r
     end) p.

(** ---------------------------------------------------------------- *)
(** Declarative token shape, for the theorems *)
Fixpoint all_of (f : ascii -> bool) (s : string) : bool :=
  match s with EmptyString => true | String a r => f a && all_of f r end.

Definition is_key (k : string) : bool :=
  match k with
  | EmptyString => true
  | String "." d => negb (String.eqb d "") && all_of is_dimc d
  | _ => false
  end.
