(** A model of the subset of github.com/buildkite/interpolate that the
    correspondence harness generates: text, \\, \$ and $$ escapes, $( , $NAME,
    ${NAME}, ${NAME:-text}, ${NAME-text}, ${NAME?text} (text without nested
    expansions or '}').  Anything else is None here and is not generated.
    Used ONLY by the correspondence glue: in every theorem the expansion
    function is an abstract Section variable. *)
From Coq Require Import String List Ascii Bool Arith.
From GP Require Import Model.Gv.
Import ListNotations.
Local Open Scope string_scope.

Definition is_letter (a : ascii) : bool :=
  let n := nat_of_ascii a in (Nat.leb 65 n && Nat.leb n 90) || (Nat.leb 97 n && Nat.leb n 122).
Definition is_ident (a : ascii) : bool :=
  let n := nat_of_ascii a in is_letter a || (Nat.leb 48 n && Nat.leb n 57) || Nat.eqb n 95.

Fixpoint span_s (f : ascii -> bool) (s : string) : string * string :=
  match s with
  | EmptyString => (EmptyString, EmptyString)
  | String a r => if f a then let (x, y) := span_s f r in (String a x, y) else (EmptyString, s)
  end.

(** text up to the closing brace; None if it contains '$' or '\' (nested forms not modelled) or no brace *)
Fixpoint until_brace (s : string) : option (string * string) :=
  match s with
  | EmptyString => None
  | String a r =>
      if Ascii.eqb a "}" then Some (EmptyString, r)
      else if Ascii.eqb a "$" || Ascii.eqb a "\" then None
      else match until_brace r with Some (t, rest) => Some (String a t, rest) | None => None end
  end.

Definition lookup (env : list (string * string)) (n : string) : option string := aget n env.

Fixpoint expand_go (fuel : nat) (env : list (string * string)) (s : string) : option string :=
  match fuel with
  | O => None
  | S f =>
      match s with
      | EmptyString => Some ""
      | String "\" (String "\" r) => option_map (append "\\") (expand_go f env r)
      | String "\" (String "$" r) => option_map (append "$") (expand_go f env r)
      | String "$" (String "$" r) => option_map (append "$") (expand_go f env r)
      | String "$" (String "(" r) => option_map (append "$(") (expand_go f env r)
      | String "$" EmptyString => Some "$"
      | String "$" (String "{" r) =>
          match r with
          | String a _ =>
              if is_letter a then
                let (name, rest) := span_s is_ident r in
                match rest with
                | String "}" rest' =>
                    option_map (append (match lookup env name with Some v => v | None => "" end)) (expand_go f env rest')
                | String ":" (String "-" rest') =>
                    match until_brace rest' with
                    | Some (d, rest'') =>
                        option_map (append (match lookup env name with
                                            | Some v => if String.eqb v "" then d else v
                                            | None => d end)) (expand_go f env rest'')
                    | None => None
                    end
                | String "-" rest' =>
                    match until_brace rest' with
                    | Some (d, rest'') =>
                        option_map (append (match lookup env name with Some v => v | None => d end)) (expand_go f env rest'')
                    | None => None
                    end
                | String "?" rest' =>
                    match until_brace rest' with
                    | Some (_, rest'') =>
                        match lookup env name with
                        | Some v => option_map (append v) (expand_go f env rest'')
                        | None => None
                        end
                    | None => None
                    end
                | _ => None
                end
              else None
          | EmptyString => None
          end
      | String "$" (String a r) =>
          if is_letter a then
            let (name, rest) := span_s is_ident (String a r) in
            option_map (append (match lookup env name with Some v => v | None => "" end)) (expand_go f env rest)
          else option_map (append "$") (expand_go f env (String a r))
      | String a r => option_map (String a) (expand_go f env r)
      end
  end.

Definition expand_simple (env : list (string * string)) (s : string) : option string :=
  expand_go (S (String.length s)) env s.
