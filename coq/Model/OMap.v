(** Model of ordered/map.go: the concrete representation (slot slice with
    tombstones + index) and every operation/observer, statement by statement.
    Definitions only; proofs live in Proofs/OMapProofs.v. *)
From Coq Require Import String List Arith Bool.
Import ListNotations.

Section OMap.
  Variable V : Type.
  Variable veq : V -> V -> bool.   (* cmp.Equal on values *)

  (** ordered.Tuple *)
  Record slot := mkSlot { skey : string; sval : V; sdel : bool }.

  (** ordered.Map: items []Tuple, index map[K]int.  The Go map [index] is an
      association list with at most one entry per key (all writers below keep
      that), never iterated, so its order is unobservable. *)
  Record omap := mkOMap { items : list slot; index : list (string * nat) }.

  Definition empty : omap := mkOMap [] [].

  Fixpoint idx_get (k : string) (ix : list (string * nat)) : option nat :=
    match ix with
    | [] => None
    | (k', i) :: r => if String.eqb k k' then Some i else idx_get k r
    end.
  Fixpoint idx_del (k : string) (ix : list (string * nat)) : list (string * nat) :=
    match ix with
    | [] => []
    | (k', i) :: r => if String.eqb k k' then idx_del k r else (k', i) :: idx_del k r
    end.
  Definition idx_set (k : string) (i : nat) (ix : list (string * nat)) :=
    (k, i) :: idx_del k ix.

  Fixpoint upd {T} (i : nat) (f : T -> T) (l : list T) : list T :=
    match l, i with
    | [], _ => []
    | x :: r, O => f x :: r
    | x :: r, S j => x :: upd j f r
    end.

  Definition tomb (s : slot) : slot := mkSlot (skey s) (sval s) true.
  Definition setv (v : V) (s : slot) : slot := mkSlot (skey s) v (sdel s).

  (** func (m *Map) Len() *)
  Definition len (m : omap) : nat := length (index m).
  Definition is_zero (m : omap) : bool := Nat.eqb (len m) 0.

  (** func (m *Map) Get(k) *)
  Definition get (k : string) (m : omap) : option V :=
    match idx_get k (index m) with
    | None => None
    | Some i => match nth_error (items m) i with
                | Some s => Some (sval s)
                | None => None   (* Go: index out of range panic; excluded by Inv *)
                end
    end.
  Definition contains (k : string) (m : omap) : bool :=
    match idx_get k (index m) with Some _ => true | None => false end.

  (** func (m *Map) Set(k, v) *)
  Definition set (k : string) (v : V) (m : omap) : omap :=
    match idx_get k (index m) with
    | Some i => mkOMap (upd i (setv v) (items m)) (index m)
    | None => mkOMap (items m ++ [mkSlot k v false])
                     (idx_set k (length (items m)) (index m))
    end.

  (** func (m *Map) Replace(old, new, v) *)
  Definition replace (old new : string) (v : V) (m : omap) : omap :=
    let '(idx, ex, items1) :=
      match idx_get old (index m) with
      | Some i => (i, true, items m)
      | None => (length (items m), false, items m ++ [mkSlot new v false])
      end in
    let '(items2, index2) :=
      if negb (String.eqb old new) || negb ex then
        (match idx_get new (index m) with
         | Some ni => upd ni tomb items1
         | None => items1
         end,
         idx_set new idx (idx_del old (index m)))
      else (items1, index m) in
    mkOMap (upd idx (fun _ => mkSlot new v false) items2) index2.

  (** func (m *Map) compact() *)
  Fixpoint live (l : list slot) : list slot :=
    match l with
    | [] => []
    | s :: r => if sdel s then live r else s :: live r
    end.
  Fixpoint reindex (n : nat) (l : list slot) (ix : list (string * nat)) :=
    match l with
    | [] => ix
    | s :: r => reindex (S n) r (idx_set (skey s) n ix)
    end.
  Definition compact (m : omap) : omap :=
    let pairs := live (items m) in
    mkOMap (map (fun s => mkSlot (skey s) (sval s) false) pairs)
           (reindex 0 pairs (index m)).

  (** func (m *Map) Delete(k) *)
  Definition delete (k : string) (m : omap) : omap :=
    match idx_get k (index m) with
    | None => m
    | Some i =>
        let m' := mkOMap (upd i tomb (items m)) (idx_del k (index m)) in
        if Nat.leb (2 * length (index m')) (length (items m')) then compact m' else m'
    end.

  (** func (m *Map) Range(f): the pairs f is called with *)
  Definition range (m : omap) : list (string * V) :=
    if is_zero m then [] else map (fun s => (skey s, sval s)) (live (items m)).

  (** func Equal(a, b) – the loop over both slot slices *)
  Fixpoint equal_loop (la lb : list slot) {struct la} : bool :=
    match la with
    | [] => true
    | a :: ra =>
        if sdel a then equal_loop ra lb
        else (fix inner (lb : list slot) : bool :=
                match lb with
                | [] => true
                | b :: rb =>
                    if sdel b then inner rb
                    else if String.eqb (skey a) (skey b)
                         then if veq (sval a) (sval b) then equal_loop ra rb else false
                         else false
                end) lb
    end.
  Definition equal (a b : omap) : bool :=
    if Nat.eqb (len a) (len b) then equal_loop (items a) (items b) else false.

  (** nil receivers: the nil-tolerant methods on (m *Map)(nil). *)
  Definition equal_opt (a b : option omap) : bool :=
    match a, b with
    | None, None => true
    | Some x, Some y => equal x y
    | _, _ => false
    end.

  (** A rename performed from inside a Range callback on every visited pair:
      for _, p := range m.items { if p.deleted {continue}; m.Replace(p.Key, fk p.Key, fv ..) }
      The loop bound is the slot count at loop entry; each slot is read when
      it is reached (Go copies items[i] at iteration i). *)
  Definition range_rename (fk : string -> string) (fv : string -> V -> V) (m : omap) : omap :=
    if is_zero m then m else
    fold_left
      (fun m i =>
         match nth_error (items m) i with
         | Some s => if sdel s then m
                     else replace (skey s) (fk (skey s)) (fv (skey s) (sval s)) m
         | None => m
         end)
      (seq 0 (length (items m))) m.

  (** ---------------------------------------------------------------- *)
  (** The list-of-pairs reference model. *)
  Definition pairs := list (string * V).

  Fixpoint p_get (k : string) (l : pairs) : option V :=
    match l with
    | [] => None
    | (k', v) :: r => if String.eqb k k' then Some v else p_get k r
    end.
  Definition p_has (k : string) (l : pairs) : bool :=
    match p_get k l with Some _ => true | None => false end.
  Fixpoint p_remove (k : string) (l : pairs) : pairs :=
    match l with
    | [] => []
    | (k', v) :: r => if String.eqb k k' then p_remove k r else (k', v) :: p_remove k r
    end.
  Fixpoint p_update (k : string) (v : V) (l : pairs) : pairs :=
    match l with
    | [] => []
    | (k', v') :: r => if String.eqb k k' then (k', v) :: r else (k', v') :: p_update k v r
    end.
  Definition p_set (k : string) (v : V) (l : pairs) : pairs :=
    if p_has k l then p_update k v l else l ++ [(k, v)].
  (** rename the entry for [old] in place *)
  Fixpoint p_rekey (old new : string) (v : V) (l : pairs) : pairs :=
    match l with
    | [] => []
    | (k', v') :: r =>
        if String.eqb old k' then (new, v) :: r else (k', v') :: p_rekey old new v r
    end.
  (** Replace: if [old] is present, any other entry for [new] is deleted and
      [old]'s entry becomes (new, v) in place; otherwise any entry for [new] is
      deleted and (new, v) is appended. *)
  Definition p_replace (old new : string) (v : V) (l : pairs) : pairs :=
    if p_has old l
    then p_rekey old new v (if String.eqb old new then l else p_remove new l)
    else p_remove new l ++ [(new, v)].
  Definition p_delete (k : string) (l : pairs) : pairs := p_remove k l.

  Fixpoint p_eqb (a b : pairs) : bool :=
    match a, b with
    | [], [] => true
    | (k, v) :: ra, (k', v') :: rb => String.eqb k k' && veq v v' && p_eqb ra rb
    | _, _ => false
    end.

  (** renames from inside an iteration, at list level *)
  Fixpoint p_rename_go (fk : string -> string) (fv : string -> V -> V)
           (fuel : nat) (done todo : pairs) : pairs :=
    match fuel with
    | O => done ++ todo
    | S fuel' =>
        match todo with
        | [] => done
        | (k, v) :: rest =>
            let k' := fk k in
            p_rename_go fk fv fuel' (p_remove k' done ++ [(k', fv k v)]) (p_remove k' rest)
        end
    end.
  Definition p_rename fk fv (l : pairs) : pairs := p_rename_go fk fv (length l) [] l.

  (** operations as data, for histories *)
  Inductive op :=
  | OSet (k : string) (v : V)
  | OReplace (old new : string) (v : V)
  | ODelete (k : string).

  Definition step (m : omap) (o : op) : omap :=
    match o with
    | OSet k v => set k v m
    | OReplace a b v => replace a b v m
    | ODelete k => delete k m
    end.
  Definition spec_step (l : pairs) (o : op) : pairs :=
    match o with
    | OSet k v => p_set k v l
    | OReplace a b v => p_replace a b v l
    | ODelete k => p_delete k l
    end.

  (** abstraction function *)
  Definition abs (m : omap) : pairs := map (fun s => (skey s, sval s)) (live (items m)).
End OMap.

Arguments mkSlot {V}.
Arguments mkOMap {V}.
Arguments skey {V}. Arguments sval {V}. Arguments sdel {V}.
Arguments items {V}. Arguments index {V}.
Arguments empty {V}.
Arguments len {V}. Arguments is_zero {V}. Arguments get {V}. Arguments contains {V}.
Arguments set {V}. Arguments replace {V}. Arguments delete {V}. Arguments compact {V}.
Arguments range {V}. Arguments equal {V}. Arguments equal_opt {V}. Arguments equal_loop {V}.
Arguments range_rename {V}. Arguments live {V}. Arguments abs {V}.
Arguments p_get {V}. Arguments p_has {V}. Arguments p_remove {V}. Arguments p_update {V}.
Arguments p_set {V}. Arguments p_rekey {V}. Arguments p_replace {V}. Arguments p_delete {V}.
Arguments p_eqb {V}. Arguments p_rename {V}. Arguments p_rename_go {V}.
Arguments OSet {V}. Arguments OReplace {V}. Arguments ODelete {V}.
Arguments step {V}. Arguments spec_step {V}.
Arguments tomb {V}. Arguments setv {V}. Arguments reindex {V}.
