(** Model of plugin.go: FullSource (prefix tests, the part of net/url.Parse that
    decides its branches, segment switch, path.Join = path.Clean).
    Valid for sources without '%', '?', control bytes or DEL (the harness never
    sends those; the property excludes percent-encoding). *)
From Coq Require Import String List Ascii Bool.
Import ListNotations.
Local Open Scope char_scope.

Fixpoint cut (c : ascii) (s : string) : string * option string :=
  match s with
  | EmptyString => (EmptyString, None)
  | String a r =>
      if Ascii.eqb a c then (EmptyString, Some r)
      else let (b, t) := cut c r in (String a b, t)
  end.

(** strings.Split(s, c) *)
Fixpoint split (c : ascii) (s : string) : list string :=
  match s with
  | EmptyString => [EmptyString]
  | String a r =>
      if Ascii.eqb a c then EmptyString :: split c r
      else match split c r with
           | p :: ps => String a p :: ps
           | [] => [String a EmptyString]
           end
  end.

Fixpoint has_char (c : ascii) (s : string) : bool :=
  match s with
  | EmptyString => false
  | String a r => Ascii.eqb a c || has_char c r
  end.

Definition first_is (c : ascii) (s : string) : bool :=
  match s with String a _ => Ascii.eqb a c | EmptyString => false end.

Fixpoint join (sep : string) (l : list string) : string :=
  match l with
  | [] => EmptyString
  | [x] => x
  | x :: r => (x ++ sep ++ join sep r)%string
  end.

(** path.Clean for a non-rooted path: component stack (kept reversed). *)
Fixpoint clean_comps (comps : list string) (stack : list string) : list string :=
  match comps with
  | [] => rev stack
  | c :: r =>
      if String.eqb c "" then clean_comps r stack
      else if String.eqb c "." then clean_comps r stack
      else if String.eqb c ".." then
             match stack with
             | [] => clean_comps r [".."%string]
             | top :: below =>
                 if String.eqb top ".." then clean_comps r (".."%string :: stack)
                 else clean_comps r below
             end
      else clean_comps r (c :: stack)
  end.

Definition clean (p : string) : string :=
  match clean_comps (split "/" p) [] with
  | [] => "."%string
  | l => join "/" l
  end.

(** path.Join(elems...) : empty elements are dropped, the rest joined and cleaned;
    all-empty gives "". *)
Definition path_join (elems : list string) : string :=
  match filter (fun e => negb (String.eqb e "")) elems with
  | [] => ""%string
  | l => clean (join "/" l)
  end.

Definition plugin_suffix : string := "-buildkite-plugin".
Definition plugin_host : string := "github.com".
Definition plugin_org : string := "buildkite-plugins".

Definition last_segment (n : string) (f : string) : string :=
  let n' := (n ++ plugin_suffix)%string in
  if String.eqb f "" then n' else (n' ++ "#" ++ f)%string.

Definition full_source (s : string) : string :=
  if String.eqb s "" then ""%string
  else if first_is "/" s || first_is "." s || first_is "\" s then s
  else
    let '(u, frag) := cut "#" s in
    let f := match frag with Some x => x | None => ""%string end in
    (* url.Parse: a scheme, a leading colon, or a colon in the first path
       segment all end in "return p.Source" *)
    if has_char ":" (fst (cut "/" u)) then s
    else
      match split "/" u with
      | [n] => path_join [plugin_host; plugin_org; last_segment n f]
      | [o; n] => path_join [plugin_host; o; last_segment n f]
      | _ => s
      end.

(** ------------------------------------------------------------------ *)
(** The documented forms (the property's domain). *)
Definition name_char (a : ascii) : bool :=
  let n := nat_of_ascii a in
  (Nat.leb 48 n && Nat.leb n 57) || (Nat.leb 65 n && Nat.leb n 90) ||
  (Nat.leb 97 n && Nat.leb n 122) || Ascii.eqb a "." || Ascii.eqb a "_" || Ascii.eqb a "-".

Fixpoint all_chars (p : ascii -> bool) (s : string) : bool :=
  match s with EmptyString => true | String a r => p a && all_chars p r end.

(** a name or org: non-empty, [A-Za-z0-9._-], not starting with '.' *)
Definition is_name (s : string) : bool :=
  negb (String.eqb s "") && all_chars name_char s && negb (first_is "." s).

Definition ok_comp (c : string) : bool :=
  negb (String.eqb c "") && negb (String.eqb c ".") && negb (String.eqb c "..") && all_chars name_char c.

(** a git-legal ref: '/'-separated non-empty components, none "." or ".." *)
Definition is_ref (r : string) : bool := forallb ok_comp (split "/" r).

Definition opt_ref (r : option string) : string :=
  match r with None => ""%string | Some x => ("#" ++ x)%string end.
Definition ok_opt_ref (r : option string) : bool :=
  match r with None => true | Some x => is_ref x end.
