(** CommandStep.InterpolateMatrixPermutation: validation (Model/Matrix.v) first,
    nothing at all for the empty permutation, otherwise the matrix walker of
    Model/Interp.v with the token scanner of Model/MatrixInterp.v. *)
From Coq Require Import String List Bool Arith.
From GP Require Import Model.Gv Model.Pipeline Model.Interp Model.MatrixInterp.
From GP Require Model.Matrix.
Import ListNotations.

Definition skip_class (g : gv) : Matrix.skipval :=
  match g with
  | GNull => Matrix.SkAbsent
  | GBool b => Matrix.SkBool b
  | _ => Matrix.SkOther
  end.

Definition to_vmatrix (m : matrix) : Matrix.matrix :=
  Matrix.mkMatrix
    (match mx_setup m with Some su => su | None => [] end)
    (map (fun a => match a with
                   | Some a => Some (Matrix.mkAdj (match ma_with a with Some w => w | None => [] end)
                                                  (skip_class (ma_skip a)))
                   | None => None end) (mx_adj m)).

Inductive mresult := MOk (c : command_step) | MRejected | MUnknownToken.

Definition interpolate_matrix_permutation (c : command_step) (p : list (string * string)) : mresult :=
  match Matrix.validate (option_map to_vmatrix (cs_matrix c)) p with
  | Matrix.Accept =>
      match p with
      | [] => MOk c
      | _ => match minterp_command (transform_result (repl_of_perm p)) c with
             | Some c' => MOk c'
             | None => MUnknownToken
             end
      end
  | Matrix.Reject _ => MRejected
  end.
