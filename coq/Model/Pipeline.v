(** Typed pipeline values and the parse side: pipeline.UnmarshalOrdered and every
    UnmarshalOrdered / reflective decode below it (parser.go, pipeline.go,
    steps.go, step_*.go, plugins.go, step_command_matrix.go,
    step_command_cache.go), on top of Decode.partition_keys over the struct
    descriptors regenerated from the source. *)
From Coq Require Import String List Ascii Bool ZArith.
From GP Require Import Base.Sexp Model.Gv Model.Decode Model.Kinds Gen.Structs.
Import ListNotations.
Local Open Scope string_scope.

(** outcome of an unmarshal: value + number of unknown-step fallbacks reported
    as warnings, or a hard error *)
Inductive res (T : Type) : Type :=
| Ok (x : T) (w : nat)
| Err.
Arguments Ok {T}. Arguments Err {T}.

Definition bind {T U} (r : res T) (f : T -> res U) : res U :=
  match r with
  | Ok x w => match f x with Ok y w' => Ok y (w + w') | Err => Err end
  | Err => Err
  end.
Notation "'do' x <- r ; k" := (bind r (fun x => k)) (at level 200, x name, r at level 100, k at level 200).
Definition ret {T} (x : T) : res T := Ok x 0.

Fixpoint mapM {T U} (f : T -> res U) (l : list T) : res (list U) :=
  match l with
  | [] => ret []
  | x :: r => do y <- f x; do ys <- mapM f r; ret (y :: ys)
  end.

(** ---------------------------------------------------------------- types *)

Record signature := mkSig { sg_alg : string; sg_fields : option (list string); sg_value : string }.
Record plugin := mkPlugin { pl_source : string; pl_config : gv }.
Record madj := mkMAdj {
  ma_with : option (list (string * string));   (* MatrixAdjustmentWith; None = nil map *)
  ma_skip : gv;                                (* any; GNull = nil *)
  ma_rem : list (string * gv) }.
Record matrix := mkMx {
  mx_setup : option (list (string * option (list string)));   (* MatrixSetup; None = nil map; value None = nil slice *)
  mx_adj : list (option madj);                                 (* []*MatrixAdjustment *)
  mx_rem : list (string * gv) }.
Record cache := mkCache {
  ca_disabled : bool; ca_name : string; ca_paths : list string; ca_size : string;
  ca_rem : list (string * gv) }.
Record command_step := mkCmd {
  cs_key : string; cs_label : string; cs_command : string;
  cs_plugins : list plugin;
  cs_env : list (string * string);
  cs_sig : option signature;
  cs_matrix : option matrix;
  cs_cache : option cache;
  cs_rem : list (string * gv) }.

Inductive step : Type :=
| SCommand (c : command_step)
| SWait (scalar : string) (contents : list (string * gv))
| SInput (scalar : string) (contents : list (string * gv))
| STrigger (contents : list (string * gv))
| SGroup (key : string) (group : option string) (steps : list step) (rem : list (string * gv))
| SUnknown (contents : gv).

Record pipeline := mkPipeline {
  pp_steps : list step;
  pp_env : option (list (string * string));    (* *ordered.MapSS; None = nil *)
  pp_rem : list (string * gv);
  pp_nosteps : bool }.                         (* "pipeline contains no steps" warning raised *)

(** ---------------------------------------------------------------- leaf decoders *)

(** Unmarshal(src, *string) *)
Definition unm_string (g : gv) : res string :=
  match g with
  | GNull => ret ""
  | _ => match sprint g with Some s => ret s | None => Err end
  end.

(** Unmarshal(src, *[]string); None = the slice stays nil *)
Definition unm_strings (g : gv) : res (option (list string)) :=
  match g with
  | GNull => ret None
  | GSeq l => do ss <- mapM unm_string l; ret (Some ss)
  | GMap _ | GUMap _ | GTime _ => Err
  | _ => match sprint g with Some s => ret (Some [s]) | None => Err end
  end.
Definition strings_or_nil (o : option (list string)) : list string :=
  match o with Some l => l | None => [] end.

(** Unmarshal(src, *map[string]string) *)
Definition unm_map_ss (g : gv) : res (list (string * string)) :=
  match g with
  | GNull => ret []
  | GMap l => mapM (fun kv => do s <- unm_string (snd kv); ret (fst kv, s)) l
  | _ => Err
  end.

Definition unm_bool (g : gv) : res bool :=
  match g with
  | GNull => ret false
  | GBool b => ret b
  | _ => Err
  end.

Definition field (name : string) (p : partition) : option gv := assigned_to name (assigned p).

Definition opt_field {T} (name : string) (p : partition) (dflt : T) (f : gv -> res T) : res T :=
  match field name p with Some v => f v | None => ret dflt end.

(** Unmarshal(src, **Signature) *)
Definition unm_sig (g : gv) : res (option signature) :=
  match g with
  | GNull => ret None
  | GMap m =>
      let p := partition_keys struct_Signature m in
      do a <- opt_field "Algorithm" p "" unm_string;
      do f <- opt_field "SignedFields" p None unm_strings;
      do v <- opt_field "Value" p "" unm_string;
      ret (Some (mkSig a f v))
  | _ => Err
  end.

(** Plugins.UnmarshalOrdered *)
Definition plugins_of_map (m : list (string * gv)) : list plugin :=
  map (fun kv => mkPlugin (fst kv) (to_map_recursive (snd kv))) m.
Definition unm_plugins (g : gv) : res (list plugin) :=
  match g with
  | GNull => ret []
  | GSeq l =>
      do ps <- mapM (fun c => match c with
                              | GMap m => ret (plugins_of_map m)
                              | GStr s => ret [mkPlugin s GNull]
                              | _ => Err
                              end) l;
      ret (concat ps)
  | GMap m => ret (plugins_of_map m)
  | _ => Err
  end.

(** MatrixAdjustmentWith.UnmarshalOrdered *)
Definition with_scalar (g : gv) : option string :=
  match g with
  | GBool _ | GInt _ | GStr _ => sprint g
  | _ => None
  end.
Definition unm_with (g : gv) : res (list (string * string)) :=
  match g with
  | GMap m => mapM (fun kv => match with_scalar (snd kv) with Some s => ret (fst kv, s) | None => Err end) m
  | _ => match with_scalar g with Some s => ret [("", s)] | None => Err end
  end.

(** Unmarshal(src, *[]*MatrixAdjustment) *)
Definition unm_adj (g : gv) : res (option madj) :=
  match g with
  | GNull => ret None
  | GMap m =>
      let p := partition_keys struct_MatrixAdjustment m in
      do w <- match field "With" p with
              | Some v => do x <- unm_with v; ret (Some x)
              | None => ret None
              end;
      ret (Some (mkMAdj w (match field "Skip" p with Some v => v | None => GNull end) (leftover p)))
  | _ => Err
  end.
Definition unm_adjs (g : gv) : res (list (option madj)) :=
  match g with
  | GNull => ret []
  | GSeq l => mapM unm_adj l
  | _ => Err
  end.

(** MatrixSetup.UnmarshalOrdered; None = the setup map stays nil (`setup: null`);
    a null dimension value becomes an empty, non-nil value list *)
Definition unm_setup (g : gv) : res (option (list (string * option (list string)))) :=
  match g with
  | GNull => ret None
  | GSeq l => do ss <- mapM unm_string l; ret (Some [("", Some ss)])
  | GMap m => do su <- mapM (fun kv => do s <- unm_strings (snd kv);
                                       ret (fst kv, Some (strings_or_nil s))) m;
              ret (Some su)
  | _ => Err
  end.

(** Unmarshal(src, **Matrix) -> Matrix.UnmarshalOrdered *)
Definition unm_matrix (g : gv) : res (option matrix) :=
  match g with
  | GNull => ret None
  | GSeq l => do ss <- mapM unm_string l; ret (Some (mkMx (Some [("", Some ss)]) [] []))
  | GMap m =>
      let p := partition_keys struct_Matrix m in
      do su <- match field "Setup" p with
               | Some v => unm_setup v
               | None => ret None
               end;
      do ad <- opt_field "Adjustments" p [] unm_adjs;
      ret (Some (mkMx su ad (leftover p)))
  | _ => Err
  end.

(** Unmarshal(src, **Cache) -> Cache.UnmarshalOrdered *)
Definition unm_cache (g : gv) : res (option cache) :=
  match g with
  | GNull => ret None
  | GBool b => ret (Some (mkCache (negb b) "" [] "" []))
  | GStr s => ret (Some (mkCache false "" [s] "" []))
  | GSeq l => do ss <- mapM unm_string l; ret (Some (mkCache false "" ss "" []))
  | GMap m =>
      let p := partition_keys struct_Cache m in
      do d <- opt_field "Disabled" p false unm_bool;
      do n <- opt_field "Name" p "" unm_string;
      do ps <- opt_field "Paths" p None unm_strings;
      do sz <- opt_field "Size" p "" unm_string;
      ret (Some (mkCache d n (strings_or_nil ps) sz (leftover p)))
  | _ => Err
  end.

(** strings.Join(l, "\n") *)
Definition nl : string := String (ascii_of_nat 10) EmptyString.
Fixpoint join_nl (l : list string) : string :=
  match l with
  | [] => ""
  | [x] => x
  | x :: r => x ++ nl ++ join_nl r
  end.

(** CommandStep.UnmarshalOrdered *)
Definition unm_command (m : list (string * gv)) : res command_step :=
  let outer := partition_keys struct_CommandStep_UnmarshalOrdered_anon0 m in
  do cmds <- opt_field "Commands" outer None unm_strings;
  let p := partition_keys struct_CommandStep (leftover outer) in
  do k <- opt_field "Key" p "" unm_string;
  do l <- opt_field "Label" p "" unm_string;
  do _c <- opt_field "Command" p "" unm_string;     (* decoded, then overwritten below *)
  do pl <- opt_field "Plugins" p [] unm_plugins;
  do e <- opt_field "Env" p [] unm_map_ss;
  do sg <- opt_field "Signature" p None unm_sig;
  do mx <- opt_field "Matrix" p None unm_matrix;
  do ca <- opt_field "Cache" p None unm_cache;
  ret (mkCmd k l (join_nl (strings_or_nil cmds)) pl e sg mx ca (leftover p)).

(** ---------------------------------------------------------------- steps *)

Definition warn1 {T} (x : T) : res T := Ok x 1.

Fixpoint unm_steps (fuel : nat) (g : gv) {struct fuel} : res (list step) :=
  match fuel with
  | O => Err
  | S fuel' =>
      match g with
      | GNull => ret []
      | GSeq l => mapM (unm_step fuel') l
      | _ => Err
      end
  end
with unm_step (fuel : nat) (g : gv) {struct fuel} : res step :=
  match fuel with
  | O => Err
  | S fuel' =>
      match g with
      | GStr s =>
          match kind_of_scalar s with
          | KWait => ret (SWait s [])
          | KInput => ret (SInput s [])
          | _ => warn1 (SUnknown (GStr s))
          end
      | GMap m =>
          let fallback := warn1 (SUnknown (GMap m)) in
          let typed (k : kind) : res step :=
            match k with
            | KUnknown _ => fallback
            | KCommand => match unm_command m with Ok c w => Ok (SCommand c) w | Err => fallback end
            | KWait => ret (SWait "" m)
            | KInput => ret (SInput "" m)
            | KTrigger => ret (STrigger m)
            | KGroup =>
                let p := partition_keys struct_GroupStep m in
                match (do k <- opt_field "Key" p "" unm_string;
                       do gr <- match field "Group" p with
                                | Some GNull => ret None
                                | Some v => do s <- unm_string v; ret (Some s)
                                | None => ret None
                                end;
                       do ss <- opt_field "Steps" p [] (unm_steps fuel');
                       ret (SGroup k gr ss (leftover p))) with
                | Ok st w => Ok st w
                | Err => fallback
                end
            end in
          match aget "type" m with
          | Some (GStr t) => typed (kind_by_type t)
          | Some _ => Err
          | None => typed (kind_by_keys (map fst m))
          end
      | _ => Err
      end
  end.

(** Unmarshal(src, **ordered.MapSS) -> Map.UnmarshalOrdered *)
Definition unm_env_block (g : gv) : res (option (list (string * string))) :=
  match g with
  | GNull => ret None
  | GMap l => do e <- mapM (fun kv => do s <- unm_string (snd kv); ret (fst kv, s)) l; ret (Some e)
  | _ => Err
  end.

(** Pipeline.UnmarshalOrdered *)
Definition parse (fuel : nat) (g : gv) : res pipeline :=
  match g with
  | GMap m =>
      let p := partition_keys struct_Pipeline m in
      do ss <- match field "Steps" p with
               | Some v => do x <- unm_steps fuel v; ret (Some x)
               | None => ret None
               end;
      do e <- opt_field "Env" p None unm_env_block;
      ret (mkPipeline (match ss with Some x => x | None => [] end) e (leftover p)
                      (match ss with Some _ => false | None => true end))
  | GSeq _ => do ss <- unm_steps fuel g; ret (mkPipeline ss None [] false)
  | _ => Err
  end.

(** a fuel that always suffices: nesting depth of the document *)
Fixpoint gv_depth (g : gv) : nat :=
  match g with
  | GSeq l => S (fold_right (fun x acc => Nat.max (gv_depth x) acc) 0 l)
  | GMap l => S (fold_right (fun kv acc => Nat.max (gv_depth (snd kv)) acc) 0 l)
  | GUMap l => S (fold_right (fun kv acc => Nat.max (gv_depth (snd kv)) acc) 0 l)
  | _ => 1
  end.
Definition parse_doc (g : gv) : res pipeline := parse (S (gv_depth g)) g.
