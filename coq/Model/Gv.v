(** Generic decoded values (what ordered.DecodeYAML returns), JSON values, and
    helpers shared by the parse / marshal / interpolate models. *)
From Coq Require Import String List Ascii Bool ZArith.
From GP Require Import Base.Sexp.
Import ListNotations.
Local Open Scope string_scope.

Inductive gv : Type :=
| GNull
| GBool (b : bool)
| GInt (z : Z)
| GFloat (jtok stok : string)   (* float64: its json.Marshal and fmt.Sprint tokens (harness oracle) *)
| GStr (s : string)
| GTime (jtok : string)         (* time.Time from a YAML timestamp: its JSON token *)
| GSeq (l : list gv)            (* []any *)
| GMap (l : list (string * gv)) (* *ordered.Map[string, any] *)
| GUMap (l : list (string * gv)). (* map[string]any (unordered; encoders sort it) *)

Inductive json : Type :=
| JNull | JBool (b : bool) | JNum (tok : string) | JStr (s : string)
| JArr (l : list json) | JObj (l : list (string * json)).

(** fmt.Sprint of a scalar *)
Definition sprint (g : gv) : option string :=
  match g with
  | GStr s => Some s
  | GInt z => Some (z_to_string z)
  | GBool b => Some (if b then "true" else "false")
  | GFloat _ st => Some st
  | _ => None
  end.

(** insertion sort of an association list by key (bytewise), as encoding/json
    and yaml.v3 do for Go maps *)
Fixpoint ins_sorted {T} (k : string) (v : T) (l : list (string * T)) : list (string * T) :=
  match l with
  | [] => [(k, v)]
  | (k', v') :: r => if String.leb k k' then (k, v) :: l else (k', v') :: ins_sorted k v r
  end.
Definition sort_keys {T} (l : list (string * T)) : list (string * T) :=
  fold_right (fun kv acc => ins_sorted (fst kv) (snd kv) acc) [] l.

(** Go map assignment m[k] = v on an association list (order irrelevant) *)
Fixpoint aset {T} (k : string) (v : T) (l : list (string * T)) : list (string * T) :=
  match l with
  | [] => [(k, v)]
  | (k', v') :: r => if String.eqb k k' then (k, v) :: r else (k', v') :: aset k v r
  end.
Fixpoint aget {T} (k : string) (l : list (string * T)) : option T :=
  match l with
  | [] => None
  | (k', v) :: r => if String.eqb k k' then Some v else aget k r
  end.
Fixpoint adel {T} (k : string) (l : list (string * T)) : list (string * T) :=
  match l with
  | [] => []
  | (k', v) :: r => if String.eqb k k' then adel k r else (k', v) :: adel k r
  end.
Definition ahas {T} (k : string) (l : list (string * T)) : bool :=
  match aget k l with Some _ => true | None => false end.

(** json.Marshal of a generic value.  ordered maps keep their order, Go maps are sorted. *)
Fixpoint gv_json (g : gv) : json :=
  match g with
  | GNull => JNull
  | GBool b => JBool b
  | GInt z => JNum (z_to_string z)
  | GFloat j _ => JNum j
  | GStr s => JStr s
  | GTime j => JStr j
  | GSeq l => JArr (map gv_json l)
  | GMap l => JObj (map (fun kv => (fst kv, gv_json (snd kv))) l)
  | GUMap l => JObj (sort_keys (map (fun kv => (fst kv, gv_json (snd kv))) l))
  end.

(** ordered.ToMapRecursive *)
Fixpoint to_map_recursive (g : gv) : gv :=
  match g with
  | GMap l => GUMap (map (fun kv => (fst kv, to_map_recursive (snd kv))) l)
  | GSeq l => GSeq (map to_map_recursive l)
  | _ => g
  end.

(** wire format *)
Fixpoint gv_of_sexp (s : sexp) : gv :=
  match s with
  | L (A tag :: args) =>
      if String.eqb tag "n" then GNull
      else if String.eqb tag "b" then GBool (match args with [x] => bool_of x | _ => false end)
      else if String.eqb tag "i" then GInt (match args with [x] => z_of x | _ => 0%Z end)
      else if String.eqb tag "f" then (match args with [A j; A st] => GFloat j st | _ => GNull end)
      else if String.eqb tag "s" then GStr (match args with [x] => atom_of x | _ => "" end)
      else if String.eqb tag "t" then GTime (match args with [x] => atom_of x | _ => "" end)
      else if String.eqb tag "l" then GSeq (map gv_of_sexp args)
      else if String.eqb tag "m" then
        GMap (map (fun e => match e with L [A k; v] => (k, gv_of_sexp v) | _ => ("", GNull) end) args)
      else if String.eqb tag "u" then
        GUMap (map (fun e => match e with L [A k; v] => (k, gv_of_sexp v) | _ => ("", GNull) end) args)
      else GNull
  | _ => GNull
  end.

Fixpoint json_sexp (j : json) : sexp :=
  match j with
  | JNull => L [A "n"]
  | JBool b => L [A "b"; sbool b]
  | JNum t => L [A "#"; A t]
  | JStr s => L [A "s"; A s]
  | JArr l => L (A "a" :: map json_sexp l)
  | JObj l => L (A "o" :: map (fun kv => L [A (fst kv); json_sexp (snd kv)]) l)
  end.

Fixpoint gv_sexp (g : gv) : sexp :=
  match g with
  | GNull => L [A "n"]
  | GBool b => L [A "b"; sbool b]
  | GInt z => L [A "i"; sz z]
  | GFloat j st => L [A "f"; A j; A st]
  | GStr s => L [A "s"; A s]
  | GTime j => L [A "t"; A j]
  | GSeq l => L (A "l" :: map gv_sexp l)
  | GMap l => L (A "m" :: map (fun kv => L [A (fst kv); gv_sexp (snd kv)]) l)
  | GUMap l => L (A "u" :: map (fun kv => L [A (fst kv); gv_sexp (snd kv)]) l)
  end.
