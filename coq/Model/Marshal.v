(** The JSON marshal side: inlineFriendlyMarshalJSON and every MarshalJSON
    override (json.go, step_*.go, plugin.go, step_command_matrix.go,
    step_command_cache.go), producing a JSON value whose object member order is
    the order encoding/json emits (Go maps sorted, ordered maps in order). *)
From Coq Require Import String List Ascii Bool ZArith.
From GP Require Import Base.Sexp Model.Gv Model.Plugin Model.Pipeline.
Import ListNotations.
Local Open Scope string_scope.

Definition jstrs (l : list string) : json := JArr (map JStr l).

(** inlineFriendlyMarshalJSON: inline fields first, outline fields override, then
    json.Marshal of the resulting Go map (sorted keys) *)
Definition inline_friendly (outline : list (string * json)) (inline : list (string * gv)) : json :=
  JObj (sort_keys (fold_left (fun acc kv => aset (fst kv) (snd kv) acc) outline
                             (fold_left (fun acc kv => aset (fst kv) (gv_json (snd kv)) acc) inline []))).

(** `omitempty` entries *)
Definition oe (cond : bool) (k : string) (v : json) : list (string * json) :=
  if cond then [] else [(k, v)].


(** `skip,omitempty` of a matrix adjustment (MatrixAdjustment.MarshalJSON, after the fix of finding F21): the value
    is left out only when it means "do not skip" - nil or false; every other value means skip (ShouldSkip), however
    empty it looks, and is written *)
Definition is_empty_any (g : gv) : bool :=
  match g with
  | GNull => true
  | GBool b => negb b
  | _ => false
  end.

Definition mj_sig (s : signature) : json :=
  JObj [("algorithm", JStr (sg_alg s));
        ("signed_fields", match sg_fields s with Some l => jstrs l | None => JNull end);
        ("value", JStr (sg_value s))].

(** Plugin.MarshalJSON *)
Definition mj_plugin (p : plugin) : json :=
  let cfg := match pl_config p with
             | GUMap [] => JNull
             | GSeq [] => JNull
             | c => gv_json c
             end in
  JObj [(full_source (pl_source p), cfg)].

Definition mj_map_ss (l : list (string * string)) : json :=
  JObj (sort_keys (map (fun kv => (fst kv, JStr (snd kv))) l)).

(** MatrixAdjustmentWith.MarshalJSON *)
Definition mj_with (w : option (list (string * string))) : json :=
  match w with
  | None => mj_map_ss []          (* an adjustment without a with: {} in both formats (fix F20) *)
  | Some l => match l with
              | [(k, v)] => if String.eqb k "" then JStr v else mj_map_ss l
              | _ => mj_map_ss l
              end
  end.

Definition mj_adj (a : option madj) : json :=
  match a with
  | None => JNull
  | Some a =>
      inline_friendly ([("with", mj_with (ma_with a))] ++ oe (is_empty_any (ma_skip a)) "skip" (gv_json (ma_skip a)))
                      (ma_rem a)
  end.

Definition mj_strs_opt (o : option (list string)) : json :=
  match o with Some l => jstrs l | None => JNull end.

(** MatrixSetup.MarshalJSON *)
Definition setup_anon (su : list (string * option (list string))) : option (list string) :=
  match su with
  | [(k, Some (x :: r))] => if String.eqb k "" then Some (x :: r) else None
  | _ => None
  end.
Definition mj_setup (su : option (list (string * option (list string)))) : json :=
  match su with
  | None => JNull
  | Some [] => JNull                      (* an empty setup marshals like a nil one *)
  | Some l => match setup_anon l with
              | Some vs => jstrs vs
              | None => JObj (sort_keys (map (fun kv => (fst kv, mj_strs_opt (snd kv))) l))
              end
  end.

(** Matrix.isSimple / MarshalJSON *)
Definition mx_simple (m : matrix) : option (list string) :=
  match mx_setup m, mx_adj m, mx_rem m with
  | Some l, [], [] => setup_anon l
  | _, _, _ => None
  end.
Definition mj_matrix (m : matrix) : json :=
  match mx_simple m with
  | Some vs => jstrs vs
  | None =>
      inline_friendly ([("setup", mj_setup (mx_setup m))]
                         ++ oe (match mx_adj m with [] => true | _ => false end) "adjustments" (JArr (map mj_adj (mx_adj m))))
                      (mx_rem m)
  end.

(** Cache.MarshalJSON *)
Definition mj_cache (c : cache) : json :=
  if ca_disabled c then JBool false
  else inline_friendly (oe (String.eqb (ca_name c) "") "name" (JStr (ca_name c))
                          ++ oe (match ca_paths c with [] => true | _ => false end) "paths" (jstrs (ca_paths c))
                          ++ oe (String.eqb (ca_size c) "") "size" (JStr (ca_size c)))
                       (ca_rem c).

Definition mj_command (c : command_step) : json :=
  inline_friendly
    (oe (String.eqb (cs_key c) "") "key" (JStr (cs_key c))
       ++ oe (String.eqb (cs_label c) "") "label" (JStr (cs_label c))
       ++ [("command", JStr (cs_command c))]
       ++ oe (match cs_plugins c with [] => true | _ => false end) "plugins" (JArr (map mj_plugin (cs_plugins c)))
       ++ oe (match cs_env c with [] => true | _ => false end) "env" (mj_map_ss (cs_env c))
       ++ match cs_sig c with Some s => [("signature", mj_sig s)] | None => [] end
       ++ match cs_matrix c with Some m => [("matrix", mj_matrix m)] | None => [] end
       ++ match cs_cache c with Some x => [("cache", mj_cache x)] | None => [] end)
    (cs_rem c).

Definition mj_contents (l : list (string * gv)) : json := gv_json (GUMap l).

Fixpoint mj_step (s : step) : json :=
  match s with
  | SCommand c => mj_command c
  | SWait sc ct => if negb (String.eqb sc "") then JStr sc
                   else match ct with [] => JStr "wait" | _ => mj_contents ct end
  | SInput sc ct => if negb (String.eqb sc "") then JStr sc else mj_contents ct
  | STrigger ct => match ct with [] => JNull | _ => mj_contents ct end
  | SGroup k g ss rem =>
      inline_friendly (oe (String.eqb k "") "key" (JStr k)
                         ++ [("group", match g with Some x => JStr x | None => JNull end);
                             ("steps", JArr (map mj_step ss))])
                      rem
  | SUnknown c => gv_json c
  end.

Definition mj_env_block (l : list (string * string)) : json :=
  JObj (map (fun kv => (fst kv, JStr (snd kv))) l).

Definition mj_pipeline (p : pipeline) : json :=
  inline_friendly ([("steps", JArr (map mj_step (pp_steps p)))]
                     ++ match pp_env p with Some e => [("env", mj_env_block e)] | None => [] end)
                  (pp_rem p).

(** ---------------------------------------------------------------- *)
(** when json.Marshal fails: an empty input step, or a non-finite float
    (represented with an empty JSON token) anywhere *)
Fixpoint gv_finite (g : gv) : bool :=
  match g with
  | GFloat j _ => negb (String.eqb j "")
  | GSeq l => forallb gv_finite l
  | GMap l => forallb (fun kv => gv_finite (snd kv)) l
  | GUMap l => forallb (fun kv => gv_finite (snd kv)) l
  | _ => true
  end.
Definition rem_finite (l : list (string * gv)) : bool := forallb (fun kv => gv_finite (snd kv)) l.

Definition matrix_ok (m : matrix) : bool :=
  rem_finite (mx_rem m) &&
  forallb (fun a => match a with
                    | Some a => gv_finite (ma_skip a) && rem_finite (ma_rem a)
                    | None => true end) (mx_adj m).

Definition command_ok (c : command_step) : bool :=
  forallb (fun p => gv_finite (pl_config p)) (cs_plugins c) && rem_finite (cs_rem c) &&
  match cs_matrix c with Some m => matrix_ok m | None => true end &&
  match cs_cache c with Some x => ca_disabled x || rem_finite (ca_rem x) | None => true end.

Fixpoint step_ok (s : step) : bool :=
  match s with
  | SCommand c => command_ok c
  | SWait sc ct => negb (String.eqb sc "") || rem_finite ct
  | SInput sc ct => negb (String.eqb sc "") || (match ct with [] => false | _ => true end && rem_finite ct)
  | STrigger ct => rem_finite ct
  | SGroup _ _ ss rem => forallb step_ok ss && rem_finite rem
  | SUnknown c => gv_finite c
  end.

Definition pipeline_ok (p : pipeline) : bool := forallb step_ok (pp_steps p) && rem_finite (pp_rem p).

Definition marshal_json (p : pipeline) : option json :=
  if pipeline_ok p then Some (mj_pipeline p) else None.
