(** Model of the generic (reflective) part of ordered/unmarshal.go: Unmarshal /
    unmarshalScalar / decodeInto for arbitrary target types built from strings,
    ints, bools, floats, `any`, pointers, slices, string-keyed maps and tagged
    structs (descriptors = field rows regenerated from Go struct tags), plus a
    reference decoder standing for the YAML library's own structural decoding
    and the default encoding/json rendering of destination values. *)
From Coq Require Import String List Ascii Bool Arith ZArith.
From GP Require Import Base.Sexp Model.Gv Model.Decode Gen.Structs.
Import ListNotations.
Local Open Scope string_scope.
Local Open Scope list_scope.

Inductive ty : Type :=
| TString | TInt | TBool | TFloat | TAny
| TPtr (t : ty) | TSlice (t : ty) | TMap (t : ty)      (* map[string]t *)
| TStruct (name : string).

Inductive val : Type :=
| VNil                                   (* nil pointer / slice / map / interface *)
| VStr (s : string) | VInt (z : Z) | VBool (b : bool) | VFloat (jtok stok : string)
| VAny (g : gv)
| VPtr (v : val)
| VSlice (l : list val)
| VMap (l : list (string * val))
| VStruct (fields : list (string * val)).      (* exported fields by Go name, declaration order *)

(** Go type expressions as written in the field rows *)
Fixpoint strip (p s : string) : option string :=
  match p with
  | EmptyString => Some s
  | String a p' => match s with
                   | String b s' => if Ascii.eqb a b then strip p' s' else None
                   | EmptyString => None
                   end
  end.
Fixpoint parse_ty (fuel : nat) (s : string) : ty :=
  match fuel with
  | O => TStruct s
  | S f =>
      match strip "*" s with
      | Some r => TPtr (parse_ty f r)
      | None =>
          match strip "[]" s with
          | Some r => TSlice (parse_ty f r)
          | None =>
              match strip "map[string]" s with
              | Some r => TMap (parse_ty f r)
              | None =>
                  if String.eqb s "string" then TString
                  else if String.eqb s "int" then TInt
                  else if String.eqb s "bool" then TBool
                  else if String.eqb s "float64" then TFloat
                  else if String.eqb s "any" then TAny
                  else TStruct s
              end
          end
      end
  end.
Definition ty_of_row (r : field_row) : ty := parse_ty (S (String.length (row_type r))) (row_type r).

Section Reflect.
  Variable structs : list (string * list field_row).
  Variable zf : nat.     (* fuel for zero values: any number above the by-value struct nesting depth *)

  Definition fields_of (n : string) : list field_row :=
    match aget n structs with Some l => l | None => [] end.
  Definition exported (n : string) : list field_row :=
    filter (fun r => is_exported (row_name r)) (fields_of n).

  Fixpoint zero (fuel : nat) (t : ty) : val :=
    match t with
    | TString => VStr ""
    | TInt => VInt 0
    | TBool => VBool false
    | TFloat => VFloat "0" "0"
    | TAny | TPtr _ | TSlice _ | TMap _ => VNil
    | TStruct n =>
        match fuel with
        | O => VStruct []
        | S f => VStruct (map (fun r => (row_name r, zero f (ty_of_row r))) (exported n))
        end
    end.

  Inductive ures := UOk (v : val) | UErr.

  Definition struct_get (name : string) (fs : list (string * val)) : option val := aget name fs.
  Definition struct_set (name : string) (v : val) (fs : list (string * val)) : list (string * val) :=
    map (fun kv => if String.eqb (fst kv) name then (fst kv, v) else kv) fs.

  (** unmarshalScalar: the typed scalar cases *)
  Definition scalar_into (fuel : nat) (t : ty) (g : gv) (old : val) : ures :=
    let app (x : val) := UOk (VSlice (match old with VSlice l => l | _ => [] end ++ [x])) in
    match g, t with
    | GStr s, TString => UOk (VStr s)
    | GInt z, TInt => UOk (VInt z)
    | GBool b, TBool => UOk (VBool b)
    | GFloat j st, TFloat => UOk (VFloat j st)
    | GStr s, TSlice TString => app (VStr s)
    | GInt z, TSlice TInt => app (VInt z)
    | GBool b, TSlice TBool => app (VBool b)
    | GFloat j st, TSlice TFloat => app (VFloat j st)
    | _, TSlice TAny => match g with
                        | GStr _ | GInt _ | GBool _ | GFloat _ _ => app (VAny g)
                        | _ => UErr end
    | _, TString => match sprint g with Some s => UOk (VStr s) | None => UErr end
    | _, TSlice TString => match sprint g with Some s => app (VStr s) | None => UErr end
    | _, _ => UErr
    end.

  (** Unmarshal(src, &dst) where dst currently holds [old] *)
  Fixpoint unm (fuel : nat) (t : ty) (g : gv) (old : val) {struct fuel} : ures :=
    match fuel with
    | O => UErr
    | S f =>
        match g with
        | GNull => UOk (zero zf t)
        | _ =>
            match t with
            | TPtr u =>
                let inner := match old with VPtr v => v | _ => zero zf u end in
                match unm f u g inner with UOk v => UOk (VPtr v) | UErr => UErr end
            | TAny => UOk (VAny g)
            | _ =>
                match g with
                | GMap m =>
                    match t with
                    | TMap vt =>
                        (fix each (m : list (string * gv)) (acc : list (string * val)) : ures :=
                           match m with
                           | [] => UOk (VMap acc)
                           | (k, v) :: r =>
                               match unm f vt v (zero zf vt) with
                               | UOk nv => each r (aset k nv acc)
                               | UErr => UErr
                               end
                           end) m (match old with VMap l => l | _ => [] end)
                    | TStruct n =>
                        let p := partition_keys (fields_of n) m in
                        if multiple_inline p then UErr
                        else
                          let fs0 := match old with
                                     | VStruct fs => fs
                                     | _ => match zero zf t with VStruct fs => fs | _ => [] end
                                     end in
                          match (fix each (asg : list (field_row * string * gv)) (fs : list (string * val)) : option (list (string * val)) :=
                                   match asg with
                                   | [] => Some fs
                                   | (r, _, v) :: rest =>
                                       let cur := match struct_get (row_name r) fs with Some x => x | None => VNil end in
                                       match unm f (ty_of_row r) v cur with
                                       | UOk nv => each rest (struct_set (row_name r) nv fs)
                                       | UErr => None
                                       end
                                   end) (assigned p) fs0 with
                          | None => UErr
                          | Some fs1 =>
                              match inline_field p, leftover p with
                              | Some r, (_ :: _) as lo =>
                                  let cur := match struct_get (row_name r) fs1 with Some x => x | None => VNil end in
                                  match unm f (ty_of_row r) (GMap lo) cur with
                                  | UOk nv => UOk (VStruct (struct_set (row_name r) nv fs1))
                                  | UErr => UErr
                                  end
                              | _, _ => UOk (VStruct fs1)
                              end
                          end
                    | _ => UErr
                    end
                | GSeq l =>
                    match t with
                    | TSlice et =>
                        (* a non-nil source always yields a non-nil slice *)
                        (fix each (l : list gv) (acc : list val) : ures :=
                           match l with
                           | [] => UOk (VSlice acc)
                           | a :: r =>
                               match unm f et a (zero zf et) with
                               | UOk x => each r (acc ++ [x])
                               | UErr => UErr
                               end
                           end) l (match old with VSlice x => x | _ => [] end)
                    | _ => UErr
                    end
                | GTime _ | GUMap _ => UErr
                | _ => scalar_into f t g old
                end
            end
        end
    end.

  (** ------------------------------------------------------------------ *)
  (** the structural reference decoder (what the YAML library's decoder does for
      alias-free targets and well-typed documents) *)
  Definition ref_lookup (r : field_row) (m : list (string * gv)) : option gv := aget (primary_key r) m.

  Fixpoint ref (fuel : nat) (t : ty) (g : gv) {struct fuel} : val :=
    match fuel with
    | O => VNil
    | S f =>
        match g with
        | GNull => zero zf t
        | _ =>
            match t with
            | TString => match g with GStr s => VStr s | _ => zero zf t end
            | TInt => match g with GInt z => VInt z | _ => zero zf t end
            | TBool => match g with GBool b => VBool b | _ => zero zf t end
            | TFloat => match g with GFloat j st => VFloat j st | _ => zero zf t end
            | TAny => VAny g
            | TPtr u => VPtr (ref f u g)
            | TSlice et => match g with GSeq l => VSlice (map (ref f et) l) | _ => VNil end
            | TMap vt =>
                match g with
                | GMap m => VMap (fold_left (fun acc kv => aset (fst kv) (ref f vt (snd kv)) acc) m [])
                | _ => VNil
                end
            | TStruct n =>
                match g with
                | GMap m =>
                    let keyed := filter (fun r => match classify r with FKeyed => true | _ => false end) (fields_of n) in
                    let inl := (fix find (l : list field_row) : option field_row :=
                                  match l with
                                  | [] => None
                                  | r :: rest => match find rest with
                                                 | Some x => Some x
                                                 | None => match classify r with FInline => Some r | _ => None end
                                                 end
                                  end) (fields_of n) in
                    let lo := filter (fun kv => negb (existsb (fun r => String.eqb (primary_key r) (fst kv)) keyed)) m in
                    let fs0 := match zero zf t with VStruct fs => fs | _ => [] end in
                    let z := fun r : field_row => match aget (row_name r) fs0 with Some x => x | None => VNil end in
                    VStruct (map (fun r =>
                                    (row_name r,
                                     match classify r with
                                     | FKeyed => match ref_lookup r m with
                                                 | Some v => ref f (ty_of_row r) v
                                                 | None => z r
                                                 end
                                     | FInline =>
                                         match inl, lo with
                                         | Some r', (_ :: _) =>
                                             if String.eqb (row_name r') (row_name r) then ref f (ty_of_row r) (GMap lo)
                                             else z r
                                         | _, _ => z r
                                         end
                                     | FSkip => z r
                                     end)) (exported n))
                | _ => zero zf t
                end
            end
        end
    end.

  (** ------------------------------------------------------------------ *)
  (** encoding/json's default rendering of a destination value *)
  Fixpoint val_json (fuel : nat) (t : ty) (v : val) {struct fuel} : json :=
    match fuel with
    | O => JNull
    | S f =>
        match t, v with
        | TString, VStr s => JStr s
        | TInt, VInt z => JNum (z_to_string z)
        | TBool, VBool b => JBool b
        | TFloat, VFloat j _ => JNum j
        | TAny, VAny g => gv_json g
        | TPtr u, VPtr x => val_json f u x
        | TSlice et, VSlice l => JArr (map (val_json f et) l)
        | TMap vt, VMap l => JObj (sort_keys (map (fun kv => (fst kv, val_json f vt (snd kv))) l))
        | TStruct n, VStruct fs =>
            JObj (map (fun r => (row_name r,
                                 val_json f (ty_of_row r)
                                          (match aget (row_name r) fs with Some x => x | None => VNil end)))
                      (exported n))
        | _, _ => JNull
        end
    end.
End Reflect.

Definition reflect_fuel (g : gv) : nat := 64.
