(** Model of step_command_matrix.go: validatePermutation and ShouldSkip.
    Go maps (setup, adjustment "with", the permutation) are association lists;
    the list order stands for the iteration order Go happens to choose, and the
    theorems hold for every order. *)
From Coq Require Import String List Bool Arith.
Import ListNotations.

Inductive skipval := SkAbsent | SkBool (b : bool) | SkOther.

Record adjustment := mkAdj { awith : list (string * string); askip : skipval }.

(** Setup map[string][]string: a value can be a nil slice (None) *)
Record matrix := mkMatrix {
  msetup : list (string * option (list string));
  madj : list (option adjustment)      (* []*MatrixAdjustment; None = nil pointer *)
}.

Definition perm := list (string * string).

Inductive reject_kind :=
| RNilMatrix | RPermLen | RPermDim | RAdjNil | RAdjLen | RAdjDim | RSkipped | RNoMatch.

Inductive verdict := Accept | Reject (k : reject_kind).

Fixpoint assoc {T} (k : string) (l : list (string * T)) : option T :=
  match l with
  | [] => None
  | (k', v) :: r => if String.eqb k k' then Some v else assoc k r
  end.

(** m.Setup[dim]: nil when the key is absent or its slice is nil *)
Definition setup_get (m : matrix) (dim : string) : option (list string) :=
  match assoc dim (msetup m) with
  | Some (Some l) => Some l
  | _ => None
  end.

(** adj.With[dim]: "" when absent *)
Definition with_get (a : adjustment) (dim : string) : string :=
  match assoc dim (awith a) with Some v => v | None => EmptyString end.

(** func (ma *MatrixAdjustment) ShouldSkip() *)
Definition should_skip (a : adjustment) : bool :=
  match askip a with
  | SkBool b => b
  | SkAbsent => false
  | SkOther => true
  end.

Definition dims_known (m : matrix) (keys : list string) : bool :=
  forallb (fun d => match setup_get m d with Some _ => true | None => false end) keys.

Definition in_setup (m : matrix) (p : perm) : bool :=
  forallb (fun dv => match setup_get m (fst dv) with
                     | Some l => existsb (String.eqb (snd dv)) l
                     | None => false
                     end) p.

Definition adj_matches (a : adjustment) (p : perm) : bool :=
  forallb (fun dv => String.eqb (snd dv) (with_get a (fst dv))) p.

(** the loop over m.Adjustments, carrying [valid] *)
Fixpoint adj_loop (m : matrix) (p : perm) (adjs : list (option adjustment)) (valid : bool) : verdict :=
  match adjs with
  | [] => if valid then Accept else Reject RNoMatch
  | None :: _ => Reject RAdjNil
  | Some a :: r =>
      if negb (Nat.eqb (length (awith a)) (length (msetup m))) then Reject RAdjLen
      else if negb (dims_known m (map fst (awith a))) then Reject RAdjDim
      else if negb (adj_matches a p) then adj_loop m p r valid
      else if should_skip a then Reject RSkipped
      else adj_loop m p r true
  end.

(** func (m *Matrix) validatePermutation(p) *)
Definition validate (m : option matrix) (p : perm) : verdict :=
  match m with
  | None => if Nat.ltb 0 (length p) then Reject RNilMatrix else Accept
  | Some m =>
      if negb (Nat.eqb (length p) (length (msetup m))) then Reject RPermLen
      else if negb (dims_known m (map fst p)) then Reject RPermDim
      else adj_loop m p (madj m) (in_setup m p)
  end.

Definition accepted (v : verdict) : bool := match v with Accept => true | _ => false end.
