(** Model of the struct part of ordered/unmarshal.go:decodeInto: which input
    key goes to which struct field, and what is left for the inline field.
    Works directly on the field rows regenerated from the Go source
    (Gen/Structs.v): the tag parsing below is the code's, not the translator's. *)
From Coq Require Import String List Ascii Bool Arith.
From GP Require Import Model.Gv Gen.Structs.
Import ListNotations.
Local Open Scope string_scope.

Definition row_name (r : field_row) : string := fst (fst (fst (fst r))).
Definition row_has_yaml (r : field_row) : bool := fst (snd (fst (fst (fst r)))).
Definition row_yaml (r : field_row) : string := snd (snd (fst (fst (fst r)))).
Definition row_aliases (r : field_row) : string := snd (fst (fst r)).
Definition row_json (r : field_row) : string := snd (fst r).
Definition row_type (r : field_row) : string := snd r.

(** strings.Cut(s, ",") *)
Fixpoint cut_comma (s : string) : string * string :=
  match s with
  | EmptyString => (EmptyString, EmptyString)
  | String a r => if Ascii.eqb a "," then (EmptyString, r)
                  else let (x, y) := cut_comma r in (String a x, y)
  end.
(** strings.Split(s, ",") *)
Fixpoint split_comma (s : string) : list string :=
  match s with
  | EmptyString => [EmptyString]
  | String a r =>
      if Ascii.eqb a "," then EmptyString :: split_comma r
      else match split_comma r with
           | p :: ps => String a p :: ps
           | [] => [String a EmptyString]
           end
  end.

Definition lower_ascii (a : ascii) : ascii :=
  let n := nat_of_ascii a in
  if Nat.leb 65 n && Nat.leb n 90 then ascii_of_nat (n + 32) else a.
Fixpoint to_lower (s : string) : string :=
  match s with EmptyString => EmptyString | String a r => String (lower_ascii a) (to_lower r) end.

Definition is_exported (name : string) : bool :=
  match name with
  | String a _ => let n := nat_of_ascii a in Nat.leb 65 n && Nat.leb n 90
  | EmptyString => false
  end.

(** the primary key of a field: tag up to the first comma, else the lower-cased name *)
Definition primary_key (r : field_row) : string :=
  let k := fst (cut_comma (row_yaml r)) in
  if String.eqb k "" then to_lower (row_name r) else k.

(** first alias present in m (empty aliases are skipped: fix of finding F4) *)
Fixpoint first_alias (aliases : list string) (m : list (string * gv)) : option (string * gv) :=
  match aliases with
  | [] => None
  | a :: r =>
      if String.eqb a "" then first_alias r m
      else match aget a m with
           | Some v => Some (a, v)
           | None => first_alias r m
           end
  end.

Inductive field_class := FSkip | FInline | FKeyed.
Definition classify (r : field_row) : field_class :=
  if negb (is_exported (row_name r)) then FSkip
  else if String.eqb (row_yaml r) "-" then FSkip
  else if String.eqb (row_yaml r) ",inline" then FInline
  else FKeyed.

(** which (key, value) a keyed field takes from m, if any *)
Definition field_lookup (r : field_row) (m : list (string * gv)) : option (string * gv) :=
  match aget (primary_key r) m with
  | Some v => Some (primary_key r, v)
  | None => first_alias (split_comma (row_aliases r)) m
  end.

Record partition := mkPartition {
  assigned : list (field_row * string * gv);  (* field, the key it consumed, the value *)
  inline_field : option field_row;
  multiple_inline : bool;
  leftover : list (string * gv)               (* in document order *)
}.

Fixpoint assign_fields (fields : list field_row) (m : list (string * gv))
  : list (field_row * string * gv) * option field_row * bool :=
  match fields with
  | [] => ([], None, false)
  | r :: rest =>
      let '(asg, inf, multi) := assign_fields rest m in
      match classify r with
      | FSkip => (asg, inf, multi)
      | FInline => (asg, Some r, match inf with Some _ => true | None => multi end)
      | FKeyed =>
          match field_lookup r m with
          | Some (k, v) => ((r, k, v) :: asg, inf, multi)
          | None => (asg, inf, multi)
          end
      end
  end.

Definition partition_keys (fields : list field_row) (m : list (string * gv)) : partition :=
  let '(asg, inf, multi) := assign_fields fields m in
  let outline := map (fun a => snd (fst a)) asg in
  mkPartition asg inf multi
              (filter (fun kv => negb (existsb (String.eqb (fst kv)) outline)) m).

(** value assigned to the field with Go name [name], if any *)
Fixpoint assigned_to (name : string) (asg : list (field_row * string * gv)) : option gv :=
  match asg with
  | [] => None
  | (r, _, v) :: rest => if String.eqb (row_name r) name then Some v else assigned_to name rest
  end.
