(** Model of jwkutil/validate.go (Validate) and jwkutil/load_key.go
    (fromIdOrOnlyKey + Validate).  What the JOSE library decides — structural
    validity, whether an algorithm is declared, whether it is a signature
    algorithm, the key type — is input. *)
From Coq Require Import String List Bool.
Import ListNotations.
Local Open Scope string_scope.

Record keyinfo := mkKey {
  k_valid : bool;      (* key.Validate() == nil *)
  k_has_alg : bool;    (* key.Get(jwk.AlgorithmKey) present *)
  k_is_sig : bool;     (* key.Algorithm() is a jwa.SignatureAlgorithm *)
  k_alg : string;      (* key.Algorithm().String() *)
  k_kty : string       (* key.KeyType().String() *)
}.

Inductive verr :=
| EInvalidKey | EMissingAlg | EInvalidSigningAlg | EUnsupportedSigningAlg
| EUnsupportedKeyType | EUnsupportedAlgForKeyType.

(** the approved tables *)
Definition valid_algs_for_kty : list (string * list string) :=
  [("RSA", ["PS512"]); ("EC", ["ES512"]); ("OKP", ["EdDSA"])].
Definition valid_signing_algs : list string := ["PS512"; "ES512"; "EdDSA"].
Definition valid_ktys : list string := ["RSA"; "EC"; "oct"; "OKP"].

Definition mem (s : string) (l : list string) : bool := existsb (String.eqb s) l.
Fixpoint lookup (k : string) (l : list (string * list string)) : list string :=
  match l with
  | [] => []
  | (k', v) :: r => if String.eqb k k' then v else lookup k r
  end.

Definition validate (k : keyinfo) : option verr :=
  if negb (k_valid k) then Some EInvalidKey
  else if negb (k_has_alg k) then Some EMissingAlg
  else if negb (k_is_sig k) then Some EInvalidSigningAlg
  else if negb (mem (k_alg k) valid_signing_algs) then Some EUnsupportedSigningAlg
  else if negb (mem (k_kty k) valid_ktys) then Some EUnsupportedKeyType
  else if negb (mem (k_alg k) (lookup (k_kty k) valid_algs_for_kty)) then Some EUnsupportedAlgForKeyType
  else None.

(** a key set: (kid, key) in file order *)
Definition keyset := list (string * keyinfo).

Inductive lerr := LNoKeyID | LNotFound | LInvalid (e : verr).

Fixpoint find_kid (id : string) (n : nat) (ks : keyset) : option (nat * keyinfo) :=
  match ks with
  | [] => None
  | (kid, k) :: r => if String.eqb kid id then Some (n, k) else find_kid id (S n) r
  end.

(** LoadKey after parsing: index of the chosen key, or an error *)
Definition load (ks : keyset) (id : string) : nat * keyinfo + lerr :=
  let chosen :=
    if String.eqb id "" then
      match ks with
      | [(_, k)] => inl (0, k)
      | _ => inr LNoKeyID
      end
    else match find_kid id 0 ks with
         | Some r => inl r
         | None => inr LNotFound
         end in
  match chosen with
  | inl (n, k) => match validate k with None => inl (n, k) | Some e => inr (LInvalid e) end
  | inr e => inr e
  end.
