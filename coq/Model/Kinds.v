(** Model of steps.go / step_scalar.go: which kind of step a mapping or scalar
    becomes.  The tables come from Gen/Kinds.v (regenerated from the source);
    Tie/TieKinds.v proves them equal to the documented rule table below. *)
From Coq Require Import String List Bool.
Import ListNotations.
Local Open Scope string_scope.

Inductive sentinel := ErrUnknownStepType | ErrStepTypeInference.
Inductive kind := KCommand | KWait | KInput | KTrigger | KGroup | KUnknown (s : sentinel).

Definition mem (s : string) (l : list string) : bool := existsb (String.eqb s) l.

(** the documented rule table (property C15) *)
Definition families : list (list string * kind) :=
  [ (["command"; "commands"; "plugins"], KCommand);
    (["wait"; "waiter"], KWait);
    (["block"; "input"; "manual"], KInput);
    (["trigger"], KTrigger);
    (["group"], KGroup) ].
Definition type_table : list (list string * kind) :=
  [ (["command"; "script"], KCommand);
    (["wait"; "waiter"], KWait);
    (["block"; "input"; "manual"], KInput);
    (["trigger"], KTrigger);
    (["group"], KGroup) ].
Definition scalar_table : list (list string * kind) :=
  [ (["wait"; "waiter"], KWait);
    (["block"; "input"; "manual"], KInput) ].

(** switch sType { case ...: } — first row whose labels contain t *)
Fixpoint by_label (tbl : list (list string * kind)) (t : string) (dflt : kind) : kind :=
  match tbl with
  | [] => dflt
  | (labels, k) :: r => if mem t labels then k else by_label r t dflt
  end.

(** switch { case o.Contains(a) || o.Contains(b): } — first row one of whose keys is present *)
Fixpoint by_keys (tbl : list (list string * kind)) (keys : list string) (dflt : kind) : kind :=
  match tbl with
  | [] => dflt
  | (fam, k) :: r => if existsb (fun x => mem x keys) fam then k else by_keys r keys dflt
  end.

Definition kind_by_type (t : string) : kind := by_label type_table t (KUnknown ErrUnknownStepType).
Definition kind_by_keys (keys : list string) : kind := by_keys families keys (KUnknown ErrStepTypeInference).
Definition kind_of_scalar (s : string) : kind := by_label scalar_table s (KUnknown ErrUnknownStepType).

(** stepFromMap: the `type` value when present (a string), otherwise inference *)
Definition kind_of_map (ty : option string) (keys : list string) : kind :=
  match ty with
  | Some t => kind_by_type t
  | None => kind_by_keys keys
  end.

Definition kind_name (k : kind) : string :=
  match k with
  | KCommand => "CommandStep" | KWait => "WaitStep" | KInput => "InputStep"
  | KTrigger => "TriggerStep" | KGroup => "GroupStep"
  | KUnknown ErrUnknownStepType => "UnknownStep:ErrUnknownStepType"
  | KUnknown ErrStepTypeInference => "UnknownStep:ErrStepTypeInference"
  end.

Definition the_ten_keys : list string :=
  ["command"; "commands"; "plugins"; "wait"; "waiter"; "block"; "input"; "manual"; "trigger"; "group"].
