(** "The normal form is a fixpoint": re-parsing the JSON marshalling of a
    pipeline yields a pipeline that marshals to the same JSON
    (Model/Reparse.v over Model/Pipeline.v + Model/Marshal.v). *)
From Coq Require Import String List Ascii Bool Arith Lia ZArith Permutation Sorted.
From Coq Require Import DecimalString Decimal DecimalZ DecimalPos.
From GP Require Import Base.Sexp Model.Gv Model.Decode Model.Kinds Model.Plugin Model.Pipeline Model.Marshal Model.Reparse Gen.Structs
     Proofs.DecodeProofs Proofs.MarshalProofs Proofs.PipelineProofs Proofs.JcsProofs Proofs.PluginProofs.
Import ListNotations.
Local Open Scope string_scope.
Local Open Scope list_scope.

(** ------------------------------------------------------------------ *)
(** * 1. Numbers *)

Lemma all_digits_uint : forall d, all_digits (NilEmpty.string_of_uint d) = true.
Proof. induction d; cbn [NilEmpty.string_of_uint all_digits]; try reflexivity; rewrite IHd; reflexivity. Qed.

Lemma uint_string_nonempty : forall d, d <> Nil -> NilEmpty.string_of_uint d <> "".
Proof. intros d H. destruct d; cbn; try discriminate. congruence. Qed.

Lemma int_token_uint : forall d, d <> Nil -> int_token (NilEmpty.string_of_uint d) = true.
Proof.
  intros d H. pose proof (all_digits_uint d) as A.
  destruct d; try congruence; cbn [NilEmpty.string_of_uint] in *; unfold int_token; exact A.
Qed.

Lemma nilzero_nonnil : forall d, d <> Nil -> NilZero.string_of_uint d = NilEmpty.string_of_uint d.
Proof. intros d H. destruct d; try reflexivity. congruence. Qed.

Lemma int_token_z : forall z, int_token (z_to_string z) = true.
Proof.
  intros z. unfold z_to_string. destruct z as [|p|p]; cbn [Z.to_int NilZero.string_of_int].
  - reflexivity.
  - pose proof (Unsigned.to_uint_nonnil p) as N. rewrite nilzero_nonnil by exact N.
    apply int_token_uint; exact N.
  - pose proof (Unsigned.to_uint_nonnil p) as N. rewrite nilzero_nonnil by exact N.
    cbn [int_token]. rewrite all_digits_uint, andb_true_r.
    destruct (String.eqb_spec (NilEmpty.string_of_uint (Pos.to_uint p)) ""); [|reflexivity].
    exfalso. eapply uint_string_nonempty; eassumption.
Qed.

(* the decimal printer and reader used for int tokens are inverse *)
Theorem string_to_z_to_string : forall z, string_to_z (z_to_string z) = Some z.
Proof.
  intros z. unfold string_to_z, z_to_string. rewrite NilZero.isi.
  - rewrite DecimalZ.of_to. reflexivity.
  - destruct z; cbn [Z.to_int]; try discriminate. intros E. inversion E.
    eapply Unsigned.to_uint_nonnil; eassumption.
  - destruct z; cbn [Z.to_int]; try discriminate. intros E. inversion E.
    eapply Unsigned.to_uint_nonnil; eassumption.
Qed.

Lemma gv_of_json_int : forall z, gv_of_json (JNum (z_to_string z)) = GInt z.
Proof. intros z. cbn [gv_of_json]. rewrite int_token_z, string_to_z_to_string. reflexivity. Qed.

(* numbers: re-reading a number token and marshalling it again gives the same token *)
Definition num_stable (t : string) : Prop := gv_json (gv_of_json (JNum t)) = JNum t.

Lemma num_stable_int : forall z, num_stable (z_to_string z).
Proof. intros z. unfold num_stable. rewrite gv_of_json_int. reflexivity. Qed.

Lemma num_stable_float : forall t, int_token t = false -> num_stable t.
Proof. intros t H. unfold num_stable. cbn [gv_of_json]. rewrite H. reflexivity. Qed.

(* what a stable token re-reads to *)
Lemma num_stable_cases : forall t, num_stable t ->
  (exists z, gv_of_json (JNum t) = GInt z /\ z_to_string z = t) \/ gv_of_json (JNum t) = GFloat t t.
Proof.
  intros t H. unfold num_stable in H. cbn [gv_of_json] in *.
  destruct (int_token t); [|right; reflexivity].
  destruct (string_to_z t) as [z|]; [|right; reflexivity].
  left. exists z. split; [reflexivity|]. cbn [gv_json] in H. congruence.
Qed.

(** ------------------------------------------------------------------ *)
(** * 2. Stable JSON values *)

(* a free-form value whose JSON re-reads to itself: all number tokens stable *)
Fixpoint json_stable (j : json) : Prop :=
  match j with
  | JNum t => num_stable t
  | JArr l => (fix go (l : list json) : Prop :=
                 match l with [] => True | x :: r => json_stable x /\ go r end) l
  | JObj l => (fix go (l : list (string * json)) : Prop :=
                 match l with [] => True | kv :: r => json_stable (snd kv) /\ go r end) l
  | _ => True
  end.

Lemma json_stable_arr : forall l, json_stable (JArr l) <-> Forall json_stable l.
Proof.
  induction l as [|x r IH].
  - split; intros; [constructor|exact I].
  - change (json_stable (JArr (x :: r))) with (json_stable x /\ json_stable (JArr r)).
    rewrite IH. split.
    + intros [A B]. constructor; assumption.
    + intros H. inversion H; subst. split; assumption.
Qed.

Lemma json_stable_obj : forall l, json_stable (JObj l) <-> Forall (fun kv => json_stable (snd kv)) l.
Proof.
  induction l as [|x r IH].
  - split; intros; [constructor|exact I].
  - change (json_stable (JObj (x :: r))) with (json_stable (snd x) /\ json_stable (JObj r)).
    rewrite IH. split.
    + intros [A B]. constructor; assumption.
    + intros H. inversion H; subst. split; assumption.
Qed.

Section json_induction.
  Variable P : json -> Prop.
  Hypothesis HNull : P JNull.
  Hypothesis HBool : forall b, P (JBool b).
  Hypothesis HNum : forall t, P (JNum t).
  Hypothesis HStr : forall s, P (JStr s).
  Hypothesis HArr : forall l, Forall P l -> P (JArr l).
  Hypothesis HObj : forall l, Forall (fun kv => P (snd kv)) l -> P (JObj l).
  Fixpoint json_ind' (j : json) : P j :=
    match j with
    | JNull => HNull
    | JBool b => HBool b
    | JNum t => HNum t
    | JStr s => HStr s
    | JArr l => HArr l ((fix go (l : list json) : Forall P l :=
                           match l with [] => Forall_nil _ | x :: r => Forall_cons x (json_ind' x) (go r) end) l)
    | JObj l => HObj l ((fix go (l : list (string * json)) : Forall (fun kv => P (snd kv)) l :=
                           match l with [] => Forall_nil _ | kv :: r => Forall_cons kv (json_ind' (snd kv)) (go r) end) l)
    end.
End json_induction.

Definition gmap (l : list (string * json)) : list (string * gv) :=
  map (fun kv => (fst kv, gv_of_json (snd kv))) l.
Definition jmap (l : list (string * gv)) : list (string * json) :=
  map (fun kv => (fst kv, gv_json (snd kv))) l.

Lemma gv_of_json_obj : forall l, gv_of_json (JObj l) = GMap (gmap l).
Proof. reflexivity. Qed.
Lemma gv_of_json_arr : forall l, gv_of_json (JArr l) = GSeq (map gv_of_json l).
Proof. reflexivity. Qed.
Lemma gv_json_map : forall l, gv_json (GMap l) = JObj (jmap l).
Proof. reflexivity. Qed.
Lemma gv_json_umap : forall l, gv_json (GUMap l) = JObj (sort_keys (jmap l)).
Proof. reflexivity. Qed.
Lemma gv_json_seq : forall l, gv_json (GSeq l) = JArr (map gv_json l).
Proof. reflexivity. Qed.

Theorem gv_json_of_json : forall j, json_stable j -> gv_json (gv_of_json j) = j.
Proof.
  induction j using json_ind'; intros S; try reflexivity.
  - exact S.
  - rewrite gv_of_json_arr, gv_json_seq. f_equal. apply json_stable_arr in S.
    induction H as [|x r Hx Hr IH]; [reflexivity|]. inversion S; subst.
    cbn [map]. rewrite Hx by assumption. rewrite IH by assumption. reflexivity.
  - rewrite gv_of_json_obj, gv_json_map. f_equal. apply json_stable_obj in S.
    induction H as [|[k v] r Hx Hr IH]; [reflexivity|]. inversion S; subst.
    cbn [gmap jmap map fst snd] in *. rewrite Hx by assumption. unfold gmap, jmap in IH. rewrite IH by assumption.
    reflexivity.
Qed.

Definition val_stable (g : gv) : Prop := json_stable (gv_json g).

Lemma val_stable_fix : forall g, val_stable g -> gv_json (gv_of_json (gv_json g)) = gv_json g.
Proof. intros g H. apply gv_json_of_json. exact H. Qed.

(** ------------------------------------------------------------------ *)
(** * 3. Generic tools *)

Lemma bind_ret_l : forall {T U} (x : T) (f : T -> res U), bind (Ok x 0) f = f x.
Proof. intros. unfold bind. destruct (f x); reflexivity. Qed.

Lemma mapM_ok0 : forall {T U} (f : T -> res U) (g : T -> U) l,
  (forall x, In x l -> f x = Ok (g x) 0) -> mapM f l = Ok (map g l) 0.
Proof.
  intros T U f g l. induction l as [|x r IH]; intros H; [reflexivity|].
  cbn [mapM map]. rewrite (H x) by (left; reflexivity). rewrite bind_ret_l.
  rewrite IH by (intros y Hy; apply H; right; exact Hy). rewrite bind_ret_l. reflexivity.
Qed.

Lemma mapM_strs : forall l, mapM unm_string (map gv_of_json (map JStr l)) = Ok l 0.
Proof.
  intros l. rewrite map_map. cbn [gv_of_json].
  rewrite (mapM_ok0 unm_string (fun g => match g with GStr s => s | _ => "" end)).
  - rewrite map_map. cbn. rewrite map_id. reflexivity.
  - intros x Hx. apply in_map_iff in Hx. destruct Hx as (s & <- & _). reflexivity.
Qed.

Lemma unm_strings_jstrs : forall l, unm_strings (gv_of_json (jstrs l)) = Ok (Some l) 0.
Proof.
  intros l. unfold jstrs. rewrite gv_of_json_arr. cbn [unm_strings]. rewrite mapM_strs, bind_ret_l. reflexivity.
Qed.

Lemma keys_gmap : forall l, map fst (gmap l) = map fst l.
Proof. intros. unfold gmap. apply map_fst_map. Qed.
Lemma keys_jmap : forall l, map fst (jmap l) = map fst l.
Proof. intros. unfold jmap. apply map_fst_map. Qed.

Lemma aget_gmap : forall k l, aget k (gmap l) = option_map gv_of_json (aget k l).
Proof. intros. unfold gmap. apply aget_map. Qed.

Lemma aget_filter : forall {T} (p : string -> bool) k (l : list (string * T)),
  aget k (filter (fun kv => p (fst kv)) l) = if p k then aget k l else None.
Proof.
  intros T p k l. induction l as [|[k0 v0] r IH]; cbn [filter aget fst].
  - destruct (p k); reflexivity.
  - destruct (p k0) eqn:P0; cbn [aget].
    + destruct (String.eqb_spec k k0) as [E|N]; [subst; rewrite P0; reflexivity|exact IH].
    + destruct (String.eqb_spec k k0) as [E|N]; [subst; rewrite P0 in *; exact IH|exact IH].
Qed.

Lemma NoDup_fst_NoDup : forall {T} (l : list (string * T)), NoDup (map fst l) -> NoDup l.
Proof.
  intros T l. induction l as [|x r IH]; intros H; [constructor|].
  cbn [map] in H. inversion H; subst. constructor; [|apply IH; assumption].
  intros I. apply H2. apply in_map. exact I.
Qed.

(* two key-sorted association lists with distinct keys and the same lookups are equal *)
Lemma alist_sorted_ext : forall {T} (l1 l2 : list (string * T)),
  StronglySorted sle (map fst l1) -> StronglySorted sle (map fst l2) ->
  NoDup (map fst l1) -> NoDup (map fst l2) ->
  (forall k, aget k l1 = aget k l2) -> l1 = l2.
Proof.
  intros T l1 l2 S1 S2 N1 N2 H. apply sorted_perm_unique; try assumption.
  apply NoDup_Permutation; try (apply NoDup_fst_NoDup; assumption).
  intros [k v]. split; intros I.
  - apply aget_some_in. rewrite <- H. apply in_aget; assumption.
  - apply aget_some_in. rewrite H. apply in_aget; assumption.
Qed.

Lemma inline_friendly_members : forall o r, inline_friendly o r = JObj (members (inline_friendly o r)).
Proof. reflexivity. Qed.

Definition vals_stable (rem : list (string * gv)) : Prop := Forall (fun kv => val_stable (snd kv)) rem.

Lemma vals_stable_get : forall rem k v, vals_stable rem -> aget k rem = Some v -> val_stable v.
Proof.
  intros rem k v H G. apply aget_some_in in G. unfold vals_stable in H. rewrite Forall_forall in H.
  apply (H (k, v) G).
Qed.

(* the re-read object: lookups *)
Lemma reobj_lookup : forall outline rem k,
  NoDup (map fst outline) -> NoDup (map fst rem) ->
  aget k (gmap (members (inline_friendly outline rem))) =
    match aget k outline with
    | Some j => Some (gv_of_json j)
    | None => option_map (fun v => gv_of_json (gv_json v)) (aget k rem)
    end.
Proof.
  intros outline rem k No Nr. rewrite aget_gmap, inline_friendly_lookup by assumption.
  destruct (aget k outline); [reflexivity|]. destruct (aget k rem); reflexivity.
Qed.

Lemma reobj_keys : forall outline rem k,
  In k (map fst (gmap (members (inline_friendly outline rem)))) <-> In k (map fst outline) \/ In k (map fst rem).
Proof. intros. rewrite keys_gmap. apply inline_friendly_keys. Qed.

(* the re-read object, filtered by a key predicate that keeps every key of the
   inline map, re-marshals with the same outline fields to the same object *)
Lemma reobj_fix : forall outline rem (q : string -> bool),
  NoDup (map fst outline) -> NoDup (map fst rem) -> vals_stable rem ->
  (forall k, q k = false -> ~ In k (map fst rem)) ->
  inline_friendly outline (filter (fun kv => q (fst kv)) (gmap (members (inline_friendly outline rem))))
  = inline_friendly outline rem.
Proof.
  intros outline rem q No Nr Vs Hq.
  set (rem' := filter (fun kv => q (fst kv)) (gmap (members (inline_friendly outline rem)))).
  assert (Nr' : NoDup (map fst rem')).
  { unfold rem'. apply nodup_map_filter. rewrite keys_gmap. apply inline_friendly_nodup. }
  rewrite (inline_friendly_members outline rem'), (inline_friendly_members outline rem). f_equal.
  apply alist_sorted_ext; try apply inline_friendly_sorted; try apply inline_friendly_nodup.
  intros k. rewrite !inline_friendly_lookup by assumption.
  destruct (aget k outline) eqn:Eo; [reflexivity|].
  unfold rem'. rewrite aget_filter. destruct (q k) eqn:Q.
  - rewrite reobj_lookup, Eo by assumption. destruct (aget k rem) eqn:Er; cbn [option_map]; [|reflexivity].
    f_equal. apply val_stable_fix. eapply vals_stable_get; eassumption.
  - cbn [option_map]. rewrite aget_none; [reflexivity|]. apply Hq. exact Q.
Qed.

(** optional outline entries *)
Definition compact (ol : list (string * option json)) : list (string * json) :=
  flat_map (fun e => match snd e with Some j => [(fst e, j)] | None => [] end) ol.

Lemma compact_keys : forall ol k, In k (map fst (compact ol)) -> In k (map fst ol).
Proof.
  induction ol as [|[k0 o] r IH]; intros k H; [destruct H|].
  unfold compact in H. cbn [flat_map fst snd] in H. rewrite map_app, in_app_iff in H.
  cbn [map fst]. destruct H as [H|H].
  - destruct o; cbn in H; [destruct H as [<-|[]]; left; reflexivity|destruct H].
  - right. apply IH. exact H.
Qed.

Lemma compact_nodup : forall ol, NoDup (map fst ol) -> NoDup (map fst (compact ol)).
Proof.
  induction ol as [|[k0 o] r IH]; intros H; [constructor|].
  cbn [map fst] in H. inversion H; subst.
  unfold compact. cbn [flat_map fst snd]. fold (compact r). destruct o; cbn [app map fst].
  - constructor; [|apply IH; assumption]. intros I. apply compact_keys in I. contradiction.
  - apply IH; assumption.
Qed.

Lemma aget_compact : forall k ol, NoDup (map fst ol) ->
  aget k (compact ol) = match aget k ol with Some o => o | None => None end.
Proof.
  intros k. induction ol as [|[k0 o] r IH]; intros H; [reflexivity|].
  cbn [map fst] in H. inversion H; subst.
  destruct o as [j|].
  - change (compact ((k0, Some j) :: r)) with ((k0, j) :: compact r). cbn [aget].
    destruct (String.eqb_spec k k0) as [E|N]; [reflexivity|apply IH; assumption].
  - change (compact ((k0, None) :: r)) with (compact r). cbn [aget].
    destruct (String.eqb_spec k k0) as [E|N]; [|apply IH; assumption].
    subst k0. apply aget_none. intros I. apply compact_keys in I. contradiction.
Qed.

Lemma reobj_get : forall ol rem k,
  NoDup (map fst ol) -> NoDup (map fst rem) ->
  aget k (gmap (members (inline_friendly (compact ol) rem))) =
    match aget k ol with
    | Some (Some j) => Some (gv_of_json j)
    | _ => option_map (fun v => gv_of_json (gv_json v)) (aget k rem)
    end.
Proof.
  intros ol rem k No Nr. rewrite reobj_lookup by (try apply compact_nodup; assumption).
  rewrite aget_compact by assumption. destruct (aget k ol) as [[j|]|]; reflexivity.
Qed.

(** struct descriptors: which keys a named field answers to *)
Fixpoint first_key (ks : list string) (m : list (string * gv)) : option gv :=
  match ks with
  | [] => None
  | k :: r => match aget k m with Some v => Some v | None => first_key r m end
  end.

Fixpoint named_keys (name : string) (fields : list field_row) : option (list string) :=
  match fields with
  | [] => None
  | r :: rest =>
      match classify r with
      | FKeyed => if String.eqb (row_name r) name
                  then Some (primary_key r :: filter nonempty (split_comma (row_aliases r)))
                  else named_keys name rest
      | _ => named_keys name rest
      end
  end.

Lemma first_alias_first_key : forall al m, option_map snd (first_alias al m) = first_key (filter nonempty al) m.
Proof.
  induction al as [|a r IH]; intros m; [reflexivity|].
  cbn [first_alias filter]. unfold nonempty at 1. destruct (String.eqb a ""); cbn [negb]; [apply IH|].
  cbn [first_key]. destruct (aget a m); [reflexivity|apply IH].
Qed.

Lemma field_lookup_first_key : forall r m,
  option_map snd (field_lookup r m) = first_key (primary_key r :: filter nonempty (split_comma (row_aliases r))) m.
Proof.
  intros r m. unfold field_lookup. cbn [first_key].
  destruct (aget (primary_key r) m); [reflexivity|]. apply first_alias_first_key.
Qed.

Lemma named_lookup_none : forall name fields m,
  ~ In name (map row_name (keyed fields)) -> named_lookup name fields m = None.
Proof.
  intros name fields m. induction fields as [|r rest IH]; intros H; [reflexivity|].
  cbn [named_lookup]. destruct (classify r) eqn:C.
  - apply IH. rewrite keyed_cons_other in H by congruence. exact H.
  - apply IH. rewrite keyed_cons_other in H by congruence. exact H.
  - rewrite (keyed_cons_keyed _ _ C) in H. cbn [map In] in H.
    destruct (String.eqb_spec (row_name r) name) as [E|N]; [exfalso; apply H; left; exact E|].
    destruct (field_lookup r m) as [[k v]|]; apply IH; intros I; apply H; right; exact I.
Qed.

Lemma field_keys_spec : forall name fields ks m,
  NoDup (map row_name (keyed fields)) -> named_keys name fields = Some ks ->
  field name (partition_keys fields m) = first_key ks m.
Proof.
  intros name fields ks m. rewrite field_named.
  induction fields as [|r rest IH]; intros N H; [discriminate H|].
  cbn [named_keys named_lookup] in *. destruct (classify r) eqn:C.
  - apply IH; [rewrite keyed_cons_other in N by congruence; exact N|exact H].
  - apply IH; [rewrite keyed_cons_other in N by congruence; exact N|exact H].
  - rewrite (keyed_cons_keyed _ _ C) in N. cbn [map] in N. inversion N as [|? ? Hn Hr]; subst.
    destruct (String.eqb_spec (row_name r) name) as [E|Ne].
    + inversion H; subst ks. rewrite <- field_lookup_first_key.
      destruct (field_lookup r m) as [[k v]|]; [reflexivity|].
      cbn [option_map]. apply named_lookup_none. rewrite <- E. exact Hn.
    + destruct (field_lookup r m) as [[k v]|]; apply IH; assumption.
Qed.

Ltac fk := apply field_keys_spec; [apply nodupb_sound; vm_compute; reflexivity|vm_compute; reflexivity].

(** consumed keys: primary keys, or aliases when the primary key is absent *)
Definition ktab (fields : list field_row) : list (string * list string) :=
  map (fun r => (primary_key r, filter nonempty (split_comma (row_aliases r)))) (keyed fields).

Lemma consumed_ktab : forall fields m k,
  In k (DecodeProofs.consumed (partition_keys fields m)) ->
  exists pk al, In (pk, al) (ktab fields) /\ (k = pk \/ (aget pk m = None /\ In k al)).
Proof.
  intros fields m k H. unfold DecodeProofs.consumed in H. apply in_map_iff in H.
  destruct H as ([[r k'] v] & E & Hin). cbn [fst snd] in E. subst k'.
  apply match_rule in Hin. destruct Hin as (Hi & Hc & Hg & Hr).
  exists (primary_key r), (filter nonempty (split_comma (row_aliases r))). split.
  - unfold ktab. apply in_map_iff. exists r. split; [reflexivity|]. apply keyed_In. split; assumption.
  - destruct Hr as [->|[Hn Hf]]; [left; reflexivity|right]. split; [exact Hn|].
    eapply MarshalProofs.first_alias_in. exact Hf.
Qed.

Lemma consumed_not_in_rem : forall fields m (rem : list (string * gv)),
  (forall pk al, In (pk, al) (ktab fields) ->
     ~ In pk (map fst rem) /\ (forall a, In a al -> aget pk m = None -> ~ In a (map fst rem))) ->
  forall k, negb (existsb (String.eqb k) (DecodeProofs.consumed (partition_keys fields m))) = false ->
            ~ In k (map fst rem).
Proof.
  intros fields m rem H k Hk. apply negb_false_iff in Hk. apply existsb_eqb_In in Hk.
  apply consumed_ktab in Hk. destruct Hk as (pk & al & Hin & Hc).
  destruct (H pk al Hin) as [H1 H2]. destruct Hc as [->|[Hn Ha]]; [exact H1|]. apply H2; assumption.
Qed.

Lemma aget_leftover : forall fields m k,
  aget k (leftover (partition_keys fields m)) =
  if negb (existsb (String.eqb k) (DecodeProofs.consumed (partition_keys fields m))) then aget k m else None.
Proof.
  intros. rewrite leftover_spec.
  apply (aget_filter (fun k => negb (existsb (String.eqb k) (DecodeProofs.consumed (partition_keys fields m))))).
Qed.

(* inline maps: distinct keys, none of the schema's primary keys, stable values *)
Definition rem_ok (schema : list string) (rem : list (string * gv)) : Prop :=
  NoDup (map fst rem) /\ (forall k, In k schema -> ~ In k (map fst rem)) /\ vals_stable rem.

Lemma rem_ok_none : forall schema rem k, rem_ok schema rem -> In k schema -> aget k rem = None.
Proof. intros schema rem k (_ & H & _) I. apply aget_none. apply H. exact I. Qed.

Lemma opt_field_some : forall {T} name p (d : T) f v, field name p = Some v -> opt_field name p d f = f v.
Proof. intros. unfold opt_field. rewrite H. reflexivity. Qed.
Lemma opt_field_none : forall {T} name p (d : T) f, field name p = None -> opt_field name p d f = ret d.
Proof. intros. unfold opt_field. rewrite H. reflexivity. Qed.

(** ------------------------------------------------------------------ *)
(** * 4. Signature *)

Theorem sig_roundtrip : forall s, unm_sig (gv_of_json (mj_sig s)) = Ok (Some s) 0.
Proof.
  intros [a f v]. unfold mj_sig. cbn [sg_alg sg_fields sg_value].
  rewrite gv_of_json_obj. cbn [gmap map fst snd]. cbn [unm_sig]. cbv zeta.
  set (F := gv_of_json match f with Some l => jstrs l | None => JNull end).
  set (m := [("algorithm", gv_of_json (JStr a)); ("signed_fields", F); ("value", gv_of_json (JStr v))]).
  assert (E1 : field "Algorithm" (partition_keys struct_Signature m) = Some (GStr a)).
  { rewrite (field_keys_spec "Algorithm" struct_Signature ["algorithm"]) by
      (first [apply nodupb_sound; vm_compute; reflexivity|vm_compute; reflexivity]). reflexivity. }
  assert (E2 : field "SignedFields" (partition_keys struct_Signature m) = Some F).
  { rewrite (field_keys_spec "SignedFields" struct_Signature ["signed_fields"]) by
      (first [apply nodupb_sound; vm_compute; reflexivity|vm_compute; reflexivity]). reflexivity. }
  assert (E3 : field "Value" (partition_keys struct_Signature m) = Some (GStr v)).
  { rewrite (field_keys_spec "Value" struct_Signature ["value"]) by
      (first [apply nodupb_sound; vm_compute; reflexivity|vm_compute; reflexivity]). reflexivity. }
  rewrite (opt_field_some _ _ _ _ _ E1), (opt_field_some _ _ _ _ _ E2), (opt_field_some _ _ _ _ _ E3).
  change (unm_string (GStr a)) with (Ok a 0). change (unm_string (GStr v)) with (Ok v 0).
  rewrite bind_ret_l.
  assert (EF : unm_strings F = Ok f 0).
  { unfold F. destruct f as [l|]; [apply unm_strings_jstrs|reflexivity]. }
  rewrite EF, bind_ret_l, bind_ret_l. reflexivity.
Qed.
