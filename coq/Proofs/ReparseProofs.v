(** "The normal form is a fixpoint": re-parsing the JSON marshalling of a
    pipeline yields a pipeline that marshals to the same JSON
    (Model/Reparse.v over Model/Pipeline.v + Model/Marshal.v).

    Bottom-up ("every Marshal shape is accepted by the matching UnmarshalOrdered"):
      gv_json_of_json, plugin_config_roundtrip, sig_roundtrip, cache_roundtrip,
      matrix_roundtrip, plugins_roundtrip, command_roundtrip, step_roundtrip,
      reparse_fixpoint (MAIN, under [pipeline_fix_ok]),
      parse_result_fix_ok / parse_marshal_reparse (what Parse produces from a [doc_ok]
      document satisfies [pipeline_fix_ok], outside three classes, each shown real by an
      example: [no_empty_primary_with_alias], [plugin_sources_canonical],
      [no_fallback_unknown]; unstable number tokens are excluded by [doc_ok]). *)
From Coq Require Import String List Ascii Bool Arith Lia ZArith Permutation Sorted.
From Coq Require Import DecimalString Decimal DecimalZ DecimalPos.
From GP Require Import Base.Sexp Model.Gv Model.Decode Model.Kinds Model.Plugin Model.Pipeline Model.Marshal Model.Reparse Gen.Structs
     Proofs.DecodeProofs Proofs.MarshalProofs Proofs.PipelineProofs Proofs.JcsProofs Proofs.PluginProofs.
Import ListNotations.
Local Open Scope string_scope.
Local Open Scope list_scope.

(** ------------------------------------------------------------------ *)
(** * 1. Numbers *)

Lemma all_digits_uint : forall d, all_digits (NilEmpty.string_of_uint d) = true.
Proof. induction d; cbn [NilEmpty.string_of_uint all_digits]; try reflexivity; rewrite IHd; reflexivity. Qed.

Lemma uint_string_nonempty : forall d, d <> Nil -> NilEmpty.string_of_uint d <> "".
Proof. intros d H. destruct d; cbn; try discriminate. congruence. Qed.

Lemma int_token_uint : forall d, d <> Nil -> int_token (NilEmpty.string_of_uint d) = true.
Proof.
  intros d H. pose proof (all_digits_uint d) as A.
  destruct d; try congruence; cbn [NilEmpty.string_of_uint] in *; unfold int_token; exact A.
Qed.

Lemma nilzero_nonnil : forall d, d <> Nil -> NilZero.string_of_uint d = NilEmpty.string_of_uint d.
Proof. intros d H. destruct d; try reflexivity. congruence. Qed.

Lemma int_token_z : forall z, int_token (z_to_string z) = true.
Proof.
  intros z. unfold z_to_string. destruct z as [|p|p]; cbn [Z.to_int NilZero.string_of_int].
  - reflexivity.
  - pose proof (Unsigned.to_uint_nonnil p) as N. rewrite nilzero_nonnil by exact N.
    apply int_token_uint; exact N.
  - pose proof (Unsigned.to_uint_nonnil p) as N. rewrite nilzero_nonnil by exact N.
    cbn [int_token]. rewrite all_digits_uint, andb_true_r.
    destruct (String.eqb_spec (NilEmpty.string_of_uint (Pos.to_uint p)) ""); [|reflexivity].
    exfalso. eapply uint_string_nonempty; eassumption.
Qed.

(* the decimal printer and reader used for int tokens are inverse *)
Theorem string_to_z_to_string : forall z, string_to_z (z_to_string z) = Some z.
Proof.
  intros z. unfold string_to_z, z_to_string. rewrite NilZero.isi.
  - rewrite DecimalZ.of_to. reflexivity.
  - destruct z; cbn [Z.to_int]; try discriminate. intros E. inversion E.
    eapply Unsigned.to_uint_nonnil; eassumption.
  - destruct z; cbn [Z.to_int]; try discriminate. intros E. inversion E.
    eapply Unsigned.to_uint_nonnil; eassumption.
Qed.

Lemma gv_of_json_int : forall z, gv_of_json (JNum (z_to_string z)) = GInt z.
Proof. intros z. cbn [gv_of_json]. rewrite int_token_z, string_to_z_to_string. reflexivity. Qed.

(* numbers: re-reading a number token and marshalling it again gives the same token *)
Definition num_stable (t : string) : Prop := gv_json (gv_of_json (JNum t)) = JNum t.

Lemma num_stable_int : forall z, num_stable (z_to_string z).
Proof. intros z. unfold num_stable. rewrite gv_of_json_int. reflexivity. Qed.

Lemma num_stable_float : forall t, int_token t = false -> num_stable t.
Proof. intros t H. unfold num_stable. cbn [gv_of_json]. rewrite H. reflexivity. Qed.

(* what a stable token re-reads to *)
Lemma num_stable_cases : forall t, num_stable t ->
  (exists z, gv_of_json (JNum t) = GInt z /\ z_to_string z = t) \/ gv_of_json (JNum t) = GFloat t t.
Proof.
  intros t H. unfold num_stable in H. cbn [gv_of_json] in *.
  destruct (int_token t); [|right; reflexivity].
  destruct (string_to_z t) as [z|]; [|right; reflexivity].
  left. exists z. split; [reflexivity|]. cbn [gv_json] in H. congruence.
Qed.

(** ------------------------------------------------------------------ *)
(** * 2. Stable JSON values *)

(* a free-form value whose JSON re-reads to itself: all number tokens stable *)
Fixpoint json_stable (j : json) : Prop :=
  match j with
  | JNum t => num_stable t
  | JArr l => (fix go (l : list json) : Prop :=
                 match l with [] => True | x :: r => json_stable x /\ go r end) l
  | JObj l => (fix go (l : list (string * json)) : Prop :=
                 match l with [] => True | kv :: r => json_stable (snd kv) /\ go r end) l
  | _ => True
  end.

Lemma json_stable_arr : forall l, json_stable (JArr l) <-> Forall json_stable l.
Proof.
  induction l as [|x r IH].
  - split; intros; [constructor|exact I].
  - change (json_stable (JArr (x :: r))) with (json_stable x /\ json_stable (JArr r)).
    rewrite IH. split.
    + intros [A B]. constructor; assumption.
    + intros H. inversion H; subst. split; assumption.
Qed.

Lemma json_stable_obj : forall l, json_stable (JObj l) <-> Forall (fun kv => json_stable (snd kv)) l.
Proof.
  induction l as [|x r IH].
  - split; intros; [constructor|exact I].
  - change (json_stable (JObj (x :: r))) with (json_stable (snd x) /\ json_stable (JObj r)).
    rewrite IH. split.
    + intros [A B]. constructor; assumption.
    + intros H. inversion H; subst. split; assumption.
Qed.

Section json_induction.
  Variable P : json -> Prop.
  Hypothesis HNull : P JNull.
  Hypothesis HBool : forall b, P (JBool b).
  Hypothesis HNum : forall t, P (JNum t).
  Hypothesis HStr : forall s, P (JStr s).
  Hypothesis HArr : forall l, Forall P l -> P (JArr l).
  Hypothesis HObj : forall l, Forall (fun kv => P (snd kv)) l -> P (JObj l).
  Fixpoint json_ind' (j : json) : P j :=
    match j with
    | JNull => HNull
    | JBool b => HBool b
    | JNum t => HNum t
    | JStr s => HStr s
    | JArr l => HArr l ((fix go (l : list json) : Forall P l :=
                           match l with [] => Forall_nil _ | x :: r => Forall_cons x (json_ind' x) (go r) end) l)
    | JObj l => HObj l ((fix go (l : list (string * json)) : Forall (fun kv => P (snd kv)) l :=
                           match l with [] => Forall_nil _ | kv :: r => Forall_cons kv (json_ind' (snd kv)) (go r) end) l)
    end.
End json_induction.

Definition gmap (l : list (string * json)) : list (string * gv) :=
  map (fun kv => (fst kv, gv_of_json (snd kv))) l.
Definition jmap (l : list (string * gv)) : list (string * json) :=
  map (fun kv => (fst kv, gv_json (snd kv))) l.

Lemma gv_of_json_obj : forall l, gv_of_json (JObj l) = GMap (gmap l).
Proof. reflexivity. Qed.
Lemma gv_of_json_arr : forall l, gv_of_json (JArr l) = GSeq (map gv_of_json l).
Proof. reflexivity. Qed.
Lemma gv_json_map : forall l, gv_json (GMap l) = JObj (jmap l).
Proof. reflexivity. Qed.
Lemma gv_json_umap : forall l, gv_json (GUMap l) = JObj (sort_keys (jmap l)).
Proof. reflexivity. Qed.
Lemma gv_json_seq : forall l, gv_json (GSeq l) = JArr (map gv_json l).
Proof. reflexivity. Qed.

Theorem gv_json_of_json : forall j, json_stable j -> gv_json (gv_of_json j) = j.
Proof.
  induction j using json_ind'; intros S; try reflexivity.
  - exact S.
  - rewrite gv_of_json_arr, gv_json_seq. f_equal. apply json_stable_arr in S.
    induction H as [|x r Hx Hr IH]; [reflexivity|]. inversion S; subst.
    cbn [map]. rewrite Hx by assumption. rewrite IH by assumption. reflexivity.
  - rewrite gv_of_json_obj, gv_json_map. f_equal. apply json_stable_obj in S.
    induction H as [|[k v] r Hx Hr IH]; [reflexivity|]. inversion S; subst.
    cbn [gmap jmap map fst snd] in *. rewrite Hx by assumption. unfold gmap, jmap in IH. rewrite IH by assumption.
    reflexivity.
Qed.

Definition val_stable (g : gv) : Prop := json_stable (gv_json g).

Lemma val_stable_fix : forall g, val_stable g -> gv_json (gv_of_json (gv_json g)) = gv_json g.
Proof. intros g H. apply gv_json_of_json. exact H. Qed.

(** ------------------------------------------------------------------ *)
(** * 3. Generic tools *)

Lemma bind_ret_l : forall {T U} (x : T) (f : T -> res U), bind (Ok x 0) f = f x.
Proof. intros. unfold bind. destruct (f x); reflexivity. Qed.

Lemma mapM_ok0 : forall {T U} (f : T -> res U) (g : T -> U) l,
  (forall x, In x l -> f x = Ok (g x) 0) -> mapM f l = Ok (map g l) 0.
Proof.
  intros T U f g l. induction l as [|x r IH]; intros H; [reflexivity|].
  cbn [mapM map]. rewrite (H x) by (left; reflexivity). rewrite bind_ret_l.
  rewrite IH by (intros y Hy; apply H; right; exact Hy). rewrite bind_ret_l. reflexivity.
Qed.

Lemma mapM_strs : forall l, mapM unm_string (map gv_of_json (map JStr l)) = Ok l 0.
Proof.
  intros l. rewrite map_map. cbn [gv_of_json].
  rewrite (mapM_ok0 unm_string (fun g => match g with GStr s => s | _ => "" end)).
  - rewrite map_map. cbn. rewrite map_id. reflexivity.
  - intros x Hx. apply in_map_iff in Hx. destruct Hx as (s & <- & _). reflexivity.
Qed.

Lemma unm_strings_jstrs : forall l, unm_strings (gv_of_json (jstrs l)) = Ok (Some l) 0.
Proof.
  intros l. unfold jstrs. rewrite gv_of_json_arr. cbn [unm_strings]. rewrite mapM_strs, bind_ret_l. reflexivity.
Qed.

Lemma keys_gmap : forall l, map fst (gmap l) = map fst l.
Proof. intros. unfold gmap. apply map_fst_map. Qed.
Lemma keys_jmap : forall l, map fst (jmap l) = map fst l.
Proof. intros. unfold jmap. apply map_fst_map. Qed.

Lemma aget_gmap : forall k l, aget k (gmap l) = option_map gv_of_json (aget k l).
Proof. intros. unfold gmap. apply aget_map. Qed.

Lemma aget_filter : forall {T} (p : string -> bool) k (l : list (string * T)),
  aget k (filter (fun kv => p (fst kv)) l) = if p k then aget k l else None.
Proof.
  intros T p k l. induction l as [|[k0 v0] r IH]; cbn [filter aget fst].
  - destruct (p k); reflexivity.
  - destruct (p k0) eqn:P0; cbn [aget].
    + destruct (String.eqb_spec k k0) as [E|N]; [subst; rewrite P0; reflexivity|exact IH].
    + destruct (String.eqb_spec k k0) as [E|N]; [subst; rewrite P0 in *; exact IH|exact IH].
Qed.

Lemma aget_none_iff : forall {T} k (l : list (string * T)), aget k l = None -> ~ In k (map fst l).
Proof.
  intros T k l. induction l as [|[k0 v0] r IH]; cbn [aget map fst In]; intros H; [tauto|].
  destruct (String.eqb_spec k k0) as [E|N]; [discriminate H|]. intros [E|I]; [congruence|]. exact (IH H I).
Qed.

Lemma NoDup_fst_NoDup : forall {T} (l : list (string * T)), NoDup (map fst l) -> NoDup l.
Proof.
  intros T l. induction l as [|x r IH]; intros H; [constructor|].
  cbn [map] in H. inversion H; subst. constructor; [|apply IH; assumption].
  intros I. apply H2. apply in_map. exact I.
Qed.

(* two key-sorted association lists with distinct keys and the same lookups are equal *)
Lemma alist_sorted_ext : forall {T} (l1 l2 : list (string * T)),
  StronglySorted sle (map fst l1) -> StronglySorted sle (map fst l2) ->
  NoDup (map fst l1) -> NoDup (map fst l2) ->
  (forall k, aget k l1 = aget k l2) -> l1 = l2.
Proof.
  intros T l1 l2 S1 S2 N1 N2 H. apply sorted_perm_unique; try assumption.
  apply NoDup_Permutation; try (apply NoDup_fst_NoDup; assumption).
  intros [k v]. split; intros I.
  - apply aget_some_in. rewrite <- H. apply in_aget; assumption.
  - apply aget_some_in. rewrite H. apply in_aget; assumption.
Qed.

Lemma inline_friendly_members : forall o r, inline_friendly o r = JObj (members (inline_friendly o r)).
Proof. reflexivity. Qed.

Definition vals_stable (rem : list (string * gv)) : Prop := Forall (fun kv => val_stable (snd kv)) rem.

Lemma vals_stable_get : forall rem k v, vals_stable rem -> aget k rem = Some v -> val_stable v.
Proof.
  intros rem k v H G. apply aget_some_in in G. unfold vals_stable in H. rewrite Forall_forall in H.
  apply (H (k, v) G).
Qed.

(* the re-read object: lookups *)
Lemma reobj_lookup : forall outline rem k,
  NoDup (map fst outline) -> NoDup (map fst rem) ->
  aget k (gmap (members (inline_friendly outline rem))) =
    match aget k outline with
    | Some j => Some (gv_of_json j)
    | None => option_map (fun v => gv_of_json (gv_json v)) (aget k rem)
    end.
Proof.
  intros outline rem k No Nr. rewrite aget_gmap, inline_friendly_lookup by assumption.
  destruct (aget k outline); [reflexivity|]. destruct (aget k rem); reflexivity.
Qed.

Lemma reobj_keys : forall outline rem k,
  In k (map fst (gmap (members (inline_friendly outline rem)))) <-> In k (map fst outline) \/ In k (map fst rem).
Proof. intros. rewrite keys_gmap. apply inline_friendly_keys. Qed.

(* the re-read object, filtered by a key predicate that keeps every key of the
   inline map, re-marshals with the same outline fields to the same object *)
Lemma reobj_fix : forall outline rem (q : string -> bool),
  NoDup (map fst outline) -> NoDup (map fst rem) -> vals_stable rem ->
  (forall k, q k = false -> ~ In k (map fst rem)) ->
  inline_friendly outline (filter (fun kv => q (fst kv)) (gmap (members (inline_friendly outline rem))))
  = inline_friendly outline rem.
Proof.
  intros outline rem q No Nr Vs Hq.
  set (rem' := filter (fun kv => q (fst kv)) (gmap (members (inline_friendly outline rem)))).
  assert (Nr' : NoDup (map fst rem')).
  { unfold rem'. apply nodup_map_filter. rewrite keys_gmap. apply inline_friendly_nodup. }
  rewrite (inline_friendly_members outline rem'), (inline_friendly_members outline rem). f_equal.
  apply alist_sorted_ext; try apply inline_friendly_sorted; try apply inline_friendly_nodup.
  intros k. rewrite !inline_friendly_lookup by assumption.
  destruct (aget k outline) eqn:Eo; [reflexivity|].
  unfold rem'. rewrite aget_filter. destruct (q k) eqn:Q.
  - rewrite reobj_lookup, Eo by assumption. destruct (aget k rem) eqn:Er; cbn [option_map]; [|reflexivity].
    f_equal. apply val_stable_fix. eapply vals_stable_get; eassumption.
  - cbn [option_map]. rewrite aget_none; [reflexivity|]. apply Hq. exact Q.
Qed.

(** optional outline entries *)
Definition compact (ol : list (string * option json)) : list (string * json) :=
  flat_map (fun e => match snd e with Some j => [(fst e, j)] | None => [] end) ol.

Lemma compact_keys : forall ol k, In k (map fst (compact ol)) -> In k (map fst ol).
Proof.
  induction ol as [|[k0 o] r IH]; intros k H; [destruct H|].
  unfold compact in H. cbn [flat_map fst snd] in H. rewrite map_app, in_app_iff in H.
  cbn [map fst]. destruct H as [H|H].
  - destruct o; cbn in H; [destruct H as [<-|[]]; left; reflexivity|destruct H].
  - right. apply IH. exact H.
Qed.

Lemma compact_nodup : forall ol, NoDup (map fst ol) -> NoDup (map fst (compact ol)).
Proof.
  induction ol as [|[k0 o] r IH]; intros H; [constructor|].
  cbn [map fst] in H. inversion H; subst.
  unfold compact. cbn [flat_map fst snd]. fold (compact r). destruct o; cbn [app map fst].
  - constructor; [|apply IH; assumption]. intros I. apply compact_keys in I. contradiction.
  - apply IH; assumption.
Qed.

Lemma aget_compact : forall k ol, NoDup (map fst ol) ->
  aget k (compact ol) = match aget k ol with Some o => o | None => None end.
Proof.
  intros k. induction ol as [|[k0 o] r IH]; intros H; [reflexivity|].
  cbn [map fst] in H. inversion H; subst.
  destruct o as [j|].
  - change (compact ((k0, Some j) :: r)) with ((k0, j) :: compact r). cbn [aget].
    destruct (String.eqb_spec k k0) as [E|N]; [reflexivity|apply IH; assumption].
  - change (compact ((k0, None) :: r)) with (compact r). cbn [aget].
    destruct (String.eqb_spec k k0) as [E|N]; [|apply IH; assumption].
    subst k0. apply aget_none. intros I. apply compact_keys in I. contradiction.
Qed.

Lemma reobj_get : forall ol rem k,
  NoDup (map fst ol) -> NoDup (map fst rem) ->
  aget k (gmap (members (inline_friendly (compact ol) rem))) =
    match aget k ol with
    | Some (Some j) => Some (gv_of_json j)
    | _ => option_map (fun v => gv_of_json (gv_json v)) (aget k rem)
    end.
Proof.
  intros ol rem k No Nr. rewrite reobj_lookup by (try apply compact_nodup; assumption).
  rewrite aget_compact by assumption. destruct (aget k ol) as [[j|]|]; reflexivity.
Qed.

(** struct descriptors: which keys a named field answers to *)
Fixpoint first_key (ks : list string) (m : list (string * gv)) : option gv :=
  match ks with
  | [] => None
  | k :: r => match aget k m with Some v => Some v | None => first_key r m end
  end.

Fixpoint named_keys (name : string) (fields : list field_row) : option (list string) :=
  match fields with
  | [] => None
  | r :: rest =>
      match classify r with
      | FKeyed => if String.eqb (row_name r) name
                  then Some (primary_key r :: filter nonempty (split_comma (row_aliases r)))
                  else named_keys name rest
      | _ => named_keys name rest
      end
  end.

Lemma first_alias_first_key : forall al m, option_map snd (first_alias al m) = first_key (filter nonempty al) m.
Proof.
  induction al as [|a r IH]; intros m; [reflexivity|].
  cbn [first_alias filter]. unfold nonempty at 1. destruct (String.eqb a ""); cbn [negb]; [apply IH|].
  cbn [first_key]. destruct (aget a m); [reflexivity|apply IH].
Qed.

Lemma field_lookup_first_key : forall r m,
  option_map snd (field_lookup r m) = first_key (primary_key r :: filter nonempty (split_comma (row_aliases r))) m.
Proof.
  intros r m. unfold field_lookup. cbn [first_key].
  destruct (aget (primary_key r) m); [reflexivity|]. apply first_alias_first_key.
Qed.

Lemma named_lookup_none : forall name fields m,
  ~ In name (map row_name (keyed fields)) -> named_lookup name fields m = None.
Proof.
  intros name fields m. induction fields as [|r rest IH]; intros H; [reflexivity|].
  cbn [named_lookup]. destruct (classify r) eqn:C.
  - apply IH. rewrite keyed_cons_other in H by congruence. exact H.
  - apply IH. rewrite keyed_cons_other in H by congruence. exact H.
  - rewrite (keyed_cons_keyed _ _ C) in H. cbn [map In] in H.
    destruct (String.eqb_spec (row_name r) name) as [E|N]; [exfalso; apply H; left; exact E|].
    destruct (field_lookup r m) as [[k v]|]; apply IH; intros I; apply H; right; exact I.
Qed.

Lemma field_keys_spec : forall name fields ks m,
  NoDup (map row_name (keyed fields)) -> named_keys name fields = Some ks ->
  field name (partition_keys fields m) = first_key ks m.
Proof.
  intros name fields ks m. rewrite field_named.
  induction fields as [|r rest IH]; intros N H; [discriminate H|].
  cbn [named_keys named_lookup] in *. destruct (classify r) eqn:C.
  - apply IH; [rewrite keyed_cons_other in N by congruence; exact N|exact H].
  - apply IH; [rewrite keyed_cons_other in N by congruence; exact N|exact H].
  - rewrite (keyed_cons_keyed _ _ C) in N. cbn [map] in N. inversion N as [|? ? Hn Hr]; subst.
    destruct (String.eqb_spec (row_name r) name) as [E|Ne].
    + inversion H; subst ks. rewrite <- field_lookup_first_key.
      destruct (field_lookup r m) as [[k v]|]; [reflexivity|].
      cbn [option_map]. apply named_lookup_none. rewrite <- E. exact Hn.
    + destruct (field_lookup r m) as [[k v]|]; apply IH; assumption.
Qed.

Ltac fk := apply field_keys_spec; [apply nodupb_sound; vm_compute; reflexivity|vm_compute; reflexivity].

(** consumed keys: primary keys, or aliases when the primary key is absent *)
Definition ktab (fields : list field_row) : list (string * list string) :=
  map (fun r => (primary_key r, filter nonempty (split_comma (row_aliases r)))) (keyed fields).

Lemma consumed_ktab : forall fields m k,
  In k (DecodeProofs.consumed (partition_keys fields m)) ->
  exists pk al, In (pk, al) (ktab fields) /\ (k = pk \/ (aget pk m = None /\ In k al)).
Proof.
  intros fields m k H. unfold DecodeProofs.consumed in H. apply in_map_iff in H.
  destruct H as ([[r k'] v] & E & Hin). cbn [fst snd] in E. subst k'.
  apply match_rule in Hin. destruct Hin as (Hi & Hc & Hg & Hr).
  exists (primary_key r), (filter nonempty (split_comma (row_aliases r))). split.
  - unfold ktab. apply in_map_iff. exists r. split; [reflexivity|]. apply keyed_In. split; assumption.
  - destruct Hr as [->|[Hn Hf]]; [left; reflexivity|right]. split; [exact Hn|].
    eapply MarshalProofs.first_alias_in. exact Hf.
Qed.

Lemma consumed_not_in_rem : forall fields m (rem : list (string * gv)),
  (forall pk al, In (pk, al) (ktab fields) ->
     ~ In pk (map fst rem) /\ (forall a, In a al -> aget pk m = None -> ~ In a (map fst rem))) ->
  forall k, negb (existsb (String.eqb k) (DecodeProofs.consumed (partition_keys fields m))) = false ->
            ~ In k (map fst rem).
Proof.
  intros fields m rem H k Hk. apply negb_false_iff in Hk. apply existsb_eqb_In in Hk.
  apply consumed_ktab in Hk. destruct Hk as (pk & al & Hin & Hc).
  destruct (H pk al Hin) as [H1 H2]. destruct Hc as [->|[Hn Ha]]; [exact H1|]. apply H2; assumption.
Qed.

Lemma aget_leftover : forall fields m k,
  aget k (leftover (partition_keys fields m)) =
  if negb (existsb (String.eqb k) (DecodeProofs.consumed (partition_keys fields m))) then aget k m else None.
Proof.
  intros. rewrite leftover_spec.
  apply (aget_filter (fun k => negb (existsb (String.eqb k) (DecodeProofs.consumed (partition_keys fields m))))).
Qed.

(* inline maps: distinct keys, none of the schema's primary keys, stable values *)
Definition rem_ok (schema : list string) (rem : list (string * gv)) : Prop :=
  NoDup (map fst rem) /\ (forall k, In k schema -> ~ In k (map fst rem)) /\ vals_stable rem.

Lemma rem_ok_none : forall schema rem k, rem_ok schema rem -> In k schema -> aget k rem = None.
Proof. intros schema rem k (_ & H & _) I. apply aget_none. apply H. exact I. Qed.

Lemma opt_field_some : forall {T} name p (d : T) f v, field name p = Some v -> opt_field name p d f = f v.
Proof. intros. unfold opt_field. rewrite H. reflexivity. Qed.
Lemma opt_field_none : forall {T} name p (d : T) f, field name p = None -> opt_field name p d f = ret d.
Proof. intros. unfold opt_field. rewrite H. reflexivity. Qed.

(** ------------------------------------------------------------------ *)
(** * 4. Signature *)

Theorem sig_roundtrip : forall s, unm_sig (gv_of_json (mj_sig s)) = Ok (Some s) 0.
Proof.
  intros [a f v]. unfold mj_sig. cbn [sg_alg sg_fields sg_value].
  rewrite gv_of_json_obj. cbn [gmap map fst snd]. cbn [unm_sig]. cbv zeta.
  set (F := gv_of_json match f with Some l => jstrs l | None => JNull end).
  set (m := [("algorithm", gv_of_json (JStr a)); ("signed_fields", F); ("value", gv_of_json (JStr v))]).
  assert (E1 : field "Algorithm" (partition_keys struct_Signature m) = Some (GStr a)).
  { rewrite (field_keys_spec "Algorithm" struct_Signature ["algorithm"]) by
      (first [apply nodupb_sound; vm_compute; reflexivity|vm_compute; reflexivity]). reflexivity. }
  assert (E2 : field "SignedFields" (partition_keys struct_Signature m) = Some F).
  { rewrite (field_keys_spec "SignedFields" struct_Signature ["signed_fields"]) by
      (first [apply nodupb_sound; vm_compute; reflexivity|vm_compute; reflexivity]). reflexivity. }
  assert (E3 : field "Value" (partition_keys struct_Signature m) = Some (GStr v)).
  { rewrite (field_keys_spec "Value" struct_Signature ["value"]) by
      (first [apply nodupb_sound; vm_compute; reflexivity|vm_compute; reflexivity]). reflexivity. }
  rewrite (opt_field_some _ _ _ _ _ E1), (opt_field_some _ _ _ _ _ E2), (opt_field_some _ _ _ _ _ E3).
  change (unm_string (GStr a)) with (Ok a 0). change (unm_string (GStr v)) with (Ok v 0).
  rewrite bind_ret_l.
  assert (EF : unm_strings F = Ok f 0).
  { unfold F. destruct f as [l|]; [apply unm_strings_jstrs|reflexivity]. }
  rewrite EF, bind_ret_l, bind_ret_l. reflexivity.
Qed.

(** ------------------------------------------------------------------ *)
(** * 5. The descriptors: which keys each field answers to *)

Lemma f_cache_disabled : forall m, field "Disabled" (partition_keys struct_Cache m) = first_key ["disabled"] m.
Proof. intros; fk. Qed.
Lemma f_cache_name : forall m, field "Name" (partition_keys struct_Cache m) = first_key ["name"] m.
Proof. intros; fk. Qed.
Lemma f_cache_paths : forall m, field "Paths" (partition_keys struct_Cache m) = first_key ["paths"] m.
Proof. intros; fk. Qed.
Lemma f_cache_size : forall m, field "Size" (partition_keys struct_Cache m) = first_key ["size"] m.
Proof. intros; fk. Qed.
Lemma f_adj_with : forall m, field "With" (partition_keys struct_MatrixAdjustment m) = first_key ["with"] m.
Proof. intros; fk. Qed.
Lemma f_adj_skip : forall m, field "Skip" (partition_keys struct_MatrixAdjustment m) = first_key ["skip"] m.
Proof. intros; fk. Qed.
Lemma f_mx_setup : forall m, field "Setup" (partition_keys struct_Matrix m) = first_key ["setup"] m.
Proof. intros; fk. Qed.
Lemma f_mx_adj : forall m, field "Adjustments" (partition_keys struct_Matrix m) = first_key ["adjustments"] m.
Proof. intros; fk. Qed.
Lemma f_outer_commands : forall m,
  field "Commands" (partition_keys struct_CommandStep_UnmarshalOrdered_anon0 m) = first_key ["commands"; "command"] m.
Proof. intros; fk. Qed.
Lemma f_cmd_key : forall m, field "Key" (partition_keys struct_CommandStep m) = first_key ["key"; "id"; "identifier"] m.
Proof. intros; fk. Qed.
Lemma f_cmd_label : forall m, field "Label" (partition_keys struct_CommandStep m) = first_key ["label"; "name"] m.
Proof. intros; fk. Qed.
Lemma f_cmd_command : forall m, field "Command" (partition_keys struct_CommandStep m) = first_key ["command"] m.
Proof. intros; fk. Qed.
Lemma f_cmd_plugins : forall m, field "Plugins" (partition_keys struct_CommandStep m) = first_key ["plugins"] m.
Proof. intros; fk. Qed.
Lemma f_cmd_env : forall m, field "Env" (partition_keys struct_CommandStep m) = first_key ["env"] m.
Proof. intros; fk. Qed.
Lemma f_cmd_sig : forall m, field "Signature" (partition_keys struct_CommandStep m) = first_key ["signature"] m.
Proof. intros; fk. Qed.
Lemma f_cmd_matrix : forall m, field "Matrix" (partition_keys struct_CommandStep m) = first_key ["matrix"] m.
Proof. intros; fk. Qed.
Lemma f_cmd_cache : forall m, field "Cache" (partition_keys struct_CommandStep m) = first_key ["cache"] m.
Proof. intros; fk. Qed.
Lemma f_grp_key : forall m, field "Key" (partition_keys struct_GroupStep m) = first_key ["key"; "id"; "identifier"] m.
Proof. intros; fk. Qed.
Lemma f_grp_group : forall m, field "Group" (partition_keys struct_GroupStep m) = first_key ["group"; "label"; "name"] m.
Proof. intros; fk. Qed.
Lemma f_grp_steps : forall m, field "Steps" (partition_keys struct_GroupStep m) = first_key ["steps"] m.
Proof. intros; fk. Qed.
Lemma f_pp_steps : forall m, field "Steps" (partition_keys struct_Pipeline m) = first_key ["steps"] m.
Proof. intros; fk. Qed.
Lemma f_pp_env : forall m, field "Env" (partition_keys struct_Pipeline m) = first_key ["env"] m.
Proof. intros; fk. Qed.

Lemma kt_cache : ktab struct_Cache = [("disabled", []); ("name", []); ("paths", []); ("size", [])].
Proof. vm_compute. reflexivity. Qed.
Lemma kt_adj : ktab struct_MatrixAdjustment = [("with", []); ("skip", [])].
Proof. vm_compute. reflexivity. Qed.
Lemma kt_matrix : ktab struct_Matrix = [("setup", []); ("adjustments", [])].
Proof. vm_compute. reflexivity. Qed.
Lemma kt_outer : ktab struct_CommandStep_UnmarshalOrdered_anon0 = [("commands", ["command"])].
Proof. vm_compute. reflexivity. Qed.
Lemma kt_cmd : ktab struct_CommandStep =
  [("key", ["id"; "identifier"]); ("label", ["name"]); ("command", []); ("plugins", []); ("env", []);
   ("signature", []); ("matrix", []); ("cache", [])].
Proof. vm_compute. reflexivity. Qed.
Lemma kt_group : ktab struct_GroupStep = [("key", ["id"; "identifier"]); ("group", ["label"; "name"]); ("steps", [])].
Proof. vm_compute. reflexivity. Qed.
Lemma kt_pipeline : ktab struct_Pipeline = [("steps", []); ("env", [])].
Proof. vm_compute. reflexivity. Qed.

(* X : In (pk, al) [literal table]: one goal per row *)
Ltac ktab_cases X :=
  cbn [In] in X;
  repeat (destruct X as [X|X]; [inversion X; subst; clear X|]); [..|destruct X].

(** decoding optional string / string-list members *)
Lemma opt_str_field : forall name p s,
  field name p = option_map gv_of_json (if String.eqb s "" then None else Some (JStr s)) ->
  opt_field name p "" unm_string = Ok s 0.
Proof.
  intros name p s H. destruct (String.eqb_spec s "") as [E|N]; cbn [option_map] in H.
  - rewrite (opt_field_none _ _ _ _ H). subst. reflexivity.
  - rewrite (opt_field_some _ _ _ _ _ H). reflexivity.
Qed.

Lemma opt_strs_field : forall name p l,
  field name p = option_map gv_of_json (match l with [] => None | _ => Some (jstrs l) end) ->
  exists o, opt_field name p None unm_strings = Ok o 0 /\ strings_or_nil o = l.
Proof.
  intros name p l H. destruct l as [|x r]; cbn [option_map] in H.
  - rewrite (opt_field_none _ _ _ _ H). exists None. split; reflexivity.
  - rewrite (opt_field_some _ _ _ _ _ H). exists (Some (x :: r)). split; [apply unm_strings_jstrs|reflexivity].
Qed.

(** ------------------------------------------------------------------ *)
(** * 6. Cache *)

Definition cache_primary : list string := ["disabled"; "name"; "paths"; "size"].

(* a cache that is disabled, or whose extra fields are distinct, stable, and not named like a schema field *)
Definition cache_fix_ok (c : cache) : Prop := ca_disabled c = true \/ rem_ok cache_primary (ca_rem c).

Definition cache_ol (c : cache) : list (string * option json) :=
  [("name", if String.eqb (ca_name c) "" then None else Some (JStr (ca_name c)));
   ("paths", match ca_paths c with [] => None | _ => Some (jstrs (ca_paths c)) end);
   ("size", if String.eqb (ca_size c) "" then None else Some (JStr (ca_size c)))].

Lemma mj_cache_eq : forall c, ca_disabled c = false ->
  mj_cache c = inline_friendly (compact (cache_ol c)) (ca_rem c).
Proof.
  intros c D. unfold mj_cache, cache_ol. rewrite D.
  destruct (String.eqb (ca_name c) ""), (ca_paths c), (String.eqb (ca_size c) ""); reflexivity.
Qed.

Lemma cache_reobj : forall o1 o2 o3 rem, rem_ok cache_primary rem ->
  let ol := [("name", o1); ("paths", o2); ("size", o3)] in
  let p := partition_keys struct_Cache (gmap (members (inline_friendly (compact ol) rem))) in
  field "Disabled" p = None /\ field "Name" p = option_map gv_of_json o1 /\
  field "Paths" p = option_map gv_of_json o2 /\ field "Size" p = option_map gv_of_json o3 /\
  inline_friendly (compact ol) (leftover p) = inline_friendly (compact ol) rem.
Proof.
  intros o1 o2 o3 rem R ol p.
  assert (Nol : NoDup (map fst ol)) by (apply nodupb_sound; reflexivity).
  pose proof R as (Nr & Av & Vs).
  assert (G : forall k, In k cache_primary ->
            aget k (gmap (members (inline_friendly (compact ol) rem))) =
            match aget k ol with Some (Some j) => Some (gv_of_json j) | _ => None end).
  { intros k I. rewrite reobj_get by assumption. rewrite (rem_ok_none _ _ _ R I).
    destruct (aget k ol) as [[|]|]; reflexivity. }
  unfold p. rewrite f_cache_disabled, f_cache_name, f_cache_paths, f_cache_size. cbn [first_key].
  rewrite !G by (unfold cache_primary; in_lit).
  split; [reflexivity|]. split; [destruct o1; reflexivity|]. split; [destruct o2; reflexivity|].
  split; [destruct o3; reflexivity|].
  rewrite leftover_spec.
  apply (reobj_fix (compact ol) rem
           (fun k => negb (existsb (String.eqb k) (DecodeProofs.consumed (partition_keys struct_Cache
              (gmap (members (inline_friendly (compact ol) rem)))))))); try assumption.
  - apply compact_nodup. exact Nol.
  - apply consumed_not_in_rem. intros pk al Hin. rewrite kt_cache in Hin.
    ktab_cases Hin; (split; [apply Av; unfold cache_primary; in_lit|intros a []]).
Qed.

Theorem cache_roundtrip : forall c, cache_fix_ok c ->
  exists c', unm_cache (gv_of_json (mj_cache c)) = Ok (Some c') 0 /\ mj_cache c' = mj_cache c.
Proof.
  intros c H. destruct (ca_disabled c) eqn:D.
  - exists (mkCache true "" [] "" []). unfold mj_cache. rewrite D. split; reflexivity.
  - destruct H as [H|R]; [congruence|].
    rewrite (mj_cache_eq c D). rewrite inline_friendly_members, gv_of_json_obj.
    cbn [unm_cache]. cbv zeta.
    pose proof (cache_reobj (if String.eqb (ca_name c) "" then None else Some (JStr (ca_name c)))
                  (match ca_paths c with [] => None | _ => Some (jstrs (ca_paths c)) end)
                  (if String.eqb (ca_size c) "" then None else Some (JStr (ca_size c))) _ R) as X.
    cbv zeta in X. fold (cache_ol c) in X. destruct X as (F1 & F2 & F3 & F4 & FL).
    set (p := partition_keys struct_Cache (gmap (members (inline_friendly (compact (cache_ol c)) (ca_rem c))))) in *.
    rewrite (opt_field_none _ _ _ _ F1). unfold ret. rewrite bind_ret_l.
    rewrite (opt_str_field _ _ _ F2), bind_ret_l.
    destruct (opt_strs_field _ _ _ F3) as (o & Eo & So). rewrite Eo, bind_ret_l.
    rewrite (opt_str_field _ _ _ F4), bind_ret_l. rewrite So.
    eexists. split; [reflexivity|].
    rewrite mj_cache_eq by reflexivity. exact FL.
Qed.

(** generic: structs without aliases *)
Lemma reobj_schema_get : forall ol rem schema k,
  NoDup (map fst ol) -> rem_ok schema rem -> In k schema ->
  aget k (gmap (members (inline_friendly (compact ol) rem))) =
  match aget k ol with Some (Some j) => Some (gv_of_json j) | _ => None end.
Proof.
  intros ol rem schema k Nol R I. pose proof R as (Nr & _ & _).
  rewrite reobj_get by assumption. rewrite (rem_ok_none _ _ _ R I).
  destruct (aget k ol) as [[|]|]; reflexivity.
Qed.

Lemma noalias_fix : forall fields ol rem schema,
  (forall pk al, In (pk, al) (ktab fields) -> In pk schema /\ al = []) ->
  NoDup (map fst ol) -> rem_ok schema rem ->
  inline_friendly (compact ol)
    (leftover (partition_keys fields (gmap (members (inline_friendly (compact ol) rem)))))
  = inline_friendly (compact ol) rem.
Proof.
  intros fields ol rem schema HK Nol (Nr & Av & Vs). rewrite leftover_spec.
  apply (reobj_fix (compact ol) rem
           (fun k => negb (existsb (String.eqb k) (DecodeProofs.consumed (partition_keys fields
              (gmap (members (inline_friendly (compact ol) rem)))))))); try assumption.
  - apply compact_nodup. exact Nol.
  - apply consumed_not_in_rem. intros pk al Hin. destruct (HK pk al Hin) as [Hs ->].
    split; [apply Av; exact Hs|intros a []].
Qed.

Lemma mapM_map_ok0 : forall {A T U} (h : A -> T) (f : T -> res U) (g : A -> U) l,
  (forall a, In a l -> f (h a) = Ok (g a) 0) -> mapM f (map h l) = Ok (map g l) 0.
Proof.
  intros A T U h f g l. induction l as [|x r IH]; intros H; [reflexivity|].
  cbn [mapM map]. rewrite (H x) by (left; reflexivity). rewrite bind_ret_l.
  rewrite IH by (intros y Hy; apply H; right; exact Hy). rewrite bind_ret_l. reflexivity.
Qed.

Lemma mapM_roundtrip : forall {A} (f : gv -> res A) (mj : A -> json) (P : A -> Prop),
  (forall a, P a -> exists a', f (gv_of_json (mj a)) = Ok a' 0 /\ mj a' = mj a) ->
  forall l, Forall P l -> exists l', mapM f (map gv_of_json (map mj l)) = Ok l' 0 /\ map mj l' = map mj l.
Proof.
  intros A f mj P H l F. induction F as [|x r Hx Hr IH].
  - exists []. split; reflexivity.
  - destruct (H x Hx) as (x' & E1 & E2). destruct IH as (r' & E3 & E4).
    exists (x' :: r'). cbn [map mapM]. rewrite E1, bind_ret_l, E3, bind_ret_l. split; [reflexivity|].
    rewrite E2, E4. reflexivity.
Qed.

(** ------------------------------------------------------------------ *)
(** * 7. Matrix *)

Lemma mj_map_ss_sort : forall l, mj_map_ss (sort_keys l) = mj_map_ss l.
Proof.
  intros l. unfold mj_map_ss. f_equal.
  rewrite (sort_keys_map (fun v => JStr v) (sort_keys l)), sort_keys_idem, <- (sort_keys_map (fun v => JStr v) l).
  reflexivity.
Qed.

Lemma sort_keys_length : forall {T} (l : list (string * T)), length (sort_keys l) = length l.
Proof. intros. apply Permutation_length. apply sort_keys_perm. Qed.

Lemma sort_keys_single : forall {T} (x : string * T), sort_keys [x] = [x].
Proof. intros T [k v]. reflexivity. Qed.

Lemma mj_with_sort : forall l, mj_with (Some (sort_keys l)) = mj_with (Some l).
Proof.
  intros l. destruct l as [|x [|y r]]; [reflexivity|rewrite sort_keys_single; reflexivity|].
  pose proof (sort_keys_length (x :: y :: r)) as Len.
  pose proof (mj_map_ss_sort (x :: y :: r)) as E.
  destruct (sort_keys (x :: y :: r)) as [|a [|b t]]; try discriminate Len.
  destruct x, y, a, b. cbn [mj_with]. exact E.
Qed.

Lemma unm_with_map_ss : forall l, unm_with (gv_of_json (mj_map_ss l)) = Ok (sort_keys l) 0.
Proof.
  intros l. unfold mj_map_ss. rewrite gv_of_json_obj. cbn [unm_with].
  rewrite (sort_keys_map (fun v => JStr v) l). unfold gmap. rewrite map_map. cbn [fst snd gv_of_json].
  rewrite (mapM_map_ok0 _ _ (fun kv => kv)); [rewrite map_id; reflexivity|].
  intros [k v] _. reflexivity.
Qed.

Lemma with_roundtrip : forall l,
  exists l', unm_with (gv_of_json (mj_with (Some l))) = Ok l' 0 /\ mj_with (Some l') = mj_with (Some l).
Proof.
  intros l.
  assert (G : exists l', unm_with (gv_of_json (mj_map_ss l)) = Ok l' 0 /\ mj_with (Some l') = mj_with (Some l)).
  { exists (sort_keys l). split; [apply unm_with_map_ss|apply mj_with_sort]. }
  destruct l as [|[k v] [|y r]]; try exact G.
  destruct (String.eqb k "") eqn:E.
  - apply String.eqb_eq in E. subst k. exists [("", v)]. split; reflexivity.
  - assert (X : mj_with (Some [(k, v)]) = mj_map_ss [(k, v)]) by (cbn [mj_with]; rewrite E; reflexivity).
    rewrite X. rewrite X in G. exact G.
Qed.

Definition skip_ok (g : gv) : Prop := val_stable g /\ match g with GTime j => j <> "" | _ => True end.

Lemma is_empty_reread : forall g, skip_ok g -> is_empty_any g = false ->
  is_empty_any (gv_of_json (gv_json g)) = false.
Proof.
  intros g [S T] H. destruct g; cbn [gv_json]; try exact H;
    try (rewrite gv_of_json_int; reflexivity);
    try (cbn [gv_of_json]; destruct l; reflexivity);
    try (cbn [gv_of_json is_empty_any]; destruct (String.eqb_spec jtok ""); reflexivity).
  unfold val_stable in S. cbn [gv_json json_stable] in S.
  destruct (num_stable_cases _ S) as [(z & E & Z)|E]; rewrite E; reflexivity.
Qed.

Definition adj_schema : list string := ["with"; "skip"].
Definition matrix_schema : list string := ["setup"; "adjustments"].

(* an adjustment re-reads to itself when its `skip` is stable and its extra fields are fine; one without a
   `with` marshals "with": {} (fix F20) and re-reads with an empty `with`, which marshals the same *)
Definition adj_fix_ok (a : option madj) : Prop :=
  match a with
  | None => True
  | Some a => skip_ok (ma_skip a) /\ rem_ok adj_schema (ma_rem a)
  end.

Lemma mj_with_none : mj_with None = mj_with (Some []).
Proof. reflexivity. Qed.
Definition setup_fix_ok (su : option (list (string * option (list string)))) : Prop :=
  match su with None => True | Some l => Forall (fun kv => snd kv <> None) l end.
Definition matrix_fix_ok (m : matrix) : Prop :=
  setup_fix_ok (mx_setup m) /\ Forall adj_fix_ok (mx_adj m) /\ rem_ok matrix_schema (mx_rem m).

Definition adj_ol (w : option (list (string * string))) (sk : gv) : list (string * option json) :=
  [("with", Some (mj_with w)); ("skip", if is_empty_any sk then None else Some (gv_json sk))].

Lemma mj_adj_eq : forall a, mj_adj (Some a) = inline_friendly (compact (adj_ol (ma_with a) (ma_skip a))) (ma_rem a).
Proof. intros a. unfold mj_adj, adj_ol. destruct (is_empty_any (ma_skip a)); reflexivity. Qed.

Lemma adj_reobj : forall o1 o2 rem, rem_ok adj_schema rem ->
  let ol := [("with", o1); ("skip", o2)] in
  let p := partition_keys struct_MatrixAdjustment (gmap (members (inline_friendly (compact ol) rem))) in
  field "With" p = option_map gv_of_json o1 /\ field "Skip" p = option_map gv_of_json o2 /\
  inline_friendly (compact ol) (leftover p) = inline_friendly (compact ol) rem.
Proof.
  intros o1 o2 rem R ol p.
  assert (Nol : NoDup (map fst ol)) by (apply nodupb_sound; reflexivity).
  unfold p. rewrite f_adj_with, f_adj_skip. cbn [first_key].
  rewrite !(reobj_schema_get ol rem adj_schema) by (first [assumption|unfold adj_schema; in_lit]).
  split; [destruct o1; reflexivity|]. split; [destruct o2; reflexivity|].
  apply (noalias_fix _ ol rem adj_schema); try assumption.
  intros pk al Hin. rewrite kt_adj in Hin. ktab_cases Hin; (split; [unfold adj_schema; in_lit|reflexivity]).
Qed.

Lemma adj_roundtrip : forall a, adj_fix_ok a ->
  exists a', unm_adj (gv_of_json (mj_adj a)) = Ok a' 0 /\ mj_adj a' = mj_adj a.
Proof.
  intros [a|] H; [|exists None; split; reflexivity].
  destruct H as (Sk & R).
  (* without a `with` the marshalled form is that of an empty `with` *)
  assert (EW : exists l, adj_ol (ma_with a) (ma_skip a) = adj_ol (Some l) (ma_skip a)).
  { destruct (ma_with a) as [l|]; [exists l; reflexivity|]. exists []. unfold adj_ol. rewrite mj_with_none. reflexivity. }
  destruct EW as (l & EW).
  rewrite mj_adj_eq, EW. rewrite inline_friendly_members, gv_of_json_obj. cbn [unm_adj]. cbv zeta.
  pose proof (adj_reobj (Some (mj_with (Some l)))
                (if is_empty_any (ma_skip a) then None else Some (gv_json (ma_skip a))) _ R) as X.
  cbv zeta in X. fold (adj_ol (Some l) (ma_skip a)) in X. destruct X as (F1 & F2 & FL).
  set (p := partition_keys struct_MatrixAdjustment
              (gmap (members (inline_friendly (compact (adj_ol (Some l) (ma_skip a))) (ma_rem a))))) in *.
  rewrite F1, F2. cbn [option_map].
  destruct (with_roundtrip l) as (l' & E1 & E2). rewrite E1, bind_ret_l. unfold ret at 1. rewrite bind_ret_l.
  eexists. split; [reflexivity|].
  rewrite mj_adj_eq. cbn [ma_with ma_skip ma_rem].
  assert (EO : adj_ol (Some l') (match option_map gv_of_json (if is_empty_any (ma_skip a) then None else Some (gv_json (ma_skip a))) with
                                 | Some v => v | None => GNull end) = adj_ol (Some l) (ma_skip a)).
  { unfold adj_ol. rewrite E2. destruct (is_empty_any (ma_skip a)) eqn:Em; cbn [option_map]; [reflexivity|].
    rewrite (is_empty_reread _ Sk Em). rewrite val_stable_fix by apply Sk. reflexivity. }
  rewrite EO. exact FL.
Qed.

Definition su_anon (su : option (list (string * option (list string)))) : option (list string) :=
  match su with Some l => setup_anon l | None => None end.

Lemma mx_simple_eq : forall m,
  mx_simple m = match mx_adj m, mx_rem m with [], [] => su_anon (mx_setup m) | _, _ => None end.
Proof. intros m. unfold mx_simple, su_anon. destruct (mx_setup m), (mx_adj m), (mx_rem m); reflexivity. Qed.

Lemma setup_anon_cons : forall l vs, setup_anon l = Some vs -> exists x r, vs = x :: r /\ l = [("", Some vs)].
Proof.
  intros l vs H. unfold setup_anon in H.
  destruct l as [|[k [[|x r]|]] [|y t]]; try discriminate H.
  destruct (String.eqb_spec k ""); [|discriminate H]. inversion H; subst. eauto.
Qed.

Lemma setup_sort : forall l,
  mj_setup (Some (sort_keys l)) = mj_setup (Some l) /\ setup_anon (sort_keys l) = setup_anon l.
Proof.
  intros l. destruct l as [|x [|y r]]; [split; reflexivity|rewrite sort_keys_single; split; reflexivity|].
  pose proof (sort_keys_length (x :: y :: r)) as Len.
  assert (E : sort_keys (map (fun kv => (fst kv, mj_strs_opt (snd kv))) (sort_keys (x :: y :: r)))
              = sort_keys (map (fun kv => (fst kv, mj_strs_opt (snd kv))) (x :: y :: r))).
  { rewrite (sort_keys_map mj_strs_opt (sort_keys (x :: y :: r))), sort_keys_idem,
      <- (sort_keys_map mj_strs_opt (x :: y :: r)). reflexivity. }
  destruct (sort_keys (x :: y :: r)) as [|a [|b t]]; try discriminate Len.
  split.
  - unfold mj_setup. destruct x as [? [[|]|]], y, a as [? [[|]|]], b; cbn [setup_anon]; rewrite E; reflexivity.
  - destruct x as [? [[|]|]], y, a as [? [[|]|]], b; reflexivity.
Qed.

Lemma setup_roundtrip : forall su, setup_fix_ok su ->
  exists su', unm_setup (gv_of_json (mj_setup su)) = Ok su' 0 /\ mj_setup su' = mj_setup su /\ su_anon su' = su_anon su.
Proof.
  intros [l|] H; [|exists None; repeat split; reflexivity].
  destruct l as [|x0 r0]; [exists None; repeat split; reflexivity|].
  set (l := x0 :: r0) in *.
  assert (ML : mj_setup (Some l) = match setup_anon l with
                                   | Some vs => jstrs vs
                                   | None => JObj (sort_keys (map (fun kv => (fst kv, mj_strs_opt (snd kv))) l))
                                   end) by reflexivity.
  rewrite ML. destruct (setup_anon l) as [vs|] eqn:SA.
  - destruct (setup_anon_cons _ _ SA) as (x & r & -> & El).
    exists (Some [("", Some (x :: r))]). unfold jstrs. rewrite gv_of_json_arr. cbn [unm_setup].
    rewrite mapM_strs, bind_ret_l. split; [reflexivity|]. rewrite El. repeat split; reflexivity.
  - exists (Some (sort_keys l)). split.
    + rewrite gv_of_json_obj. cbn [unm_setup].
      rewrite (sort_keys_map mj_strs_opt l). unfold gmap. rewrite map_map. cbn [fst snd].
      rewrite (mapM_map_ok0 _ _ (fun kv => kv)); [rewrite map_id; reflexivity|].
      intros [k v] Hin. cbn [fst snd].
      assert (In (k, v) l) as Hl.
      { eapply Permutation_in; [apply sort_keys_perm|exact Hin]. }
      cbn [setup_fix_ok] in H. rewrite Forall_forall in H. specialize (H _ Hl). cbn [snd] in H.
      destruct v as [vs|]; [|congruence]. cbn [mj_strs_opt]. rewrite unm_strings_jstrs, bind_ret_l. reflexivity.
    + destruct (setup_sort l) as [E1 E2]. split; [rewrite E1; exact ML|].
      cbn [su_anon]. exact E2.
Qed.

Lemma rem_empty_reflect : forall ol rem schema,
  inline_friendly (compact ol) [] = inline_friendly (compact ol) rem ->
  (forall k, In k (map fst ol) -> In k schema) -> rem_ok schema rem -> rem = [].
Proof.
  intros ol rem schema E Hs (Nr & Av & _). destruct rem as [|[k v] t]; [reflexivity|]. exfalso.
  assert (I : In k (map fst (members (inline_friendly (compact ol) ((k, v) :: t))))).
  { apply inline_friendly_keys. right. left. reflexivity. }
  rewrite <- E in I. apply inline_friendly_keys in I. destruct I as [I|[]].
  apply compact_keys in I. apply (Av k (Hs k I)). left. reflexivity.
Qed.

Definition matrix_ol (m : matrix) : list (string * option json) :=
  [("setup", Some (mj_setup (mx_setup m)));
   ("adjustments", match mx_adj m with [] => None | _ => Some (JArr (map mj_adj (mx_adj m))) end)].

Lemma mj_matrix_eq : forall m, mx_simple m = None ->
  mj_matrix m = inline_friendly (compact (matrix_ol m)) (mx_rem m).
Proof. intros m S. unfold mj_matrix, matrix_ol. rewrite S. destruct (mx_adj m); reflexivity. Qed.

Lemma matrix_reobj : forall o1 o2 rem, rem_ok matrix_schema rem ->
  let ol := [("setup", o1); ("adjustments", o2)] in
  let p := partition_keys struct_Matrix (gmap (members (inline_friendly (compact ol) rem))) in
  field "Setup" p = option_map gv_of_json o1 /\ field "Adjustments" p = option_map gv_of_json o2 /\
  inline_friendly (compact ol) (leftover p) = inline_friendly (compact ol) rem.
Proof.
  intros o1 o2 rem R ol p.
  assert (Nol : NoDup (map fst ol)) by (apply nodupb_sound; reflexivity).
  unfold p. rewrite f_mx_setup, f_mx_adj. cbn [first_key].
  rewrite !(reobj_schema_get ol rem matrix_schema) by (first [assumption|unfold matrix_schema; in_lit]).
  split; [destruct o1; reflexivity|]. split; [destruct o2; reflexivity|].
  apply (noalias_fix _ ol rem matrix_schema); try assumption.
  intros pk al Hin. rewrite kt_matrix in Hin. ktab_cases Hin; (split; [unfold matrix_schema; in_lit|reflexivity]).
Qed.

Lemma map_eq_nil_iff : forall {A B} (f : A -> B) l l', map f l' = map f l -> (l' = [] <-> l = []).
Proof. intros A B f l l' H. destruct l, l'; try discriminate H; split; intros; congruence. Qed.

Theorem matrix_roundtrip : forall m, matrix_fix_ok m ->
  exists m', unm_matrix (gv_of_json (mj_matrix m)) = Ok (Some m') 0 /\ mj_matrix m' = mj_matrix m.
Proof.
  intros m (HS & HA & R). destruct (mx_simple m) as [vs|] eqn:S.
  - unfold mj_matrix. rewrite S. rewrite mx_simple_eq in S.
    destruct (mx_adj m); [|discriminate S]. destruct (mx_rem m); [|discriminate S].
    destruct (mx_setup m) as [l|]; [|discriminate S]. cbn [su_anon] in S.
    destruct (setup_anon_cons _ _ S) as (x & r & -> & _).
    exists (mkMx (Some [("", Some (x :: r))]) [] []).
    unfold jstrs. rewrite gv_of_json_arr. cbn [unm_matrix]. rewrite mapM_strs, bind_ret_l.
    split; reflexivity.
  - rewrite (mj_matrix_eq m S). rewrite inline_friendly_members, gv_of_json_obj. cbn [unm_matrix]. cbv zeta.
    pose proof (matrix_reobj (Some (mj_setup (mx_setup m)))
                  (match mx_adj m with [] => None | _ => Some (JArr (map mj_adj (mx_adj m))) end) _ R) as X.
    cbv zeta in X. fold (matrix_ol m) in X. destruct X as (F1 & F2 & FL).
    set (p := partition_keys struct_Matrix
                (gmap (members (inline_friendly (compact (matrix_ol m)) (mx_rem m))))) in *.
    rewrite F1. cbn [option_map].
    destruct (setup_roundtrip _ HS) as (su' & E1 & E2 & E3). rewrite E1, bind_ret_l.
    assert (A : exists adj', opt_field "Adjustments" p [] unm_adjs = Ok adj' 0 /\
                             map mj_adj adj' = map mj_adj (mx_adj m)).
    { destruct (mx_adj m) as [|a0 r0] eqn:EA; cbn [option_map] in F2.
      - rewrite (opt_field_none _ _ _ _ F2). exists []. split; reflexivity.
      - rewrite (opt_field_some _ _ _ _ _ F2). rewrite gv_of_json_arr. cbn [unm_adjs].
        apply (mapM_roundtrip unm_adj mj_adj adj_fix_ok adj_roundtrip). exact HA. }
    destruct A as (adj' & E4 & E5). rewrite E4, bind_ret_l.
    eexists. split; [reflexivity|].
    assert (EO : matrix_ol (mkMx su' adj' (leftover p)) = matrix_ol m).
    { unfold matrix_ol. cbn [mx_setup mx_adj]. rewrite E2.
      pose proof (map_eq_nil_iff _ _ _ E5) as N.
      destruct adj' as [|a1 r1], (mx_adj m) as [|a0 r0]; try reflexivity.
      - exfalso. destruct N as [N _]. specialize (N eq_refl). discriminate N.
      - exfalso. destruct N as [_ N]. specialize (N eq_refl). discriminate N.
      - rewrite E5. reflexivity. }
    assert (S' : mx_simple (mkMx su' adj' (leftover p)) = None).
    { rewrite mx_simple_eq. cbn [mx_setup mx_adj mx_rem].
      destruct adj' as [|a1 r1]; [|reflexivity]. destruct (leftover p) eqn:EL; [|reflexivity].
      rewrite E3. rewrite mx_simple_eq in S.
      assert (EA : mx_adj m = []) by (apply (map_eq_nil_iff _ _ _ E5); reflexivity).
      assert (ER : mx_rem m = []).
      { apply (rem_empty_reflect (matrix_ol m) _ matrix_schema); [exact FL| |exact R].
        intros k I. unfold matrix_ol in I. cbn [map fst] in I. exact I. }
      rewrite EA, ER in S. exact S. }
    rewrite (mj_matrix_eq _ S'). cbn [mx_rem]. rewrite EO. exact FL.
Qed.

(** ------------------------------------------------------------------ *)
(** * 8. Plugins *)

(* values without ordered maps: what ToMapRecursive produces *)
Fixpoint no_gmap (g : gv) : Prop :=
  match g with
  | GMap _ => False
  | GSeq l => (fix go (l : list gv) : Prop := match l with [] => True | x :: r => no_gmap x /\ go r end) l
  | GUMap l => (fix go (l : list (string * gv)) : Prop :=
                  match l with [] => True | kv :: r => no_gmap (snd kv) /\ go r end) l
  | _ => True
  end.

Lemma no_gmap_seq : forall l, no_gmap (GSeq l) <-> Forall no_gmap l.
Proof.
  induction l as [|x r IH]; [split; intros; [constructor|exact I]|].
  change (no_gmap (GSeq (x :: r))) with (no_gmap x /\ no_gmap (GSeq r)). rewrite IH. split.
  - intros [A B]. constructor; assumption.
  - intros H. inversion H; subst. split; assumption.
Qed.
Lemma no_gmap_umap : forall l, no_gmap (GUMap l) <-> Forall (fun kv => no_gmap (snd kv)) l.
Proof.
  induction l as [|x r IH]; [split; intros; [constructor|exact I]|].
  change (no_gmap (GUMap (x :: r))) with (no_gmap (snd x) /\ no_gmap (GUMap r)). rewrite IH. split.
  - intros [A B]. constructor; assumption.
  - intros H. inversion H; subst. split; assumption.
Qed.

Lemma val_stable_seq : forall l, val_stable (GSeq l) <-> Forall val_stable l.
Proof.
  intros l. unfold val_stable. rewrite gv_json_seq, json_stable_arr, Forall_map. reflexivity.
Qed.
Lemma val_stable_map : forall l, val_stable (GMap l) <-> vals_stable l.
Proof.
  intros l. unfold val_stable, vals_stable. rewrite gv_json_map, json_stable_obj. unfold jmap.
  rewrite Forall_map. reflexivity.
Qed.
Lemma val_stable_umap : forall l, val_stable (GUMap l) <-> vals_stable l.
Proof.
  intros l. unfold val_stable, vals_stable. rewrite gv_json_umap, json_stable_obj.
  assert (P : Permutation (sort_keys (jmap l)) (jmap l)) by apply sort_keys_perm.
  split; intros H.
  - apply (Permutation_Forall P) in H. unfold jmap in H. rewrite Forall_map in H. exact H.
  - apply (Permutation_Forall (Permutation_sym P)). unfold jmap. rewrite Forall_map. exact H.
Qed.

(* with to_map_recursive for plugin configs *)
Theorem plugin_config_roundtrip : forall c, no_gmap c -> val_stable c ->
  gv_json (to_map_recursive (gv_of_json (gv_json c))) = gv_json c.
Proof.
  induction c using gv_ind'; intros NG VS; try reflexivity.
  - cbn [gv_json]. rewrite gv_of_json_int. reflexivity.
  - unfold val_stable in VS. cbn [gv_json json_stable] in *.
    destruct (num_stable_cases _ VS) as [(z & E & Z)|E]; rewrite E; cbn [to_map_recursive gv_json]; congruence.
  - rewrite gv_json_seq, gv_of_json_arr. cbn [to_map_recursive]. rewrite gv_json_seq. f_equal.
    apply no_gmap_seq in NG. apply val_stable_seq in VS. rewrite !map_map.
    apply map_ext_in. intros x Hx. rewrite Forall_forall in H, NG, VS. apply H; auto.
  - destruct NG.
  - rewrite gv_json_umap, gv_of_json_obj. cbn [to_map_recursive]. rewrite gv_json_umap. f_equal.
    apply no_gmap_umap in NG. apply val_stable_umap in VS.
    unfold jmap at 1, gmap. rewrite !map_map. cbn [fst snd].
    rewrite (sort_keys_map (fun j => gv_json (to_map_recursive (gv_of_json j))) (sort_keys (jmap l))).
    rewrite sort_keys_idem.
    rewrite <- (sort_keys_map (fun j => gv_json (to_map_recursive (gv_of_json j))) (jmap l)).
    f_equal. unfold jmap. rewrite map_map. cbn [fst snd]. apply map_ext_in. intros [k v] Hx. cbn [fst snd].
    unfold vals_stable in VS. rewrite Forall_forall in H, NG, VS. f_equal.
    apply (H (k, v) Hx); [apply (NG (k, v) Hx)|apply (VS (k, v) Hx)].
Qed.

Definition plugin_cfg (c : gv) : json :=
  match c with
  | GUMap [] => JNull
  | GSeq [] => JNull
  | c => gv_json c
  end.

Lemma mj_plugin_eq : forall p, mj_plugin p = JObj [(full_source (pl_source p), plugin_cfg (pl_config p))].
Proof. intros p. unfold mj_plugin, plugin_cfg. destruct (pl_config p) as [| | | | | |[|]| |[|]]; reflexivity. Qed.

Lemma plugin_cfg_spec : forall c,
  plugin_cfg c = gv_json c \/ (plugin_cfg c = JNull /\ (c = GUMap [] \/ c = GSeq [])).
Proof. intros c. destruct c as [| | | | | |[|]| |[|]]; auto. Qed.

Lemma gv_json_obj_nil : forall c, gv_json c = JObj [] -> c = GMap [] \/ c = GUMap [].
Proof.
  intros c H. destruct c; try discriminate H.
  - destruct l; [left; reflexivity|discriminate H].
  - cbn [gv_json] in H. injection H as H. apply (f_equal (@length _)) in H.
    rewrite sort_keys_length, map_length in H. destruct l; [right; reflexivity|discriminate H].
Qed.
Lemma gv_json_arr_nil : forall c, gv_json c = JArr [] -> c = GSeq [].
Proof.
  intros c H. destruct c; try discriminate H. destruct l; [reflexivity|discriminate H].
Qed.

Lemma cfg_roundtrip : forall c, no_gmap c -> val_stable c ->
  plugin_cfg (to_map_recursive (gv_of_json (plugin_cfg c))) = plugin_cfg c.
Proof.
  intros c NG VS. destruct (plugin_cfg_spec c) as [E|[E _]]; [|rewrite E; reflexivity].
  rewrite E. pose proof (plugin_config_roundtrip c NG VS) as R.
  destruct (plugin_cfg_spec (to_map_recursive (gv_of_json (gv_json c)))) as [E'|[E' [C|C]]].
  - rewrite E'. exact R.
  - rewrite C in R. cbn [gv_json jmap map sort_keys fold_right] in R. symmetry in R.
    apply gv_json_obj_nil in R. destruct R as [R|R]; subst c; [destruct NG|discriminate E].
  - rewrite C in R. cbn [gv_json map] in R. symmetry in R.
    apply gv_json_arr_nil in R. subst c. discriminate E.
Qed.

(* a plugin whose canonical source is a fixpoint of canonicalisation and whose config is a
   stable ToMapRecursive value *)
Definition plugin_fix_ok (p : plugin) : Prop :=
  full_source (full_source (pl_source p)) = full_source (pl_source p) /\
  no_gmap (pl_config p) /\ val_stable (pl_config p).

Definition reparse_plugin (p : plugin) : plugin :=
  mkPlugin (full_source (pl_source p)) (to_map_recursive (gv_of_json (plugin_cfg (pl_config p)))).

Lemma reparse_plugin_fix : forall p, plugin_fix_ok p -> mj_plugin (reparse_plugin p) = mj_plugin p.
Proof.
  intros p (S & NG & VS). rewrite !mj_plugin_eq. unfold reparse_plugin. cbn [pl_source pl_config].
  rewrite S, cfg_roundtrip by assumption. reflexivity.
Qed.

Lemma concat_singletons : forall {A B} (f : A -> B) l, concat (map (fun x => [f x]) l) = map f l.
Proof. intros A B f l. induction l as [|x r IH]; [reflexivity|]. cbn [map concat app]. rewrite IH. reflexivity. Qed.

Theorem plugins_roundtrip : forall ps, Forall plugin_fix_ok ps ->
  exists ps', unm_plugins (gv_of_json (JArr (map mj_plugin ps))) = Ok ps' 0 /\ map mj_plugin ps' = map mj_plugin ps.
Proof.
  intros ps H. exists (map reparse_plugin ps). split.
  - rewrite gv_of_json_arr. cbn [unm_plugins]. rewrite map_map.
    rewrite (mapM_map_ok0 _ _ (fun p => [reparse_plugin p])); [|intros p _; rewrite mj_plugin_eq; reflexivity].
    rewrite bind_ret_l. unfold ret. rewrite concat_singletons. reflexivity.
  - rewrite map_map. apply map_ext_in. intros p Hp. rewrite Forall_forall in H.
    apply reparse_plugin_fix. apply H. exact Hp.
Qed.

(** ------------------------------------------------------------------ *)
(** * 9. Command steps *)

Definition ne_opt {A} (l : list A) (j : json) : option json := match l with [] => None | _ => Some j end.

Lemma ne_opt_eq : forall {A B} (l' : list A) (l : list B) j, (l' = [] <-> l = []) -> ne_opt l' j = ne_opt l j.
Proof.
  intros A B l' l j [H1 H2]. destruct l', l; try reflexivity.
  - specialize (H1 eq_refl). discriminate H1.
  - specialize (H2 eq_refl). discriminate H2.
Qed.

Definition cmd_primary : list string :=
  ["commands"; "command"; "key"; "label"; "plugins"; "env"; "signature"; "matrix"; "cache"].

(* a command step that re-reads to itself *)
Definition cmd_ok (c : command_step) : Prop :=
  rem_ok cmd_primary (cs_rem c) /\
  (cs_key c = "" -> ~ In "id" (map fst (cs_rem c)) /\ ~ In "identifier" (map fst (cs_rem c))) /\
  (cs_label c = "" -> ~ In "name" (map fst (cs_rem c))) /\
  Forall plugin_fix_ok (cs_plugins c) /\
  match cs_matrix c with Some m => matrix_fix_ok m | None => True end /\
  match cs_cache c with Some x => cache_fix_ok x | None => True end.

Definition str_opt (s : string) : option json := if String.eqb s "" then None else Some (JStr s).

Definition cmd_ol (c : command_step) : list (string * option json) :=
  [("key", str_opt (cs_key c));
   ("label", str_opt (cs_label c));
   ("command", Some (JStr (cs_command c)));
   ("plugins", ne_opt (cs_plugins c) (JArr (map mj_plugin (cs_plugins c))));
   ("env", ne_opt (cs_env c) (mj_map_ss (cs_env c)));
   ("signature", option_map mj_sig (cs_sig c));
   ("matrix", option_map mj_matrix (cs_matrix c));
   ("cache", option_map mj_cache (cs_cache c))].

Lemma mj_command_ol : forall c, mj_command c = inline_friendly (compact (cmd_ol c)) (cs_rem c).
Proof.
  intros c. unfold mj_command, cmd_ol, str_opt, ne_opt.
  destruct (String.eqb (cs_key c) ""), (String.eqb (cs_label c) ""), (cs_plugins c), (cs_env c),
    (cs_sig c), (cs_matrix c), (cs_cache c); reflexivity.
Qed.

Lemma outer_consumed : forall m v, aget "commands" m = None -> aget "command" m = Some v ->
  DecodeProofs.consumed (partition_keys struct_CommandStep_UnmarshalOrdered_anon0 m) = ["command"].
Proof.
  intros m v H1 H2. unfold DecodeProofs.consumed. rewrite partition_assigned.
  unfold asg. cbv - [aget]. rewrite H1, H2. reflexivity.
Qed.

Lemma filter_filter' : forall {A} (f g : A -> bool) l,
  filter f (filter g l) = filter (fun x => g x && f x) l.
Proof.
  intros A f g l. induction l as [|x r IH]; [reflexivity|]. cbn [filter].
  destruct (g x); cbn [filter andb]; [destruct (f x); rewrite IH; reflexivity|exact IH].
Qed.

Lemma cmd_reobj : forall o1 o2 j3 o4 o5 o6 o7 o8 rem,
  rem_ok cmd_primary rem ->
  (o1 = None -> ~ In "id" (map fst rem) /\ ~ In "identifier" (map fst rem)) ->
  (o2 = None -> ~ In "name" (map fst rem)) ->
  let ol := [("key", o1); ("label", o2); ("command", Some j3); ("plugins", o4); ("env", o5);
             ("signature", o6); ("matrix", o7); ("cache", o8)] in
  let m := gmap (members (inline_friendly (compact ol) rem)) in
  let outer := partition_keys struct_CommandStep_UnmarshalOrdered_anon0 m in
  let p := partition_keys struct_CommandStep (leftover outer) in
  field "Commands" outer = Some (gv_of_json j3) /\
  field "Key" p = option_map gv_of_json o1 /\ field "Label" p = option_map gv_of_json o2 /\
  field "Command" p = None /\ field "Plugins" p = option_map gv_of_json o4 /\
  field "Env" p = option_map gv_of_json o5 /\ field "Signature" p = option_map gv_of_json o6 /\
  field "Matrix" p = option_map gv_of_json o7 /\ field "Cache" p = option_map gv_of_json o8 /\
  inline_friendly (compact ol) (leftover p) = inline_friendly (compact ol) rem.
Proof.
  intros o1 o2 j3 o4 o5 o6 o7 o8 rem R A1 A2 ol m outer p.
  assert (Nol : NoDup (map fst ol)) by (apply nodupb_sound; reflexivity).
  pose proof R as (Nr & Av & Vs).
  assert (G : forall k, In k cmd_primary ->
            aget k m = match aget k ol with Some (Some j) => Some (gv_of_json j) | _ => None end).
  { intros k I. apply (reobj_schema_get ol rem cmd_primary); assumption. }
  assert (C1 : aget "commands" m = None) by (rewrite G by (unfold cmd_primary; in_lit); reflexivity).
  assert (C2 : aget "command" m = Some (gv_of_json j3)) by (rewrite G by (unfold cmd_primary; in_lit); reflexivity).
  assert (CO : DecodeProofs.consumed outer = ["command"]) by (eapply outer_consumed; eassumption).
  assert (M2 : forall k, aget k (leftover outer) = if String.eqb k "command" then None else aget k m).
  { intros k. unfold outer. rewrite aget_leftover. fold outer. rewrite CO. cbn [existsb].
    rewrite orb_false_r. destruct (String.eqb k "command"); reflexivity. }
  assert (Gid : aget "id" m = option_map (fun v => gv_of_json (gv_json v)) (aget "id" rem)).
  { unfold m. rewrite reobj_get by assumption. reflexivity. }
  assert (Gidf : aget "identifier" m = option_map (fun v => gv_of_json (gv_json v)) (aget "identifier" rem)).
  { unfold m. rewrite reobj_get by assumption. reflexivity. }
  assert (Gname : aget "name" m = option_map (fun v => gv_of_json (gv_json v)) (aget "name" rem)).
  { unfold m. rewrite reobj_get by assumption. reflexivity. }
  split. { unfold outer. rewrite f_outer_commands. cbn [first_key]. rewrite C1, C2. reflexivity. }
  unfold p. rewrite f_cmd_key, f_cmd_label, f_cmd_command, f_cmd_plugins, f_cmd_env, f_cmd_sig, f_cmd_matrix, f_cmd_cache.
  cbn [first_key]. rewrite !M2. cbn [String.eqb Ascii.eqb Bool.eqb].
  rewrite (G "key"), (G "label"), (G "plugins"), (G "env"), (G "signature"), (G "matrix"), (G "cache")
    by (unfold cmd_primary; in_lit).
  split.
  { destruct o1 as [j|]; [reflexivity|]. cbn [aget ol String.eqb Ascii.eqb Bool.eqb].
    destruct (A1 eq_refl) as [X Y]. rewrite Gid, Gidf, (aget_none _ _ X), (aget_none _ _ Y). reflexivity. }
  split.
  { destruct o2 as [j|]; [reflexivity|]. cbn [aget ol String.eqb Ascii.eqb Bool.eqb].
    rewrite Gname, (aget_none _ _ (A2 eq_refl)). reflexivity. }
  split; [reflexivity|].
  split; [destruct o4; reflexivity|]. split; [destruct o5; reflexivity|]. split; [destruct o6; reflexivity|].
  split; [destruct o7; reflexivity|]. split; [destruct o8; reflexivity|].
  rewrite leftover_spec. unfold outer at 2. rewrite leftover_spec. fold m. fold outer.
  rewrite filter_filter'.
  apply (reobj_fix (compact ol) rem
           (fun k => negb (existsb (String.eqb k) (DecodeProofs.consumed outer)) &&
                     negb (existsb (String.eqb k) (DecodeProofs.consumed
                             (partition_keys struct_CommandStep (leftover outer)))))); try assumption.
  - apply compact_nodup. exact Nol.
  - intros k Hk. apply andb_false_iff in Hk. destruct Hk as [Hk|Hk].
    + rewrite CO in Hk. cbn [existsb] in Hk. rewrite orb_false_r in Hk. apply negb_false_iff in Hk.
      apply String.eqb_eq in Hk. subst k. apply Av. unfold cmd_primary. in_lit.
    + revert k Hk. apply consumed_not_in_rem. intros pk al Hin. rewrite kt_cmd in Hin.
      ktab_cases Hin; (split; [apply Av; unfold cmd_primary; in_lit|]); try solve [intros ? []].
      * intros al0 Ha Hn. rewrite M2 in Hn. cbn [String.eqb Ascii.eqb Bool.eqb] in Hn.
        rewrite G in Hn by (unfold cmd_primary; in_lit). cbn [aget ol String.eqb Ascii.eqb Bool.eqb] in Hn.
        destruct o1 as [j|]; [discriminate Hn|]. destruct (A1 eq_refl) as [X Y].
        cbn [In] in Ha. destruct Ha as [<-|[<-|[]]]; assumption.
      * intros al0 Ha Hn. rewrite M2 in Hn. cbn [String.eqb Ascii.eqb Bool.eqb] in Hn.
        rewrite G in Hn by (unfold cmd_primary; in_lit). cbn [aget ol String.eqb Ascii.eqb Bool.eqb] in Hn.
        destruct o2 as [j|]; [discriminate Hn|].
        cbn [In] in Ha. destruct Ha as [<-|[]]. apply A2. reflexivity.
Qed.

Lemma unm_map_ss_roundtrip : forall l, unm_map_ss (gv_of_json (mj_map_ss l)) = Ok (sort_keys l) 0.
Proof.
  intros l. unfold mj_map_ss. rewrite gv_of_json_obj. cbn [unm_map_ss].
  rewrite (sort_keys_map (fun v => JStr v) l). unfold gmap. rewrite map_map. cbn [fst snd gv_of_json].
  rewrite (mapM_map_ok0 _ _ (fun kv => kv)); [rewrite map_id; reflexivity|].
  intros [k v] _. reflexivity.
Qed.

Lemma sort_keys_nil_iff : forall {T} (l : list (string * T)), sort_keys l = [] <-> l = [].
Proof.
  intros T l. pose proof (sort_keys_length l) as Len. split; intros H.
  - rewrite H in Len. destruct l; [reflexivity|discriminate Len].
  - subst. reflexivity.
Qed.

Theorem command_roundtrip : forall c, cmd_ok c ->
  exists c', unm_command (gmap (members (mj_command c))) = Ok c' 0 /\ mj_command c' = mj_command c.
Proof.
  intros c (R & A1 & A2 & HP & HM & HC).
  rewrite (mj_command_ol c).
  assert (A1' : str_opt (cs_key c) = None -> ~ In "id" (map fst (cs_rem c)) /\ ~ In "identifier" (map fst (cs_rem c))).
  { unfold str_opt. destruct (String.eqb_spec (cs_key c) ""); [intros _; apply A1; assumption|discriminate]. }
  assert (A2' : str_opt (cs_label c) = None -> ~ In "name" (map fst (cs_rem c))).
  { unfold str_opt. destruct (String.eqb_spec (cs_label c) ""); [intros _; apply A2; assumption|discriminate]. }
  pose proof (cmd_reobj (str_opt (cs_key c)) (str_opt (cs_label c)) (JStr (cs_command c))
                (ne_opt (cs_plugins c) (JArr (map mj_plugin (cs_plugins c))))
                (ne_opt (cs_env c) (mj_map_ss (cs_env c)))
                (option_map mj_sig (cs_sig c)) (option_map mj_matrix (cs_matrix c))
                (option_map mj_cache (cs_cache c)) (cs_rem c) R A1' A2') as X.
  cbv zeta in X. fold (cmd_ol c) in X.
  destruct X as (F0 & F1 & F2 & F3 & F4 & F5 & F6 & F7 & F8 & FL).
  unfold unm_command. cbv zeta.
  set (m := gmap (members (inline_friendly (compact (cmd_ol c)) (cs_rem c)))) in *.
  set (outer := partition_keys struct_CommandStep_UnmarshalOrdered_anon0 m) in *.
  set (p := partition_keys struct_CommandStep (leftover outer)) in *.
  rewrite (opt_field_some _ _ _ _ _ F0).
  change (unm_strings (gv_of_json (JStr (cs_command c)))) with (Ok (Some [cs_command c]) 0).
  rewrite bind_ret_l.
  rewrite (opt_str_field _ _ _ F1), bind_ret_l. rewrite (opt_str_field _ _ _ F2), bind_ret_l.
  rewrite (opt_field_none _ _ _ _ F3). unfold ret at 1. rewrite bind_ret_l.
  assert (P : exists ps', opt_field "Plugins" p [] unm_plugins = Ok ps' 0 /\
                          map mj_plugin ps' = map mj_plugin (cs_plugins c)).
  { destruct (cs_plugins c) as [|p0 r0] eqn:EP; cbn [ne_opt option_map] in F4.
    - rewrite (opt_field_none _ _ _ _ F4). exists []. split; reflexivity.
    - rewrite (opt_field_some _ _ _ _ _ F4). apply plugins_roundtrip. exact HP. }
  destruct P as (ps' & EP1 & EP2). rewrite EP1, bind_ret_l.
  assert (E : opt_field "Env" p [] unm_map_ss = Ok (sort_keys (cs_env c)) 0).
  { destruct (cs_env c) as [|e0 r0] eqn:EE; cbn [ne_opt option_map] in F5.
    - rewrite (opt_field_none _ _ _ _ F5). reflexivity.
    - rewrite (opt_field_some _ _ _ _ _ F5). apply unm_map_ss_roundtrip. }
  rewrite E, bind_ret_l.
  assert (S : opt_field "Signature" p None unm_sig = Ok (cs_sig c) 0).
  { destruct (cs_sig c) as [s|]; cbn [option_map] in F6.
    - rewrite (opt_field_some _ _ _ _ _ F6). apply sig_roundtrip.
    - rewrite (opt_field_none _ _ _ _ F6). reflexivity. }
  rewrite S, bind_ret_l.
  assert (M : exists mx', opt_field "Matrix" p None unm_matrix = Ok mx' 0 /\
                          option_map mj_matrix mx' = option_map mj_matrix (cs_matrix c)).
  { destruct (cs_matrix c) as [mx|]; cbn [option_map] in F7.
    - rewrite (opt_field_some _ _ _ _ _ F7). destruct (matrix_roundtrip mx HM) as (mx' & E1 & E2).
      exists (Some mx'). split; [exact E1|]. cbn [option_map]. rewrite E2. reflexivity.
    - rewrite (opt_field_none _ _ _ _ F7). exists None. split; reflexivity. }
  destruct M as (mx' & EM1 & EM2). rewrite EM1, bind_ret_l.
  assert (C : exists ca', opt_field "Cache" p None unm_cache = Ok ca' 0 /\
                          option_map mj_cache ca' = option_map mj_cache (cs_cache c)).
  { destruct (cs_cache c) as [ca|]; cbn [option_map] in F8.
    - rewrite (opt_field_some _ _ _ _ _ F8). destruct (cache_roundtrip ca HC) as (ca' & E1 & E2).
      exists (Some ca'). split; [exact E1|]. cbn [option_map]. rewrite E2. reflexivity.
    - rewrite (opt_field_none _ _ _ _ F8). exists None. split; reflexivity. }
  destruct C as (ca' & EC1 & EC2). rewrite EC1, bind_ret_l.
  eexists. split; [reflexivity|].
  rewrite mj_command_ol. cbn [cs_rem].
  match goal with |- inline_friendly (compact ?o) _ = _ => assert (EO : o = cmd_ol c) end.
  { unfold cmd_ol. cbn [cs_key cs_label cs_command cs_plugins cs_env cs_sig cs_matrix cs_cache].
    rewrite EP2, EM2, EC2, mj_map_ss_sort.
    rewrite (ne_opt_eq ps' (cs_plugins c)) by (apply (map_eq_nil_iff _ _ _ EP2)).
    rewrite (ne_opt_eq (sort_keys (cs_env c)) (cs_env c)) by apply sort_keys_nil_iff.
    reflexivity. }
  rewrite EO. exact FL.
Qed.

(** ------------------------------------------------------------------ *)
(** * 10. Steps *)

(* which kind a mapping selects: its `type` when present (a string), else key inference *)
Definition map_kind (m : list (string * gv)) : option Kinds.kind :=
  match aget "type" m with
  | Some (GStr t) => Some (kind_by_type t)
  | Some _ => None
  | None => Some (kind_by_keys (map fst m))
  end.

Lemma unm_step_map_kind : forall f m,
  unm_step (S f) (GMap m) =
  match map_kind m with Some k => typed_body (unm_steps f) m k | None => Err end.
Proof.
  intros f m. rewrite unm_step_S. unfold step_body, map_kind.
  destruct (aget "type" m) as [[]|]; reflexivity.
Qed.

Lemma mem_ext : forall x (l l' : list string), (forall y, In y l <-> In y l') -> Kinds.mem x l = Kinds.mem x l'.
Proof.
  intros x l l' H. unfold Kinds.mem. destruct (existsb (String.eqb x) l) eqn:E.
  - symmetry. apply existsb_eqb_In. apply H. apply existsb_eqb_In. exact E.
  - destruct (existsb (String.eqb x) l') eqn:E'; [|reflexivity].
    apply existsb_eqb_In in E'. apply H in E'. apply existsb_eqb_In in E'. congruence.
Qed.

Lemma by_keys_ext : forall tbl keys keys' d,
  (forall y, In y keys <-> In y keys') -> by_keys tbl keys d = by_keys tbl keys' d.
Proof.
  intros tbl keys keys' d H. induction tbl as [|[fam k] r IH]; [reflexivity|].
  cbn [by_keys]. rewrite IH.
  assert (E : existsb (fun x => Kinds.mem x keys) fam = existsb (fun x => Kinds.mem x keys') fam).
  { induction fam as [|a t IHf]; [reflexivity|]. cbn [existsb]. rewrite IHf, (mem_ext a keys keys' H). reflexivity. }
  rewrite E. reflexivity.
Qed.

Lemma mem_true : forall x l, In x l -> Kinds.mem x l = true.
Proof. intros x l H. unfold Kinds.mem. apply existsb_eqb_In. exact H. Qed.
Lemma mem_false : forall x l, ~ In x l -> Kinds.mem x l = false.
Proof.
  intros x l H. unfold Kinds.mem. destruct (existsb (String.eqb x) l) eqn:E; [|reflexivity].
  apply existsb_eqb_In in E. contradiction.
Qed.

Lemma keys_command : forall keys, In "command" keys -> kind_by_keys keys = KCommand.
Proof.
  intros keys H. unfold kind_by_keys, families. cbn [by_keys existsb]. rewrite (mem_true _ _ H). reflexivity.
Qed.

Definition earlier_keys : list string :=
  ["command"; "commands"; "plugins"; "wait"; "waiter"; "block"; "input"; "manual"; "trigger"].

Lemma keys_group : forall keys, In "group" keys -> (forall k, In k earlier_keys -> ~ In k keys) ->
  kind_by_keys keys = KGroup.
Proof.
  intros keys H N. unfold kind_by_keys, families. cbn [by_keys existsb].
  rewrite !mem_false by (apply N; unfold earlier_keys; in_lit).
  rewrite (mem_true _ _ H). reflexivity.
Qed.

Lemma compact_keys_in : forall ol k j, In (k, Some j) ol -> In k (map fst (compact ol)).
Proof.
  induction ol as [|[k0 o] r IH]; intros k j H; [destruct H|].
  destruct H as [E|H].
  - inversion E; subst. left. reflexivity.
  - destruct o; [right|]; eapply IH; eassumption.
Qed.

(* the `type` member kept among the extra fields selects this kind again *)
Definition type_selects (K : Kinds.kind) (rem : list (string * gv)) : Prop :=
  match aget "type" rem with
  | Some (GStr t) => kind_by_type t = K
  | Some _ => False
  | None => True
  end.

Lemma cmd_map_kind : forall c, rem_ok cmd_primary (cs_rem c) -> type_selects KCommand (cs_rem c) ->
  map_kind (gmap (members (mj_command c))) = Some KCommand.
Proof.
  intros c R T. pose proof R as (Nr & _ & _). rewrite mj_command_ol.
  assert (Nol : NoDup (map fst (cmd_ol c))) by (apply nodupb_sound; reflexivity).
  unfold map_kind. rewrite reobj_get by assumption.
  assert (E : aget "type" (cmd_ol c) = None) by reflexivity. rewrite E.
  unfold type_selects in T. destruct (aget "type" (cs_rem c)) as [v|]; cbn [option_map].
  - destruct v; try (exfalso; exact T). cbn [gv_json gv_of_json]. rewrite T. reflexivity.
  - f_equal. apply keys_command. apply reobj_keys. left.
    apply (compact_keys_in _ _ (JStr (cs_command c))). unfold cmd_ol. in_lit.
Qed.

Definition group_primary : list string := ["key"; "group"; "steps"].

Definition group_selects (rem : list (string * gv)) : Prop :=
  match aget "type" rem with
  | Some (GStr t) => kind_by_type t = KGroup
  | Some _ => False
  | None => forall k, In k earlier_keys -> ~ In k (map fst rem)
  end.

Definition group_ol (k : string) (g : option string) (ss : list step) : list (string * option json) :=
  [("key", str_opt k);
   ("group", Some (match g with Some x => JStr x | None => JNull end));
   ("steps", Some (JArr (map mj_step ss)))].

Lemma mj_group_ol : forall k g ss rem,
  mj_step (SGroup k g ss rem) = inline_friendly (compact (group_ol k g ss)) rem.
Proof. intros. unfold group_ol, str_opt. cbn [mj_step]. destruct (String.eqb k ""); reflexivity. Qed.

Lemma group_map_kind : forall k g ss rem, rem_ok group_primary rem -> group_selects rem ->
  map_kind (gmap (members (inline_friendly (compact (group_ol k g ss)) rem))) = Some KGroup.
Proof.
  intros k g ss rem R T. pose proof R as (Nr & _ & _).
  assert (Nol : NoDup (map fst (group_ol k g ss))) by (apply nodupb_sound; reflexivity).
  unfold map_kind. rewrite reobj_get by assumption.
  assert (E : aget "type" (group_ol k g ss) = None) by reflexivity. rewrite E.
  unfold group_selects in T. destruct (aget "type" rem) as [v|]; cbn [option_map].
  - destruct v; try (exfalso; exact T). cbn [gv_json gv_of_json]. rewrite T. reflexivity.
  - f_equal. apply keys_group.
    + apply reobj_keys. left. eapply compact_keys_in. unfold group_ol. right. left. reflexivity.
    + intros x Hx I. apply reobj_keys in I. destruct I as [I|I]; [|exact (T x Hx I)].
      apply compact_keys in I. unfold group_ol in I. cbn [map fst In] in I. unfold earlier_keys in Hx. cbn [In] in Hx.
      repeat (destruct Hx as [<-|Hx]; [repeat (destruct I as [I|I]; [discriminate I|]); destruct I|]). destruct Hx.
Qed.

Lemma grp_reobj : forall o1 j2 j3 rem,
  rem_ok group_primary rem ->
  (o1 = None -> ~ In "id" (map fst rem) /\ ~ In "identifier" (map fst rem)) ->
  let ol := [("key", o1); ("group", Some j2); ("steps", Some j3)] in
  let m := gmap (members (inline_friendly (compact ol) rem)) in
  let p := partition_keys struct_GroupStep m in
  field "Key" p = option_map gv_of_json o1 /\ field "Group" p = Some (gv_of_json j2) /\
  field "Steps" p = Some (gv_of_json j3) /\ aget "steps" m = Some (gv_of_json j3) /\
  inline_friendly (compact ol) (leftover p) = inline_friendly (compact ol) rem.
Proof.
  intros o1 j2 j3 rem R A1 ol m p.
  assert (Nol : NoDup (map fst ol)) by (apply nodupb_sound; reflexivity).
  pose proof R as (Nr & Av & Vs).
  assert (G : forall k, In k group_primary ->
            aget k m = match aget k ol with Some (Some j) => Some (gv_of_json j) | _ => None end).
  { intros k I. apply (reobj_schema_get ol rem group_primary); assumption. }
  assert (Gid : aget "id" m = option_map (fun v => gv_of_json (gv_json v)) (aget "id" rem)).
  { unfold m. rewrite reobj_get by assumption. reflexivity. }
  assert (Gidf : aget "identifier" m = option_map (fun v => gv_of_json (gv_json v)) (aget "identifier" rem)).
  { unfold m. rewrite reobj_get by assumption. reflexivity. }
  unfold p. rewrite f_grp_key, f_grp_group, f_grp_steps. cbn [first_key].
  rewrite (G "key"), (G "group"), (G "steps") by (unfold group_primary; in_lit).
  split.
  { destruct o1 as [j|]; [reflexivity|]. cbn [aget ol String.eqb Ascii.eqb Bool.eqb].
    destruct (A1 eq_refl) as [X Y]. rewrite Gid, Gidf, (aget_none _ _ X), (aget_none _ _ Y). reflexivity. }
  split; [reflexivity|]. split; [reflexivity|]. split; [reflexivity|].
  rewrite leftover_spec.
  apply (reobj_fix (compact ol) rem
           (fun k => negb (existsb (String.eqb k) (DecodeProofs.consumed (partition_keys struct_GroupStep m)))));
    try assumption.
  - apply compact_nodup. exact Nol.
  - apply consumed_not_in_rem. intros pk al Hin. rewrite kt_group in Hin.
    ktab_cases Hin; (split; [apply Av; unfold group_primary; in_lit|]); try solve [intros ? []].
    + intros al0 Ha Hn. rewrite G in Hn by (unfold group_primary; in_lit).
      cbn [aget ol String.eqb Ascii.eqb Bool.eqb] in Hn.
      destruct o1 as [j|]; [discriminate Hn|]. destruct (A1 eq_refl) as [X Y].
      cbn [In] in Ha. destruct Ha as [<-|[<-|[]]]; assumption.
    + intros al0 Ha Hn. rewrite G in Hn by (unfold group_primary; in_lit). discriminate Hn.
Qed.

(** contents steps *)
Definition contents_ok (K : Kinds.kind) (ct : list (string * gv)) : Prop :=
  NoDup (map fst ct) /\ vals_stable ct /\ map_kind ct = Some K.

Lemma mj_contents_eq : forall ct, mj_contents ct = JObj (sort_keys (jmap ct)).
Proof. reflexivity. Qed.

Lemma contents_fix : forall ct, vals_stable ct ->
  mj_contents (gmap (sort_keys (jmap ct))) = mj_contents ct.
Proof.
  intros ct Vs. rewrite !mj_contents_eq. f_equal.
  unfold jmap at 1, gmap. rewrite map_map. cbn [fst snd].
  rewrite (sort_keys_map (fun j => gv_json (gv_of_json j)) (sort_keys (jmap ct))), sort_keys_idem.
  rewrite <- (sort_keys_map (fun j => gv_json (gv_of_json j)) (jmap ct)). f_equal.
  unfold jmap. rewrite map_map. cbn [fst snd]. apply map_ext_in. intros [k v] Hin. cbn [fst snd].
  f_equal. apply val_stable_fix. unfold vals_stable in Vs. rewrite Forall_forall in Vs. apply (Vs (k, v) Hin).
Qed.

Lemma contents_map_kind : forall K ct, contents_ok K ct ->
  map_kind (gmap (sort_keys (jmap ct))) = Some K.
Proof.
  intros K ct (Nd & Vs & MK). unfold map_kind in *.
  rewrite aget_gmap, aget_sort_keys by (rewrite keys_jmap; exact Nd).
  unfold jmap at 1. rewrite aget_map.
  destruct (aget "type" ct) as [v|]; cbn [option_map].
  - destruct v; try discriminate MK. exact MK.
  - rewrite <- MK. f_equal. unfold kind_by_keys. apply by_keys_ext. intros y.
    rewrite keys_gmap, sort_keys_in, keys_jmap. reflexivity.
Qed.

Lemma contents_nonempty : forall K ct, contents_ok K ct -> (forall e, K <> KUnknown e) -> ct <> [].
Proof.
  intros K ct (_ & _ & MK) HK E. subst ct. unfold map_kind in MK. cbn in MK. inversion MK. eapply HK. eauto.
Qed.

Lemma reread_nonempty : forall ct, ct <> [] -> gmap (sort_keys (jmap ct)) <> [].
Proof.
  intros ct H E. apply (f_equal (@length _)) in E. unfold gmap, jmap in E.
  rewrite map_length, sort_keys_length, map_length in E. destruct ct; [congruence|discriminate E].
Qed.

(* a value that is again an unknown step when re-read *)
Definition unknown_again (g : gv) : Prop :=
  match g with
  | GStr s => kind_of_scalar s <> KWait /\ kind_of_scalar s <> KInput
  | GMap m => exists e, map_kind m = Some (KUnknown e)
  | _ => False
  end.

Definition alias_free (k : string) (rem : list (string * gv)) : Prop :=
  k = "" -> ~ In "id" (map fst rem) /\ ~ In "identifier" (map fst rem).

Fixpoint step_fix_ok (s : step) : Prop :=
  match s with
  | SCommand c => cmd_ok c /\ type_selects KCommand (cs_rem c)
  | SWait sc ct => sc <> "" \/ ct = [] \/ contents_ok KWait ct
  | SInput sc ct => sc <> "" \/ contents_ok KInput ct
  | STrigger ct => contents_ok KTrigger ct
  | SGroup k g ss rem =>
      rem_ok group_primary rem /\ alias_free k rem /\ group_selects rem /\
      (fix all (l : list step) : Prop := match l with [] => True | x :: r => step_fix_ok x /\ all r end) ss
  | SUnknown c => val_stable c /\ unknown_again (gv_of_json (gv_json c))
  end.

Lemma step_fix_ok_group : forall k g ss rem,
  step_fix_ok (SGroup k g ss rem) <->
  rem_ok group_primary rem /\ alias_free k rem /\ group_selects rem /\ Forall step_fix_ok ss.
Proof.
  intros k g ss rem. cbn [step_fix_ok].
  assert (E : (fix all (l : list step) : Prop := match l with [] => True | x :: r => step_fix_ok x /\ all r end) ss
              <-> Forall step_fix_ok ss).
  { induction ss as [|x r IH]; [split; intros; [constructor|exact I]|].
    rewrite IH. split; [intros [A B]; constructor; assumption|intros H; inversion H; subst; split; assumption]. }
  rewrite E. reflexivity.
Qed.

Section step_induction.
  Variable P : step -> Prop.
  Hypothesis HC : forall c, P (SCommand c).
  Hypothesis HW : forall sc ct, P (SWait sc ct).
  Hypothesis HI : forall sc ct, P (SInput sc ct).
  Hypothesis HT : forall ct, P (STrigger ct).
  Hypothesis HG : forall k g ss rem, Forall P ss -> P (SGroup k g ss rem).
  Hypothesis HU : forall c, P (SUnknown c).
  Fixpoint step_ind' (s : step) : P s :=
    match s with
    | SCommand c => HC c
    | SWait sc ct => HW sc ct
    | SInput sc ct => HI sc ct
    | STrigger ct => HT ct
    | SGroup k g ss rem =>
        HG k g ss rem ((fix go (l : list step) : Forall P l :=
                          match l with [] => Forall_nil _ | x :: r => Forall_cons x (step_ind' x) (go r) end) ss)
    | SUnknown c => HU c
    end.
End step_induction.

Lemma scalar_roundtrip : forall sc f, sc <> "" ->
  exists s' w, unm_step (S f) (GStr sc) = Ok s' w /\ mj_step s' = JStr sc.
Proof.
  intros sc f H. rewrite unm_step_S. cbn [step_body].
  assert (N : negb (String.eqb sc "") = true).
  { destruct (String.eqb_spec sc ""); [contradiction|reflexivity]. }
  destruct (kind_of_scalar sc); eexists; eexists; (split; [reflexivity|]); cbn [mj_step gv_json]; try rewrite N; reflexivity.
Qed.

Lemma steps_mapM_roundtrip : forall f ss,
  Forall (fun s => exists s' w, unm_step f (gv_of_json (mj_step s)) = Ok s' w /\ mj_step s' = mj_step s) ss ->
  exists ss' w, mapM (unm_step f) (map gv_of_json (map mj_step ss)) = Ok ss' w /\ map mj_step ss' = map mj_step ss.
Proof.
  intros f ss H. induction H as [|x r (x' & w1 & E1 & E2) Hr (r' & w2 & E3 & E4)].
  - exists [], 0. split; reflexivity.
  - exists (x' :: r'), (w1 + (w2 + 0)). cbn [map mapM]. rewrite E1, E3. split; [reflexivity|].
    rewrite E2, E4. reflexivity.
Qed.

Lemma depth_str : forall s, gv_depth (GStr s) = 1.
Proof. reflexivity. Qed.

Lemma group_field_dec : forall p g,
  field "Group" p = Some (gv_of_json (match g with Some x => JStr x | None => JNull end)) ->
  match field "Group" p with
  | Some GNull => ret None
  | Some v => do s <- unm_string v; ret (Some s)
  | None => ret None
  end = Ok g 0.
Proof. intros p g H. rewrite H. destruct g; reflexivity. Qed.

Theorem step_roundtrip : forall s, step_fix_ok s ->
  forall f, gv_depth (gv_of_json (mj_step s)) <= f ->
  exists s' w, unm_step f (gv_of_json (mj_step s)) = Ok s' w /\ mj_step s' = mj_step s.
Proof.
  induction s using step_ind'; intros OK f Hf.
  - (* command *)
    destruct f as [|f]; [pose proof (depth_pos (gv_of_json (mj_step (SCommand c)))); lia|].
    destruct OK as [CO T]. cbn [mj_step].
    assert (EQ : gv_of_json (mj_command c) = GMap (gmap (members (mj_command c)))) by reflexivity.
    rewrite EQ, unm_step_map_kind, (cmd_map_kind c (proj1 CO) T). cbn [typed_body].
    destruct (command_roundtrip c CO) as (c' & E1 & E2). rewrite E1.
    exists (SCommand c'), 0. split; [reflexivity|]. cbn [mj_step]. exact E2.
  - (* wait *)
    destruct f as [|f]; [pose proof (depth_pos (gv_of_json (mj_step (SWait sc ct)))); lia|].
    cbn [mj_step]. destruct (String.eqb_spec sc "") as [E|N]; cbn [negb].
    + subst sc. destruct OK as [OK|[OK|OK]]; [congruence| |].
      * subst ct. apply (scalar_roundtrip "wait" f). discriminate.
      * pose proof (contents_nonempty _ _ OK) as NE.
        destruct ct as [|x r] eqn:ECt; [exfalso; apply NE; [intros e; discriminate|reflexivity]|]. rewrite <- ECt in *.
        rewrite mj_contents_eq, gv_of_json_obj, unm_step_map_kind, (contents_map_kind _ _ OK). cbn [typed_body].
        eexists. eexists. split; [reflexivity|]. cbn [mj_step String.eqb negb].
        pose proof (reread_nonempty ct) as RN.
        destruct (gmap (sort_keys (jmap ct))) eqn:EG; [exfalso; apply RN; [rewrite ECt; discriminate|reflexivity]|].
        rewrite <- EG. rewrite contents_fix by apply OK. apply mj_contents_eq.
    + apply (scalar_roundtrip sc f N).
  - (* input *)
    destruct f as [|f]; [pose proof (depth_pos (gv_of_json (mj_step (SInput sc ct)))); lia|].
    cbn [mj_step]. destruct (String.eqb_spec sc "") as [E|N]; cbn [negb].
    + subst sc. destruct OK as [OK|OK]; [congruence|].
      rewrite mj_contents_eq, gv_of_json_obj, unm_step_map_kind, (contents_map_kind _ _ OK). cbn [typed_body].
      eexists. eexists. split; [reflexivity|]. cbn [mj_step String.eqb negb].
      rewrite contents_fix by apply OK. apply mj_contents_eq.
    + apply (scalar_roundtrip sc f N).
  - (* trigger *)
    destruct f as [|f]; [pose proof (depth_pos (gv_of_json (mj_step (STrigger ct)))); lia|].
    cbn [step_fix_ok] in OK.
    pose proof (contents_nonempty _ _ OK) as NE.
    destruct ct as [|x r] eqn:ECt; [exfalso; apply NE; [intros e; discriminate|reflexivity]|]. rewrite <- ECt in *.
    assert (EM : mj_step (STrigger ct) = mj_contents ct) by (rewrite ECt; reflexivity).
    rewrite EM, mj_contents_eq, gv_of_json_obj, unm_step_map_kind, (contents_map_kind _ _ OK). cbn [typed_body].
    eexists. eexists. split; [reflexivity|].
    pose proof (reread_nonempty ct) as RN. cbn [mj_step].
    destruct (gmap (sort_keys (jmap ct))) eqn:EG; [exfalso; apply RN; [rewrite ECt; discriminate|reflexivity]|].
    rewrite <- EG. rewrite contents_fix by apply OK. apply mj_contents_eq.
  - (* group *)
    apply step_fix_ok_group in OK. destruct OK as (R & AF & GS & FS).
    rewrite mj_group_ol in *. rewrite inline_friendly_members, gv_of_json_obj in Hf |- *.
    destruct f as [|f]; [cbn [gv_depth] in Hf; lia|].
    rewrite unm_step_map_kind, (group_map_kind k g ss rem R GS). cbn [typed_body]. unfold group_body. cbv zeta.
    assert (A1 : str_opt k = None -> ~ In "id" (map fst rem) /\ ~ In "identifier" (map fst rem)).
    { unfold str_opt. destruct (String.eqb_spec k ""); [intros _; apply AF; assumption|discriminate]. }
    pose proof (grp_reobj (str_opt k) (match g with Some x => JStr x | None => JNull end)
                  (JArr (map mj_step ss)) rem R A1) as X.
    cbv zeta in X. fold (group_ol k g ss) in X. destruct X as (F1 & F2 & F3 & GSt & FL).
    set (m := gmap (members (inline_friendly (compact (group_ol k g ss)) rem))) in *.
    set (p := partition_keys struct_GroupStep m) in *.
    rewrite (opt_str_field _ _ _ F1), bind_ret_l.
    rewrite (group_field_dec p g F2), bind_ret_l.
    rewrite (opt_field_some _ _ _ _ _ F3). rewrite gv_of_json_arr.
    (* fuel *)
    assert (D1 : gv_depth (GSeq (map gv_of_json (map mj_step ss))) < gv_depth (GMap m)).
    { apply (depth_in_map m "steps"). apply aget_some_in. rewrite GSt. reflexivity. }
    destruct f as [|f]; [pose proof (depth_pos (GSeq (map gv_of_json (map mj_step ss)))); lia|].
    rewrite unm_steps_S.
    assert (FR : Forall (fun s => exists s' w, unm_step f (gv_of_json (mj_step s)) = Ok s' w /\ mj_step s' = mj_step s) ss).
    { rewrite Forall_forall in H, FS |- *. intros s Hs. apply (H s Hs (FS s Hs)).
      assert (D2 : gv_depth (gv_of_json (mj_step s)) < gv_depth (GSeq (map gv_of_json (map mj_step ss)))).
      { apply depth_in_seq. apply in_map. apply in_map. exact Hs. }
      lia. }
    destruct (steps_mapM_roundtrip f ss FR) as (ss' & w & E1 & E2). rewrite E1.
    unfold bind, ret. eexists. eexists. split; [reflexivity|].
    rewrite mj_group_ol.
    assert (EO : group_ol k g ss' = group_ol k g ss) by (unfold group_ol; rewrite E2; reflexivity).
    rewrite EO. exact FL.
  - (* unknown *)
    destruct f as [|f]; [pose proof (depth_pos (gv_of_json (mj_step (SUnknown c)))); lia|].
    destruct OK as [VS UA]. cbn [mj_step].
    destruct (gv_of_json (gv_json c)) as [| | | |s0| | |m|] eqn:EG; try (exfalso; exact UA).
    + destruct UA as [U1 U2]. exists (SUnknown (GStr s0)), 1. rewrite unm_step_S. cbn [step_body].
      split; [destruct (kind_of_scalar s0); try reflexivity; congruence|].
      cbn [mj_step]. rewrite <- EG. apply val_stable_fix. exact VS.
    + destruct UA as [e MK]. exists (SUnknown (GMap m)), 1. rewrite unm_step_map_kind, MK.
      split; [reflexivity|]. cbn [mj_step]. rewrite <- EG. apply val_stable_fix. exact VS.
Qed.

(** ------------------------------------------------------------------ *)
(** * 11. The pipeline: the normal form is a fixpoint *)

Definition pipeline_primary : list string := ["steps"; "env"].

Definition pipeline_fix_ok (p : pipeline) : Prop :=
  Forall step_fix_ok (pp_steps p) /\ rem_ok pipeline_primary (pp_rem p).

Definition pp_ol (p : pipeline) : list (string * option json) :=
  [("steps", Some (JArr (map mj_step (pp_steps p)))); ("env", option_map mj_env_block (pp_env p))].

Lemma mj_pipeline_ol : forall p, mj_pipeline p = inline_friendly (compact (pp_ol p)) (pp_rem p).
Proof. intros p. unfold mj_pipeline, pp_ol. destruct (pp_env p); reflexivity. Qed.

Lemma pp_reobj : forall j1 o2 rem, rem_ok pipeline_primary rem ->
  let ol := [("steps", Some j1); ("env", o2)] in
  let m := gmap (members (inline_friendly (compact ol) rem)) in
  let p := partition_keys struct_Pipeline m in
  field "Steps" p = Some (gv_of_json j1) /\ field "Env" p = option_map gv_of_json o2 /\
  aget "steps" m = Some (gv_of_json j1) /\
  inline_friendly (compact ol) (leftover p) = inline_friendly (compact ol) rem.
Proof.
  intros j1 o2 rem R ol m p.
  assert (Nol : NoDup (map fst ol)) by (apply nodupb_sound; reflexivity).
  unfold p. rewrite f_pp_steps, f_pp_env. cbn [first_key]. unfold m.
  rewrite !(reobj_schema_get ol rem pipeline_primary) by (first [assumption|unfold pipeline_primary; in_lit]).
  split; [reflexivity|]. split; [destruct o2; reflexivity|]. split; [reflexivity|].
  apply (noalias_fix _ ol rem pipeline_primary); try assumption.
  intros pk al Hin. rewrite kt_pipeline in Hin.
  ktab_cases Hin; (split; [unfold pipeline_primary; in_lit|reflexivity]).
Qed.

Lemma env_block_roundtrip : forall e, unm_env_block (gv_of_json (mj_env_block e)) = Ok (Some e) 0.
Proof.
  intros e. unfold mj_env_block. rewrite gv_of_json_obj. cbn [unm_env_block].
  unfold gmap. rewrite map_map. cbn [fst snd gv_of_json].
  rewrite (mapM_map_ok0 _ _ (fun kv => kv)); [rewrite map_id, bind_ret_l; reflexivity|].
  intros [k v] _. reflexivity.
Qed.

Lemma pp_steps_dec : forall p fuel v ss w,
  field "Steps" p = Some v -> unm_steps fuel v = Ok ss w ->
  match field "Steps" p with
  | Some v => do x <- unm_steps fuel v; ret (Some x)
  | None => ret None
  end = Ok (Some ss) (w + 0).
Proof. intros p fuel v ss w H E. rewrite H, E. reflexivity. Qed.

(* MAIN *)
Theorem reparse_fixpoint : forall p, pipeline_fix_ok p ->
  exists p' w', reparse_json p = Ok p' w' /\ mj_pipeline p' = mj_pipeline p.
Proof.
  intros p (FS & R). unfold reparse_json. rewrite (mj_pipeline_ol p).
  rewrite inline_friendly_members, gv_of_json_obj.
  pose proof (pp_reobj (JArr (map mj_step (pp_steps p))) (option_map mj_env_block (pp_env p)) _ R) as X.
  cbv zeta in X. fold (pp_ol p) in X. destruct X as (F1 & F2 & GSt & FL).
  set (m := gmap (members (inline_friendly (compact (pp_ol p)) (pp_rem p)))) in *.
  unfold parse_doc, parse. cbv zeta.
  set (P := partition_keys struct_Pipeline m) in *.
  set (d := gv_depth (GMap m)).
  assert (D1 : gv_depth (GSeq (map gv_of_json (map mj_step (pp_steps p)))) < d).
  { apply (depth_in_map m "steps"). apply aget_some_in. rewrite GSt. reflexivity. }
  assert (FR : Forall (fun s => exists s' w, unm_step d (gv_of_json (mj_step s)) = Ok s' w /\ mj_step s' = mj_step s)
                      (pp_steps p)).
  { rewrite Forall_forall in FS |- *. intros s Hs. apply (step_roundtrip s (FS s Hs)).
    assert (D2 : gv_depth (gv_of_json (mj_step s)) < gv_depth (GSeq (map gv_of_json (map mj_step (pp_steps p))))).
    { apply depth_in_seq. apply in_map. apply in_map. exact Hs. }
    lia. }
  destruct (steps_mapM_roundtrip d _ FR) as (ss' & w & E1 & E2).
  assert (ES : unm_steps (S d) (gv_of_json (JArr (map mj_step (pp_steps p)))) = Ok ss' w).
  { rewrite gv_of_json_arr, unm_steps_S. exact E1. }
  rewrite (pp_steps_dec P (S d) _ ss' w F1 ES).
  assert (EE : opt_field "Env" P None unm_env_block = Ok (pp_env p) 0).
  { destruct (pp_env p) as [e|]; cbn [option_map] in F2.
    - rewrite (opt_field_some _ _ _ _ _ F2). apply env_block_roundtrip.
    - rewrite (opt_field_none _ _ _ _ F2). reflexivity. }
  unfold bind at 1. rewrite EE, bind_ret_l. unfold ret.
  eexists. eexists. split; [reflexivity|].
  rewrite mj_pipeline_ol. cbn [pp_rem].
  match goal with |- inline_friendly (compact ?o) _ = _ => assert (EO : o = pp_ol p) end.
  { unfold pp_ol. cbn [pp_steps pp_env]. rewrite E2. reflexivity. }
  rewrite EO. exact FL.
Qed.

(** the excluded class is real: an empty key is omitted, the surviving alias is promoted on re-parse *)
Example empty_primary_alias_counterexample :
  exists p p' w, reparse_json p = Ok p' w /\ mj_pipeline p' <> mj_pipeline p.
Proof.
  set (p := mkPipeline [SCommand (mkCmd "" "" "c" [] [] None None None [("id", GStr "x")])] None [] false).
  exists p. remember (reparse_json p) as r eqn:Er. vm_compute in Er.
  rewrite Er. eexists. eexists. split; [reflexivity|]. vm_compute. discriminate.
Qed.

(** ------------------------------------------------------------------ *)
(** * 12. What Parse produces satisfies the side condition *)

(* a decoded YAML document: ordered maps only, distinct keys, stable float tokens,
   non-empty timestamp tokens *)
Fixpoint gv_wf (g : gv) : Prop :=
  match g with
  | GFloat j _ => num_stable j
  | GTime j => j <> ""
  | GSeq l => (fix go (l : list gv) : Prop := match l with [] => True | x :: r => gv_wf x /\ go r end) l
  | GMap l => NoDup (map fst l) /\
              (fix go (l : list (string * gv)) : Prop :=
                 match l with [] => True | kv :: r => gv_wf (snd kv) /\ go r end) l
  | GUMap _ => False
  | _ => True
  end.
Definition doc_ok (g : gv) : Prop := gv_wf g.

Lemma gv_wf_seq : forall l, gv_wf (GSeq l) <-> Forall gv_wf l.
Proof.
  induction l as [|x r IH]; [split; intros; [constructor|exact I]|].
  change (gv_wf (GSeq (x :: r))) with (gv_wf x /\ gv_wf (GSeq r)). rewrite IH. split.
  - intros [A B]. constructor; assumption.
  - intros H. inversion H; subst. split; assumption.
Qed.
Lemma gv_wf_map : forall l, gv_wf (GMap l) <-> NoDup (map fst l) /\ Forall (fun kv => gv_wf (snd kv)) l.
Proof.
  intros l. cbn [gv_wf].
  assert (E : (fix go (l : list (string * gv)) : Prop :=
                 match l with [] => True | kv :: r => gv_wf (snd kv) /\ go r end) l
              <-> Forall (fun kv => gv_wf (snd kv)) l).
  { induction l as [|x r IH]; [split; intros; [constructor|exact I]|].
    rewrite IH. split; [intros [A B]; constructor; assumption|intros H; inversion H; subst; split; assumption]. }
  rewrite E. reflexivity.
Qed.

Lemma gv_wf_in : forall m k v, gv_wf (GMap m) -> In (k, v) m -> gv_wf v.
Proof. intros m k v H I. apply gv_wf_map in H. destruct H as [_ H]. rewrite Forall_forall in H. apply (H (k, v) I). Qed.

Lemma gv_wf_stable : forall g, gv_wf g -> val_stable g.
Proof.
  induction g using gv_ind'; intros W; try exact I.
  - apply num_stable_int.
  - exact W.
  - apply val_stable_seq. apply gv_wf_seq in W. rewrite Forall_forall in *. auto.
  - apply val_stable_map. apply gv_wf_map in W. destruct W as [_ W]. unfold vals_stable. rewrite Forall_forall in *. auto.
  - destruct W.
Qed.

Lemma gv_wf_skip : forall g, gv_wf g -> skip_ok g.
Proof. intros g W. split; [apply gv_wf_stable; exact W|]. destruct g; try exact I. exact W. Qed.

Lemma gv_wf_tmr : forall g, gv_wf g -> no_gmap (to_map_recursive g) /\ val_stable (to_map_recursive g).
Proof.
  induction g using gv_ind'; intros W; try (split; [exact I|apply gv_wf_stable; exact W]).
  - cbn [to_map_recursive]. apply gv_wf_seq in W. split.
    + apply no_gmap_seq. rewrite Forall_map. rewrite Forall_forall in *. intros x Hx. apply H; auto.
    + apply val_stable_seq. rewrite Forall_map. rewrite Forall_forall in *. intros x Hx. apply H; auto.
  - cbn [to_map_recursive]. apply gv_wf_map in W. destruct W as [_ W]. split.
    + apply no_gmap_umap. rewrite Forall_map. cbn [snd]. rewrite Forall_forall in *. intros x Hx. apply H; auto.
    + apply val_stable_umap. unfold vals_stable. rewrite Forall_map. cbn [snd].
      rewrite Forall_forall in *. intros x Hx. apply H; auto.
  - destruct W.
Qed.

Lemma vals_stable_wf : forall m, gv_wf (GMap m) -> vals_stable m.
Proof.
  intros m W. apply gv_wf_map in W. destruct W as [_ W]. unfold vals_stable.
  eapply Forall_impl; [|exact W]. intros kv. apply gv_wf_stable.
Qed.

Lemma gv_wf_leftover : forall fields m, gv_wf (GMap m) -> gv_wf (GMap (leftover (partition_keys fields m))).
Proof.
  intros fields m W. apply gv_wf_map in W. destruct W as [N F]. apply gv_wf_map. split.
  - apply leftover_nodup. exact N.
  - rewrite Forall_forall in *. intros kv Hkv. apply F. eapply leftover_incl. exact Hkv.
Qed.

Lemma gv_wf_field : forall name fields m v,
  gv_wf (GMap m) -> field name (partition_keys fields m) = Some v -> gv_wf v.
Proof. intros name fields m v W F. apply field_in in F. destruct F as [k F]. eapply gv_wf_in; eassumption. Qed.

(* a primary key never stays in the leftover *)
Lemma primary_not_leftover : forall fields m pk al,
  In (pk, al) (ktab fields) -> ~ In pk (map fst (leftover (partition_keys fields m))).
Proof.
  intros fields m pk al Hin I. unfold ktab in Hin. apply in_map_iff in Hin.
  destruct Hin as (r & E & Hr). inversion E; subst pk al. clear E.
  apply keyed_In in Hr. destruct Hr as [Hr Hc].
  apply in_map_iff in I. destruct I as ([k v] & Ek & I). cbn [fst] in Ek. subst k.
  apply leftover_sublist in I. destruct I as [Im Hn]. apply Hn.
  assert (G : exists v', aget (primary_key r) m = Some v').
  { destruct (aget (primary_key r) m) eqn:G; [eauto|].
    exfalso. apply (in_map fst) in Im. revert Im. apply (aget_none_iff). exact G. }
  destruct G as [v' G].
  assert (L : field_lookup r m = Some (primary_key r, v')) by (unfold field_lookup; rewrite G; reflexivity).
  pose proof (assigned_complete fields m r _ _ Hr Hc L) as A.
  unfold DecodeProofs.consumed. apply in_map_iff. exists (r, primary_key r, v'). split; [reflexivity|exact A].
Qed.

Lemma leftover_rem_ok : forall fields m schema,
  gv_wf (GMap m) -> (forall k, In k schema -> exists al, In (k, al) (ktab fields)) ->
  rem_ok schema (leftover (partition_keys fields m)).
Proof.
  intros fields m schema W HS. split; [|split].
  - apply leftover_nodup. apply gv_wf_map in W. apply W.
  - intros k Hk. destruct (HS k Hk) as [al Hal]. eapply primary_not_leftover. exact Hal.
  - apply vals_stable_wf. apply gv_wf_leftover. exact W.
Qed.

Lemma rem_ok_nil : forall schema, rem_ok schema [].
Proof. intros. split; [constructor|split; [intros k _ []|constructor]]. Qed.

Lemma all_mapM_P : forall {T U} (Q : U -> Prop) (f : T -> res U) l,
  (forall x, In x l -> res_all Q (f x)) -> res_all (Forall Q) (mapM f l).
Proof.
  intros T U Q f l. induction l as [|x r IH]; intros H; cbn [mapM]; [constructor|].
  apply all_bind with (P := Q); [apply H; left; reflexivity|intros y Hy].
  apply all_bind with (P := Forall Q); [apply IH; intros z Hz; apply H; right; exact Hz|intros ys Hys].
  apply all_ret. constructor; assumption.
Qed.

Ltac all_err := match goal with |- res_all _ Err => exact I end.
Ltac skipb := apply all_bind with (P := fun _ => True); [apply all_True | intros ? _].

(** plugins *)
Definition plugin_pre (p : plugin) : Prop := no_gmap (pl_config p) /\ val_stable (pl_config p).

Lemma wf_plugins_of_map : forall m, gv_wf (GMap m) -> Forall plugin_pre (plugins_of_map m).
Proof.
  intros m W. unfold plugins_of_map. rewrite Forall_map. rewrite Forall_forall. intros [k v] Hin.
  unfold plugin_pre. cbn [pl_config snd]. apply gv_wf_tmr. eapply gv_wf_in; eassumption.
Qed.

Lemma wf_unm_plugins : forall g, gv_wf g -> res_all (Forall plugin_pre) (unm_plugins g).
Proof.
  intros g W. unfold unm_plugins. destruct g; try all_err.
  - constructor.
  - apply all_bind with (P := Forall (Forall plugin_pre)).
    + apply all_mapM_P. intros x Hx. apply gv_wf_seq in W. rewrite Forall_forall in W. specialize (W x Hx).
      destruct x; try all_err.
      * apply all_ret. constructor; [|constructor]. split; exact I.
      * apply all_ret. apply wf_plugins_of_map. exact W.
    + intros ps Hps. apply all_ret. apply Forall_concat. exact Hps.
  - apply all_ret. apply wf_plugins_of_map. exact W.
Qed.

(** matrix *)
Definition adj_pre (a : option madj) : Prop :=
  match a with Some a => skip_ok (ma_skip a) /\ rem_ok adj_schema (ma_rem a) | None => True end.
Definition matrix_pre (m : matrix) : Prop :=
  setup_fix_ok (mx_setup m) /\ Forall adj_pre (mx_adj m) /\ rem_ok matrix_schema (mx_rem m).

Lemma wf_unm_adj : forall g, gv_wf g -> res_all adj_pre (unm_adj g).
Proof.
  intros g W. unfold unm_adj. destruct g; try all_err; [exact I|].
  cbv zeta. skipb. apply all_ret. cbn [adj_pre ma_skip ma_rem]. split.
  - destruct (field "Skip" (partition_keys struct_MatrixAdjustment l)) as [v|] eqn:F.
    + apply gv_wf_skip. eapply gv_wf_field; eassumption.
    + split; exact I.
  - apply leftover_rem_ok; [exact W|]. intros k Hk. rewrite kt_adj. unfold adj_schema in Hk. cbn [In] in Hk.
    destruct Hk as [<-|[<-|[]]]; eexists; in_lit.
Qed.

Lemma wf_unm_adjs : forall g, gv_wf g -> res_all (Forall adj_pre) (unm_adjs g).
Proof.
  intros g W. unfold unm_adjs. destruct g; try all_err; [constructor|].
  apply all_mapM_P. intros x Hx. apply wf_unm_adj. apply gv_wf_seq in W. rewrite Forall_forall in W. auto.
Qed.

Lemma wf_unm_setup : forall g, res_all setup_fix_ok (unm_setup g).
Proof.
  intros g. unfold unm_setup. destruct g; try all_err; [exact I| |].
  - skipb. apply all_ret. cbn [setup_fix_ok]. constructor; [discriminate|constructor].
  - apply all_bind with (P := Forall (fun kv : string * option (list string) => snd kv <> None)).
    + apply all_mapM_P. intros x _. skipb. apply all_ret. discriminate.
    + intros su Hsu. apply all_ret. exact Hsu.
Qed.

Lemma wf_unm_matrix : forall g, gv_wf g ->
  res_all (fun o => match o with Some m => matrix_pre m | None => True end) (unm_matrix g).
Proof.
  intros g W. unfold unm_matrix. destruct g; try all_err; [exact I| |].
  - skipb. apply all_ret. split; [|split].
    + cbn [mx_setup setup_fix_ok]. constructor; [discriminate|constructor].
    + constructor.
    + apply rem_ok_nil.
  - cbv zeta. apply all_bind with (P := setup_fix_ok).
    { destruct (field "Setup" (partition_keys struct_Matrix l)); [apply wf_unm_setup|exact I]. }
    intros su Hsu. apply all_bind with (P := Forall adj_pre).
    { apply all_opt_field; [constructor|]. intros v F. apply wf_unm_adjs. eapply gv_wf_field; eassumption. }
    intros ad Had. apply all_ret. split; [exact Hsu|split; [exact Had|]]. cbn [mx_rem].
    apply leftover_rem_ok; [exact W|]. intros k Hk. rewrite kt_matrix. unfold matrix_schema in Hk. cbn [In] in Hk.
    destruct Hk as [<-|[<-|[]]]; eexists; in_lit.
Qed.

Lemma wf_unm_cache : forall g, gv_wf g ->
  res_all (fun o => match o with Some c => cache_fix_ok c | None => True end) (unm_cache g).
Proof.
  intros g W. unfold unm_cache. destruct g; try all_err; [exact I| | | |].
  - apply all_ret. right. apply rem_ok_nil.
  - apply all_ret. right. apply rem_ok_nil.
  - skipb. apply all_ret. right. apply rem_ok_nil.
  - cbv zeta. skipb. skipb. skipb. skipb. apply all_ret. right. cbn [ca_rem].
    apply leftover_rem_ok; [exact W|]. intros k Hk. rewrite kt_cache. unfold cache_primary in Hk. cbn [In] in Hk.
    destruct Hk as [<-|[<-|[<-|[<-|[]]]]]; eexists; in_lit.
Qed.

(** command steps *)
Definition cmd_pre (c : command_step) : Prop :=
  rem_ok cmd_primary (cs_rem c) /\ Forall plugin_pre (cs_plugins c) /\
  match cs_matrix c with Some m => matrix_pre m | None => True end /\
  match cs_cache c with Some x => cache_fix_ok x | None => True end.

Lemma wf_unm_command : forall m, gv_wf (GMap m) -> res_all cmd_pre (unm_command m).
Proof.
  intros m W. unfold unm_command. cbv zeta.
  set (outer := partition_keys struct_CommandStep_UnmarshalOrdered_anon0 m).
  assert (Wo : gv_wf (GMap (leftover outer))) by (apply gv_wf_leftover; exact W).
  set (p := partition_keys struct_CommandStep (leftover outer)).
  skipb. skipb. skipb. skipb.
  apply all_bind with (P := Forall plugin_pre).
  { apply all_opt_field; [constructor|]. intros v F. apply wf_unm_plugins. eapply gv_wf_field; eassumption. }
  intros pl Hpl. skipb. skipb.
  apply all_bind with (P := fun o => match o with Some m => matrix_pre m | None => True end).
  { apply all_opt_field; [exact I|]. intros v F. apply wf_unm_matrix. eapply gv_wf_field; eassumption. }
  intros mx Hmx.
  apply all_bind with (P := fun o => match o with Some c => cache_fix_ok c | None => True end).
  { apply all_opt_field; [exact I|]. intros v F. apply wf_unm_cache. eapply gv_wf_field; eassumption. }
  intros ca Hca. apply all_ret.
  unfold cmd_pre. cbn [cs_plugins cs_rem cs_matrix cs_cache].
  split; [|split; [exact Hpl|split; [exact Hmx|exact Hca]]].
  split; [|split].
  - apply leftover_nodup. apply gv_wf_map in Wo. apply Wo.
  - intros k Hk I. unfold cmd_primary in Hk. cbn [In] in Hk.
    destruct Hk as [<-|Hk].
    + assert (I' : In "commands" (map fst (leftover outer))).
      { apply in_map_iff in I. destruct I as (kv & E & I). apply leftover_incl in I.
        apply in_map_iff. exists kv. split; assumption. }
      revert I'. apply (primary_not_leftover _ m "commands" ["command"]). rewrite kt_outer. in_lit.
    + revert I. unfold p.
      repeat (destruct Hk as [<-|Hk];
              [eapply primary_not_leftover; rewrite kt_cmd; in_lit|]). destruct Hk.
  - apply vals_stable_wf. apply gv_wf_leftover. exact Wo.
Qed.

Lemma aget_leftover_free : forall fields m k,
  (forall pk al, In (pk, al) (ktab fields) -> k <> pk /\ ~ In k al) ->
  aget k (leftover (partition_keys fields m)) = aget k m.
Proof.
  intros fields m k H. rewrite aget_leftover.
  destruct (existsb (String.eqb k) (DecodeProofs.consumed (partition_keys fields m))) eqn:E; [|reflexivity].
  exfalso. apply existsb_eqb_In in E. apply consumed_ktab in E. destruct E as (pk & al & Hin & Hc).
  destruct (H pk al Hin) as [N1 N2]. destruct Hc as [->|[_ Ha]]; [congruence|contradiction].
Qed.

Lemma cmd_rem_type : forall m c w, unm_command m = Ok c w -> aget "type" (cs_rem c) = aget "type" m.
Proof.
  intros m c w H. rewrite (unm_command_rem _ _ _ H).
  rewrite aget_leftover_free, aget_leftover_free; [reflexivity| |].
  - intros pk al X. rewrite kt_outer in X. ktab_cases X.
    split; [discriminate|]. cbn [In]. intros [Y|[]]. discriminate Y.
  - intros pk al X. rewrite kt_cmd in X.
    ktab_cases X; (split; [discriminate|]); cbn [In]; intros Y;
      repeat (destruct Y as [Y|Y]; [discriminate Y|]); exact Y.
Qed.

Lemma group_rem_type : forall m, aget "type" (leftover (partition_keys struct_GroupStep m)) = aget "type" m.
Proof.
  intros m. apply aget_leftover_free. intros pk al X. rewrite kt_group in X.
  ktab_cases X; (split; [discriminate|]); cbn [In]; intros Y;
    repeat (destruct Y as [Y|Y]; [discriminate Y|]); exact Y.
Qed.

Lemma keys_group_inv : forall keys, kind_by_keys keys = KGroup ->
  forall k, In k earlier_keys -> ~ In k keys.
Proof.
  intros keys H k Hk I. unfold kind_by_keys, families in H. cbn [by_keys] in H.
  destruct (existsb (fun x => Kinds.mem x keys) ["command"; "commands"; "plugins"]) eqn:B1; [discriminate H|].
  destruct (existsb (fun x => Kinds.mem x keys) ["wait"; "waiter"]) eqn:B2; [discriminate H|].
  destruct (existsb (fun x => Kinds.mem x keys) ["block"; "input"; "manual"]) eqn:B3; [discriminate H|].
  destruct (existsb (fun x => Kinds.mem x keys) ["trigger"]) eqn:B4; [discriminate H|].
  assert (X : forall fam, In k fam -> existsb (fun x => Kinds.mem x keys) fam = true).
  { intros fam Hf. apply existsb_exists. exists k. split; [exact Hf|apply mem_true; exact I]. }
  unfold earlier_keys in Hk. cbn [In] in Hk.
  repeat (destruct Hk as [<-|Hk];
          [first [rewrite X in B1 by in_lit; discriminate B1 | rewrite X in B2 by in_lit; discriminate B2
                 |rewrite X in B3 by in_lit; discriminate B3 | rewrite X in B4 by in_lit; discriminate B4]|]).
  destruct Hk.
Qed.

(** the classes the fixpoint theorem excludes, as predicates on the parsed pipeline *)
Definition alias_local (s : step) : Prop :=
  match s with
  | SCommand c => alias_free (cs_key c) (cs_rem c) /\ (cs_label c = "" -> ~ In "name" (map fst (cs_rem c)))
  | SGroup k _ _ rem => alias_free k rem
  | _ => True
  end.
Definition source_canonical (p : plugin) : Prop :=
  full_source (full_source (pl_source p)) = full_source (pl_source p).
Definition sources_local (s : step) : Prop :=
  match s with SCommand c => Forall source_canonical (cs_plugins c) | _ => True end.
Definition unknown_local (s : step) : Prop :=
  match s with SUnknown (GMap m) => exists e, map_kind m = Some (KUnknown e) | _ => True end.

(* Q holds of the step and of every step nested in it *)
Fixpoint steps_all (Q : step -> Prop) (s : step) : Prop :=
  Q s /\
  match s with
  | SGroup _ _ ss _ =>
      (fix all (l : list step) : Prop := match l with [] => True | x :: r => steps_all Q x /\ all r end) ss
  | _ => True
  end.
Definition pipeline_all (Q : step -> Prop) (p : pipeline) : Prop := Forall (steps_all Q) (pp_steps p).

(* no command/group step with an empty key (or command step with an empty label) next to a surviving alias *)
Definition no_empty_primary_with_alias (p : pipeline) : Prop := pipeline_all alias_local p.
(* every plugin source is a fixpoint of canonicalisation *)
Definition plugin_sources_canonical (p : pipeline) : Prop := pipeline_all sources_local p.
(* every unknown mapping step is of unknown kind (not a typed step whose decode failed) *)
Definition no_fallback_unknown (p : pipeline) : Prop := pipeline_all unknown_local p.

Lemma steps_all_group : forall Q k g ss rem,
  steps_all Q (SGroup k g ss rem) <-> Q (SGroup k g ss rem) /\ Forall (steps_all Q) ss.
Proof.
  intros Q k g ss rem. cbn [steps_all].
  assert (E : (fix all (l : list step) : Prop := match l with [] => True | x :: r => steps_all Q x /\ all r end) ss
              <-> Forall (steps_all Q) ss).
  { induction ss as [|x r IH]; [split; intros; [constructor|exact I]|].
    rewrite IH. split; [intros [A B]; constructor; assumption|intros H; inversion H; subst; split; assumption]. }
  rewrite E. reflexivity.
Qed.

Lemma steps_all_head : forall Q s, steps_all Q s -> Q s.
Proof. intros Q s H. destruct s; apply H. Qed.

Lemma steps_all_and : forall Q1 Q2 s, steps_all Q1 s -> steps_all Q2 s -> steps_all (fun s => Q1 s /\ Q2 s) s.
Proof.
  intros Q1 Q2. induction s using step_ind'; intros H1 H2;
    try (split; [split; [apply (steps_all_head _ _ H1)|apply (steps_all_head _ _ H2)]|exact I]).
  apply steps_all_group in H1. apply steps_all_group in H2. apply steps_all_group.
  destruct H1 as [A1 B1], H2 as [A2 B2]. split; [split; assumption|].
  rewrite Forall_forall in *. intros x Hx. apply H; auto.
Qed.

Lemma unknown_again_doc : forall m e, map_kind m = Some (KUnknown e) ->
  unknown_again (gv_of_json (gv_json (GMap m))).
Proof.
  intros m e MK. rewrite gv_json_map, gv_of_json_obj. cbn [unknown_again]. exists e.
  unfold map_kind in *. rewrite aget_gmap. unfold jmap at 1. rewrite aget_map.
  destruct (aget "type" m) as [v|]; cbn [option_map].
  - destruct v; try discriminate MK. exact MK.
  - rewrite keys_gmap, keys_jmap. exact MK.
Qed.

Definition restr (s : step) : Prop :=
  (alias_local s /\ sources_local s) /\ unknown_local s.

Lemma cmd_from_pre : forall c, cmd_pre c ->
  alias_local (SCommand c) -> sources_local (SCommand c) -> cmd_ok c.
Proof.
  intros c (R & HP & HM & HC) A S. cbn [alias_local sources_local] in *.
  destruct A as [A1 A2]. split; [exact R|]. split; [exact A1|]. split; [exact A2|]. split; [|split; [|exact HC]].
  - rewrite Forall_forall in *. intros p Hp. destruct (HP p Hp) as [X Y]. split; [apply S; exact Hp|split; assumption].
  - destruct (cs_matrix c) as [m|]; [|exact I]. destruct HM as (H1 & H2 & H3). split; [exact H1|split; [|exact H3]].
    rewrite Forall_forall in *. intros a Ha. specialize (H2 a Ha).
    destruct a as [a|]; [|exact I]. cbn [adj_pre adj_fix_ok] in *. exact H2.
Qed.

(** the marshalled forms are stable JSON *)
Lemma inline_friendly_stable : forall outline rem,
  NoDup (map fst outline) -> NoDup (map fst rem) ->
  Forall (fun kv => json_stable (snd kv)) outline -> vals_stable rem ->
  json_stable (inline_friendly outline rem).
Proof.
  intros outline rem No Nr So Sr. rewrite inline_friendly_members. apply json_stable_obj.
  rewrite Forall_forall. intros [k j] Hin. cbn [snd].
  apply (in_aget k j _ (inline_friendly_nodup outline rem)) in Hin.
  rewrite inline_friendly_lookup in Hin by assumption.
  destruct (aget k outline) as [j0|] eqn:Eo.
  - inversion Hin; subst j0. apply aget_some_in in Eo. rewrite Forall_forall in So. apply (So (k, j) Eo).
  - destruct (aget k rem) as [v|] eqn:Er; [|discriminate Hin]. inversion Hin; subst j.
    eapply vals_stable_get; eassumption.
Qed.

Definition ol_stable (ol : list (string * option json)) : Prop :=
  Forall (fun e => match snd e with Some j => json_stable j | None => True end) ol.

Lemma compact_stable : forall ol, ol_stable ol -> Forall (fun kv => json_stable (snd kv)) (compact ol).
Proof.
  induction ol as [|[k o] r IH]; intros H; [constructor|]. inversion H; subst.
  destruct o as [j|].
  - change (compact ((k, Some j) :: r)) with ((k, j) :: compact r). constructor; [assumption|apply IH; assumption].
  - change (compact ((k, None) :: r)) with (compact r). apply IH; assumption.
Qed.

Lemma ol_object_stable : forall ol rem,
  NoDup (map fst ol) -> NoDup (map fst rem) -> ol_stable ol -> vals_stable rem ->
  json_stable (inline_friendly (compact ol) rem).
Proof.
  intros. apply inline_friendly_stable; try assumption; [apply compact_nodup|apply compact_stable]; assumption.
Qed.

Lemma jstrs_stable : forall l, json_stable (jstrs l).
Proof. intros l. unfold jstrs. apply json_stable_arr. rewrite Forall_map. apply Forall_forall. intros; exact I. Qed.

Lemma map_ss_stable : forall l, json_stable (mj_map_ss l).
Proof.
  intros l. unfold mj_map_ss. apply json_stable_obj.
  apply (Permutation_Forall (Permutation_sym (sort_keys_perm _))). rewrite Forall_map.
  apply Forall_forall. intros; exact I.
Qed.

Lemma str_opt_stable : forall s, match str_opt s with Some j => json_stable j | None => True end.
Proof. intros s. unfold str_opt. destruct (String.eqb s ""); exact I. Qed.

Lemma with_stable : forall w, json_stable (mj_with w).
Proof.
  intros [l|]; [|exact I]. destruct l as [|[k v] [|y r]]; try apply map_ss_stable.
  cbn [mj_with]. destruct (String.eqb k ""); [exact I|apply map_ss_stable].
Qed.

Lemma adj_stable : forall a, adj_pre a -> json_stable (mj_adj a).
Proof.
  intros [a|] H; [|exact I]. destruct H as [[Ss _] (Nr & _ & Vs)]. rewrite mj_adj_eq.
  apply ol_object_stable; try assumption; [apply nodupb_sound; reflexivity|].
  unfold adj_ol, ol_stable. constructor; [apply with_stable|]. constructor; [|constructor].
  cbn [snd]. destruct (is_empty_any (ma_skip a)); [exact I|exact Ss].
Qed.

Lemma setup_stable : forall su, json_stable (mj_setup su).
Proof.
  intros [l|]; [|exact I]. destruct l as [|x r]; [exact I|].
  change (mj_setup (Some (x :: r))) with
    (match setup_anon (x :: r) with
     | Some vs => jstrs vs
     | None => JObj (sort_keys (map (fun kv => (fst kv, mj_strs_opt (snd kv))) (x :: r)))
     end).
  destruct (setup_anon (x :: r)); [apply jstrs_stable|].
  apply json_stable_obj. apply (Permutation_Forall (Permutation_sym (sort_keys_perm _))). rewrite Forall_map.
  apply Forall_forall. intros [k [vs|]] _; cbn [snd mj_strs_opt]; [apply jstrs_stable|exact I].
Qed.

Lemma matrix_stable : forall m, matrix_pre m -> json_stable (mj_matrix m).
Proof.
  intros m (_ & HA & (Nr & _ & Vs)). destruct (mx_simple m) as [vs|] eqn:S.
  - unfold mj_matrix. rewrite S. apply jstrs_stable.
  - rewrite (mj_matrix_eq m S). apply ol_object_stable; try assumption; [apply nodupb_sound; reflexivity|].
    unfold matrix_ol, ol_stable. constructor; [apply setup_stable|]. constructor; [|constructor].
    cbn [snd]. destruct (mx_adj m) as [|a0 r0] eqn:EA; [exact I|]. rewrite <- EA in *.
    apply json_stable_arr. rewrite Forall_map. eapply Forall_impl; [|exact HA]. apply adj_stable.
Qed.

Lemma cache_stable : forall c, cache_fix_ok c -> json_stable (mj_cache c).
Proof.
  intros c H. destruct (ca_disabled c) eqn:D.
  - unfold mj_cache. rewrite D. exact I.
  - destruct H as [H|(Nr & _ & Vs)]; [congruence|]. rewrite (mj_cache_eq c D).
    apply ol_object_stable; try assumption; [apply nodupb_sound; reflexivity|].
    unfold cache_ol, ol_stable. repeat constructor; cbn [snd].
    + destruct (String.eqb (ca_name c) ""); exact I.
    + destruct (ca_paths c); [exact I|apply jstrs_stable].
    + destruct (String.eqb (ca_size c) ""); exact I.
Qed.

Lemma plugin_stable : forall p, plugin_pre p -> json_stable (mj_plugin p).
Proof.
  intros p [_ Vs]. rewrite mj_plugin_eq. cbn [json_stable snd]. split; [|exact I].
  destruct (plugin_cfg_spec (pl_config p)) as [E|[E _]]; rewrite E; [exact Vs|exact I].
Qed.

Lemma sig_stable : forall s, json_stable (mj_sig s).
Proof.
  intros s. unfold mj_sig. cbn [json_stable snd]. repeat split.
  destruct (sg_fields s); [apply jstrs_stable|exact I].
Qed.

Lemma command_stable : forall c, cmd_pre c -> json_stable (mj_command c).
Proof.
  intros c ((Nr & _ & Vs) & HP & HM & HC). rewrite mj_command_ol.
  apply ol_object_stable; try assumption; [apply nodupb_sound; reflexivity|].
  unfold cmd_ol, ol_stable. repeat constructor; cbn [snd].
  - apply str_opt_stable.
  - apply str_opt_stable.
  - destruct (cs_plugins c) as [|p0 r0] eqn:EP; [exact I|]. rewrite <- EP in *. cbn [ne_opt].
    destruct (cs_plugins c); [exact I|].
    apply json_stable_arr. rewrite Forall_map. eapply Forall_impl; [|exact HP]. apply plugin_stable.
  - destruct (cs_env c); [exact I|apply map_ss_stable].
  - destruct (cs_sig c); [apply sig_stable|exact I].
  - destruct (cs_matrix c); [apply matrix_stable; exact HM|exact I].
  - destruct (cs_cache c); [apply cache_stable; exact HC|exact I].
Qed.

Lemma fix_mutual : forall f,
  (forall g ss w, unm_steps f g = Ok ss w -> gv_wf g -> Forall (steps_all restr) ss -> Forall step_fix_ok ss) /\
  (forall g s w, unm_step f g = Ok s w -> gv_wf g -> steps_all restr s -> step_fix_ok s).
Proof.
  induction f as [|f [IH1 IH2]]; [split; intros; discriminate|]. split.
  - intros g ss w H W R. rewrite unm_steps_S in H. destruct g; try discriminate H.
    + inversion H; subst. constructor.
    + apply mapM_Forall2 in H. apply gv_wf_seq in W. clear w.
      induction H as [|x y l ss' [w' Hxy] HF IH]; [constructor|].
      inversion W; subst. inversion R; subst. constructor; [eapply IH2; eassumption|apply IH; assumption].
  - intros g s w H W R. rewrite unm_step_S in H. pose proof H as H0. apply step_body_inv in H.
    pose proof (steps_all_head _ _ R) as RL.
    assert (U : forall m, g = GMap m -> s = SUnknown g -> step_fix_ok s).
    { intros m -> ->. split; [apply gv_wf_stable; exact W|].
      destruct RL as (_ & e & MK). eapply unknown_again_doc. exact MK. }
    assert (T : forall m K, g = GMap m -> map_kind m = Some K -> typed_shape (unm_steps f) m K s w -> step_fix_ok s).
    { intros m K Hg MK Hs. subst g. pose proof W as W'. apply gv_wf_map in W'. destruct W' as [Nd _].
      destruct Hs as [Hs ?|c HK Hc Hs ?|HK Hs ?|HK Hs ?|HK Hs ?|key gr ss HK Hs Hf].
      - eapply U; [reflexivity|exact Hs].
      - subst s K. cbn [step_fix_ok]. split.
        + pose proof (all_ok _ _ _ _ (wf_unm_command m W) Hc) as Pre.
          destruct RL as ((A & S) & _).
          apply cmd_from_pre; assumption.
        + unfold type_selects. rewrite (cmd_rem_type _ _ _ Hc). unfold map_kind in MK.
          destruct (aget "type" m) as [[]|]; try discriminate MK; [|exact I]. congruence.
      - subst s K. right. right. split; [exact Nd|split; [apply vals_stable_wf; exact W|exact MK]].
      - subst s K. right. split; [exact Nd|split; [apply vals_stable_wf; exact W|exact MK]].
      - subst s K. split; [exact Nd|split; [apply vals_stable_wf; exact W|exact MK]].
      - subst s K. apply step_fix_ok_group. apply steps_all_group in R. destruct R as [_ RN].
        split; [|split; [|split]].
        + apply leftover_rem_ok; [exact W|]. intros k Hk. rewrite kt_group. unfold group_primary in Hk. cbn [In] in Hk.
          destruct Hk as [<-|[<-|[<-|[]]]]; eexists; in_lit.
        + apply RL.
        + unfold group_selects. rewrite group_rem_type. unfold map_kind in MK.
          destruct (aget "type" m) as [[]|]; try discriminate MK; [congruence|].
          intros k Hk I. inversion MK as [MK']. apply (keys_group_inv _ MK' k Hk).
          apply in_map_iff in I. destruct I as (kv & E & I). apply leftover_incl in I.
          apply in_map_iff. exists kv. split; assumption.
        + destruct (field "Steps" (partition_keys struct_GroupStep m)) as [v|] eqn:F.
          * eapply IH1; [exact Hf| |exact RN]. eapply gv_wf_field; eassumption.
          * destruct Hf as [-> _]. constructor. }
    destruct H as [str Hg Hk Hs Hw|str Hg Hk Hs Hw|str Hg Hs Hw|m t Hg Ht Hs|m Hg Ht Hs].
    + subst s. right. left. reflexivity.
    + subst s. left. intros E. subst str. apply scalar_input_nonempty in Hk. discriminate Hk.
    + subst g s. split; [exact I|]. cbn [gv_json gv_of_json unknown_again].
      cbn [step_body] in H0. destruct (kind_of_scalar str); try discriminate H0; split; discriminate.
    + eapply T; [exact Hg| |exact Hs]. unfold map_kind. rewrite Ht. reflexivity.
    + eapply T; [exact Hg| |exact Hs]. unfold map_kind. rewrite Ht. reflexivity.
Qed.

Lemma parse_result_fix_ok_core : forall g p w,
  parse_doc g = Ok p w -> doc_ok g -> pipeline_all restr p -> pipeline_fix_ok p.
Proof.
  intros g p w H W R. unfold parse_doc in H. apply parse_inv in H. unfold pipeline_all in R.
  destruct H as [(l & ss & Hg & H & Hp)|(m & Hg & Hr & H)]; subst g.
  - subst p. cbn [pp_steps] in R. split; cbn [pp_steps pp_rem]; [|apply rem_ok_nil].
    eapply (proj1 (fix_mutual _)); eassumption.
  - split.
    + destruct (field "Steps" (partition_keys struct_Pipeline m)) as [v|] eqn:F.
      * eapply (proj1 (fix_mutual _)); [exact H| |exact R]. eapply gv_wf_field; eassumption.
      * destruct H as [-> _]. constructor.
    + rewrite Hr. apply leftover_rem_ok; [exact W|]. intros k Hk. rewrite kt_pipeline.
      unfold pipeline_primary in Hk. cbn [In] in Hk. destruct Hk as [<-|[<-|[]]]; eexists; in_lit.
Qed.

(* the side condition holds for what Parse produces from any well-formed document, outside the excluded classes *)
Theorem parse_result_fix_ok : forall g p w,
  parse_doc g = Ok p w -> doc_ok g ->
  no_empty_primary_with_alias p -> plugin_sources_canonical p -> no_fallback_unknown p ->
  pipeline_fix_ok p.
Proof.
  intros g p w H W R1 R2 R4. eapply parse_result_fix_ok_core; [exact H|exact W|].
  unfold no_empty_primary_with_alias, plugin_sources_canonical, no_fallback_unknown, pipeline_all in *.
  rewrite Forall_forall in *. intros s Hs. unfold restr.
  apply (steps_all_and (fun s => alias_local s /\ sources_local s) unknown_local).
  - apply steps_all_and; auto.
  - auto.
Qed.

(* parse, marshal, re-parse, marshal: the second marshalling equals the first *)
Corollary parse_marshal_reparse : forall g p w,
  parse_doc g = Ok p w -> doc_ok g ->
  no_empty_primary_with_alias p -> plugin_sources_canonical p -> no_fallback_unknown p ->
  exists p' w', reparse_json p = Ok p' w' /\ mj_pipeline p' = mj_pipeline p.
Proof. intros. apply reparse_fixpoint. eapply parse_result_fix_ok; eassumption. Qed.

(** non-vacuity: a document exercising every step kind, aliases next to a non-empty key, plugins,
    matrix with adjustments, cache, env, unknown steps and extra fields satisfies every hypothesis *)
Definition demo_doc : gv :=
  GMap [("env", GMap [("A", GStr "b")]);
        ("steps", GSeq [
           GMap [("command", GStr "make"); ("key", GStr "k"); ("id", GStr "other"); ("zzz", GInt 3);
                 ("plugins", GSeq [GMap [("docker#v1.0", GMap [("image", GStr "x"); ("n", GInt 2)])]]);
                 ("env", GMap [("Z", GStr "1"); ("B", GInt 2)]);
                 ("matrix", GMap [("setup", GMap [("os", GSeq [GStr "a"; GStr "b"]); ("arch", GStr "x")]);
                                  ("adjustments", GSeq [GMap [("with", GMap [("os", GStr "a"); ("arch", GStr "x")]); ("skip", GBool true)]]);
                                  ("extra", GFloat "1.5" "1.5")]);
                 ("cache", GMap [("paths", GSeq [GStr "p"]); ("foo", GNull)])];
           GStr "wait";
           GMap [("wait", GNull); ("continue_on_failure", GBool true)];
           GMap [("type", GStr "trigger"); ("trigger", GStr "pipe")];
           GMap [("group", GStr "G"); ("key", GStr "gk"); ("name", GStr "zz");
                 ("steps", GSeq [GMap [("commands", GSeq [GStr "x"; GStr "y"]); ("name", GStr "lab")]; GStr "block"])];
           GMap [("foo", GStr "bar")];
           GStr "nonsense"]);
        ("other", GFloat "1.5" "1.5")].


Ltac nd := apply nodupb_sound; vm_compute; reflexivity.
Ltac pred :=
  repeat first
    [ exact I
    | match goal with
      | |- _ /\ _ => split
      | |- NoDup _ => nd
      | |- Forall _ _ => constructor
      | |- num_stable _ => apply num_stable_float; reflexivity
      | |- _ <> _ => discriminate
      | |- exists _, _ => eexists
      | |- _ = _ => reflexivity
      | |- ~ In _ _ => (cbn [In map fst]; intuition discriminate)
      | |- _ -> _ => let H := fresh in intro H; try discriminate H
      end ].

Example demo_ok : exists p w,
  parse_doc demo_doc = Ok p w /\ doc_ok demo_doc /\
  no_empty_primary_with_alias p /\ plugin_sources_canonical p /\ no_fallback_unknown p.
Proof.
  remember (parse_doc demo_doc) as r eqn:Er. vm_compute in Er.
  eexists. eexists. split; [rewrite Er; reflexivity|].
  split. { unfold doc_ok, demo_doc. cbn [gv_wf map fst snd]. pred. }
  split. { unfold no_empty_primary_with_alias, pipeline_all. cbn [pp_steps].
           repeat constructor; cbn [alias_local alias_free cs_key cs_label cs_rem]; try (intros; discriminate); pred. }
  split. { unfold plugin_sources_canonical, pipeline_all. cbn [pp_steps].
           repeat constructor; cbn [sources_local cs_plugins]; pred. }
  unfold no_fallback_unknown, pipeline_all. cbn [pp_steps].
  repeat constructor; cbn [unknown_local]; pred.
Qed.

Example demo_fixpoint : exists p w p' w',
  parse_doc demo_doc = Ok p w /\ reparse_json p = Ok p' w' /\ mj_pipeline p' = mj_pipeline p.
Proof.
  destruct demo_ok as (p & w & H & W & R1 & R2 & R4).
  destruct (parse_marshal_reparse _ _ _ H W R1 R2 R4) as (p' & w' & E1 & E2).
  exists p, w, p', w'. auto.
Qed.

(** the other hypotheses: which ones exclude real failures of the fixpoint property, and which one
    is only forced by the proof *)
Definition fix_check (g : gv) : option (json * json) :=
  match parse_doc g with
  | Ok p _ => match reparse_json p with Ok p' _ => Some (mj_pipeline p, mj_pipeline p') | Err => None end
  | Err => None
  end.

Lemma fix_check_sound : forall g j j', fix_check g = Some (j, j') ->
  exists p w p' w', parse_doc g = Ok p w /\ reparse_json p = Ok p' w' /\ mj_pipeline p = j /\ mj_pipeline p' = j'.
Proof.
  intros g j j' H. unfold fix_check in H. destruct (parse_doc g) as [p w|]; [|discriminate H].
  destruct (reparse_json p) as [p' w'|] eqn:E; [|discriminate H]. inversion H; subst.
  exists p, w, p', w'. auto.
Qed.

Ltac fix_fails d :=
  let X := fresh in
  assert (X : exists j j', fix_check d = Some (j, j') /\ j' <> j)
    by (vm_compute; eexists; eexists; split; [reflexivity|discriminate]);
  let j := fresh in let j' := fresh in let E := fresh in let N := fresh in
  destruct X as (j & j' & E & N); apply fix_check_sound in E;
  let p := fresh in let w := fresh in let p' := fresh in let w' := fresh in
  let H1 := fresh in let H2 := fresh in let H3 := fresh in let H4 := fresh in
  destruct E as (p & w & p' & w' & H1 & H2 & H3 & H4); subst;
  exists p, w, p', w'; repeat split; assumption.

(* a typed step whose decode fails (here: a timestamp key) becomes an unknown step holding the map in
   document order; re-read, the timestamp is a string, the decode succeeds, the keys get sorted *)
Definition d_time : gv := GSeq [GMap [("key", GTime "2001-01-01T00:00:00Z"); ("command", GStr "x")]].
Example fallback_unknown_counterexample :
  doc_ok d_time /\
  exists p w p' w', parse_doc d_time = Ok p w /\ reparse_json p = Ok p' w' /\ mj_pipeline p' <> mj_pipeline p.
Proof. split; [unfold doc_ok, d_time; cbn [gv_wf map fst snd]; pred|fix_fails d_time]. Qed.

(* a plugin source on which canonicalisation is not idempotent *)
Definition d_src : gv := GSeq [GMap [("command", GStr "x"); ("plugins", GSeq [GStr "x#../.."])]].
Example plugin_source_counterexample :
  doc_ok d_src /\
  exists p w p' w', parse_doc d_src = Ok p w /\ reparse_json p = Ok p' w' /\ mj_pipeline p' <> mj_pipeline p.
Proof. split; [unfold doc_ok, d_src; cbn [gv_wf map fst snd]; pred|fix_fails d_src]. Qed.

(* an unstable number token: negative zero re-reads as the integer 0 *)
Definition d_negzero : gv := GSeq [GMap [("command", GStr "x"); ("zz", GFloat "-0" "-0")]].
Example unstable_number_counterexample :
  exists p w p' w', parse_doc d_negzero = Ok p w /\ reparse_json p = Ok p' w' /\ mj_pipeline p' <> mj_pipeline p.
Proof. fix_fails d_negzero. Qed.

(* an adjustment without `with` marshals "with": {} (fix F20), which re-reads as an empty `with`: the
   step is still a command step after the re-parse and the second marshalling equals the first *)
Definition d_with : gv :=
  GSeq [GMap [("command", GStr "x");
              ("matrix", GMap [("setup", GSeq [GStr "a"]); ("adjustments", GSeq [GMap [("skip", GBool true)]])])]].
Example adjustment_without_with_roundtrips :
  exists p w c m a p' w' c',
    parse_doc d_with = Ok p w /\
    pp_steps p = [SCommand c] /\ cs_matrix c = Some m /\ mx_adj m = [Some a] /\ ma_with a = None /\
    reparse_json p = Ok p' w' /\ mj_pipeline p' = mj_pipeline p /\ pp_steps p' = [SCommand c'].
Proof.
  do 8 eexists.
  split; [vm_compute; reflexivity|].
  split; [vm_compute; reflexivity|].
  split; [vm_compute; reflexivity|].
  split; [vm_compute; reflexivity|].
  split; [vm_compute; reflexivity|].
  split; [vm_compute; reflexivity|].
  split; vm_compute; reflexivity.
Qed.

(* and it is inside the theorem's domain: no hypothesis about `with` is needed any more *)
Example adjustment_without_with_covered :
  exists p w, parse_doc d_with = Ok p w /\ pipeline_fix_ok p.
Proof.
  remember (parse_doc d_with) as r eqn:Er. vm_compute in Er.
  eexists. eexists. split; [rewrite Er; reflexivity|].
  eapply (parse_result_fix_ok d_with); [vm_compute; reflexivity| | | |].
  - unfold doc_ok, d_with. cbn [gv_wf map fst snd]. pred.
  - unfold no_empty_primary_with_alias, pipeline_all. cbn [pp_steps].
    repeat constructor; cbn [alias_local alias_free cs_key cs_label cs_rem]; pred.
  - unfold plugin_sources_canonical, pipeline_all. cbn [pp_steps]. repeat constructor; cbn [sources_local cs_plugins]; pred.
  - unfold no_fallback_unknown, pipeline_all. cbn [pp_steps]. repeat constructor; cbn [unknown_local]; pred.
Qed.

(* configs as Parse stores them (ToMapRecursive of a document value) are fixpoints *)
Corollary plugin_config_roundtrip_doc : forall c, gv_wf c ->
  gv_json (to_map_recursive (gv_of_json (gv_json (to_map_recursive c)))) = gv_json (to_map_recursive c).
Proof. intros c W. destruct (gv_wf_tmr c W). apply plugin_config_roundtrip; assumption. Qed.

Print Assumptions reparse_fixpoint.
Print Assumptions parse_marshal_reparse.
