(** "The normal form is a fixpoint": re-parsing the JSON marshalling of a
    pipeline yields a pipeline that marshals to the same JSON
    (Model/Reparse.v over Model/Pipeline.v + Model/Marshal.v). *)
From Coq Require Import String List Ascii Bool Arith Lia ZArith Permutation Sorted.
From Coq Require Import DecimalString Decimal DecimalZ DecimalPos.
From GP Require Import Base.Sexp Model.Gv Model.Decode Model.Kinds Model.Plugin Model.Pipeline Model.Marshal Model.Reparse Gen.Structs
     Proofs.DecodeProofs Proofs.MarshalProofs Proofs.PipelineProofs Proofs.JcsProofs Proofs.PluginProofs.
Import ListNotations.
Local Open Scope string_scope.
Local Open Scope list_scope.

(** ------------------------------------------------------------------ *)
(** * 1. Numbers *)

Lemma all_digits_uint : forall d, all_digits (NilEmpty.string_of_uint d) = true.
Proof. induction d; cbn [NilEmpty.string_of_uint all_digits]; try reflexivity; rewrite IHd; reflexivity. Qed.

Lemma uint_string_nonempty : forall d, d <> Nil -> NilEmpty.string_of_uint d <> "".
Proof. intros d H. destruct d; cbn; try discriminate. congruence. Qed.

Lemma int_token_uint : forall d, d <> Nil -> int_token (NilEmpty.string_of_uint d) = true.
Proof.
  intros d H. pose proof (all_digits_uint d) as A.
  destruct d; try congruence; cbn [NilEmpty.string_of_uint] in *; unfold int_token; exact A.
Qed.

Lemma nilzero_nonnil : forall d, d <> Nil -> NilZero.string_of_uint d = NilEmpty.string_of_uint d.
Proof. intros d H. destruct d; try reflexivity. congruence. Qed.

Lemma int_token_z : forall z, int_token (z_to_string z) = true.
Proof.
  intros z. unfold z_to_string. destruct z as [|p|p]; cbn [Z.to_int NilZero.string_of_int].
  - reflexivity.
  - pose proof (Unsigned.to_uint_nonnil p) as N. rewrite nilzero_nonnil by exact N.
    apply int_token_uint; exact N.
  - pose proof (Unsigned.to_uint_nonnil p) as N. rewrite nilzero_nonnil by exact N.
    cbn [int_token]. rewrite all_digits_uint, andb_true_r.
    destruct (String.eqb_spec (NilEmpty.string_of_uint (Pos.to_uint p)) ""); [|reflexivity].
    exfalso. eapply uint_string_nonempty; eassumption.
Qed.

(* the decimal printer and reader used for int tokens are inverse *)
Theorem string_to_z_to_string : forall z, string_to_z (z_to_string z) = Some z.
Proof.
  intros z. unfold string_to_z, z_to_string. rewrite NilZero.isi.
  - rewrite DecimalZ.of_to. reflexivity.
  - destruct z; cbn [Z.to_int]; try discriminate. intros E. inversion E.
    eapply Unsigned.to_uint_nonnil; eassumption.
  - destruct z; cbn [Z.to_int]; try discriminate. intros E. inversion E.
    eapply Unsigned.to_uint_nonnil; eassumption.
Qed.

Lemma gv_of_json_int : forall z, gv_of_json (JNum (z_to_string z)) = GInt z.
Proof. intros z. cbn [gv_of_json]. rewrite int_token_z, string_to_z_to_string. reflexivity. Qed.

(* numbers: re-reading a number token and marshalling it again gives the same token *)
Definition num_stable (t : string) : Prop := gv_json (gv_of_json (JNum t)) = JNum t.

Lemma num_stable_int : forall z, num_stable (z_to_string z).
Proof. intros z. unfold num_stable. rewrite gv_of_json_int. reflexivity. Qed.

Lemma num_stable_float : forall t, int_token t = false -> num_stable t.
Proof. intros t H. unfold num_stable. cbn [gv_of_json]. rewrite H. reflexivity. Qed.

(* what a stable token re-reads to *)
Lemma num_stable_cases : forall t, num_stable t ->
  (exists z, gv_of_json (JNum t) = GInt z /\ z_to_string z = t) \/ gv_of_json (JNum t) = GFloat t t.
Proof.
  intros t H. unfold num_stable in H. cbn [gv_of_json] in *.
  destruct (int_token t); [|right; reflexivity].
  destruct (string_to_z t) as [z|]; [|right; reflexivity].
  left. exists z. split; [reflexivity|]. cbn [gv_json] in H. congruence.
Qed.

(** ------------------------------------------------------------------ *)
(** * 2. Stable JSON values *)

(* a free-form value whose JSON re-reads to itself: all number tokens stable *)
Fixpoint json_stable (j : json) : Prop :=
  match j with
  | JNum t => num_stable t
  | JArr l => (fix go (l : list json) : Prop :=
                 match l with [] => True | x :: r => json_stable x /\ go r end) l
  | JObj l => (fix go (l : list (string * json)) : Prop :=
                 match l with [] => True | kv :: r => json_stable (snd kv) /\ go r end) l
  | _ => True
  end.

Lemma json_stable_arr : forall l, json_stable (JArr l) <-> Forall json_stable l.
Proof.
  induction l as [|x r IH].
  - split; intros; [constructor|exact I].
  - change (json_stable (JArr (x :: r))) with (json_stable x /\ json_stable (JArr r)).
    rewrite IH. split.
    + intros [A B]. constructor; assumption.
    + intros H. inversion H; subst. split; assumption.
Qed.

Lemma json_stable_obj : forall l, json_stable (JObj l) <-> Forall (fun kv => json_stable (snd kv)) l.
Proof.
  induction l as [|x r IH].
  - split; intros; [constructor|exact I].
  - change (json_stable (JObj (x :: r))) with (json_stable (snd x) /\ json_stable (JObj r)).
    rewrite IH. split.
    + intros [A B]. constructor; assumption.
    + intros H. inversion H; subst. split; assumption.
Qed.

Section json_induction.
  Variable P : json -> Prop.
  Hypothesis HNull : P JNull.
  Hypothesis HBool : forall b, P (JBool b).
  Hypothesis HNum : forall t, P (JNum t).
  Hypothesis HStr : forall s, P (JStr s).
  Hypothesis HArr : forall l, Forall P l -> P (JArr l).
  Hypothesis HObj : forall l, Forall (fun kv => P (snd kv)) l -> P (JObj l).
  Fixpoint json_ind' (j : json) : P j :=
    match j with
    | JNull => HNull
    | JBool b => HBool b
    | JNum t => HNum t
    | JStr s => HStr s
    | JArr l => HArr l ((fix go (l : list json) : Forall P l :=
                           match l with [] => Forall_nil _ | x :: r => Forall_cons x (json_ind' x) (go r) end) l)
    | JObj l => HObj l ((fix go (l : list (string * json)) : Forall (fun kv => P (snd kv)) l :=
                           match l with [] => Forall_nil _ | kv :: r => Forall_cons kv (json_ind' (snd kv)) (go r) end) l)
    end.
End json_induction.

Definition gmap (l : list (string * json)) : list (string * gv) :=
  map (fun kv => (fst kv, gv_of_json (snd kv))) l.
Definition jmap (l : list (string * gv)) : list (string * json) :=
  map (fun kv => (fst kv, gv_json (snd kv))) l.

Lemma gv_of_json_obj : forall l, gv_of_json (JObj l) = GMap (gmap l).
Proof. reflexivity. Qed.
Lemma gv_of_json_arr : forall l, gv_of_json (JArr l) = GSeq (map gv_of_json l).
Proof. reflexivity. Qed.
Lemma gv_json_map : forall l, gv_json (GMap l) = JObj (jmap l).
Proof. reflexivity. Qed.
Lemma gv_json_umap : forall l, gv_json (GUMap l) = JObj (sort_keys (jmap l)).
Proof. reflexivity. Qed.
Lemma gv_json_seq : forall l, gv_json (GSeq l) = JArr (map gv_json l).
Proof. reflexivity. Qed.

Theorem gv_json_of_json : forall j, json_stable j -> gv_json (gv_of_json j) = j.
Proof.
  induction j using json_ind'; intros S; try reflexivity.
  - exact S.
  - rewrite gv_of_json_arr, gv_json_seq. f_equal. apply json_stable_arr in S.
    induction H as [|x r Hx Hr IH]; [reflexivity|]. inversion S; subst.
    cbn [map]. rewrite Hx by assumption. rewrite IH by assumption. reflexivity.
  - rewrite gv_of_json_obj, gv_json_map. f_equal. apply json_stable_obj in S.
    induction H as [|[k v] r Hx Hr IH]; [reflexivity|]. inversion S; subst.
    cbn [gmap jmap map fst snd] in *. rewrite Hx by assumption. unfold gmap, jmap in IH. rewrite IH by assumption.
    reflexivity.
Qed.

Definition val_stable (g : gv) : Prop := json_stable (gv_json g).

Lemma val_stable_fix : forall g, val_stable g -> gv_json (gv_of_json (gv_json g)) = gv_json g.
Proof. intros g H. apply gv_json_of_json. exact H. Qed.

(** ------------------------------------------------------------------ *)
(** * 3. Generic tools *)

Lemma bind_ret_l : forall {T U} (x : T) (f : T -> res U), bind (Ok x 0) f = f x.
Proof. intros. unfold bind. destruct (f x); reflexivity. Qed.

Lemma mapM_ok0 : forall {T U} (f : T -> res U) (g : T -> U) l,
  (forall x, In x l -> f x = Ok (g x) 0) -> mapM f l = Ok (map g l) 0.
Proof.
  intros T U f g l. induction l as [|x r IH]; intros H; [reflexivity|].
  cbn [mapM map]. rewrite (H x) by (left; reflexivity). rewrite bind_ret_l.
  rewrite IH by (intros y Hy; apply H; right; exact Hy). rewrite bind_ret_l. reflexivity.
Qed.

Lemma mapM_strs : forall l, mapM unm_string (map gv_of_json (map JStr l)) = Ok l 0.
Proof.
  intros l. rewrite map_map. cbn [gv_of_json].
  rewrite (mapM_ok0 unm_string (fun g => match g with GStr s => s | _ => "" end)).
  - rewrite map_map. cbn. rewrite map_id. reflexivity.
  - intros x Hx. apply in_map_iff in Hx. destruct Hx as (s & <- & _). reflexivity.
Qed.

Lemma unm_strings_jstrs : forall l, unm_strings (gv_of_json (jstrs l)) = Ok (Some l) 0.
Proof.
  intros l. unfold jstrs. rewrite gv_of_json_arr. cbn [unm_strings]. rewrite mapM_strs, bind_ret_l. reflexivity.
Qed.

Lemma keys_gmap : forall l, map fst (gmap l) = map fst l.
Proof. intros. unfold gmap. apply map_fst_map. Qed.
Lemma keys_jmap : forall l, map fst (jmap l) = map fst l.
Proof. intros. unfold jmap. apply map_fst_map. Qed.

Lemma aget_gmap : forall k l, aget k (gmap l) = option_map gv_of_json (aget k l).
Proof. intros. unfold gmap. apply aget_map. Qed.

Lemma aget_filter : forall {T} (p : string -> bool) k (l : list (string * T)),
  aget k (filter (fun kv => p (fst kv)) l) = if p k then aget k l else None.
Proof.
  intros T p k l. induction l as [|[k0 v0] r IH]; cbn [filter aget fst].
  - destruct (p k); reflexivity.
  - destruct (p k0) eqn:P0; cbn [aget].
    + destruct (String.eqb_spec k k0) as [E|N]; [subst; rewrite P0; reflexivity|exact IH].
    + destruct (String.eqb_spec k k0) as [E|N]; [subst; rewrite P0 in *; exact IH|exact IH].
Qed.

Lemma NoDup_fst_NoDup : forall {T} (l : list (string * T)), NoDup (map fst l) -> NoDup l.
Proof.
  intros T l. induction l as [|x r IH]; intros H; [constructor|].
  cbn [map] in H. inversion H; subst. constructor; [|apply IH; assumption].
  intros I. apply H2. apply in_map. exact I.
Qed.

(* two key-sorted association lists with distinct keys and the same lookups are equal *)
Lemma alist_sorted_ext : forall {T} (l1 l2 : list (string * T)),
  StronglySorted sle (map fst l1) -> StronglySorted sle (map fst l2) ->
  NoDup (map fst l1) -> NoDup (map fst l2) ->
  (forall k, aget k l1 = aget k l2) -> l1 = l2.
Proof.
  intros T l1 l2 S1 S2 N1 N2 H. apply sorted_perm_unique; try assumption.
  apply NoDup_Permutation; try (apply NoDup_fst_NoDup; assumption).
  intros [k v]. split; intros I.
  - apply aget_some_in. rewrite <- H. apply in_aget; assumption.
  - apply aget_some_in. rewrite H. apply in_aget; assumption.
Qed.

Lemma inline_friendly_members : forall o r, inline_friendly o r = JObj (members (inline_friendly o r)).
Proof. reflexivity. Qed.

Definition vals_stable (rem : list (string * gv)) : Prop := Forall (fun kv => val_stable (snd kv)) rem.

Lemma vals_stable_get : forall rem k v, vals_stable rem -> aget k rem = Some v -> val_stable v.
Proof.
  intros rem k v H G. apply aget_some_in in G. unfold vals_stable in H. rewrite Forall_forall in H.
  apply (H (k, v) G).
Qed.

(* the re-read object: lookups *)
Lemma reobj_lookup : forall outline rem k,
  NoDup (map fst outline) -> NoDup (map fst rem) ->
  aget k (gmap (members (inline_friendly outline rem))) =
    match aget k outline with
    | Some j => Some (gv_of_json j)
    | None => option_map (fun v => gv_of_json (gv_json v)) (aget k rem)
    end.
Proof.
  intros outline rem k No Nr. rewrite aget_gmap, inline_friendly_lookup by assumption.
  destruct (aget k outline); [reflexivity|]. destruct (aget k rem); reflexivity.
Qed.

Lemma reobj_keys : forall outline rem k,
  In k (map fst (gmap (members (inline_friendly outline rem)))) <-> In k (map fst outline) \/ In k (map fst rem).
Proof. intros. rewrite keys_gmap. apply inline_friendly_keys. Qed.

(* the re-read object, filtered by a key predicate that keeps every key of the
   inline map, re-marshals with the same outline fields to the same object *)
Lemma reobj_fix : forall outline rem (q : string -> bool),
  NoDup (map fst outline) -> NoDup (map fst rem) -> vals_stable rem ->
  (forall k, q k = false -> ~ In k (map fst rem)) ->
  inline_friendly outline (filter (fun kv => q (fst kv)) (gmap (members (inline_friendly outline rem))))
  = inline_friendly outline rem.
Proof.
  intros outline rem q No Nr Vs Hq.
  set (rem' := filter (fun kv => q (fst kv)) (gmap (members (inline_friendly outline rem)))).
  assert (Nr' : NoDup (map fst rem')).
  { unfold rem'. apply nodup_map_filter. rewrite keys_gmap. apply inline_friendly_nodup. }
  rewrite (inline_friendly_members outline rem'), (inline_friendly_members outline rem). f_equal.
  apply alist_sorted_ext; try apply inline_friendly_sorted; try apply inline_friendly_nodup.
  intros k. rewrite !inline_friendly_lookup by assumption.
  destruct (aget k outline) eqn:Eo; [reflexivity|].
  unfold rem'. rewrite aget_filter. destruct (q k) eqn:Q.
  - rewrite reobj_lookup, Eo by assumption. destruct (aget k rem) eqn:Er; cbn [option_map]; [|reflexivity].
    f_equal. apply val_stable_fix. eapply vals_stable_get; eassumption.
  - cbn [option_map]. rewrite aget_none; [reflexivity|]. apply Hq. exact Q.
Qed.

(** optional outline entries *)
Definition compact (ol : list (string * option json)) : list (string * json) :=
  flat_map (fun e => match snd e with Some j => [(fst e, j)] | None => [] end) ol.

Lemma compact_keys : forall ol k, In k (map fst (compact ol)) -> In k (map fst ol).
Proof.
  induction ol as [|[k0 o] r IH]; intros k H; [destruct H|].
  unfold compact in H. cbn [flat_map fst snd] in H. rewrite map_app, in_app_iff in H.
  cbn [map fst]. destruct H as [H|H].
  - destruct o; cbn in H; [destruct H as [<-|[]]; left; reflexivity|destruct H].
  - right. apply IH. exact H.
Qed.

Lemma compact_nodup : forall ol, NoDup (map fst ol) -> NoDup (map fst (compact ol)).
Proof.
  induction ol as [|[k0 o] r IH]; intros H; [constructor|].
  cbn [map fst] in H. inversion H; subst.
  unfold compact. cbn [flat_map fst snd]. fold (compact r). destruct o; cbn [app map fst].
  - constructor; [|apply IH; assumption]. intros I. apply compact_keys in I. contradiction.
  - apply IH; assumption.
Qed.

Lemma aget_compact : forall k ol, NoDup (map fst ol) ->
  aget k (compact ol) = match aget k ol with Some o => o | None => None end.
Proof.
  intros k. induction ol as [|[k0 o] r IH]; intros H; [reflexivity|].
  cbn [map fst] in H. inversion H; subst.
  destruct o as [j|].
  - change (compact ((k0, Some j) :: r)) with ((k0, j) :: compact r). cbn [aget].
    destruct (String.eqb_spec k k0) as [E|N]; [reflexivity|apply IH; assumption].
  - change (compact ((k0, None) :: r)) with (compact r). cbn [aget].
    destruct (String.eqb_spec k k0) as [E|N]; [|apply IH; assumption].
    subst k0. apply aget_none. intros I. apply compact_keys in I. contradiction.
Qed.

Lemma reobj_get : forall ol rem k,
  NoDup (map fst ol) -> NoDup (map fst rem) ->
  aget k (gmap (members (inline_friendly (compact ol) rem))) =
    match aget k ol with
    | Some (Some j) => Some (gv_of_json j)
    | _ => option_map (fun v => gv_of_json (gv_json v)) (aget k rem)
    end.
Proof.
  intros ol rem k No Nr. rewrite reobj_lookup by (try apply compact_nodup; assumption).
  rewrite aget_compact by assumption. destruct (aget k ol) as [[j|]|]; reflexivity.
Qed.

(** struct descriptors: which keys a named field answers to *)
Fixpoint first_key (ks : list string) (m : list (string * gv)) : option gv :=
  match ks with
  | [] => None
  | k :: r => match aget k m with Some v => Some v | None => first_key r m end
  end.

Fixpoint named_keys (name : string) (fields : list field_row) : option (list string) :=
  match fields with
  | [] => None
  | r :: rest =>
      match classify r with
      | FKeyed => if String.eqb (row_name r) name
                  then Some (primary_key r :: filter nonempty (split_comma (row_aliases r)))
                  else named_keys name rest
      | _ => named_keys name rest
      end
  end.

Lemma first_alias_first_key : forall al m, option_map snd (first_alias al m) = first_key (filter nonempty al) m.
Proof.
  induction al as [|a r IH]; intros m; [reflexivity|].
  cbn [first_alias filter]. unfold nonempty at 1. destruct (String.eqb a ""); cbn [negb]; [apply IH|].
  cbn [first_key]. destruct (aget a m); [reflexivity|apply IH].
Qed.

Lemma field_lookup_first_key : forall r m,
  option_map snd (field_lookup r m) = first_key (primary_key r :: filter nonempty (split_comma (row_aliases r))) m.
Proof.
  intros r m. unfold field_lookup. cbn [first_key].
  destruct (aget (primary_key r) m); [reflexivity|]. apply first_alias_first_key.
Qed.

Lemma named_lookup_none : forall name fields m,
  ~ In name (map row_name (keyed fields)) -> named_lookup name fields m = None.
Proof.
  intros name fields m. induction fields as [|r rest IH]; intros H; [reflexivity|].
  cbn [named_lookup]. destruct (classify r) eqn:C.
  - apply IH. rewrite keyed_cons_other in H by congruence. exact H.
  - apply IH. rewrite keyed_cons_other in H by congruence. exact H.
  - rewrite (keyed_cons_keyed _ _ C) in H. cbn [map In] in H.
    destruct (String.eqb_spec (row_name r) name) as [E|N]; [exfalso; apply H; left; exact E|].
    destruct (field_lookup r m) as [[k v]|]; apply IH; intros I; apply H; right; exact I.
Qed.

Lemma field_keys_spec : forall name fields ks m,
  NoDup (map row_name (keyed fields)) -> named_keys name fields = Some ks ->
  field name (partition_keys fields m) = first_key ks m.
Proof.
  intros name fields ks m. rewrite field_named.
  induction fields as [|r rest IH]; intros N H; [discriminate H|].
  cbn [named_keys named_lookup] in *. destruct (classify r) eqn:C.
  - apply IH; [rewrite keyed_cons_other in N by congruence; exact N|exact H].
  - apply IH; [rewrite keyed_cons_other in N by congruence; exact N|exact H].
  - rewrite (keyed_cons_keyed _ _ C) in N. cbn [map] in N. inversion N as [|? ? Hn Hr]; subst.
    destruct (String.eqb_spec (row_name r) name) as [E|Ne].
    + inversion H; subst ks. rewrite <- field_lookup_first_key.
      destruct (field_lookup r m) as [[k v]|]; [reflexivity|].
      cbn [option_map]. apply named_lookup_none. rewrite <- E. exact Hn.
    + destruct (field_lookup r m) as [[k v]|]; apply IH; assumption.
Qed.

Ltac fk := apply field_keys_spec; [apply nodupb_sound; vm_compute; reflexivity|vm_compute; reflexivity].

(** consumed keys: primary keys, or aliases when the primary key is absent *)
Definition ktab (fields : list field_row) : list (string * list string) :=
  map (fun r => (primary_key r, filter nonempty (split_comma (row_aliases r)))) (keyed fields).

Lemma consumed_ktab : forall fields m k,
  In k (DecodeProofs.consumed (partition_keys fields m)) ->
  exists pk al, In (pk, al) (ktab fields) /\ (k = pk \/ (aget pk m = None /\ In k al)).
Proof.
  intros fields m k H. unfold DecodeProofs.consumed in H. apply in_map_iff in H.
  destruct H as ([[r k'] v] & E & Hin). cbn [fst snd] in E. subst k'.
  apply match_rule in Hin. destruct Hin as (Hi & Hc & Hg & Hr).
  exists (primary_key r), (filter nonempty (split_comma (row_aliases r))). split.
  - unfold ktab. apply in_map_iff. exists r. split; [reflexivity|]. apply keyed_In. split; assumption.
  - destruct Hr as [->|[Hn Hf]]; [left; reflexivity|right]. split; [exact Hn|].
    eapply MarshalProofs.first_alias_in. exact Hf.
Qed.

Lemma consumed_not_in_rem : forall fields m (rem : list (string * gv)),
  (forall pk al, In (pk, al) (ktab fields) ->
     ~ In pk (map fst rem) /\ (forall a, In a al -> aget pk m = None -> ~ In a (map fst rem))) ->
  forall k, negb (existsb (String.eqb k) (DecodeProofs.consumed (partition_keys fields m))) = false ->
            ~ In k (map fst rem).
Proof.
  intros fields m rem H k Hk. apply negb_false_iff in Hk. apply existsb_eqb_In in Hk.
  apply consumed_ktab in Hk. destruct Hk as (pk & al & Hin & Hc).
  destruct (H pk al Hin) as [H1 H2]. destruct Hc as [->|[Hn Ha]]; [exact H1|]. apply H2; assumption.
Qed.

Lemma aget_leftover : forall fields m k,
  aget k (leftover (partition_keys fields m)) =
  if negb (existsb (String.eqb k) (DecodeProofs.consumed (partition_keys fields m))) then aget k m else None.
Proof.
  intros. rewrite leftover_spec.
  apply (aget_filter (fun k => negb (existsb (String.eqb k) (DecodeProofs.consumed (partition_keys fields m))))).
Qed.

(* inline maps: distinct keys, none of the schema's primary keys, stable values *)
Definition rem_ok (schema : list string) (rem : list (string * gv)) : Prop :=
  NoDup (map fst rem) /\ (forall k, In k schema -> ~ In k (map fst rem)) /\ vals_stable rem.

Lemma rem_ok_none : forall schema rem k, rem_ok schema rem -> In k schema -> aget k rem = None.
Proof. intros schema rem k (_ & H & _) I. apply aget_none. apply H. exact I. Qed.

Lemma opt_field_some : forall {T} name p (d : T) f v, field name p = Some v -> opt_field name p d f = f v.
Proof. intros. unfold opt_field. rewrite H. reflexivity. Qed.
Lemma opt_field_none : forall {T} name p (d : T) f, field name p = None -> opt_field name p d f = ret d.
Proof. intros. unfold opt_field. rewrite H. reflexivity. Qed.

(** ------------------------------------------------------------------ *)
(** * 4. Signature *)

Theorem sig_roundtrip : forall s, unm_sig (gv_of_json (mj_sig s)) = Ok (Some s) 0.
Proof.
  intros [a f v]. unfold mj_sig. cbn [sg_alg sg_fields sg_value].
  rewrite gv_of_json_obj. cbn [gmap map fst snd]. cbn [unm_sig]. cbv zeta.
  set (F := gv_of_json match f with Some l => jstrs l | None => JNull end).
  set (m := [("algorithm", gv_of_json (JStr a)); ("signed_fields", F); ("value", gv_of_json (JStr v))]).
  assert (E1 : field "Algorithm" (partition_keys struct_Signature m) = Some (GStr a)).
  { rewrite (field_keys_spec "Algorithm" struct_Signature ["algorithm"]) by
      (first [apply nodupb_sound; vm_compute; reflexivity|vm_compute; reflexivity]). reflexivity. }
  assert (E2 : field "SignedFields" (partition_keys struct_Signature m) = Some F).
  { rewrite (field_keys_spec "SignedFields" struct_Signature ["signed_fields"]) by
      (first [apply nodupb_sound; vm_compute; reflexivity|vm_compute; reflexivity]). reflexivity. }
  assert (E3 : field "Value" (partition_keys struct_Signature m) = Some (GStr v)).
  { rewrite (field_keys_spec "Value" struct_Signature ["value"]) by
      (first [apply nodupb_sound; vm_compute; reflexivity|vm_compute; reflexivity]). reflexivity. }
  rewrite (opt_field_some _ _ _ _ _ E1), (opt_field_some _ _ _ _ _ E2), (opt_field_some _ _ _ _ _ E3).
  change (unm_string (GStr a)) with (Ok a 0). change (unm_string (GStr v)) with (Ok v 0).
  rewrite bind_ret_l.
  assert (EF : unm_strings F = Ok f 0).
  { unfold F. destruct f as [l|]; [apply unm_strings_jstrs|reflexivity]. }
  rewrite EF, bind_ret_l, bind_ret_l. reflexivity.
Qed.

(** ------------------------------------------------------------------ *)
(** * 5. The descriptors: which keys each field answers to *)

Lemma f_cache_disabled : forall m, field "Disabled" (partition_keys struct_Cache m) = first_key ["disabled"] m.
Proof. intros; fk. Qed.
Lemma f_cache_name : forall m, field "Name" (partition_keys struct_Cache m) = first_key ["name"] m.
Proof. intros; fk. Qed.
Lemma f_cache_paths : forall m, field "Paths" (partition_keys struct_Cache m) = first_key ["paths"] m.
Proof. intros; fk. Qed.
Lemma f_cache_size : forall m, field "Size" (partition_keys struct_Cache m) = first_key ["size"] m.
Proof. intros; fk. Qed.
Lemma f_adj_with : forall m, field "With" (partition_keys struct_MatrixAdjustment m) = first_key ["with"] m.
Proof. intros; fk. Qed.
Lemma f_adj_skip : forall m, field "Skip" (partition_keys struct_MatrixAdjustment m) = first_key ["skip"] m.
Proof. intros; fk. Qed.
Lemma f_mx_setup : forall m, field "Setup" (partition_keys struct_Matrix m) = first_key ["setup"] m.
Proof. intros; fk. Qed.
Lemma f_mx_adj : forall m, field "Adjustments" (partition_keys struct_Matrix m) = first_key ["adjustments"] m.
Proof. intros; fk. Qed.
Lemma f_outer_commands : forall m,
  field "Commands" (partition_keys struct_CommandStep_UnmarshalOrdered_anon0 m) = first_key ["commands"; "command"] m.
Proof. intros; fk. Qed.
Lemma f_cmd_key : forall m, field "Key" (partition_keys struct_CommandStep m) = first_key ["key"; "id"; "identifier"] m.
Proof. intros; fk. Qed.
Lemma f_cmd_label : forall m, field "Label" (partition_keys struct_CommandStep m) = first_key ["label"; "name"] m.
Proof. intros; fk. Qed.
Lemma f_cmd_command : forall m, field "Command" (partition_keys struct_CommandStep m) = first_key ["command"] m.
Proof. intros; fk. Qed.
Lemma f_cmd_plugins : forall m, field "Plugins" (partition_keys struct_CommandStep m) = first_key ["plugins"] m.
Proof. intros; fk. Qed.
Lemma f_cmd_env : forall m, field "Env" (partition_keys struct_CommandStep m) = first_key ["env"] m.
Proof. intros; fk. Qed.
Lemma f_cmd_sig : forall m, field "Signature" (partition_keys struct_CommandStep m) = first_key ["signature"] m.
Proof. intros; fk. Qed.
Lemma f_cmd_matrix : forall m, field "Matrix" (partition_keys struct_CommandStep m) = first_key ["matrix"] m.
Proof. intros; fk. Qed.
Lemma f_cmd_cache : forall m, field "Cache" (partition_keys struct_CommandStep m) = first_key ["cache"] m.
Proof. intros; fk. Qed.
Lemma f_grp_key : forall m, field "Key" (partition_keys struct_GroupStep m) = first_key ["key"; "id"; "identifier"] m.
Proof. intros; fk. Qed.
Lemma f_grp_group : forall m, field "Group" (partition_keys struct_GroupStep m) = first_key ["group"; "label"; "name"] m.
Proof. intros; fk. Qed.
Lemma f_grp_steps : forall m, field "Steps" (partition_keys struct_GroupStep m) = first_key ["steps"] m.
Proof. intros; fk. Qed.
Lemma f_pp_steps : forall m, field "Steps" (partition_keys struct_Pipeline m) = first_key ["steps"] m.
Proof. intros; fk. Qed.
Lemma f_pp_env : forall m, field "Env" (partition_keys struct_Pipeline m) = first_key ["env"] m.
Proof. intros; fk. Qed.

Lemma kt_cache : ktab struct_Cache = [("disabled", []); ("name", []); ("paths", []); ("size", [])].
Proof. vm_compute. reflexivity. Qed.
Lemma kt_adj : ktab struct_MatrixAdjustment = [("with", []); ("skip", [])].
Proof. vm_compute. reflexivity. Qed.
Lemma kt_matrix : ktab struct_Matrix = [("setup", []); ("adjustments", [])].
Proof. vm_compute. reflexivity. Qed.
Lemma kt_outer : ktab struct_CommandStep_UnmarshalOrdered_anon0 = [("commands", ["command"])].
Proof. vm_compute. reflexivity. Qed.
Lemma kt_cmd : ktab struct_CommandStep =
  [("key", ["id"; "identifier"]); ("label", ["name"]); ("command", []); ("plugins", []); ("env", []);
   ("signature", []); ("matrix", []); ("cache", [])].
Proof. vm_compute. reflexivity. Qed.
Lemma kt_group : ktab struct_GroupStep = [("key", ["id"; "identifier"]); ("group", ["label"; "name"]); ("steps", [])].
Proof. vm_compute. reflexivity. Qed.
Lemma kt_pipeline : ktab struct_Pipeline = [("steps", []); ("env", [])].
Proof. vm_compute. reflexivity. Qed.

(* X : In (pk, al) [literal table]: one goal per row *)
Ltac ktab_cases X :=
  cbn [In] in X;
  repeat (destruct X as [X|X]; [inversion X; subst; clear X|]); [..|destruct X].

(** decoding optional string / string-list members *)
Lemma opt_str_field : forall name p s,
  field name p = option_map gv_of_json (if String.eqb s "" then None else Some (JStr s)) ->
  opt_field name p "" unm_string = Ok s 0.
Proof.
  intros name p s H. destruct (String.eqb_spec s "") as [E|N]; cbn [option_map] in H.
  - rewrite (opt_field_none _ _ _ _ H). subst. reflexivity.
  - rewrite (opt_field_some _ _ _ _ _ H). reflexivity.
Qed.

Lemma opt_strs_field : forall name p l,
  field name p = option_map gv_of_json (match l with [] => None | _ => Some (jstrs l) end) ->
  exists o, opt_field name p None unm_strings = Ok o 0 /\ strings_or_nil o = l.
Proof.
  intros name p l H. destruct l as [|x r]; cbn [option_map] in H.
  - rewrite (opt_field_none _ _ _ _ H). exists None. split; reflexivity.
  - rewrite (opt_field_some _ _ _ _ _ H). exists (Some (x :: r)). split; [apply unm_strings_jstrs|reflexivity].
Qed.

(** ------------------------------------------------------------------ *)
(** * 6. Cache *)

Definition cache_primary : list string := ["disabled"; "name"; "paths"; "size"].

(* a cache that is disabled, or whose extra fields are distinct, stable, and not named like a schema field *)
Definition cache_fix_ok (c : cache) : Prop := ca_disabled c = true \/ rem_ok cache_primary (ca_rem c).

Definition cache_ol (c : cache) : list (string * option json) :=
  [("name", if String.eqb (ca_name c) "" then None else Some (JStr (ca_name c)));
   ("paths", match ca_paths c with [] => None | _ => Some (jstrs (ca_paths c)) end);
   ("size", if String.eqb (ca_size c) "" then None else Some (JStr (ca_size c)))].

Lemma mj_cache_eq : forall c, ca_disabled c = false ->
  mj_cache c = inline_friendly (compact (cache_ol c)) (ca_rem c).
Proof.
  intros c D. unfold mj_cache, cache_ol. rewrite D.
  destruct (String.eqb (ca_name c) ""), (ca_paths c), (String.eqb (ca_size c) ""); reflexivity.
Qed.

Lemma cache_reobj : forall o1 o2 o3 rem, rem_ok cache_primary rem ->
  let ol := [("name", o1); ("paths", o2); ("size", o3)] in
  let p := partition_keys struct_Cache (gmap (members (inline_friendly (compact ol) rem))) in
  field "Disabled" p = None /\ field "Name" p = option_map gv_of_json o1 /\
  field "Paths" p = option_map gv_of_json o2 /\ field "Size" p = option_map gv_of_json o3 /\
  inline_friendly (compact ol) (leftover p) = inline_friendly (compact ol) rem.
Proof.
  intros o1 o2 o3 rem R ol p.
  assert (Nol : NoDup (map fst ol)) by (apply nodupb_sound; reflexivity).
  pose proof R as (Nr & Av & Vs).
  assert (G : forall k, In k cache_primary ->
            aget k (gmap (members (inline_friendly (compact ol) rem))) =
            match aget k ol with Some (Some j) => Some (gv_of_json j) | _ => None end).
  { intros k I. rewrite reobj_get by assumption. rewrite (rem_ok_none _ _ _ R I).
    destruct (aget k ol) as [[|]|]; reflexivity. }
  unfold p. rewrite f_cache_disabled, f_cache_name, f_cache_paths, f_cache_size. cbn [first_key].
  rewrite !G by (unfold cache_primary; in_lit).
  split; [reflexivity|]. split; [destruct o1; reflexivity|]. split; [destruct o2; reflexivity|].
  split; [destruct o3; reflexivity|].
  rewrite leftover_spec.
  apply (reobj_fix (compact ol) rem
           (fun k => negb (existsb (String.eqb k) (DecodeProofs.consumed (partition_keys struct_Cache
              (gmap (members (inline_friendly (compact ol) rem)))))))); try assumption.
  - apply compact_nodup. exact Nol.
  - apply consumed_not_in_rem. intros pk al Hin. rewrite kt_cache in Hin.
    ktab_cases Hin; (split; [apply Av; unfold cache_primary; in_lit|intros a []]).
Qed.

Theorem cache_roundtrip : forall c, cache_fix_ok c ->
  exists c', unm_cache (gv_of_json (mj_cache c)) = Ok (Some c') 0 /\ mj_cache c' = mj_cache c.
Proof.
  intros c H. destruct (ca_disabled c) eqn:D.
  - exists (mkCache true "" [] "" []). unfold mj_cache. rewrite D. split; reflexivity.
  - destruct H as [H|R]; [congruence|].
    rewrite (mj_cache_eq c D). rewrite inline_friendly_members, gv_of_json_obj.
    cbn [unm_cache]. cbv zeta.
    pose proof (cache_reobj (if String.eqb (ca_name c) "" then None else Some (JStr (ca_name c)))
                  (match ca_paths c with [] => None | _ => Some (jstrs (ca_paths c)) end)
                  (if String.eqb (ca_size c) "" then None else Some (JStr (ca_size c))) _ R) as X.
    cbv zeta in X. fold (cache_ol c) in X. destruct X as (F1 & F2 & F3 & F4 & FL).
    set (p := partition_keys struct_Cache (gmap (members (inline_friendly (compact (cache_ol c)) (ca_rem c))))) in *.
    rewrite (opt_field_none _ _ _ _ F1). unfold ret. rewrite bind_ret_l.
    rewrite (opt_str_field _ _ _ F2), bind_ret_l.
    destruct (opt_strs_field _ _ _ F3) as (o & Eo & So). rewrite Eo, bind_ret_l.
    rewrite (opt_str_field _ _ _ F4), bind_ret_l. rewrite So.
    eexists. split; [reflexivity|].
    rewrite mj_cache_eq by reflexivity. exact FL.
Qed.

(** generic: structs without aliases *)
Lemma reobj_schema_get : forall ol rem schema k,
  NoDup (map fst ol) -> rem_ok schema rem -> In k schema ->
  aget k (gmap (members (inline_friendly (compact ol) rem))) =
  match aget k ol with Some (Some j) => Some (gv_of_json j) | _ => None end.
Proof.
  intros ol rem schema k Nol R I. pose proof R as (Nr & _ & _).
  rewrite reobj_get by assumption. rewrite (rem_ok_none _ _ _ R I).
  destruct (aget k ol) as [[|]|]; reflexivity.
Qed.

Lemma noalias_fix : forall fields ol rem schema,
  (forall pk al, In (pk, al) (ktab fields) -> In pk schema /\ al = []) ->
  NoDup (map fst ol) -> rem_ok schema rem ->
  inline_friendly (compact ol)
    (leftover (partition_keys fields (gmap (members (inline_friendly (compact ol) rem)))))
  = inline_friendly (compact ol) rem.
Proof.
  intros fields ol rem schema HK Nol (Nr & Av & Vs). rewrite leftover_spec.
  apply (reobj_fix (compact ol) rem
           (fun k => negb (existsb (String.eqb k) (DecodeProofs.consumed (partition_keys fields
              (gmap (members (inline_friendly (compact ol) rem)))))))); try assumption.
  - apply compact_nodup. exact Nol.
  - apply consumed_not_in_rem. intros pk al Hin. destruct (HK pk al Hin) as [Hs ->].
    split; [apply Av; exact Hs|intros a []].
Qed.

Lemma mapM_map_ok0 : forall {A T U} (h : A -> T) (f : T -> res U) (g : A -> U) l,
  (forall a, In a l -> f (h a) = Ok (g a) 0) -> mapM f (map h l) = Ok (map g l) 0.
Proof.
  intros A T U h f g l. induction l as [|x r IH]; intros H; [reflexivity|].
  cbn [mapM map]. rewrite (H x) by (left; reflexivity). rewrite bind_ret_l.
  rewrite IH by (intros y Hy; apply H; right; exact Hy). rewrite bind_ret_l. reflexivity.
Qed.

Lemma mapM_roundtrip : forall {A} (f : gv -> res A) (mj : A -> json) (P : A -> Prop),
  (forall a, P a -> exists a', f (gv_of_json (mj a)) = Ok a' 0 /\ mj a' = mj a) ->
  forall l, Forall P l -> exists l', mapM f (map gv_of_json (map mj l)) = Ok l' 0 /\ map mj l' = map mj l.
Proof.
  intros A f mj P H l F. induction F as [|x r Hx Hr IH].
  - exists []. split; reflexivity.
  - destruct (H x Hx) as (x' & E1 & E2). destruct IH as (r' & E3 & E4).
    exists (x' :: r'). cbn [map mapM]. rewrite E1, bind_ret_l, E3, bind_ret_l. split; [reflexivity|].
    rewrite E2, E4. reflexivity.
Qed.

(** ------------------------------------------------------------------ *)
(** * 7. Matrix *)

Lemma mj_map_ss_sort : forall l, mj_map_ss (sort_keys l) = mj_map_ss l.
Proof.
  intros l. unfold mj_map_ss. f_equal.
  rewrite (sort_keys_map (fun v => JStr v) (sort_keys l)), sort_keys_idem, <- (sort_keys_map (fun v => JStr v) l).
  reflexivity.
Qed.

Lemma sort_keys_length : forall {T} (l : list (string * T)), length (sort_keys l) = length l.
Proof. intros. apply Permutation_length. apply sort_keys_perm. Qed.

Lemma sort_keys_single : forall {T} (x : string * T), sort_keys [x] = [x].
Proof. intros T [k v]. reflexivity. Qed.

Lemma mj_with_sort : forall l, mj_with (Some (sort_keys l)) = mj_with (Some l).
Proof.
  intros l. destruct l as [|x [|y r]]; [reflexivity|rewrite sort_keys_single; reflexivity|].
  pose proof (sort_keys_length (x :: y :: r)) as Len.
  pose proof (mj_map_ss_sort (x :: y :: r)) as E.
  destruct (sort_keys (x :: y :: r)) as [|a [|b t]]; try discriminate Len.
  destruct x, y, a, b. cbn [mj_with]. exact E.
Qed.

Lemma unm_with_map_ss : forall l, unm_with (gv_of_json (mj_map_ss l)) = Ok (sort_keys l) 0.
Proof.
  intros l. unfold mj_map_ss. rewrite gv_of_json_obj. cbn [unm_with].
  rewrite (sort_keys_map (fun v => JStr v) l). unfold gmap. rewrite map_map. cbn [fst snd gv_of_json].
  rewrite (mapM_map_ok0 _ _ (fun kv => kv)); [rewrite map_id; reflexivity|].
  intros [k v] _. reflexivity.
Qed.

Lemma with_roundtrip : forall l,
  exists l', unm_with (gv_of_json (mj_with (Some l))) = Ok l' 0 /\ mj_with (Some l') = mj_with (Some l).
Proof.
  intros l.
  assert (G : exists l', unm_with (gv_of_json (mj_map_ss l)) = Ok l' 0 /\ mj_with (Some l') = mj_with (Some l)).
  { exists (sort_keys l). split; [apply unm_with_map_ss|apply mj_with_sort]. }
  destruct l as [|[k v] [|y r]]; try exact G.
  destruct (String.eqb k "") eqn:E.
  - apply String.eqb_eq in E. subst k. exists [("", v)]. split; reflexivity.
  - assert (X : mj_with (Some [(k, v)]) = mj_map_ss [(k, v)]) by (cbn [mj_with]; rewrite E; reflexivity).
    rewrite X. rewrite X in G. exact G.
Qed.

Definition skip_ok (g : gv) : Prop := val_stable g /\ match g with GTime j => j <> "" | _ => True end.

Lemma is_empty_reread : forall g, skip_ok g -> is_empty_any g = false ->
  is_empty_any (gv_of_json (gv_json g)) = false.
Proof.
  intros g [S T] H. destruct g; cbn [gv_json]; try exact H.
  - rewrite gv_of_json_int. exact H.
  - unfold val_stable in S. cbn [gv_json json_stable] in S.
    destruct (num_stable_cases _ S) as [(z & E & Z)|E]; rewrite E; cbn [is_empty_any] in *.
    + destruct (Z.eqb_spec z 0) as [Ez|]; [|reflexivity]. subst z.
      change (z_to_string 0) with "0" in Z. subst jtok. discriminate H.
    + exact H.
  - cbn [gv_of_json is_empty_any]. destruct (String.eqb_spec jtok ""); [contradiction|reflexivity].
  - cbn [is_empty_any] in *. destruct l; [discriminate H|reflexivity].
Qed.

Definition adj_schema : list string := ["with"; "skip"].
Definition matrix_schema : list string := ["setup"; "adjustments"].

(* an adjustment re-reads to itself when it has a `with`, its `skip` is stable, and its extra fields are fine *)
Definition adj_fix_ok (a : option madj) : Prop :=
  match a with
  | None => True
  | Some a => ma_with a <> None /\ skip_ok (ma_skip a) /\ rem_ok adj_schema (ma_rem a)
  end.
Definition setup_fix_ok (su : option (list (string * option (list string)))) : Prop :=
  match su with None => True | Some l => Forall (fun kv => snd kv <> None) l end.
Definition matrix_fix_ok (m : matrix) : Prop :=
  setup_fix_ok (mx_setup m) /\ Forall adj_fix_ok (mx_adj m) /\ rem_ok matrix_schema (mx_rem m).

Definition adj_ol (w : option (list (string * string))) (sk : gv) : list (string * option json) :=
  [("with", Some (mj_with w)); ("skip", if is_empty_any sk then None else Some (gv_json sk))].

Lemma mj_adj_eq : forall a, mj_adj (Some a) = inline_friendly (compact (adj_ol (ma_with a) (ma_skip a))) (ma_rem a).
Proof. intros a. unfold mj_adj, adj_ol. destruct (is_empty_any (ma_skip a)); reflexivity. Qed.

Lemma adj_reobj : forall o1 o2 rem, rem_ok adj_schema rem ->
  let ol := [("with", o1); ("skip", o2)] in
  let p := partition_keys struct_MatrixAdjustment (gmap (members (inline_friendly (compact ol) rem))) in
  field "With" p = option_map gv_of_json o1 /\ field "Skip" p = option_map gv_of_json o2 /\
  inline_friendly (compact ol) (leftover p) = inline_friendly (compact ol) rem.
Proof.
  intros o1 o2 rem R ol p.
  assert (Nol : NoDup (map fst ol)) by (apply nodupb_sound; reflexivity).
  unfold p. rewrite f_adj_with, f_adj_skip. cbn [first_key].
  rewrite !(reobj_schema_get ol rem adj_schema) by (first [assumption|unfold adj_schema; in_lit]).
  split; [destruct o1; reflexivity|]. split; [destruct o2; reflexivity|].
  apply (noalias_fix _ ol rem adj_schema); try assumption.
  intros pk al Hin. rewrite kt_adj in Hin. ktab_cases Hin; (split; [unfold adj_schema; in_lit|reflexivity]).
Qed.

Lemma adj_roundtrip : forall a, adj_fix_ok a ->
  exists a', unm_adj (gv_of_json (mj_adj a)) = Ok a' 0 /\ mj_adj a' = mj_adj a.
Proof.
  intros [a|] H; [|exists None; split; reflexivity].
  destruct H as (W & Sk & R). destruct (ma_with a) as [l|] eqn:EW; [clear W|congruence].
  rewrite mj_adj_eq, EW. rewrite inline_friendly_members, gv_of_json_obj. cbn [unm_adj]. cbv zeta.
  pose proof (adj_reobj (Some (mj_with (Some l)))
                (if is_empty_any (ma_skip a) then None else Some (gv_json (ma_skip a))) _ R) as X.
  cbv zeta in X. fold (adj_ol (Some l) (ma_skip a)) in X. destruct X as (F1 & F2 & FL).
  set (p := partition_keys struct_MatrixAdjustment
              (gmap (members (inline_friendly (compact (adj_ol (Some l) (ma_skip a))) (ma_rem a))))) in *.
  rewrite F1, F2. cbn [option_map].
  destruct (with_roundtrip l) as (l' & E1 & E2). rewrite E1, bind_ret_l. unfold ret at 1. rewrite bind_ret_l.
  eexists. split; [reflexivity|].
  rewrite mj_adj_eq. cbn [ma_with ma_skip ma_rem].
  assert (EO : adj_ol (Some l') (match option_map gv_of_json (if is_empty_any (ma_skip a) then None else Some (gv_json (ma_skip a))) with
                                 | Some v => v | None => GNull end) = adj_ol (Some l) (ma_skip a)).
  { unfold adj_ol. rewrite E2. destruct (is_empty_any (ma_skip a)) eqn:Em; cbn [option_map]; [reflexivity|].
    rewrite (is_empty_reread _ Sk Em). rewrite val_stable_fix by apply Sk. reflexivity. }
  rewrite EO. exact FL.
Qed.

Definition su_anon (su : option (list (string * option (list string)))) : option (list string) :=
  match su with Some l => setup_anon l | None => None end.

Lemma mx_simple_eq : forall m,
  mx_simple m = match mx_adj m, mx_rem m with [], [] => su_anon (mx_setup m) | _, _ => None end.
Proof. intros m. unfold mx_simple, su_anon. destruct (mx_setup m), (mx_adj m), (mx_rem m); reflexivity. Qed.

Lemma setup_anon_cons : forall l vs, setup_anon l = Some vs -> exists x r, vs = x :: r /\ l = [("", Some vs)].
Proof.
  intros l vs H. unfold setup_anon in H.
  destruct l as [|[k [[|x r]|]] [|y t]]; try discriminate H.
  destruct (String.eqb_spec k ""); [|discriminate H]. inversion H; subst. eauto.
Qed.

Lemma setup_sort : forall l,
  mj_setup (Some (sort_keys l)) = mj_setup (Some l) /\ setup_anon (sort_keys l) = setup_anon l.
Proof.
  intros l. destruct l as [|x [|y r]]; [split; reflexivity|rewrite sort_keys_single; split; reflexivity|].
  pose proof (sort_keys_length (x :: y :: r)) as Len.
  assert (E : sort_keys (map (fun kv => (fst kv, mj_strs_opt (snd kv))) (sort_keys (x :: y :: r)))
              = sort_keys (map (fun kv => (fst kv, mj_strs_opt (snd kv))) (x :: y :: r))).
  { rewrite (sort_keys_map mj_strs_opt (sort_keys (x :: y :: r))), sort_keys_idem,
      <- (sort_keys_map mj_strs_opt (x :: y :: r)). reflexivity. }
  destruct (sort_keys (x :: y :: r)) as [|a [|b t]]; try discriminate Len.
  split.
  - unfold mj_setup. destruct x as [? [[|]|]], y, a as [? [[|]|]], b; cbn [setup_anon]; rewrite E; reflexivity.
  - destruct x as [? [[|]|]], y, a as [? [[|]|]], b; reflexivity.
Qed.

Lemma setup_roundtrip : forall su, setup_fix_ok su ->
  exists su', unm_setup (gv_of_json (mj_setup su)) = Ok su' 0 /\ mj_setup su' = mj_setup su /\ su_anon su' = su_anon su.
Proof.
  intros [l|] H; [|exists None; repeat split; reflexivity].
  destruct l as [|x0 r0]; [exists None; repeat split; reflexivity|].
  set (l := x0 :: r0) in *.
  assert (ML : mj_setup (Some l) = match setup_anon l with
                                   | Some vs => jstrs vs
                                   | None => JObj (sort_keys (map (fun kv => (fst kv, mj_strs_opt (snd kv))) l))
                                   end) by reflexivity.
  rewrite ML. destruct (setup_anon l) as [vs|] eqn:SA.
  - destruct (setup_anon_cons _ _ SA) as (x & r & -> & El).
    exists (Some [("", Some (x :: r))]). unfold jstrs. rewrite gv_of_json_arr. cbn [unm_setup].
    rewrite mapM_strs, bind_ret_l. split; [reflexivity|]. rewrite El. repeat split; reflexivity.
  - exists (Some (sort_keys l)). split.
    + rewrite gv_of_json_obj. cbn [unm_setup].
      rewrite (sort_keys_map mj_strs_opt l). unfold gmap. rewrite map_map. cbn [fst snd].
      rewrite (mapM_map_ok0 _ _ (fun kv => kv)); [rewrite map_id; reflexivity|].
      intros [k v] Hin. cbn [fst snd].
      assert (In (k, v) l) as Hl.
      { eapply Permutation_in; [apply sort_keys_perm|exact Hin]. }
      cbn [setup_fix_ok] in H. rewrite Forall_forall in H. specialize (H _ Hl). cbn [snd] in H.
      destruct v as [vs|]; [|congruence]. cbn [mj_strs_opt]. rewrite unm_strings_jstrs, bind_ret_l. reflexivity.
    + destruct (setup_sort l) as [E1 E2]. split; [rewrite E1; exact ML|].
      cbn [su_anon]. exact E2.
Qed.
