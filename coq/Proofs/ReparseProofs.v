(** "The normal form is a fixpoint": re-parsing the JSON marshalling of a
    pipeline yields a pipeline that marshals to the same JSON
    (Model/Reparse.v over Model/Pipeline.v + Model/Marshal.v). *)
From Coq Require Import String List Ascii Bool Arith Lia ZArith Permutation Sorted.
From Coq Require Import DecimalString Decimal DecimalZ DecimalPos.
From GP Require Import Base.Sexp Model.Gv Model.Decode Model.Kinds Model.Plugin Model.Pipeline Model.Marshal Model.Reparse Gen.Structs
     Proofs.DecodeProofs Proofs.MarshalProofs Proofs.PipelineProofs Proofs.JcsProofs Proofs.PluginProofs.
Import ListNotations.
Local Open Scope string_scope.
Local Open Scope list_scope.

(** ------------------------------------------------------------------ *)
(** * 1. Numbers *)

Lemma all_digits_uint : forall d, all_digits (NilEmpty.string_of_uint d) = true.
Proof. induction d; cbn [NilEmpty.string_of_uint all_digits]; try reflexivity; rewrite IHd; reflexivity. Qed.

Lemma uint_string_nonempty : forall d, d <> Nil -> NilEmpty.string_of_uint d <> "".
Proof. intros d H. destruct d; cbn; try discriminate. congruence. Qed.

Lemma int_token_uint : forall d, d <> Nil -> int_token (NilEmpty.string_of_uint d) = true.
Proof.
  intros d H. pose proof (all_digits_uint d) as A.
  destruct d; try congruence; cbn [NilEmpty.string_of_uint] in *; unfold int_token; exact A.
Qed.

Lemma int_token_z : forall z, int_token (z_to_string z) = true.
Proof.
  intros z. unfold z_to_string. destruct z as [|p|p]; cbn [Z.to_int NilZero.string_of_int].
  - reflexivity.
  - pose proof (Unsigned.to_uint_nonnil p) as N. unfold NilZero.string_of_uint.
    destruct (Pos.to_uint p) eqn:E; try congruence; rewrite <- E; apply int_token_uint; exact N.
  - pose proof (Unsigned.to_uint_nonnil p) as N. unfold NilZero.string_of_uint.
    assert (X : int_token (String "-" (NilEmpty.string_of_uint (Pos.to_uint p))) = true).
    { cbn [int_token]. rewrite all_digits_uint, andb_true_r.
      destruct (String.eqb_spec (NilEmpty.string_of_uint (Pos.to_uint p)) ""); [|reflexivity].
      exfalso. eapply uint_string_nonempty; eassumption. }
    destruct (Pos.to_uint p) eqn:E; try congruence; exact X.
Qed.

(* the decimal printer and reader used for int tokens are inverse *)
Theorem string_to_z_to_string : forall z, string_to_z (z_to_string z) = Some z.
Proof.
  intros z. unfold string_to_z, z_to_string. rewrite NilZero.isi.
  - rewrite DecimalZ.of_to. reflexivity.
  - destruct z; cbn [Z.to_int]; try discriminate. intros E. inversion E.
    eapply Unsigned.to_uint_nonnil; eassumption.
  - destruct z; cbn [Z.to_int]; try discriminate. intros E. inversion E.
    eapply Unsigned.to_uint_nonnil; eassumption.
Qed.

Lemma gv_of_json_int : forall z, gv_of_json (JNum (z_to_string z)) = GInt z.
Proof. intros z. cbn [gv_of_json]. rewrite int_token_z, string_to_z_to_string. reflexivity. Qed.

(* numbers: re-reading a number token and marshalling it again gives the same token *)
Definition num_stable (t : string) : Prop := gv_json (gv_of_json (JNum t)) = JNum t.

Lemma num_stable_int : forall z, num_stable (z_to_string z).
Proof. intros z. unfold num_stable. rewrite gv_of_json_int. reflexivity. Qed.

Lemma num_stable_float : forall t, int_token t = false -> num_stable t.
Proof. intros t H. unfold num_stable. cbn [gv_of_json]. rewrite H. reflexivity. Qed.

(* what a stable token re-reads to *)
Lemma num_stable_cases : forall t, num_stable t ->
  (exists z, gv_of_json (JNum t) = GInt z /\ z_to_string z = t) \/ gv_of_json (JNum t) = GFloat t t.
Proof.
  intros t H. unfold num_stable in H. cbn [gv_of_json] in *.
  destruct (int_token t); [|right; reflexivity].
  destruct (string_to_z t) as [z|]; [|right; reflexivity].
  left. exists z. split; [reflexivity|]. cbn [gv_json] in H. congruence.
Qed.

(** ------------------------------------------------------------------ *)
(** * 2. Stable JSON values *)

(* a free-form value whose JSON re-reads to itself: all number tokens stable *)
Fixpoint json_stable (j : json) : Prop :=
  match j with
  | JNum t => num_stable t
  | JArr l => (fix go (l : list json) : Prop :=
                 match l with [] => True | x :: r => json_stable x /\ go r end) l
  | JObj l => (fix go (l : list (string * json)) : Prop :=
                 match l with [] => True | kv :: r => json_stable (snd kv) /\ go r end) l
  | _ => True
  end.

Lemma json_stable_arr : forall l, json_stable (JArr l) <-> Forall json_stable l.
Proof.
  induction l as [|x r IH].
  - split; intros; [constructor|exact I].
  - change (json_stable (JArr (x :: r))) with (json_stable x /\ json_stable (JArr r)).
    rewrite IH. split.
    + intros [A B]. constructor; assumption.
    + intros H. inversion H; subst. split; assumption.
Qed.

Lemma json_stable_obj : forall l, json_stable (JObj l) <-> Forall (fun kv => json_stable (snd kv)) l.
Proof.
  induction l as [|x r IH].
  - split; intros; [constructor|exact I].
  - change (json_stable (JObj (x :: r))) with (json_stable (snd x) /\ json_stable (JObj r)).
    rewrite IH. split.
    + intros [A B]. constructor; assumption.
    + intros H. inversion H; subst. split; assumption.
Qed.

Section json_induction.
  Variable P : json -> Prop.
  Hypothesis HNull : P JNull.
  Hypothesis HBool : forall b, P (JBool b).
  Hypothesis HNum : forall t, P (JNum t).
  Hypothesis HStr : forall s, P (JStr s).
  Hypothesis HArr : forall l, Forall P l -> P (JArr l).
  Hypothesis HObj : forall l, Forall (fun kv => P (snd kv)) l -> P (JObj l).
  Fixpoint json_ind' (j : json) : P j :=
    match j with
    | JNull => HNull
    | JBool b => HBool b
    | JNum t => HNum t
    | JStr s => HStr s
    | JArr l => HArr l ((fix go (l : list json) : Forall P l :=
                           match l with [] => Forall_nil _ | x :: r => Forall_cons x (json_ind' x) (go r) end) l)
    | JObj l => HObj l ((fix go (l : list (string * json)) : Forall (fun kv => P (snd kv)) l :=
                           match l with [] => Forall_nil _ | kv :: r => Forall_cons kv (json_ind' (snd kv)) (go r) end) l)
    end.
End json_induction.

Definition gmap (l : list (string * json)) : list (string * gv) :=
  map (fun kv => (fst kv, gv_of_json (snd kv))) l.
Definition jmap (l : list (string * gv)) : list (string * json) :=
  map (fun kv => (fst kv, gv_json (snd kv))) l.

Lemma gv_of_json_obj : forall l, gv_of_json (JObj l) = GMap (gmap l).
Proof. reflexivity. Qed.
Lemma gv_of_json_arr : forall l, gv_of_json (JArr l) = GSeq (map gv_of_json l).
Proof. reflexivity. Qed.
Lemma gv_json_map : forall l, gv_json (GMap l) = JObj (jmap l).
Proof. reflexivity. Qed.
Lemma gv_json_umap : forall l, gv_json (GUMap l) = JObj (sort_keys (jmap l)).
Proof. reflexivity. Qed.
Lemma gv_json_seq : forall l, gv_json (GSeq l) = JArr (map gv_json l).
Proof. reflexivity. Qed.

Theorem gv_json_of_json : forall j, json_stable j -> gv_json (gv_of_json j) = j.
Proof.
  induction j using json_ind'; intros S; try reflexivity.
  - exact S.
  - rewrite gv_of_json_arr, gv_json_seq. f_equal. apply json_stable_arr in S.
    induction H as [|x r Hx Hr IH]; [reflexivity|]. inversion S; subst.
    cbn [map]. rewrite Hx by assumption. rewrite IH by assumption. reflexivity.
  - rewrite gv_of_json_obj, gv_json_map. f_equal. apply json_stable_obj in S.
    induction H as [|[k v] r Hx Hr IH]; [reflexivity|]. inversion S; subst.
    cbn [gmap jmap map fst snd] in *. rewrite Hx by assumption. unfold gmap, jmap in IH. rewrite IH by assumption.
    reflexivity.
Qed.

Definition val_stable (g : gv) : Prop := json_stable (gv_json g).

Lemma val_stable_fix : forall g, val_stable g -> gv_json (gv_of_json (gv_json g)) = gv_json g.
Proof. intros g H. apply gv_json_of_json. exact H. Qed.

Print Assumptions gv_json_of_json.
