(** C07 — an INDEPENDENT DENOTATION of a yaml.v3 node graph (what the YAML merge
    specification prescribes) and the proof that the decoder of Model/YamlGraph.v
    computes it on every acyclic graph.

    [flat]/[sem] below know nothing of the decoder's bookkeeping: no [merged]
    short-cut, no [seen] set, no two-pass [keys] threading through the graph
    recursion.  A mapping's pair list is its own explicit pairs in order, each
    `<<` entry replaced where it stands by the pair lists of its sources (an
    alias to a mapping, a mapping, or a sequence of those, recursively), and one
    flat de-duplication [resolve]: a merged pair survives iff its key is not an
    explicit key of this mapping and has not occurred in an earlier merged pair.

    Results (all on the [acyclic] domain: no node reachable from the root lies
    on a cycle of the child relation values / items / alias targets / merge
    sources):
    - [merged_shortcut_harmless]: for a mapping node the top-level [range]
      (merged = []) yields exactly [flat]'s pair list and errs exactly when
      [flat] is undefined.  NO COUNTEREXAMPLE EXISTS on acyclic graphs; the
      corner cases (a source first reached inside a nested merge where some of
      its keys were shadowed; [merged] shared by sibling sub-mappings; the same
      alias / sequence node used twice) were searched by vm_compute on 50 000
      generated acyclic graphs (no difference) before the proof.  The invariant
      that makes it go through is [range_sound]: every already-merged node that
      is still reachable has all its keys among the keys already taken ([C]) in
      the enclosing mapping, so what the short-cut drops would be dropped by
      [skip_keys] anyway.  Below the top level the short-cut is visible
      ([shortcut_visible_below_top_level]) but only up to [eqC].
    - [decode_refines_sem]: decode_yaml = DOk v <-> sem_yaml = Some v and
      decode_yaml = DErr <-> sem_yaml = None, with no further side condition.
    - [flat_fuel_independent], [sem_fuel_independent], [flat_yaml_unfold],
      [sem_yaml_unfold]: the fuel S (length st) is enough and the denotation
      satisfies the fuel-free recursive equations.
    - [explicit_beats_merged], [earlier_source_beats_later],
      [merged_keys_stand_at_merge_position]: the merge rules in the property's
      words.  Outside the domain (merge cycles) the decoder still answers and
      the specification prescribes nothing ([merge_cycle_outside_domain]). *)
From Coq Require Import String List Bool Arith Lia Relations.
From GP Require Import Model.Gv Model.YamlGraph Proofs.YamlGraphProofs.
Import ListNotations.

(** * the child relation and the acyclic domain *)

Fixpoint mvalues (content : list nat) : list nat :=
  match content with
  | _ :: v :: rest => v :: mvalues rest
  | _ => []
  end.

Definition children (st : store) (n : nat) : list nat :=
  match node st n with
  | YSeq items => items
  | YMap content => mvalues content
  | YAlias t => [t]
  | YDoc [c] => [c]
  | _ => []
  end.
Definition child (st : store) (a b : nat) : Prop := In b (children st a).
Definition reach (st : store) : nat -> nat -> Prop := clos_refl_trans nat (child st).
Definition acyclic (st : store) (root : nat) : Prop :=
  forall n, reach st root n -> ~ clos_trans nat (child st) n n.

Definition pairs := list (string * nat).
Definition tagged := list (bool * (string * nat)).

Fixpoint raw (rec : nat -> option pairs) (st : store) (content : list nat) : option tagged :=
  match content with
  | [] => Some []
  | [_] => None
  | k :: v :: rest =>
      if is_merge_key st k then
        match rec v, raw rec st rest with
        | Some ps, Some tl => Some (map (pair true) ps ++ tl)
        | _, _ => None
        end
      else
        match ckey_of st k, raw rec st rest with
        | Some ck, Some tl => Some ((false, (ck, v)) :: tl)
        | _, _ => None
        end
  end.

Fixpoint flat_items (rec : nat -> option pairs) (items : list nat) : option pairs :=
  match items with
  | [] => Some []
  | e :: rest =>
      match rec e, flat_items rec rest with
      | Some a, Some b => Some (a ++ b)
      | _, _ => None
      end
  end.

Definition expl_keys (tl : tagged) : list string :=
  map (fun t => fst (snd t)) (filter (fun t => negb (fst t)) tl).

Fixpoint dedup (seen : list string) (tl : tagged) : pairs :=
  match tl with
  | [] => []
  | (false, p) :: r => p :: dedup seen r
  | (true, (k, v)) :: r =>
      if mems k seen then dedup seen r else (k, v) :: dedup (k :: seen) r
  end.
Definition resolve (tl : tagged) : pairs := dedup (expl_keys tl) tl.

Fixpoint flat (fuel : nat) (st : store) (n : nat) {struct fuel} : option pairs :=
  match fuel with
  | O => None
  | S f =>
      match node st n with
      | YMap content =>
          match raw (flat f st) st content with
          | Some tl => Some (resolve tl)
          | None => None
          end
      | YSeq items => flat_items (flat f st) items
      | YAlias t => flat f st t
      | _ => None
      end
  end.

Fixpoint sem_pairs (rec : nat -> option gv) (ps : pairs) : option (list (string * gv)) :=
  match ps with
  | [] => Some []
  | (k, vn) :: rest =>
      match rec vn, sem_pairs rec rest with
      | Some v, Some l => Some ((k, v) :: l)
      | _, _ => None
      end
  end.
Fixpoint sem_items (rec : nat -> option gv) (items : list nat) : option (list gv) :=
  match items with
  | [] => Some []
  | c :: rest =>
      match rec c, sem_items rec rest with
      | Some v, Some l => Some (v :: l)
      | _, _ => None
      end
  end.
Definition set_all (l : list (string * gv)) : list (string * gv) :=
  fold_left (fun m kv => oset (fst kv) (snd kv) m) l [].

Fixpoint sem (fuel : nat) (st : store) (n : nat) {struct fuel} : option gv :=
  match fuel with
  | O => None
  | S f =>
      match node st n with
      | YScalar _ _ dec => dec
      | YSeq items => option_map GSeq (sem_items (sem f st) items)
      | YMap _ =>
          match flat (S f) st n with
          | Some ps => option_map (fun l => GMap (set_all l)) (sem_pairs (sem f st) ps)
          | None => None
          end
      | YAlias t => sem f st t
      | YDoc content =>
          match content with
          | [] => Some GNull
          | [c] => sem f st c
          | _ => None
          end
      | YOther => None
      end
  end.

Definition flat_yaml (st : store) (n : nat) := flat (S (length st)) st n.
Definition sem_yaml (st : store) (root : nat) := sem (S (length st)) st root.

(** * algebra of [skip_keys]: its first component as a function [skf] *)

Definition keys (l : pairs) : list string := map fst l.
Definition allkeys (tl : tagged) : list string := map (fun t => fst (snd t)) tl.
Definition filC (C : list string) (l : pairs) : pairs :=
  filter (fun p => negb (mems (fst p) C)) l.

Fixpoint skf (K : list string) (l : pairs) : pairs :=
  match l with
  | [] => []
  | (k, v) :: r => if mems k K then skf K r else (k, v) :: skf (k :: K) r
  end.

Lemma skip_keys_skf : forall l K,
  skip_keys K l = (skf K l, rev (keys (skf K l)) ++ K).
Proof.
  induction l as [|[k v] r IH]; intros K; cbn [skip_keys skf]; [reflexivity|].
  destruct (mems k K); [apply IH|].
  rewrite IH. cbn [keys map fst rev]. rewrite <- app_assoc. reflexivity.
Qed.

Lemma mems_iff : forall k K1 K2, (In k K1 <-> In k K2) -> mems k K1 = mems k K2.
Proof.
  intros k K1 K2 H. destruct (mems k K1) eqn:H1, (mems k K2) eqn:H2; auto.
  - apply mems_In in H1. apply mems_nIn in H2. tauto.
  - apply mems_nIn in H1. apply mems_In in H2. tauto.
Qed.

Lemma mems_app : forall k A B, mems k (A ++ B) = mems k A || mems k B.
Proof. intros. unfold mems. apply existsb_app. Qed.

Lemma skf_agree : forall l K1 K2,
  (forall k, In k (keys l) -> (In k K1 <-> In k K2)) -> skf K1 l = skf K2 l.
Proof.
  induction l as [|[k v] r IH]; intros K1 K2 H; cbn [skf]; [reflexivity|].
  rewrite (mems_iff k K1 K2) by (apply H; left; reflexivity).
  destruct (mems k K2).
  - apply IH. intros k' Hk'. apply H. right; exact Hk'.
  - f_equal. apply IH. intros k' Hk'. cbn.
    assert (In k' K1 <-> In k' K2) by (apply H; right; exact Hk'). tauto.
Qed.

Lemma skf_filter : forall C l K, filC C (skf K l) = skf (C ++ K) l.
Proof.
  intros C. induction l as [|[k v] r IH]; intros K; cbn [skf]; [reflexivity|].
  rewrite mems_app. destruct (mems k K) eqn:HK.
  - rewrite orb_true_r. apply IH.
  - rewrite orb_false_r. unfold filC at 1. cbn [filter fst].
    destruct (mems k C) eqn:HC; cbn [negb].
    + fold (filC C (skf (k :: K) r)). rewrite IH. apply skf_agree.
      intros k' _. rewrite !in_app_iff. cbn. apply mems_In in HC.
      split; [intros [?|[?|?]]; subst; auto | intros [?|?]; auto].
    + fold (filC C (skf (k :: K) r)). rewrite IH. f_equal. apply skf_agree.
      intros k' _. cbn. rewrite !in_app_iff. cbn. tauto.
Qed.

Lemma skf_drop : forall D l K, incl D K -> skf K l = skf K (filC D l).
Proof.
  intros D. induction l as [|[k v] r IH]; intros K HD; [reflexivity|].
  unfold filC. cbn [filter fst]. fold (filC D r). cbn [skf].
  destruct (mems k K) eqn:HK.
  - destruct (mems k D); cbn [negb]; [apply IH; auto|].
    cbn [skf]. rewrite HK. apply IH; auto.
  - assert (HDk : mems k D = false).
    { apply mems_nIn. apply mems_nIn in HK. intros Hc. apply HK, HD, Hc. }
    rewrite HDk. cbn [negb skf]. rewrite HK. f_equal. apply IH.
    intros x Hx. right. apply HD, Hx.
Qed.

Lemma skf_all_in : forall l K, incl (keys l) K -> skf K l = [].
Proof.
  induction l as [|[k v] r IH]; intros K H; cbn [skf]; [reflexivity|].
  assert (Hk : mems k K = true) by (apply mems_In, H; left; reflexivity).
  rewrite Hk. apply IH. intros x Hx. apply H. right; exact Hx.
Qed.

Lemma skf_app : forall a b K,
  skf K (a ++ b) = skf K a ++ skf (rev (keys (skf K a)) ++ K) b.
Proof.
  induction a as [|[k v] r IH]; intros b K; [reflexivity|].
  cbn [app skf]. destruct (mems k K); [apply IH|].
  cbn [app keys map fst rev]. rewrite IH. rewrite <- app_assoc. reflexivity.
Qed.

Lemma skf_incl : forall l K p, In p (skf K l) -> In p l.
Proof.
  induction l as [|[k v] r IH]; intros K p H; cbn [skf] in H; [destruct H|].
  destruct (mems k K); [right; eapply IH; eauto|].
  destruct H as [H|H]; [left; auto | right; eapply IH; eauto].
Qed.

Lemma skf_keys : forall l K k, In k (keys l) -> In k K \/ In k (keys (skf K l)).
Proof.
  induction l as [|[k0 v] r IH]; intros K k H; [destruct H|].
  cbn [skf]. destruct (mems k0 K) eqn:HK.
  - destruct H as [H|H]; [cbn in H; subst; left; apply mems_In; auto | apply IH; auto].
  - destruct H as [H|H]; [cbn in H; subst; right; left; reflexivity|].
    destruct (IH (k0 :: K) k H) as [[Hi|Hi]|Hi]; [subst; right; left; reflexivity | left; auto | right; right; auto].
Qed.

Lemma filC_keys : forall C l k, ~ In k C -> (In k (keys (filC C l)) <-> In k (keys l)).
Proof.
  intros C l k Hn. unfold keys, filC. rewrite !in_map_iff. split.
  - intros [p [Hf Hp]]. apply filter_In in Hp. exists p; tauto.
  - intros [p [Hf Hp]]. exists p. split; auto. apply filter_In. split; auto.
    rewrite Hf. apply negb_true_iff, mems_nIn, Hn.
Qed.

Lemma filC_app : forall C a b, filC C (a ++ b) = filC C a ++ filC C b.
Proof. intros. apply filter_app. Qed.

Lemma filC_nil : forall l, filC [] l = l.
Proof. induction l as [|p r IH]; cbn; [reflexivity | f_equal; exact IH]. Qed.

(** [eqC C ps full]: equal as merge contributions wherever the keys of [C] are
    already taken *)
Definition eqC (C : list string) (ps full : pairs) : Prop :=
  forall K, incl C K -> skf K ps = skf K full.

Lemma filC_eqC : forall C ps full, filC C ps = filC C full -> eqC C ps full.
Proof.
  intros C ps full H K HK. rewrite (skf_drop C ps K HK), (skf_drop C full K HK), H. reflexivity.
Qed.

Lemma eqC_app : forall C a1 a2 b1 b2,
  eqC C a1 a2 -> eqC (C ++ keys a2) b1 b2 -> eqC C (a1 ++ b1) (a2 ++ b2).
Proof.
  intros C a1 a2 b1 b2 Ha Hb K HK. rewrite !skf_app, (Ha K HK). f_equal.
  apply Hb. intros k Hk. apply in_app_iff in Hk. apply in_app_iff.
  destruct Hk as [Hk|Hk]; [right; apply HK, Hk|].
  destruct (skf_keys a2 K k Hk) as [Hi|Hi]; [right; auto | left; apply in_rev in Hi; auto].
Qed.

Lemma eqC_covered : forall C full, incl (keys full) C -> eqC C [] full.
Proof.
  intros C full H K HK. cbn. symmetry. apply skf_all_in.
  intros k Hk. apply HK, H, Hk.
Qed.

(** * [dedup] on a tagged list *)

Lemma dedup_merged_app : forall ps seen tl,
  dedup seen (map (pair true) ps ++ tl) =
  skf seen ps ++ dedup (rev (keys (skf seen ps)) ++ seen) tl.
Proof.
  induction ps as [|[k v] r IH]; intros seen tl; [reflexivity|].
  cbn [map app dedup skf]. destruct (mems k seen); [apply IH|].
  cbn [app keys map fst rev]. rewrite IH. rewrite <- app_assoc. reflexivity.
Qed.

Lemma dedup_expl : forall tl seen p, In (false, p) tl -> In p (dedup seen tl).
Proof.
  induction tl as [|[[|] [k v]] r IH]; intros seen p H; [destruct H| |].
  - destruct H as [H|H]; [discriminate|]. cbn [dedup].
    destruct (mems k seen); [apply IH; auto | right; apply IH; auto].
  - cbn [dedup]. destruct H as [H|H]; [inversion H; left; reflexivity | right; apply IH; auto].
Qed.

Lemma dedup_keys_all : forall tl seen k,
  In k (allkeys tl) -> In k seen \/ In k (keys (dedup seen tl)).
Proof.
  induction tl as [|[[|] [k0 v]] r IH]; intros seen k H; [destruct H| |].
  - cbn [dedup]. destruct (mems k0 seen) eqn:HK.
    + destruct H as [H|H]; [cbn in H; subst; left; apply mems_In; auto | apply IH; auto].
    + destruct H as [H|H]; [cbn in H; subst; right; left; reflexivity|].
      destruct (IH (k0 :: seen) k H) as [[Hi|Hi]|Hi];
        [subst; right; left; reflexivity | left; auto | right; right; auto].
  - cbn [dedup]. destruct H as [H|H]; [cbn in H; subst; right; left; reflexivity|].
    destruct (IH seen k H) as [Hi|Hi]; [left; auto | right; right; auto].
Qed.

Lemma dedup_incl : forall tl seen p, In p (dedup seen tl) -> exists b, In (b, p) tl.
Proof.
  induction tl as [|[[|] [k v]] r IH]; intros seen p H; cbn [dedup] in H; [destruct H| |].
  - destruct (mems k seen).
    + destruct (IH _ _ H) as [b Hb]. exists b; right; auto.
    + destruct H as [H|H]; [subst; exists true; left; reflexivity|].
      destruct (IH _ _ H) as [b Hb]. exists b; right; auto.
  - destruct H as [H|H]; [subst; exists false; left; reflexivity|].
    destruct (IH _ _ H) as [b Hb]. exists b; right; auto.
Qed.

Lemma expl_keys_in : forall tl k, In k (expl_keys tl) -> exists v, In (false, (k, v)) tl.
Proof.
  intros tl k H. unfold expl_keys in H. apply in_map_iff in H.
  destruct H as [[b [k' v]] [Hf Hi]]. apply filter_In in Hi. cbn in Hf, Hi. subst.
  destruct Hi as [Hi Hb]. destruct b; [discriminate|]. exists v; exact Hi.
Qed.

Lemma resolve_keys : forall tl k, In k (allkeys tl) -> In k (keys (resolve tl)).
Proof.
  intros tl k H. unfold resolve.
  destruct (dedup_keys_all tl (expl_keys tl) k H) as [Hi|Hi]; [|exact Hi].
  destruct (expl_keys_in _ _ Hi) as [v Hv].
  apply (dedup_expl tl (expl_keys tl)) in Hv. unfold keys. apply in_map_iff.
  exists (k, v); split; auto.
Qed.

(** * reachability helpers *)

Lemma ct_rt : forall st a b c,
  clos_trans nat (child st) a b -> reach st b c -> clos_trans nat (child st) a c.
Proof.
  intros st a b c Hab Hbc. induction Hbc as [x y H| x | x y z _ IH1 _ IH2].
  - eapply t_trans; [exact Hab | apply t_step; exact H].
  - exact Hab.
  - auto.
Qed.

Lemma ct_reach : forall st a b, clos_trans nat (child st) a b -> reach st a b.
Proof.
  intros st a b H. induction H as [x y H | x y z _ IH1 _ IH2].
  - apply rt_step; exact H.
  - eapply rt_trans; eauto.
Qed.

Lemma acyclic_reach : forall st a b, acyclic st a -> reach st a b -> acyclic st b.
Proof. intros st a b Ha Hab n Hn. apply Ha. eapply rt_trans; eauto. Qed.

Lemma acyclic_no_back : forall st a b,
  acyclic st a -> clos_trans nat (child st) a b -> ~ reach st b a.
Proof.
  intros st a b Ha Hab Hba. apply (Ha a); [apply rt_refl|]. eapply ct_rt; eauto.
Qed.

Lemma child_map : forall st n content v,
  node st n = YMap content -> In v (mvalues content) -> child st n v.
Proof. intros st n content v Hn Hv. unfold child, children. rewrite Hn. exact Hv. Qed.

(** * fuel monotonicity of [flat] and [sem] *)

Lemma raw_mono : forall (r1 r2 : nat -> option pairs) st content tl,
  (forall v x, r1 v = Some x -> r2 v = Some x) ->
  raw r1 st content = Some tl -> raw r2 st content = Some tl.
Proof.
  intros r1 r2 st content tl H. revert tl.
  induction content as [|a|k v rest IH] using list_pair_ind; intros tl Hr; cbn [raw] in *; auto.
  destruct (is_merge_key st k).
  - destruct (r1 v) as [ps|] eqn:H1; [|discriminate].
    destruct (raw r1 st rest) as [tl1|]; [|discriminate].
    rewrite (H _ _ H1), (IH _ eq_refl). exact Hr.
  - destruct (ckey_of st k); [|discriminate].
    destruct (raw r1 st rest) as [tl1|]; [|discriminate].
    rewrite (IH _ eq_refl). exact Hr.
Qed.

Lemma flat_items_mono : forall (r1 r2 : nat -> option pairs) items x,
  (forall v x, r1 v = Some x -> r2 v = Some x) ->
  flat_items r1 items = Some x -> flat_items r2 items = Some x.
Proof.
  intros r1 r2 items x H. revert x.
  induction items as [|e rest IH]; intros x Hr; cbn [flat_items] in *; auto.
  destruct (r1 e) as [a|] eqn:H1; [|discriminate].
  destruct (flat_items r1 rest) as [b|]; [|discriminate].
  rewrite (H _ _ H1), (IH _ eq_refl). exact Hr.
Qed.

Lemma flat_S : forall g st n x, flat g st n = Some x -> flat (S g) st n = Some x.
Proof.
  induction g as [|g IH]; intros st n x H; [discriminate|].
  cbn [flat] in H. change (flat (S (S g)) st n) with
    (match node st n with
     | YMap content => match raw (flat (S g) st) st content with
                       | Some tl => Some (resolve tl) | None => None end
     | YSeq items => flat_items (flat (S g) st) items
     | YAlias t => flat (S g) st t
     | _ => None end).
  destruct (node st n) as [im ck dec|items|content|t|content|]; try discriminate.
  - eapply flat_items_mono; [|exact H]. intros; apply IH; auto.
  - destruct (raw (flat g st) st content) as [tl|] eqn:Hr; [|discriminate].
    erewrite raw_mono; [exact H| |exact Hr]. intros; apply IH; auto.
  - apply IH; auto.
Qed.

Lemma flat_le : forall g g' st n x, g <= g' -> flat g st n = Some x -> flat g' st n = Some x.
Proof. intros g g' st n x Hle H. induction Hle; auto using flat_S. Qed.

Lemma flat_det : forall g1 g2 st n a b,
  flat g1 st n = Some a -> flat g2 st n = Some b -> a = b.
Proof.
  intros g1 g2 st n a b H1 H2.
  apply (flat_le _ (Nat.max g1 g2)) in H1; [|lia].
  apply (flat_le _ (Nat.max g1 g2)) in H2; [|lia]. congruence.
Qed.

Lemma sem_pairs_mono : forall (r1 r2 : nat -> option gv) ps l,
  (forall v x, r1 v = Some x -> r2 v = Some x) ->
  sem_pairs r1 ps = Some l -> sem_pairs r2 ps = Some l.
Proof.
  intros r1 r2 ps l H. revert l.
  induction ps as [|[k vn] rest IH]; intros l Hr; cbn [sem_pairs] in *; auto.
  destruct (r1 vn) as [a|] eqn:H1; [|discriminate].
  destruct (sem_pairs r1 rest) as [b|]; [|discriminate].
  rewrite (H _ _ H1), (IH _ eq_refl). exact Hr.
Qed.

Lemma sem_items_mono : forall (r1 r2 : nat -> option gv) items l,
  (forall v x, r1 v = Some x -> r2 v = Some x) ->
  sem_items r1 items = Some l -> sem_items r2 items = Some l.
Proof.
  intros r1 r2 items l H. revert l.
  induction items as [|c rest IH]; intros l Hr; cbn [sem_items] in *; auto.
  destruct (r1 c) as [a|] eqn:H1; [|discriminate].
  destruct (sem_items r1 rest) as [b|]; [|discriminate].
  rewrite (H _ _ H1), (IH _ eq_refl). exact Hr.
Qed.

Lemma sem_unfold : forall f st n,
  sem (S f) st n =
  match node st n with
  | YScalar _ _ dec => dec
  | YSeq items => option_map GSeq (sem_items (sem f st) items)
  | YMap _ =>
      match flat (S f) st n with
      | Some ps => option_map (fun l => GMap (set_all l)) (sem_pairs (sem f st) ps)
      | None => None
      end
  | YAlias t => sem f st t
  | YDoc content =>
      match content with
      | [] => Some GNull
      | [c] => sem f st c
      | _ => None
      end
  | YOther => None
  end.
Proof. reflexivity. Qed.

Lemma flat_unfold : forall f st n,
  flat (S f) st n =
  match node st n with
  | YMap content => match raw (flat f st) st content with
                    | Some tl => Some (resolve tl) | None => None end
  | YSeq items => flat_items (flat f st) items
  | YAlias t => flat f st t
  | _ => None
  end.
Proof. reflexivity. Qed.

Lemma sem_S : forall g st n x, sem g st n = Some x -> sem (S g) st n = Some x.
Proof.
  induction g as [|g IH]; intros st n x H; [discriminate|].
  rewrite sem_unfold in H. rewrite sem_unfold.
  destruct (node st n) as [im ck dec|items|content|t|content|]; auto.
  - destruct (sem_items (sem g st) items) as [l|] eqn:Hl; [|discriminate].
    erewrite sem_items_mono; [exact H| |exact Hl]. intros; apply IH; auto.
  - destruct (flat (S g) st n) as [ps|] eqn:Hf; [|discriminate].
    rewrite (flat_S _ _ _ _ Hf).
    destruct (sem_pairs (sem g st) ps) as [l|] eqn:Hl; [|discriminate].
    erewrite sem_pairs_mono; [exact H| |exact Hl]. intros; apply IH; auto.
  - destruct content as [|c [|]]; auto.
Qed.

Lemma sem_le : forall g g' st n x, g <= g' -> sem g st n = Some x -> sem g' st n = Some x.
Proof. intros g g' st n x Hle H. induction Hle; auto using sem_S. Qed.

Lemma sem_det : forall g1 g2 st n a b,
  sem g1 st n = Some a -> sem g2 st n = Some b -> a = b.
Proof.
  intros g1 g2 st n a b H1 H2.
  apply (sem_le _ (Nat.max g1 g2)) in H1; [|lia].
  apply (sem_le _ (Nat.max g1 g2)) in H2; [|lia]. congruence.
Qed.

(** * [raw] against pass 1 of the decoder *)

Lemma raw_expl : forall rec st content tl,
  raw rec st content = Some tl -> explicit_keys st content = Some (expl_keys tl).
Proof.
  intros rec st content. induction content as [|a|k v rest IH] using list_pair_ind;
    intros tl H; cbn [raw explicit_keys] in *.
  - inversion H; reflexivity.
  - discriminate.
  - destruct (is_merge_key st k).
    + destruct (rec v) as [ps|]; [|discriminate].
      destruct (raw rec st rest) as [tl1|]; [|discriminate]. inversion H; subst.
      rewrite (IH _ eq_refl). f_equal. unfold expl_keys. rewrite filter_app, map_app.
      replace (filter (fun t => negb (fst t)) (map (pair true) ps)) with (@nil (bool * (string * nat))).
      * reflexivity.
      * clear. induction ps; cbn; auto.
    + destruct (ckey_of st k); [|discriminate].
      destruct (raw rec st rest) as [tl1|]; [|discriminate]. inversion H; subst.
      rewrite (IH _ eq_refl). reflexivity.
Qed.

Lemma raw_none_expl : forall rec st content,
  explicit_keys st content = None -> raw rec st content = None.
Proof.
  intros rec st content H. destruct (raw rec st content) as [tl|] eqn:Hr; [|reflexivity].
  apply raw_expl in Hr. congruence.
Qed.

(** every pair of a flat list comes with a value node below [n] *)
Lemma raw_in : forall rec st content tl b k v,
  raw rec st content = Some tl -> In (b, (k, v)) tl ->
  (b = false /\ In v (mvalues content)) \/
  (b = true /\ exists s ps, In s (mvalues content) /\ rec s = Some ps /\ In (k, v) ps).
Proof.
  intros rec st content. induction content as [|a|k0 v0 rest IH] using list_pair_ind;
    intros tl b k v H Hi; cbn [raw] in H.
  - inversion H; subst. destruct Hi.
  - discriminate.
  - cbn [mvalues]. destruct (is_merge_key st k0).
    + destruct (rec v0) as [ps|] eqn:Hv; [|discriminate].
      destruct (raw rec st rest) as [tl1|]; [|discriminate]. inversion H; subst.
      apply in_app_iff in Hi. destruct Hi as [Hi|Hi].
      * apply in_map_iff in Hi. destruct Hi as [p [Hp Hi]]. inversion Hp; subst.
        right. split; auto. exists v0, ps. split; [left; auto | auto].
      * destruct (IH _ _ _ _ eq_refl Hi) as [[? ?]|[? (src & ps' & ? & ? & ?)]].
        -- left; split; auto. right; auto.
        -- right; split; auto. exists src, ps'. split; [right; auto | auto].
    + destruct (ckey_of st k0); [|discriminate].
      destruct (raw rec st rest) as [tl1|]; [|discriminate]. inversion H; subst.
      destruct Hi as [Hi|Hi].
      * inversion Hi; subst. left; split; auto. left; auto.
      * destruct (IH _ _ _ _ eq_refl Hi) as [[? ?]|[? (src & ps' & ? & ? & ?)]].
        -- left; split; auto. right; auto.
        -- right; split; auto. exists src, ps'. split; [right; auto | auto].
Qed.

Lemma flat_items_in : forall rec items x p,
  flat_items rec items = Some x -> In p x ->
  exists e ps, In e items /\ rec e = Some ps /\ In p ps.
Proof.
  intros rec items. induction items as [|e rest IH]; intros x p H Hi; cbn [flat_items] in H.
  - inversion H; subst. destruct Hi.
  - destruct (rec e) as [a|] eqn:He; [|discriminate].
    destruct (flat_items rec rest) as [b|]; [|discriminate]. inversion H; subst.
    apply in_app_iff in Hi. destruct Hi as [Hi|Hi].
    + exists e, a. split; [left; auto | auto].
    + destruct (IH _ _ eq_refl Hi) as (e' & ps & ? & ? & ?). exists e', ps. split; [right; auto | auto].
Qed.

Lemma flat_values_below : forall g st n ps k v,
  flat g st n = Some ps -> In (k, v) ps -> clos_trans nat (child st) n v.
Proof.
  induction g as [|g IH]; intros st n ps k v H Hi; [discriminate|].
  rewrite flat_unfold in H.
  destruct (node st n) as [im ck dec|items|content|t|content|] eqn:Hn; try discriminate.
  - destruct (flat_items_in _ _ _ _ H Hi) as (e & ps' & He & Hf & Hp).
    eapply t_trans; [apply t_step; unfold child, children; rewrite Hn; exact He|].
    eapply IH; eauto.
  - destruct (raw (flat g st) st content) as [tl|] eqn:Hr; [|discriminate].
    inversion H; subst. unfold resolve in Hi. apply dedup_incl in Hi. destruct Hi as [b Hb].
    destruct (raw_in _ _ _ _ _ _ _ Hr Hb) as [[_ Hv]|[_ (s & ps' & Hs & Hf & Hp)]].
    + apply t_step. eapply child_map; eauto.
    + eapply t_trans; [apply t_step; eapply child_map; eauto|]. eapply IH; eauto.
  - eapply t_trans; [apply t_step; unfold child, children; rewrite Hn; left; reflexivity|].
    eapply IH; eauto.
Qed.

(** * THE MERGED SHORT-CUT: [range] against [flat] for an arbitrary [merged] list

    [covered]: every already-merged node still reachable from [n] has a defined
    pair list whose keys all lie in [C] — the keys that are already taken in the
    mapping into which [n] is being merged.  Under that invariant the pairs
    [range] yields and the pairs [flat] prescribes are equal as merge
    contributions ([eqC]), for a mapping node even equal after removing the keys
    of [C]; with [merged = []] and [C = []] they are equal outright. *)

Definition covered (st : store) (merged : list nat) (n : nat) (C : list string) : Prop :=
  forall m, In m merged -> reach st n m ->
    exists g fm, flat g st m = Some fm /\ incl (keys fm) C.

Definition newok (st : store) (merged merged' : list nat) (n : nat) (K : list string) : Prop :=
  forall m, In m merged' -> In m merged \/
    (reach st n m /\ exists g fm, flat g st m = Some fm /\ incl (keys fm) K).

Definition range_sound (st : store) (f : nat) : Prop :=
  forall merged n C, acyclic st n -> cnt st merged < f -> covered st merged n C ->
  match range f st merged n with
  | ROk ps merged' =>
      exists g full, flat g st n = Some full /\ eqC C ps full /\
        ((exists c, node st n = YMap c) -> ~ In n merged -> filC C ps = filC C full) /\
        newok st merged merged' n (keys full)
  | RErr => forall g, flat g st n = None
  | RFuel => False
  end.

Lemma rpairs_sound : forall st f n C, range_sound st f -> acyclic st n ->
  forall rest keys_r merged acc seen_s ks,
  (forall v, In v (mvalues rest) -> child st n v) ->
  explicit_keys st rest = Some ks ->
  cnt st merged < f ->
  (forall v, In v (mvalues rest) -> covered st merged v (C ++ seen_s)) ->
  (forall k, ~ In k C -> (In k keys_r <-> In k seen_s)) ->
  match rpairs f st rest keys_r merged acc with
  | ROk ps merged' =>
      exists g tl out, raw (flat g st) st rest = Some tl /\ ps = acc ++ out /\
        filC C out = filC C (dedup seen_s tl) /\
        newok st merged merged' n (seen_s ++ allkeys tl)
  | RErr => forall g, raw (flat g st) st rest = None
  | RFuel => False
  end.
Proof.
  intros st f n C IHf Hac rest.
  induction rest as [|a|k v rest IH] using list_pair_ind;
    intros keys_r merged acc seen_s ks Hch Hek Hcnt Hcov Hag.
  - rewrite rpairs_nil. exists 0, [], []. cbn. rewrite app_nil_r.
    repeat split; auto. intros m Hm; left; exact Hm.
  - cbn in Hek. discriminate.
  - rewrite rpairs_cons2. cbn [explicit_keys] in Hek.
    assert (Hchv : child st n v) by (apply Hch; left; reflexivity).
    assert (Hch' : forall v0, In v0 (mvalues rest) -> child st n v0)
      by (intros v0 H0; apply Hch; right; exact H0).
    destruct (is_merge_key st k) eqn:Hmk.
    + assert (Hacv : acyclic st v) by (eapply acyclic_reach; [exact Hac | apply rt_step; exact Hchv]).
      pose proof (IHf merged v (C ++ seen_s) Hacv Hcnt (Hcov v (or_introl eq_refl))) as Hv.
      destruct (range f st merged v) as [ps_v merged_v| |] eqn:Hr.
      * destruct Hv as (g1 & full_v & Hf1 & HeqC & _ & Hnew).
        rewrite skip_keys_skf.
        set (out := skf keys_r ps_v). set (out_s := skf seen_s full_v).
        assert (Hkey : filC C out = filC C out_s).
        { unfold out, out_s. rewrite !skf_filter.
          transitivity (skf (C ++ seen_s) ps_v).
          - apply skf_agree. intros k' _. rewrite !in_app_iff.
            destruct (in_dec string_dec k' C) as [Hi|Hi]; [tauto|].
            specialize (Hag k' Hi). tauto.
          - apply HeqC, incl_refl. }
        assert (Hcnt' : cnt st merged_v < f).
        { pose proof (cnt_incl st _ _ (range_incl _ _ _ _ _ _ Hr)). lia. }
        assert (Hfull_keys : forall k', In k' (keys full_v) -> In k' (rev (keys out_s) ++ seen_s)).
        { intros k' Hk'. apply in_app_iff. destruct (skf_keys full_v seen_s k' Hk') as [Hi|Hi];
            [right; auto | left; apply in_rev in Hi; exact Hi]. }
        pose proof (IH (rev (keys out) ++ keys_r) merged_v (acc ++ out)
                       (rev (keys out_s) ++ seen_s) ks Hch' Hek Hcnt') as Hrest.
        assert (Hcov' : forall v0, In v0 (mvalues rest) ->
                   covered st merged_v v0 (C ++ rev (keys out_s) ++ seen_s)).
        { intros v0 H0 m Hm Hreach. destruct (Hnew m Hm) as [Ho|[_ (g & fm & Hf & Hk)]].
          - destruct (Hcov v0 (or_intror H0) m Ho Hreach) as (g & fm & Hf & Hk).
            exists g, fm. split; auto. intros x Hx. apply Hk in Hx.
            rewrite !in_app_iff in *. tauto.
          - exists g, fm. split; auto. intros x Hx. apply in_app_iff. right.
            apply Hfull_keys, Hk, Hx. }
        assert (Hag' : forall k0, ~ In k0 C ->
                   (In k0 (rev (keys out) ++ keys_r) <-> In k0 (rev (keys out_s) ++ seen_s))).
        { intros k0 Hk0. rewrite !in_app_iff, <- !in_rev.
          rewrite <- (filC_keys C out k0 Hk0), <- (filC_keys C out_s k0 Hk0), Hkey.
          specialize (Hag k0 Hk0). tauto. }
        specialize (Hrest Hcov' Hag').
        cbv beta iota.
        destruct (rpairs f st rest (rev (keys out) ++ keys_r) merged_v (acc ++ out))
          as [ps merged'| |] eqn:Hrp.
        -- destruct Hrest as (g2 & tl2 & out2 & Hraw & Hps & Hfil & Hnew2).
           exists (Nat.max g1 g2), (map (pair true) full_v ++ tl2), (out ++ out2).
           split.
           { cbn [raw]. rewrite Hmk.
             rewrite (flat_le g1 (Nat.max g1 g2) st v full_v) by (try lia; auto).
             erewrite raw_mono; [reflexivity| |exact Hraw].
             intros v0 x Hx. eapply flat_le; [|exact Hx]. lia. }
           split; [rewrite Hps, app_assoc; reflexivity|].
           split.
           { rewrite dedup_merged_app, !filC_app. fold out_s. rewrite Hkey, Hfil. reflexivity. }
           intros m Hm. destruct (Hnew2 m Hm) as [Ho|[Hre (g & fm & Hf & Hk)]].
           ++ destruct (Hnew m Ho) as [Hoo|[Hre (g & fm & Hf & Hk)]]; [left; exact Hoo|].
              right. split; [eapply rt_trans; [apply rt_step; exact Hchv | exact Hre]|].
              exists g, fm. split; auto. intros x Hx. apply in_app_iff. right.
              unfold allkeys. rewrite map_app, in_app_iff. left.
              rewrite map_map. cbn. apply Hk, Hx.
           ++ right. split; auto. exists g, fm. split; auto. intros x Hx.
              apply Hk in Hx. unfold allkeys in *. rewrite map_app.
              rewrite !in_app_iff in *. rewrite <- in_rev in Hx.
              destruct Hx as [[Hx|Hx]|Hx]; auto.
              right. left. rewrite map_map. cbn.
              unfold keys, out_s in Hx. apply in_map_iff in Hx. destruct Hx as [p [Hp Hx]].
              apply skf_incl in Hx. subst x. apply in_map. exact Hx.
        -- intros g. cbn [raw]. rewrite Hmk. rewrite (Hrest g).
           destruct (flat g st v); reflexivity.
        -- exact Hrest.
      * intros g. cbn [raw]. rewrite Hmk, (Hv g). reflexivity.
      * exact Hv.
    + destruct (ckey_of st k) as [ck|] eqn:Hck.
      * destruct (explicit_keys st rest) as [ks0|] eqn:Hek0; [|discriminate].
        assert (Hcov' : forall v0, In v0 (mvalues rest) -> covered st merged v0 (C ++ seen_s))
          by (intros v0 H0; apply Hcov; right; exact H0).
        pose proof (IH keys_r merged (acc ++ [(ck, v)]) seen_s ks0 Hch' eq_refl Hcnt Hcov' Hag) as Hrest.
        destruct (rpairs f st rest keys_r merged (acc ++ [(ck, v)])) as [ps merged'| |] eqn:Hrp.
        -- destruct Hrest as (g2 & tl2 & out2 & Hraw & Hps & Hfil & Hnew2).
           exists g2, ((false, (ck, v)) :: tl2), ((ck, v) :: out2).
           split; [cbn [raw]; rewrite Hmk, Hck, Hraw; reflexivity|].
           split; [rewrite Hps, <- app_assoc; reflexivity|].
           split.
           { cbn [dedup]. unfold filC in *. cbn [filter]. rewrite Hfil. reflexivity. }
           intros m Hm. destruct (Hnew2 m Hm) as [Ho|[Hre (g & fm & Hf & Hk)]]; [left; auto|].
           right. split; auto. exists g, fm. split; auto. intros x Hx. apply Hk in Hx.
           rewrite !in_app_iff in *. cbn. tauto.
        -- intros g. cbn [raw]. rewrite Hmk, Hck, (Hrest g). reflexivity.
        -- exact Hrest.
      * intros g. cbn [raw]. rewrite Hmk, Hck. reflexivity.
Qed.

Lemma rseq_sound : forall st f n C, range_sound st f -> acyclic st n ->
  forall items merged acc acc_s,
  (forall e, In e items -> child st n e) ->
  cnt st merged < f ->
  (forall e, In e items -> covered st merged e (C ++ keys acc_s)) ->
  eqC C acc acc_s ->
  match rseq f st items merged acc with
  | ROk ps merged' =>
      exists g fl, flat_items (flat g st) items = Some fl /\ eqC C ps (acc_s ++ fl) /\
        newok st merged merged' n (keys (acc_s ++ fl))
  | RErr => forall g, flat_items (flat g st) items = None
  | RFuel => False
  end.
Proof.
  intros st f n C IHf Hac items.
  induction items as [|e rest IH]; intros merged acc acc_s Hch Hcnt Hcov Heq.
  - cbn. exists 0, []. rewrite app_nil_r. repeat split; auto. intros m Hm; left; exact Hm.
  - rewrite rseq_cons.
    assert (Hche : child st n e) by (apply Hch; left; reflexivity).
    assert (Hace : acyclic st e) by (eapply acyclic_reach; [exact Hac | apply rt_step; exact Hche]).
    pose proof (IHf merged e (C ++ keys acc_s) Hace Hcnt (Hcov e (or_introl eq_refl))) as He.
    destruct (range f st merged e) as [ps_e merged_e| |] eqn:Hr.
    + destruct He as (g1 & full_e & Hf1 & HeqC & _ & Hnew).
      assert (Hcnt' : cnt st merged_e < f).
      { pose proof (cnt_incl st _ _ (range_incl _ _ _ _ _ _ Hr)). lia. }
      assert (Hcov' : forall e0, In e0 rest -> covered st merged_e e0 (C ++ keys (acc_s ++ full_e))).
      { intros e0 H0 m Hm Hreach. destruct (Hnew m Hm) as [Ho|[_ (g & fm & Hf & Hk)]].
        - destruct (Hcov e0 (or_intror H0) m Ho Hreach) as (g & fm & Hf & Hk).
          exists g, fm. split; auto. intros x Hx. apply Hk in Hx.
          unfold keys in *. rewrite map_app. rewrite !in_app_iff in *. tauto.
        - exists g, fm. split; auto. intros x Hx. apply Hk in Hx.
          unfold keys in *. rewrite map_app. rewrite !in_app_iff. tauto. }
      pose proof (IH merged_e (acc ++ ps_e) (acc_s ++ full_e)
                     (fun e0 H0 => Hch e0 (or_intror H0)) Hcnt' Hcov'
                     (eqC_app _ _ _ _ _ Heq HeqC)) as Hrest.
      destruct (rseq f st rest merged_e (acc ++ ps_e)) as [ps merged'| |] eqn:Hrs.
      * destruct Hrest as (g2 & fl2 & Hfl & Heq2 & Hnew2).
        exists (Nat.max g1 g2), (full_e ++ fl2).
        split.
        { cbn [flat_items].
          rewrite (flat_le g1 (Nat.max g1 g2) st e full_e) by (try lia; auto).
          erewrite flat_items_mono; [reflexivity| |exact Hfl].
          intros v0 x Hx. eapply flat_le; [|exact Hx]. lia. }
        rewrite app_assoc. split; [exact Heq2|].
        intros m Hm. destruct (Hnew2 m Hm) as [Ho|Hn2]; [|right; exact Hn2].
        destruct (Hnew m Ho) as [Hoo|[Hre (g & fm & Hf & Hk)]]; [left; exact Hoo|].
        right. split; [eapply rt_trans; [apply rt_step; exact Hche | exact Hre]|].
        exists g, fm. split; auto. intros x Hx. apply Hk in Hx.
        unfold keys in *. rewrite !map_app. rewrite !in_app_iff. tauto.
      * intros g. cbn [flat_items]. rewrite (Hrest g). destruct (flat g st e); reflexivity.
      * exact Hrest.
    + intros g. cbn [flat_items]. rewrite (He g). reflexivity.
    + exact He.
Qed.

Lemma range_sound_all : forall st f, range_sound st f.
Proof.
  intros st. induction f as [|f IHf]; intros merged n C Hac Hcnt Hcov; [lia|].
  rewrite range_S. destruct (memn n merged) eqn:Hm.
  - apply memn_In in Hm. destruct (Hcov n Hm (rt_refl _ _ _)) as (g & fm & Hf & Hk).
    exists g, fm. split; [exact Hf|]. split; [apply eqC_covered; exact Hk|].
    split; [intros _ Hn; contradiction|]. intros m Hi; left; exact Hi.
  - apply memn_nIn in Hm.
    assert (Hnb : forall v, child st n v -> ~ reach st v n).
    { intros v Hv. apply acyclic_no_back; [exact Hac | apply t_step; exact Hv]. }
    assert (Hcovc : forall v C', child st n v -> incl C C' -> covered st (n :: merged) v C').
    { intros v C' Hv Hi m [Hmn|Hmm] Hreach.
      - subst m. exfalso. eapply Hnb; eauto.
      - destruct (Hcov m Hmm) as (g & fm & Hf & Hk).
        + eapply rt_trans; [apply rt_step; exact Hv | exact Hreach].
        + exists g, fm. split; auto. eapply incl_tran; eauto. }
    destruct (node st n) as [im ck dec|items|content|t|content|] eqn:Hn;
      try (intros [|g]; [reflexivity | rewrite flat_unfold, Hn; reflexivity]).
    + (* sequence *)
      assert (Hv : n < length st) by (apply node_valid; rewrite Hn; discriminate).
      assert (Hcnt' : cnt st (n :: merged) < f).
      { pose proof (cnt_add st merged n Hv (proj2 (memn_nIn _ _) Hm)). lia. }
      assert (Hch : forall e, In e items -> child st n e).
      { intros e He. unfold child, children. rewrite Hn. exact He. }
      pose proof (rseq_sound st f n C IHf Hac items (n :: merged) [] [] Hch Hcnt') as Hs.
      cbn [keys map app] in Hs. rewrite app_nil_r in Hs.
      specialize (Hs (fun e He => Hcovc e C (Hch e He) (incl_refl _)) (fun K _ => eq_refl)).
      destruct (rseq f st items (n :: merged) []) as [ps merged'| |].
      * destruct Hs as (g & fl & Hfl & Heq & Hnew). exists (S g), fl.
        split; [rewrite flat_unfold, Hn; exact Hfl|]. split; [exact Heq|].
        split; [intros [c Hc]; discriminate|].
        intros m Hi. destruct (Hnew m Hi) as [[Ho|Ho]|Hn2]; [|left; exact Ho|right; exact Hn2].
        subst m. right. split; [apply rt_refl|]. exists (S g), fl.
        split; [rewrite flat_unfold, Hn; exact Hfl | apply incl_refl].
      * intros [|g]; [reflexivity|]. rewrite flat_unfold, Hn. apply Hs.
      * exact Hs.
    + (* mapping *)
      assert (Hv : n < length st) by (apply node_valid; rewrite Hn; discriminate).
      assert (Hcnt' : cnt st (n :: merged) < f).
      { pose proof (cnt_add st merged n Hv (proj2 (memn_nIn _ _) Hm)). lia. }
      destruct (explicit_keys st content) as [keys0|] eqn:Hek.
      * assert (Hch : forall v, In v (mvalues content) -> child st n v).
        { intros v Hvv. eapply child_map; eauto. }
        pose proof (rpairs_sound st f n C IHf Hac content keys0 (n :: merged) [] keys0 keys0
                      Hch Hek Hcnt'
                      (fun v Hvv => Hcovc v (C ++ keys0) (Hch v Hvv) (incl_appl _ (incl_refl _)))
                      (fun k _ => conj (fun x => x) (fun x => x))) as Hp.
        destruct (rpairs f st content keys0 (n :: merged) []) as [ps merged'| |].
        -- destruct Hp as (g & tl & out & Hraw & Hps & Hfil & Hnew). cbn [app] in Hps. subst out.
           pose proof (raw_expl _ _ _ _ Hraw) as He2. rewrite Hek in He2. inversion He2 as [He3].
           assert (Hflat : flat (S g) st n = Some (resolve tl)).
           { rewrite flat_unfold, Hn, Hraw. reflexivity. }
           exists (S g), (resolve tl).
           split; [exact Hflat|]. unfold resolve at 1 2. rewrite <- He3.
           split; [apply filC_eqC; exact Hfil|]. split; [intros _ _; exact Hfil|].
           intros m Hi. destruct (Hnew m Hi) as [[Ho|Ho]|[Hre (g' & fm & Hf & Hk)]].
           ++ subst m. right. split; [apply rt_refl|]. exists (S g), (resolve tl).
              split; [exact Hflat | apply incl_refl].
           ++ left; exact Ho.
           ++ right. split; [exact Hre|]. exists g', fm. split; [exact Hf|].
              intros x Hx. apply resolve_keys. apply Hk in Hx. apply in_app_iff in Hx.
              destruct Hx as [Hx|Hx]; [|exact Hx].
              rewrite He3 in Hx. destruct (expl_keys_in _ _ Hx) as [v0 Hv0].
              unfold allkeys. apply in_map_iff. exists (false, (x, v0)). split; auto.
        -- intros [|g]; [reflexivity|]. rewrite flat_unfold, Hn, (Hp g). reflexivity.
        -- exact Hp.
      * intros [|g]; [reflexivity|]. rewrite flat_unfold, Hn.
        rewrite (raw_none_expl _ _ _ Hek). reflexivity.
    + (* alias *)
      assert (Hv : n < length st) by (apply node_valid; rewrite Hn; discriminate).
      assert (Hcnt' : cnt st (n :: merged) < f).
      { pose proof (cnt_add st merged n Hv (proj2 (memn_nIn _ _) Hm)). lia. }
      assert (Hct : child st n t) by (unfold child, children; rewrite Hn; left; reflexivity).
      assert (Hact : acyclic st t) by (eapply acyclic_reach; [exact Hac | apply rt_step; exact Hct]).
      pose proof (IHf (n :: merged) t C Hact Hcnt' (Hcovc t C Hct (incl_refl _))) as Ht.
      destruct (range f st (n :: merged) t) as [ps merged'| |].
      * destruct Ht as (g & full & Hf & Heq & _ & Hnew). exists (S g), full.
        assert (Hflat : flat (S g) st n = Some full) by (rewrite flat_unfold, Hn; exact Hf).
        split; [exact Hflat|]. split; [exact Heq|]. split; [intros [c Hc]; discriminate|].
        intros m Hi. destruct (Hnew m Hi) as [[Ho|Ho]|[Hre Hx]].
        -- subst m. right. split; [apply rt_refl|]. exists (S g), full. split; [exact Hflat | apply incl_refl].
        -- left; exact Ho.
        -- right. split; [eapply rt_trans; [apply rt_step; exact Hct | exact Hre] | exact Hx].
      * intros [|g]; [reflexivity|]. rewrite flat_unfold, Hn. apply Ht.
      * exact Ht.
Qed.

(** * fuel independence on the acyclic domain: [S (length st)] is enough *)

Lemma raw_ext : forall (r1 r2 : nat -> option pairs) st content,
  (forall v, In v (mvalues content) -> r1 v = r2 v) -> raw r1 st content = raw r2 st content.
Proof.
  intros r1 r2 st content. induction content as [|a|k v rest IH] using list_pair_ind;
    intros H; cbn [raw]; auto.
  rewrite (H v (or_introl eq_refl)), IH; [reflexivity|].
  intros v0 H0. apply H. right; exact H0.
Qed.

Lemma flat_items_ext : forall (r1 r2 : nat -> option pairs) items,
  (forall v, In v items -> r1 v = r2 v) -> flat_items r1 items = flat_items r2 items.
Proof.
  intros r1 r2 items. induction items as [|e rest IH]; intros H; cbn [flat_items]; auto.
  rewrite (H e (or_introl eq_refl)), IH; [reflexivity|].
  intros v0 H0. apply H. right; exact H0.
Qed.

Lemma sem_items_ext : forall (r1 r2 : nat -> option gv) items,
  (forall v, In v items -> r1 v = r2 v) -> sem_items r1 items = sem_items r2 items.
Proof.
  intros r1 r2 items. induction items as [|e rest IH]; intros H; cbn [sem_items]; auto.
  rewrite (H e (or_introl eq_refl)), IH; [reflexivity|].
  intros v0 H0. apply H. right; exact H0.
Qed.

Lemma sem_pairs_ext : forall (r1 r2 : nat -> option gv) ps,
  (forall k v, In (k, v) ps -> r1 v = r2 v) -> sem_pairs r1 ps = sem_pairs r2 ps.
Proof.
  intros r1 r2 ps. induction ps as [|[k v] rest IH]; intros H; cbn [sem_pairs]; auto.
  rewrite (H k v (or_introl eq_refl)), IH; [reflexivity|].
  intros k0 v0 H0. apply (H k0). right; exact H0.
Qed.

(** [seen]: the proper ancestors on the current path; they are pairwise distinct
    on an acyclic graph, so [cnt] bounds the remaining depth *)
Lemma path_step : forall st seen n c g,
  acyclic st n -> (forall m, In m seen -> clos_trans nat (child st) m n) ->
  cnt st seen < S g -> clos_trans nat (child st) n c -> node st n <> YOther ->
  acyclic st c /\ (forall m, In m (n :: seen) -> clos_trans nat (child st) m c) /\
  cnt st (n :: seen) < g.
Proof.
  intros st seen n c g Hac Hseen Hcnt Hc Hn.
  split; [eapply acyclic_reach; [exact Hac | apply ct_reach; exact Hc]|].
  split.
  - intros m [Hm|Hm]; [subst; exact Hc | eapply t_trans; [apply Hseen; exact Hm | exact Hc]].
  - assert (Hni : memn n seen = false).
    { apply memn_nIn. intros Hi. apply (Hac n (rt_refl _ _ _)). apply Hseen, Hi. }
    pose proof (cnt_add st seen n (node_valid _ _ Hn) Hni). lia.
Qed.

Lemma flat_stable : forall g st n seen,
  acyclic st n -> (forall m, In m seen -> clos_trans nat (child st) m n) ->
  cnt st seen < g -> flat g st n = flat (S g) st n.
Proof.
  induction g as [|g IH]; intros st n seen Hac Hseen Hcnt; [lia|].
  rewrite (flat_unfold (S g)), (flat_unfold g).
  destruct (node st n) as [im ck dec|items|content|t|content|] eqn:Hn; try reflexivity.
  - apply flat_items_ext. intros v Hv.
    destruct (path_step st seen n v g Hac Hseen Hcnt) as (A & B & D);
      [apply t_step; unfold child, children; rewrite Hn; exact Hv | rewrite Hn; discriminate|].
    eapply IH; eauto.
  - rewrite (raw_ext (flat g st) (flat (S g) st)); [reflexivity|]. intros v Hv.
    destruct (path_step st seen n v g Hac Hseen Hcnt) as (A & B & D);
      [apply t_step; eapply child_map; eauto | rewrite Hn; discriminate|].
    eapply IH; eauto.
  - destruct (path_step st seen n t g Hac Hseen Hcnt) as (A & B & D);
      [apply t_step; unfold child, children; rewrite Hn; left; reflexivity | rewrite Hn; discriminate|].
    eapply IH; eauto.
Qed.

Lemma sem_stable : forall g st n seen,
  acyclic st n -> (forall m, In m seen -> clos_trans nat (child st) m n) ->
  cnt st seen < g -> sem g st n = sem (S g) st n.
Proof.
  induction g as [|g IH]; intros st n seen Hac Hseen Hcnt; [lia|].
  rewrite (sem_unfold (S g)), (sem_unfold g).
  destruct (node st n) as [im ck dec|items|content|t|content|] eqn:Hn; try reflexivity.
  - f_equal. apply sem_items_ext. intros v Hv.
    destruct (path_step st seen n v g Hac Hseen Hcnt) as (A & B & D);
      [apply t_step; unfold child, children; rewrite Hn; exact Hv | rewrite Hn; discriminate|].
    eapply IH; eauto.
  - rewrite <- (flat_stable (S g) st n seen Hac Hseen Hcnt).
    destruct (flat (S g) st n) as [ps|] eqn:Hf; [|reflexivity].
    f_equal. apply sem_pairs_ext. intros k v Hv.
    destruct (path_step st seen n v g Hac Hseen Hcnt) as (A & B & D);
      [eapply flat_values_below; eauto | rewrite Hn; discriminate|].
    eapply IH; eauto.
  - destruct (path_step st seen n t g Hac Hseen Hcnt) as (A & B & D);
      [apply t_step; unfold child, children; rewrite Hn; left; reflexivity | rewrite Hn; discriminate|].
    eapply IH; eauto.
  - destruct content as [|c [|]]; try reflexivity.
    destruct (path_step st seen n c g Hac Hseen Hcnt) as (A & B & D);
      [apply t_step; unfold child, children; rewrite Hn; left; reflexivity | rewrite Hn; discriminate|].
    eapply IH; eauto.
Qed.

Theorem flat_fuel_independent : forall st n g,
  acyclic st n -> S (length st) <= g -> flat g st n = flat_yaml st n.
Proof.
  intros st n g Hac Hle. unfold flat_yaml. induction Hle as [|g Hle IH]; [reflexivity|].
  rewrite <- IH. symmetry. apply (flat_stable g st n []); auto.
  - intros m [].
  - rewrite cnt_nil. lia.
Qed.

Theorem sem_fuel_independent : forall st n g,
  acyclic st n -> S (length st) <= g -> sem g st n = sem_yaml st n.
Proof.
  intros st n g Hac Hle. unfold sem_yaml. induction Hle as [|g Hle IH]; [reflexivity|].
  rewrite <- IH. symmetry. apply (sem_stable g st n []); auto.
  - intros m [].
  - rewrite cnt_nil. lia.
Qed.

Lemma flat_yaml_some : forall st n g x,
  acyclic st n -> flat g st n = Some x -> flat_yaml st n = Some x.
Proof.
  intros st n g x Hac H. rewrite <- (flat_fuel_independent st n (Nat.max g (S (length st))) Hac) by lia.
  eapply flat_le; [|exact H]. lia.
Qed.

Lemma sem_yaml_some : forall st n g x,
  acyclic st n -> sem g st n = Some x -> sem_yaml st n = Some x.
Proof.
  intros st n g x Hac H. rewrite <- (sem_fuel_independent st n (Nat.max g (S (length st))) Hac) by lia.
  eapply sem_le; [|exact H]. lia.
Qed.

(** * (c) THE MERGED SHORT-CUT IS HARMLESS on acyclic graphs

    For the top-level call of a mapping ([merged = []]) the pair list [range]
    yields — skipping every node it has merged before — is exactly the list the
    short-cut-free specification [flat] prescribes, and both fail together. *)
Theorem merged_shortcut_harmless : forall st n content,
  acyclic st n -> node st n = YMap content ->
  (forall ps, (exists mg, range (S (length st)) st [] n = ROk ps mg) <-> flat_yaml st n = Some ps) /\
  (range (S (length st)) st [] n = RErr <-> flat_yaml st n = None).
Proof.
  intros st n content Hac Hn.
  pose proof (range_sound_all st (S (length st)) [] n [] Hac) as H.
  rewrite cnt_nil in H. specialize (H (Nat.lt_succ_diag_r _)).
  assert (Hc : covered st [] n []) by (intros m []).
  specialize (H Hc).
  destruct (range (S (length st)) st [] n) as [ps mg0| |] eqn:Hr.
  - destruct H as (g & full & Hf & _ & Hfil & _).
    specialize (Hfil (ex_intro _ content Hn) (fun x => x)). rewrite !filC_nil in Hfil. subst full.
    apply (flat_yaml_some _ _ _ _ Hac) in Hf.
    split.
    + intros ps'. split.
      * intros [mg1 He]. inversion He; subst. exact Hf.
      * intros He. rewrite Hf in He. inversion He; subst. exists mg0; reflexivity.
    + split; [discriminate | rewrite Hf; discriminate].
  - split.
    + intros ps'. split; [intros [mg1 He]; discriminate | intros He; unfold flat_yaml in He; rewrite (H _) in He; discriminate].
    + split; intros _; [apply H | reflexivity].
  - destruct H.
Qed.

Lemma flat_yaml_none : forall st n g,
  acyclic st n -> flat_yaml st n = None -> flat g st n = None.
Proof.
  intros st n g Hac H. destruct (flat g st n) as [x|] eqn:Hf; [|reflexivity].
  apply (flat_yaml_some _ _ _ _ Hac) in Hf. congruence.
Qed.

(** * (b) THE DECODER COMPUTES THE DENOTATION *)

Definition dec_ok (st : store) (d : dres) (n : nat) : Prop :=
  match d with
  | DOk v => exists g, sem g st n = Some v
  | DErr => forall g, sem g st n = None
  | DFuel => False
  end.

Lemma dseq_sound : forall st f seen' items acc,
  (forall c, In c items -> dec_ok st (decode f st seen' c) c) ->
  match dseq f st seen' items acc with
  | DOk v => exists g l, sem_items (sem g st) items = Some l /\ v = GSeq (acc ++ l)
  | DErr => forall g, sem_items (sem g st) items = None
  | DFuel => False
  end.
Proof.
  intros st f seen' items. induction items as [|c rest IH]; intros acc H.
  - cbn. exists 0, []. rewrite app_nil_r. split; reflexivity.
  - rewrite dseq_cons. pose proof (H c (or_introl eq_refl)) as Hc.
    destruct (decode f st seen' c) as [vc| |]; cbn [dec_ok] in Hc.
    + destruct Hc as [g1 Hg1].
      specialize (IH (acc ++ [vc]) (fun c0 H0 => H c0 (or_intror H0))).
      destruct (dseq f st seen' rest (acc ++ [vc])) as [v| |].
      * destruct IH as (g2 & l2 & Hl & Hv). exists (Nat.max g1 g2), (vc :: l2).
        split.
        -- cbn [sem_items]. rewrite (sem_le g1 (Nat.max g1 g2) st c vc) by (try lia; auto).
           erewrite sem_items_mono; [reflexivity| |exact Hl].
           intros v0 x Hx. eapply sem_le; [|exact Hx]. lia.
        -- rewrite Hv, <- app_assoc. reflexivity.
      * intros g. cbn [sem_items]. rewrite (IH g). destruct (sem g st c); reflexivity.
      * exact IH.
    + intros g. cbn [sem_items]. rewrite (Hc g). reflexivity.
    + exact Hc.
Qed.

Lemma dmap_sound : forall st f seen' ps m,
  (forall k c, In (k, c) ps -> dec_ok st (decode f st seen' c) c) ->
  match dmap f st seen' ps m with
  | DOk v => exists g l, sem_pairs (sem g st) ps = Some l /\
               v = GMap (fold_left (fun m kv => oset (fst kv) (snd kv) m) l m)
  | DErr => forall g, sem_pairs (sem g st) ps = None
  | DFuel => False
  end.
Proof.
  intros st f seen' ps. induction ps as [|[k c] rest IH]; intros m H.
  - cbn. exists 0, []. split; reflexivity.
  - rewrite dmap_cons. pose proof (H k c (or_introl eq_refl)) as Hc.
    destruct (decode f st seen' c) as [vc| |]; cbn [dec_ok] in Hc.
    + destruct Hc as [g1 Hg1].
      specialize (IH (oset k vc m) (fun k0 c0 H0 => H k0 c0 (or_intror H0))).
      destruct (dmap f st seen' rest (oset k vc m)) as [v| |].
      * destruct IH as (g2 & l2 & Hl & Hv). exists (Nat.max g1 g2), ((k, vc) :: l2).
        split.
        -- cbn [sem_pairs]. rewrite (sem_le g1 (Nat.max g1 g2) st c vc) by (try lia; auto).
           erewrite sem_pairs_mono; [reflexivity| |exact Hl].
           intros v0 x Hx. eapply sem_le; [|exact Hx]. lia.
        -- rewrite Hv. reflexivity.
      * intros g. cbn [sem_pairs]. rewrite (IH g). destruct (sem g st c); reflexivity.
      * exact IH.
    + intros g. cbn [sem_pairs]. rewrite (Hc g). reflexivity.
    + exact Hc.
Qed.

Lemma decode_sound : forall st f seen n,
  acyclic st n -> cnt st seen < f -> (forall m, In m seen -> ~ reach st n m) ->
  dec_ok st (decode f st seen n) n.
Proof.
  intros st. induction f as [|f IH]; intros seen n Hac Hcnt Hseen; [lia|].
  rewrite decode_S. destruct (memn n seen) eqn:Hm.
  { apply memn_In in Hm. exfalso. apply (Hseen n Hm), rt_refl. }
  assert (Hsub : forall c, clos_trans nat (child st) n c -> node st n <> YOther ->
                   dec_ok st (decode f st (n :: seen) c) c).
  { intros c Hc Hn. apply IH.
    - eapply acyclic_reach; [exact Hac | apply ct_reach; exact Hc].
    - pose proof (cnt_add st seen n (node_valid _ _ Hn) Hm). lia.
    - intros m [Hmn|Hmm] Hr.
      + subst m. eapply acyclic_no_back; eauto.
      + apply (Hseen m Hmm). eapply rt_trans; [apply ct_reach; exact Hc | exact Hr]. }
  destruct (node st n) as [im ck dec|items|content|t|content|] eqn:Hn.
  - destruct dec as [v|]; cbn [dec_ok].
    + exists 1. rewrite sem_unfold, Hn. reflexivity.
    + intros [|g]; [reflexivity | rewrite sem_unfold, Hn; reflexivity].
  - pose proof (dseq_sound st f (n :: seen) items []) as Hs.
    assert (Hch : forall c, In c items -> dec_ok st (decode f st (n :: seen) c) c).
    { intros c Hc. apply Hsub; [apply t_step; unfold child, children; rewrite Hn; exact Hc | discriminate]. }
    specialize (Hs Hch).
    destruct (dseq f st (n :: seen) items []) as [v| |]; cbn [dec_ok].
    + destruct Hs as (g & l & Hl & Hv). exists (S g). rewrite sem_unfold, Hn, Hl, Hv. reflexivity.
    + intros [|g]; [reflexivity | rewrite sem_unfold, Hn, (Hs g); reflexivity].
    + exact Hs.
  - destruct (merged_shortcut_harmless st n content Hac Hn) as [Hok Herr].
    destruct (range (S (length st)) st [] n) as [ps mg0| |] eqn:Hr.
    + assert (Hf : flat_yaml st n = Some ps) by (apply Hok; exists mg0; reflexivity).
      pose proof (dmap_sound st f (n :: seen) ps []) as Hs.
      assert (Hch : forall k c, In (k, c) ps -> dec_ok st (decode f st (n :: seen) c) c).
      { intros k c Hc. apply Hsub; [eapply flat_values_below; eauto | discriminate]. }
      specialize (Hs Hch).
      destruct (dmap f st (n :: seen) ps []) as [v| |]; cbn [dec_ok].
      * destruct Hs as (g & l & Hl & Hv). exists (S (Nat.max g (length st))).
        rewrite sem_unfold, Hn.
        rewrite (flat_le (S (length st)) (S (Nat.max g (length st))) st n ps) by (try lia; auto).
        erewrite sem_pairs_mono; [rewrite Hv; reflexivity| |exact Hl].
        intros v0 x Hx. eapply sem_le; [|exact Hx]. lia.
      * intros [|g]; [reflexivity|]. rewrite sem_unfold, Hn.
        destruct (flat (S g) st n) as [ps'|] eqn:Hf'; [|reflexivity].
        rewrite (flat_det _ _ _ _ _ _ Hf' Hf), (Hs g). reflexivity.
      * exact Hs.
    + cbn [dec_ok]. intros [|g]; [reflexivity|]. rewrite sem_unfold, Hn.
      rewrite (flat_yaml_none st n (S g) Hac); [reflexivity | apply Herr; reflexivity].
    + exfalso. eapply range_total; eauto.
  - assert (Ht : dec_ok st (decode f st (n :: seen) t) t).
    { apply Hsub; [apply t_step; unfold child, children; rewrite Hn; left; reflexivity | discriminate]. }
    destruct (decode f st (n :: seen) t) as [v| |]; cbn [dec_ok] in *.
    + destruct Ht as [g Hg]. exists (S g). rewrite sem_unfold, Hn. exact Hg.
    + intros [|g]; [reflexivity | rewrite sem_unfold, Hn; apply Ht].
    + exact Ht.
  - destruct content as [|c [|c2 r]].
    + cbn [dec_ok]. exists 1. rewrite sem_unfold, Hn. reflexivity.
    + assert (Ht : dec_ok st (decode f st (n :: seen) c) c).
      { apply Hsub; [apply t_step; unfold child, children; rewrite Hn; left; reflexivity | discriminate]. }
      destruct (decode f st (n :: seen) c) as [v| |]; cbn [dec_ok] in *.
      * destruct Ht as [g Hg]. exists (S g). rewrite sem_unfold, Hn. exact Hg.
      * intros [|g]; [reflexivity | rewrite sem_unfold, Hn; apply Ht].
      * exact Ht.
    + cbn [dec_ok]. intros [|g]; [reflexivity | rewrite sem_unfold, Hn; reflexivity].
  - cbn [dec_ok]. intros [|g]; [reflexivity | rewrite sem_unfold, Hn; reflexivity].
Qed.

(** MAIN THEOREM: on every acyclic graph the decoder returns exactly the value
    the specification prescribes, and fails exactly where the specification is
    undefined (odd mapping content, a key that is not a scalar, a merge value
    that is neither a mapping nor a sequence of mappings, an undecodable scalar,
    a stray node).  No separate well-formedness side condition is needed: both
    sides err together. *)
Theorem decode_refines_sem : forall st root,
  acyclic st root ->
  (forall v, decode_yaml st root = DOk v <-> sem_yaml st root = Some v) /\
  (decode_yaml st root = DErr <-> sem_yaml st root = None).
Proof.
  intros st root Hac.
  pose proof (decode_sound st (S (length st)) [] root Hac) as H.
  rewrite cnt_nil in H. specialize (H (Nat.lt_succ_diag_r _) (fun m Hm => match Hm with end)).
  fold (decode_yaml st root) in H.
  destruct (decode_yaml st root) as [v0| |]; cbn [dec_ok] in H.
  - destruct H as [g Hg]. apply (sem_yaml_some _ _ _ _ Hac) in Hg. split.
    + intros v. rewrite Hg. split; intros He; inversion He; reflexivity.
    + rewrite Hg. split; discriminate.
  - unfold sem_yaml. rewrite (H _). split.
    + intros v. split; discriminate.
    + split; reflexivity.
  - destruct H.
Qed.

(** the two directions, and the statement with an explicit well-formedness
    hypothesis ([well_formed] := the denotation is defined) *)
Definition well_formed (st : store) (root : nat) : Prop := sem_yaml st root <> None.

Corollary decode_sound_wrt_sem : forall st root v,
  acyclic st root -> decode_yaml st root = DOk v -> sem_yaml st root = Some v.
Proof. intros st root v Hac. apply (proj1 (decode_refines_sem st root Hac)). Qed.

Corollary decode_complete_wrt_sem : forall st root v,
  acyclic st root -> sem_yaml st root = Some v -> decode_yaml st root = DOk v.
Proof. intros st root v Hac. apply (proj1 (decode_refines_sem st root Hac)). Qed.

Corollary decode_refines_sem_wf : forall st root v,
  acyclic st root -> well_formed st root ->
  (decode_yaml st root = DOk v <-> sem_yaml st root = Some v).
Proof. intros st root v Hac _. apply (proj1 (decode_refines_sem st root Hac)). Qed.

Corollary decode_total_on_well_formed : forall st root,
  acyclic st root -> well_formed st root -> exists v, decode_yaml st root = DOk v /\ sem_yaml st root = Some v.
Proof.
  intros st root Hac Hwf. unfold well_formed in Hwf.
  destruct (sem_yaml st root) as [v|] eqn:Hs; [|congruence].
  exists v. split; auto. apply decode_complete_wrt_sem; auto.
Qed.

(** * the denotation satisfies the fuel-free recursive equations *)

Lemma below_stable : forall st n c,
  acyclic st n -> clos_trans nat (child st) n c -> node st n <> YOther ->
  flat (length st) st c = flat_yaml st c /\ sem (length st) st c = sem_yaml st c.
Proof.
  intros st n c Hac Hc Hn.
  destruct (path_step st [] n c (length st) Hac) as (A & B & D); auto.
  - intros m [].
  - rewrite cnt_nil. lia.
  - split; [apply (flat_stable (length st) st c [n]) | apply (sem_stable (length st) st c [n])]; auto.
Qed.

Theorem flat_yaml_unfold : forall st n, acyclic st n ->
  flat_yaml st n =
  match node st n with
  | YMap content => option_map resolve (raw (flat_yaml st) st content)
  | YSeq items => flat_items (flat_yaml st) items
  | YAlias t => flat_yaml st t
  | _ => None
  end.
Proof.
  intros st n Hac. unfold flat_yaml at 1. rewrite flat_unfold.
  destruct (node st n) as [im ck dec|items|content|t|content|] eqn:Hn; try reflexivity.
  - apply flat_items_ext. intros v Hv. eapply below_stable; eauto.
    + apply t_step. unfold child, children. rewrite Hn. exact Hv.
    + rewrite Hn; discriminate.
  - rewrite (raw_ext (flat (length st) st) (flat_yaml st)).
    + destruct (raw (flat_yaml st) st content); reflexivity.
    + intros v Hv. eapply below_stable; eauto.
      * apply t_step. eapply child_map; eauto.
      * rewrite Hn; discriminate.
  - eapply below_stable; eauto.
    + apply t_step. unfold child, children. rewrite Hn. left; reflexivity.
    + rewrite Hn; discriminate.
Qed.

Theorem sem_yaml_unfold : forall st n, acyclic st n ->
  sem_yaml st n =
  match node st n with
  | YScalar _ _ dec => dec
  | YSeq items => option_map GSeq (sem_items (sem_yaml st) items)
  | YMap _ =>
      match flat_yaml st n with
      | Some ps => option_map (fun l => GMap (set_all l)) (sem_pairs (sem_yaml st) ps)
      | None => None
      end
  | YAlias t => sem_yaml st t
  | YDoc content =>
      match content with
      | [] => Some GNull
      | [c] => sem_yaml st c
      | _ => None
      end
  | YOther => None
  end.
Proof.
  intros st n Hac. unfold sem_yaml at 1. rewrite sem_unfold.
  destruct (node st n) as [im ck dec|items|content|t|content|] eqn:Hn; try reflexivity.
  - f_equal. apply sem_items_ext. intros v Hv. eapply below_stable; eauto.
    + apply t_step. unfold child, children. rewrite Hn. exact Hv.
    + rewrite Hn; discriminate.
  - fold (flat_yaml st n). destruct (flat_yaml st n) as [ps|] eqn:Hf; [|reflexivity].
    f_equal. apply sem_pairs_ext. intros k v Hv. eapply below_stable; eauto.
    + eapply flat_values_below; eauto.
    + rewrite Hn; discriminate.
  - eapply below_stable; eauto.
    + apply t_step. unfold child, children. rewrite Hn. left; reflexivity.
    + rewrite Hn; discriminate.
  - destruct content as [|c [|]]; try reflexivity. eapply below_stable; eauto.
    + apply t_step. unfold child, children. rewrite Hn. left; reflexivity.
    + rewrite Hn; discriminate.
Qed.

(** what [resolve] keeps, declaratively: every explicit pair; a merged pair iff
    its key is not explicit and no earlier merged pair has that key *)
Lemma dedup_spec : forall tl seen k v,
  In (k, v) (dedup seen tl) ->
  In (false, (k, v)) tl \/
  (~ In k seen /\ exists pre post, tl = pre ++ (true, (k, v)) :: post /\
                     forall v', ~ In (true, (k, v')) pre).
Proof.
  induction tl as [|[[|] [k0 v0]] r IH]; intros seen k v H; cbn [dedup] in H; [destruct H| |].
  - destruct (mems k0 seen) eqn:Hm.
    + apply mems_In in Hm. destruct (IH _ _ _ H) as [Hi|(Hn & pre & post & E & N)]; [left; right; exact Hi|].
      right. split; [exact Hn|]. exists ((true, (k0, v0)) :: pre), post.
      split; [rewrite E; reflexivity|]. intros v' [Hc|Hc]; [inversion Hc; subst; contradiction | eapply N; eauto].
    + apply mems_nIn in Hm. destruct H as [H|H].
      * inversion H; subst. right. split; [exact Hm|]. exists [], r. split; [reflexivity | intros v' []].
      * destruct (IH _ _ _ H) as [Hi|(Hn & pre & post & E & N)]; [left; right; exact Hi|].
        right. split; [intros Hc; apply Hn; right; exact Hc|].
        exists ((true, (k0, v0)) :: pre), post. split; [rewrite E; reflexivity|].
        intros v' [Hc|Hc]; [inversion Hc; subst; apply Hn; left; reflexivity | eapply N; eauto].
  - destruct H as [H|H]; [inversion H; subst; left; left; reflexivity|].
    destruct (IH _ _ _ H) as [Hi|(Hn & pre & post & E & N)]; [left; right; exact Hi|].
    right. split; [exact Hn|]. exists ((false, (k0, v0)) :: pre), post.
    split; [rewrite E; reflexivity|]. intros v' [Hc|Hc]; [discriminate | eapply N; eauto].
Qed.

Theorem resolve_spec : forall tl k v,
  In (k, v) (resolve tl) ->
  In (false, (k, v)) tl \/
  (~ In k (expl_keys tl) /\ exists pre post, tl = pre ++ (true, (k, v)) :: post /\
                               forall v', ~ In (true, (k, v')) pre).
Proof. intros tl k v. apply dedup_spec. Qed.

(** * (d) THE MERGE RULES IN THE PROPERTY'S WORDS, on a mapping with one merge

    [n] is a mapping  { pre..., <<: src, post... }  whose other keys are ordinary
    scalars; [fs] is the pair list of the merge value [src] (one source, or the
    concatenation of the sources of a sequence, in order). *)

Fixpoint epairs (st : store) (content : list nat) : option pairs :=
  match content with
  | [] => Some []
  | [_] => None
  | k :: v :: rest =>
      if is_merge_key st k then None
      else match ckey_of st k, epairs st rest with
           | Some ck, Some r => Some ((ck, v) :: r)
           | _, _ => None
           end
  end.

(** last value stored under a key (what a left fold of [Set] keeps) *)
Fixpoint alast {T} (k : string) (l : list (string * T)) : option T :=
  match l with
  | [] => None
  | (k', v) :: r =>
      match alast k r with
      | Some x => Some x
      | None => if String.eqb k k' then Some v else None
      end
  end.

Lemma raw_epairs_app : forall rec st pre epre rest,
  epairs st pre = Some epre ->
  raw rec st (pre ++ rest) = option_map (app (map (pair false) epre)) (raw rec st rest).
Proof.
  intros rec st pre. induction pre as [|a|k v pre IH] using list_pair_ind; intros epre rest H.
  - inversion H; subst. cbn. destruct (raw rec st rest); reflexivity.
  - discriminate.
  - cbn [app]. cbn [epairs] in H. cbn [raw].
    destruct (is_merge_key st k); [discriminate|].
    destruct (ckey_of st k) as [ck|]; [|discriminate].
    destruct (epairs st pre) as [r|]; [|discriminate]. inversion H; subst.
    rewrite (IH r rest eq_refl). destruct (raw rec st rest); reflexivity.
Qed.

Lemma dedup_false_app : forall e seen tl,
  dedup seen (map (pair false) e ++ tl) = e ++ dedup seen tl.
Proof. induction e as [|p e IH]; intros; cbn; [reflexivity | rewrite IH; reflexivity]. Qed.

Lemma expl_keys_app : forall a b, expl_keys (a ++ b) = expl_keys a ++ expl_keys b.
Proof. intros. unfold expl_keys. rewrite filter_app, map_app. reflexivity. Qed.
Lemma expl_keys_false : forall e, expl_keys (map (pair false) e) = keys e.
Proof. induction e as [|[k v] e IH]; cbn; [reflexivity | f_equal; exact IH]. Qed.
Lemma expl_keys_true : forall e, expl_keys (map (pair true) e) = [].
Proof. induction e as [|[k v] e IH]; cbn; [reflexivity | exact IH]. Qed.

Lemma aget_oset : forall (k k' : string) (v : gv) m,
  aget k (oset k' v m) = if String.eqb k k' then Some v else aget k m.
Proof.
  intros k k' v m. induction m as [|[k2 v2] r IH]; cbn [oset aget]; [reflexivity|].
  destruct (String.eqb k' k2) eqn:E2; cbn [aget].
  - apply String.eqb_eq in E2. subst k2. destruct (String.eqb k k'); reflexivity.
  - rewrite IH. destruct (String.eqb k k2) eqn:E1; [|reflexivity].
    apply String.eqb_eq in E1. subst k2. rewrite String.eqb_sym, E2. reflexivity.
Qed.

Lemma aget_set_fold : forall k (l m : list (string * gv)),
  aget k (fold_left (fun m kv => oset (fst kv) (snd kv) m) l m) =
  match alast k l with Some v => Some v | None => aget k m end.
Proof.
  intros k l. induction l as [|[k' v] r IH]; intros m; cbn [fold_left alast]; [reflexivity|].
  rewrite IH. destruct (alast k r); [reflexivity|]. cbn [fst snd]. rewrite aget_oset.
  destruct (String.eqb k k'); reflexivity.
Qed.

Lemma aget_set_all : forall k l, aget k (set_all l) = alast k l.
Proof. intros. unfold set_all. rewrite aget_set_fold. destruct (alast k l); reflexivity. Qed.

Lemma alast_app : forall T k (a b : list (string * T)),
  alast k (a ++ b) = match alast k b with Some x => Some x | None => alast k a end.
Proof.
  intros T k a b. induction a as [|[k' v] a IH]; cbn [app alast].
  - destruct (alast k b); reflexivity.
  - rewrite IH. destruct (alast k b); reflexivity.
Qed.

Lemma alast_none : forall T k (l : list (string * T)), ~ In k (map fst l) -> alast k l = None.
Proof.
  intros T k l. induction l as [|[k' v] l IH]; intros H; cbn [alast]; [reflexivity|].
  rewrite IH by (intros Hc; apply H; right; exact Hc).
  destruct (String.eqb k k') eqn:E; [|reflexivity].
  apply String.eqb_eq in E. subst. exfalso. apply H. left; reflexivity.
Qed.

Lemma sem_pairs_alast : forall rec ps l k,
  sem_pairs rec ps = Some l ->
  match alast k ps with
  | Some v => exists x, rec v = Some x /\ alast k l = Some x
  | None => alast k l = None
  end.
Proof.
  intros rec ps. induction ps as [|[k' vn] ps IH]; intros l k H; cbn [sem_pairs] in H.
  - inversion H; subst. reflexivity.
  - destruct (rec vn) as [a|] eqn:Ha; [|discriminate].
    destruct (sem_pairs rec ps) as [l0|]; [|discriminate]. inversion H; subst.
    specialize (IH l0 k eq_refl). cbn [alast].
    destruct (alast k ps) as [v|].
    + destruct IH as (x & Hx & Hl). rewrite Hl. exists x; auto.
    + rewrite IH. destruct (String.eqb k k'); [exists a; auto | reflexivity].
Qed.

Lemma sem_pairs_keys : forall rec ps l, sem_pairs rec ps = Some l -> map fst l = keys ps.
Proof.
  intros rec ps. induction ps as [|[k' vn] ps IH]; intros l H; cbn [sem_pairs] in H.
  - inversion H; reflexivity.
  - destruct (rec vn); [|discriminate]. destruct (sem_pairs rec ps) as [l0|]; [|discriminate].
    inversion H; subst. cbn. f_equal. apply IH; reflexivity.
Qed.

Lemma skf_notin : forall l K k, In k (keys (skf K l)) -> ~ In k K.
Proof.
  intros l K k H. pose proof (skip_keys_spec K l _ _ (skip_keys_skf l K)) as (A & _).
  unfold keys in H. apply in_map_iff in H. destruct H as [[k' v] [Hf Hi]]. cbn in Hf; subst.
  eapply A; eauto.
Qed.

Lemma skf_nodup : forall l K, NoDup (keys (skf K l)).
Proof. intros l K. pose proof (skip_keys_spec K l _ _ (skip_keys_skf l K)) as (_ & B & _). exact B. Qed.

Lemma skf_keys_sub : forall l K k, In k (keys (skf K l)) -> In k (keys l).
Proof.
  intros l K k H. unfold keys in *. apply in_map_iff in H. destruct H as [p [Hf Hi]].
  apply in_map_iff. exists p. split; auto. eapply skf_incl; eauto.
Qed.

Lemma skf_first : forall K f1 k v1 f2,
  ~ In k K -> ~ In k (keys f1) -> alast k (skf K (f1 ++ (k, v1) :: f2)) = Some v1.
Proof.
  intros K f1 k v1 f2 HK Hf. rewrite skf_app. cbn [skf].
  assert (Hm : mems k (rev (keys (skf K f1)) ++ K) = false).
  { apply mems_nIn. intros Hc. apply in_app_iff in Hc. destruct Hc as [Hc|Hc]; [|auto].
    apply in_rev in Hc. apply Hf. eapply skf_keys_sub; eauto. }
  rewrite Hm, alast_app. cbn [alast]. rewrite alast_none.
  - rewrite String.eqb_refl. reflexivity.
  - intros Hc. apply skf_notin in Hc. apply Hc. left; reflexivity.
Qed.

Lemma oset_fresh : forall k (v : gv) m, ~ In k (map fst m) -> oset k v m = m ++ [(k, v)].
Proof.
  intros k v m. induction m as [|[k' v'] m IH]; intros H; cbn [oset app]; [reflexivity|].
  destruct (String.eqb k k') eqn:E.
  - apply String.eqb_eq in E. subst. exfalso. apply H. left; reflexivity.
  - rewrite IH; [reflexivity|]. intros Hc. apply H. right; exact Hc.
Qed.

Lemma set_fold_keys : forall (l m : list (string * gv)),
  NoDup (map fst m ++ map fst l) ->
  map fst (fold_left (fun m kv => oset (fst kv) (snd kv) m) l m) = map fst m ++ map fst l.
Proof.
  induction l as [|[k v] l IH]; intros m H; cbn [fold_left map fst snd].
  - rewrite app_nil_r. reflexivity.
  - cbn [map fst] in H. pose proof (NoDup_remove_2 _ _ _ H) as Hk.
    rewrite oset_fresh by (intros Hc; apply Hk, in_app_iff; left; exact Hc).
    rewrite IH; rewrite map_app; cbn [map fst]; rewrite <- app_assoc; [reflexivity | exact H].
Qed.

Lemma nodup_app_intro : forall (a b : list string),
  NoDup a -> NoDup b -> (forall x, In x a -> ~ In x b) -> NoDup (a ++ b).
Proof.
  induction a as [|x a IH]; intros b Ha Hb Hd; [exact Hb|].
  inversion Ha; subst. cbn. constructor.
  - intros Hc. apply in_app_iff in Hc. destruct Hc as [Hc|Hc]; [auto|]. apply (Hd x); [left; auto | exact Hc].
  - apply IH; auto. intros y Hy. apply Hd. right; exact Hy.
Qed.

Lemma nodup_app_disj : forall (a b : list string) x, NoDup (a ++ b) -> In x a -> ~ In x b.
Proof.
  induction a as [|y a IH]; intros b x H Hx; [destruct Hx|].
  cbn in H. inversion H; subst. destruct Hx as [Hx|Hx].
  - subst. intros Hc. apply H2, in_app_iff. right; exact Hc.
  - apply IH; auto.
Qed.

Lemma nodup_app_l : forall (a b : list string), NoDup (a ++ b) -> NoDup a.
Proof.
  induction a as [|x a IH]; intros b H; [constructor|].
  cbn in H. inversion H; subst. constructor; [|eapply IH; eauto].
  intros Hc. apply H2, in_app_iff. left; exact Hc.
Qed.
Lemma nodup_app_r : forall (a b : list string), NoDup (a ++ b) -> NoDup b.
Proof. induction a as [|x a IH]; intros b H; [exact H|]. cbn in H. inversion H; subst. auto. Qed.

Section OneMerge.
  Variables (st : store) (n mk src : nat) (pre post : list nat) (epre epost fs : pairs).
  Hypothesis Hac : acyclic st n.
  Hypothesis Hn : node st n = YMap (pre ++ mk :: src :: post).
  Hypothesis Hmk : is_merge_key st mk = true.
  Hypothesis Hpre : epairs st pre = Some epre.
  Hypothesis Hpost : epairs st post = Some epost.
  Hypothesis Hfs : flat_yaml st src = Some fs.

  Let E := keys epre ++ keys epost.

  (** the pair list of the mapping: explicit pairs where they stand, and where
      the `<<` stands the source pairs whose key is not explicit, first
      occurrence only *)
  Theorem one_merge_pairs : flat_yaml st n = Some (epre ++ skf E fs ++ epost).
  Proof.
    rewrite (flat_yaml_unfold st n Hac), Hn.
    rewrite (raw_epairs_app _ _ _ _ _ Hpre). cbn [raw]. rewrite Hmk, Hfs.
    rewrite <- (app_nil_r post), (raw_epairs_app _ _ _ _ [] Hpost). cbn [raw option_map].
    rewrite app_nil_r. unfold resolve.
    rewrite !expl_keys_app, !expl_keys_false, expl_keys_true. cbn [app]. fold E.
    rewrite dedup_false_app, dedup_merged_app.
    rewrite <- (app_nil_r (map (pair false) epost)), dedup_false_app. cbn [dedup].
    rewrite app_nil_r. reflexivity.
  Qed.

  (** ... and the decoder yields exactly these pairs, merged short-cut or not *)
  Corollary one_merge_range :
    exists mg, range (S (length st)) st [] n = ROk (epre ++ skf E fs ++ epost) mg.
  Proof. apply (proj1 (merged_shortcut_harmless st n _ Hac Hn)), one_merge_pairs. Qed.

  Lemma one_merge_decoded : forall m,
    decode_yaml st n = DOk (GMap m) ->
    exists l, sem_pairs (sem_yaml st) (epre ++ skf E fs ++ epost) = Some l /\ m = set_all l.
  Proof.
    intros m Hd. apply (decode_sound_wrt_sem st n _ Hac) in Hd.
    rewrite (sem_yaml_unfold st n Hac), Hn, one_merge_pairs in Hd.
    destruct (sem_pairs (sem_yaml st) (epre ++ skf E fs ++ epost)) as [l|]; [|discriminate].
    cbn in Hd. inversion Hd. exists l. split; reflexivity.
  Qed.

  (** EXPLICIT KEYS BEAT MERGED KEYS: under an explicit key the decoded mapping
      holds the denotation of the (last) explicit value, whatever the sources say *)
  Theorem explicit_beats_merged : forall m k v,
    decode_yaml st n = DOk (GMap m) ->
    alast k (epre ++ epost) = Some v ->
    exists x, sem_yaml st v = Some x /\ aget k m = Some x.
  Proof.
    intros m k v Hd Hk. destruct (one_merge_decoded m Hd) as (l & Hl & Hm). subst m.
    pose proof (sem_pairs_alast _ _ _ k Hl) as Ha.
    assert (Hin : In k E).
    { unfold E, keys. rewrite <- map_app. destruct (in_dec string_dec k (map fst (epre ++ epost))) as [Hi|Hi]; auto.
      rewrite (alast_none _ _ _ Hi) in Hk. discriminate. }
    assert (Hps : alast k (epre ++ skf E fs ++ epost) = Some v).
    { rewrite alast_app in Hk. rewrite !alast_app.
      destruct (alast k epost); [exact Hk|].
      rewrite (alast_none _ k (skf E fs)); [exact Hk|]. intros Hc. apply skf_notin in Hc. auto. }
    rewrite Hps in Ha. destruct Ha as (x & Hx & Hal). exists x. split; auto.
    rewrite aget_set_all. exact Hal.
  Qed.

  (** EARLIER SOURCES BEAT LATER ONES: under a key that is not explicit the
      decoded mapping holds the denotation of the FIRST pair with that key in
      source order *)
  Theorem earlier_source_beats_later : forall m k v1 f1 f2,
    decode_yaml st n = DOk (GMap m) ->
    ~ In k E -> fs = f1 ++ (k, v1) :: f2 -> ~ In k (keys f1) ->
    exists x, sem_yaml st v1 = Some x /\ aget k m = Some x.
  Proof.
    intros m k v1 f1 f2 Hd HE Hsplit Hf1. destruct (one_merge_decoded m Hd) as (l & Hl & Hm). subst m.
    pose proof (sem_pairs_alast _ _ _ k Hl) as Ha.
    assert (Hps : alast k (epre ++ skf E fs ++ epost) = Some v1).
    { rewrite !alast_app.
      rewrite (alast_none _ k epost) by (intros Hc; apply HE, in_app_iff; right; exact Hc).
      rewrite Hsplit, skf_first; auto. }
    rewrite Hps in Ha. destruct Ha as (x & Hx & Hal). exists x. split; auto.
    rewrite aget_set_all. exact Hal.
  Qed.

  (** MERGED KEYS STAND WHERE THE MERGE KEY STANDS: the key order of the decoded
      mapping is the explicit keys before the `<<`, then the merged keys (not
      explicit, first occurrences, in source order), then the explicit keys
      after it *)
  Theorem merged_keys_stand_at_merge_position : forall m,
    decode_yaml st n = DOk (GMap m) -> NoDup E ->
    map fst m = keys epre ++ keys (skf E fs) ++ keys epost.
  Proof.
    intros m Hd HE. destruct (one_merge_decoded m Hd) as (l & Hl & Hm). subst m.
    pose proof (sem_pairs_keys _ _ _ Hl) as Hk.
    unfold keys in Hk. rewrite !map_app in Hk. fold (keys epre) (keys (skf E fs)) (keys epost) in Hk.
    unfold set_all. rewrite set_fold_keys; cbn [map app]; rewrite Hk; [reflexivity|].
    apply nodup_app_intro.
    - eapply nodup_app_l; exact HE.
    - apply nodup_app_intro; [apply skf_nodup | eapply nodup_app_r; exact HE|].
      intros x Hx Hc. apply skf_notin in Hx. apply Hx, in_app_iff. right; exact Hc.
    - intros x Hx Hc. apply in_app_iff in Hc. destruct Hc as [Hc|Hc].
      + apply skf_notin in Hc. apply Hc, in_app_iff. left; exact Hx.
      + eapply nodup_app_disj; eauto.
  Qed.
End OneMerge.

(** a sequence as merge value contributes its sources' pair lists in order *)
Theorem flat_seq_two : forall st s a b fa fb,
  acyclic st s -> node st s = YSeq [a; b] ->
  flat_yaml st a = Some fa -> flat_yaml st b = Some fb -> flat_yaml st s = Some (fa ++ fb).
Proof.
  intros st s a b fa fb Hac Hs Ha Hb. rewrite (flat_yaml_unfold st s Hac), Hs.
  cbn [flat_items]. rewrite Ha, Hb, app_nil_r. reflexivity.
Qed.

(** * a checkable sufficient condition for [acyclic]: a rank that every edge decreases *)

Fixpoint height (fuel : nat) (st : store) (n : nat) : nat :=
  match fuel with
  | O => 0
  | S f => S (fold_right Nat.max 0 (map (height f st) (children st n)))
  end.
Definition ranks (st : store) : list nat := map (height (length st) st) (seq 0 (length st)).
Definition ranked (st : store) (rk : list nat) : bool :=
  forallb (fun n => forallb (fun c => nth c rk 0 <? nth n rk 0) (children st n)) (seq 0 (length st)).
Definition acyclic_check (st : store) : bool := ranked st (ranks st).

Theorem ranked_acyclic : forall st rk, ranked st rk = true -> forall root, acyclic st root.
Proof.
  intros st rk H.
  assert (Hstep : forall a b, child st a b -> nth b rk 0 < nth a rk 0).
  { intros a b Hc. destruct (lt_dec a (length st)) as [Hl|Hl].
    - unfold ranked in H. rewrite forallb_forall in H.
      assert (Hi : In a (seq 0 (length st))) by (apply in_seq; lia).
      specialize (H a Hi). rewrite forallb_forall in H. apply Nat.ltb_lt, H, Hc.
    - unfold child, children, node in Hc. rewrite nth_overflow in Hc by lia. destruct Hc. }
  assert (Htrans : forall a b, clos_trans nat (child st) a b -> nth b rk 0 < nth a rk 0).
  { intros a b Hc. induction Hc as [x y Hxy | x y z _ IH1 _ IH2]; [auto | lia]. }
  intros root n _ Hc. apply Htrans in Hc. lia.
Qed.

Corollary acyclic_check_sound : forall st, acyclic_check st = true -> forall root, acyclic st root.
Proof. intros st H. exact (ranked_acyclic st (ranks st) H). Qed.

(** * (e) NON-VACUITY: the property's own documents *)

Local Open Scope string_scope.

(**  a: &a {x: 1, y: 2}
     b: {<<: *a, x: 9}                                                          *)
Definition ex_merge : store :=
  [ YMap [1; 2; 3; 4]; sc "a"; YMap [5; 6; 7; 8]; sc "b"; YMap [9; 10; 11; 12];
    sc "x"; sc "1"; sc "y"; sc "2"; mg; YAlias 2; sc "x"; sc "9" ].

Example ex_merge_ok :
  let v := GMap [("a", GMap [("x", GStr "1"); ("y", GStr "2")]);
                 ("b", GMap [("y", GStr "2"); ("x", GStr "9")])] in
  acyclic ex_merge 0 /\ decode_yaml ex_merge 0 = DOk v /\ sem_yaml ex_merge 0 = Some v.
Proof.
  split; [apply acyclic_check_sound; vm_compute; reflexivity|].
  split; vm_compute; reflexivity.
Qed.

(**  a: &a {x: 1, y: 2}
     b: &b {y: 3, z: 4}
     c: {<<: [*a, *b], w: 5}                                                    *)
Definition ex_seq : store :=
  [ YMap [1; 2; 3; 4; 5; 6]; sc "a"; YMap [7; 8; 9; 10]; sc "b"; YMap [11; 12; 13; 14];
    sc "c"; YMap [15; 16; 17; 18];
    sc "x"; sc "1"; sc "y"; sc "2"; sc "y"; sc "3"; sc "z"; sc "4";
    mg; YSeq [19; 20]; sc "w"; sc "5"; YAlias 2; YAlias 4 ].

Example ex_seq_ok :
  let v := GMap [("a", GMap [("x", GStr "1"); ("y", GStr "2")]);
                 ("b", GMap [("y", GStr "3"); ("z", GStr "4")]);
                 ("c", GMap [("x", GStr "1"); ("y", GStr "2"); ("z", GStr "4"); ("w", GStr "5")])] in
  acyclic ex_seq 0 /\ decode_yaml ex_seq 0 = DOk v /\ sem_yaml ex_seq 0 = Some v.
Proof.
  split; [apply acyclic_check_sound; vm_compute; reflexivity|].
  split; vm_compute; reflexivity.
Qed.

(**  a: &a {x: 1}
     b: &b {<<: *a, y: 2}
     c: {<<: *b, z: 3}                                                          *)
Definition ex_nested : store :=
  [ YMap [1; 2; 3; 4; 5; 6]; sc "a"; YMap [7; 8]; sc "b"; YMap [9; 10; 11; 12];
    sc "c"; YMap [13; 14; 15; 16];
    sc "x"; sc "1"; mg; YAlias 2; sc "y"; sc "2"; mg; YAlias 4; sc "z"; sc "3" ].

Example ex_nested_ok :
  let v := GMap [("a", GMap [("x", GStr "1")]);
                 ("b", GMap [("x", GStr "1"); ("y", GStr "2")]);
                 ("c", GMap [("x", GStr "1"); ("y", GStr "2"); ("z", GStr "3")])] in
  acyclic ex_nested 0 /\ decode_yaml ex_nested 0 = DOk v /\ sem_yaml ex_nested 0 = Some v.
Proof.
  split; [apply acyclic_check_sound; vm_compute; reflexivity|].
  split; vm_compute; reflexivity.
Qed.

(** the merged short-cut at work: [a] is merged first inside [b] (where its `x`
    is shadowed by [b]'s own `x`), then named again directly and skipped; the
    result is still the prescribed one
     a: &a {x: 1, w: 7}
     b: &b {<<: *a, x: 2}
     c: {<<: [*b, *a], z: 3}                                                    *)
Definition ex_shortcut : store :=
  [ YMap [1; 2; 3; 4; 5; 6]; sc "a"; YMap [7; 8; 9; 10]; sc "b"; YMap [11; 12; 13; 14];
    sc "c"; YMap [15; 16; 17; 18];
    sc "x"; sc "1"; sc "w"; sc "7"; mg; YAlias 2; sc "x"; sc "2";
    mg; YSeq [19; 20]; sc "z"; sc "3"; YAlias 4; YAlias 2 ].

Example ex_shortcut_ok :
  let v := GMap [("a", GMap [("x", GStr "1"); ("w", GStr "7")]);
                 ("b", GMap [("w", GStr "7"); ("x", GStr "2")]);
                 ("c", GMap [("w", GStr "7"); ("x", GStr "2"); ("z", GStr "3")])] in
  acyclic ex_shortcut 0 /\ decode_yaml ex_shortcut 0 = DOk v /\ sem_yaml ex_shortcut 0 = Some v.
Proof.
  split; [apply acyclic_check_sound; vm_compute; reflexivity|].
  split; vm_compute; reflexivity.
Qed.

(** the corollaries of (d) instantiated: mapping [b] of [ex_merge] (node 4) and
    mapping [c] of [ex_seq] (node 6) *)
Example explicit_beats_merged_instance :
  let m := [("y", GStr "2"); ("x", GStr "9")] in
  decode_yaml ex_merge 4 = DOk (GMap m) /\ aget "x" m = Some (GStr "9") /\ map fst m = ["y"; "x"].
Proof.
  intros m. assert (Hd : decode_yaml ex_merge 4 = DOk (GMap m)) by (vm_compute; reflexivity).
  split; [exact Hd|].
  assert (Hac : acyclic ex_merge 4) by (apply acyclic_check_sound; vm_compute; reflexivity).
  split.
  - destruct (explicit_beats_merged ex_merge 4 9 10 [] [11; 12] [] [("x", 12)] [("x", 6); ("y", 8)]
                Hac eq_refl eq_refl eq_refl eq_refl eq_refl m "x" 12 Hd eq_refl) as (x & Hx & Hg).
    rewrite Hg, <- Hx. vm_compute. reflexivity.
  - rewrite (merged_keys_stand_at_merge_position ex_merge 4 9 10 [] [11; 12] [] [("x", 12)] [("x", 6); ("y", 8)]
                Hac eq_refl eq_refl eq_refl eq_refl eq_refl m Hd).
    + vm_compute. reflexivity.
    + vm_compute. repeat constructor; cbn; intuition discriminate.
Qed.

Example earlier_source_beats_later_instance :
  let m := [("x", GStr "1"); ("y", GStr "2"); ("z", GStr "4"); ("w", GStr "5")] in
  decode_yaml ex_seq 6 = DOk (GMap m) /\ aget "y" m = Some (GStr "2").
Proof.
  intros m. assert (Hd : decode_yaml ex_seq 6 = DOk (GMap m)) by (vm_compute; reflexivity).
  split; [exact Hd|].
  assert (Hac : acyclic ex_seq 6) by (apply acyclic_check_sound; vm_compute; reflexivity).
  destruct (earlier_source_beats_later ex_seq 6 15 16 [] [17; 18] [] [("w", 18)]
              [("x", 8); ("y", 10); ("y", 12); ("z", 14)]
              Hac eq_refl eq_refl eq_refl eq_refl eq_refl m "y" 10 [("x", 8)] [("y", 12); ("z", 14)]
              Hd) as (x & Hx & Hg).
  - cbn. intuition discriminate.
  - reflexivity.
  - cbn. intuition discriminate.
  - rewrite Hg, <- Hx. vm_compute. reflexivity.
Qed.

(** the short-cut IS visible below the top level: what a sub-call of [range]
    yields differs from [flat] (here a sequence naming the same source twice
    yields its pairs once, [flat] twice) — only as a merge contribution, i.e.
    after the enclosing mapping's [skip_keys], are they equal ([eqC] in
    [range_sound]).  [decode] calls [range] on mapping nodes only, where
    [merged_shortcut_harmless] gives equality outright.
     [*a, *a]  with  a: &a {x: 1}                                               *)
Example shortcut_visible_below_top_level :
  let st := [YSeq [1; 2]; YAlias 3; YAlias 3; YMap [4; 5]; sc "x"; sc "1"] in
  (exists mg, range (S (length st)) st [] 0 = ROk [("x", 5)] mg) /\
  flat_yaml st 0 = Some [("x", 5); ("x", 5)].
Proof. split; [eexists|]; vm_compute; reflexivity. Qed.

(** the boundary of the domain: a MERGE CYCLE.  The decoder terminates and
    answers (the short-cut cuts the cycle); the specification prescribes nothing
    (the merge would have to contain itself), and the graph is not [acyclic]
     &m {<<: *m, x: v}                                                          *)
Example merge_cycle_outside_domain :
  let st := [YMap [1; 2; 3; 4]; mg; YAlias 0; sc "x"; sc "v"] in
  decode_yaml st 0 = DOk (GMap [("x", GStr "v")]) /\ sem_yaml st 0 = None /\ ~ acyclic st 0.
Proof.
  split; [vm_compute; reflexivity|]. split; [vm_compute; reflexivity|].
  intros H. apply (H 0 (rt_refl _ _ _)).
  apply t_trans with (y := 2); apply t_step; cbv; auto.
Qed.

Print Assumptions merged_shortcut_harmless.
Print Assumptions decode_refines_sem.
Print Assumptions decode_sound_wrt_sem.
Print Assumptions decode_complete_wrt_sem.
Print Assumptions flat_fuel_independent.
Print Assumptions sem_fuel_independent.
Print Assumptions flat_yaml_unfold.
Print Assumptions sem_yaml_unfold.
Print Assumptions one_merge_pairs.
Print Assumptions explicit_beats_merged.
Print Assumptions earlier_source_beats_later.
Print Assumptions merged_keys_stand_at_merge_position.
Print Assumptions ranked_acyclic.
