From Coq Require Import String List Bool Arith.
From GP Require Import Model.Gv Model.YamlGraph Model.Pipeline Model.Marshal.
From GP Require Proofs.PipelineProofs.
Import ListNotations.
Local Open Scope string_scope.
Local Open Scope list_scope.

(** ordered.Map.Set keeps existing keys in place and appends new ones *)
Lemma oset_keys : forall k v l,
  map fst (oset k v l) = if existsb (String.eqb k) (map fst l) then map fst l else map fst l ++ [k].
Proof.
  intros k v l. induction l as [|[k' v'] r IH]; cbn [oset map fst existsb app].
  - reflexivity.
  - destruct (String.eqb_spec k k') as [E|N]; cbn [orb map fst].
    + subst. reflexivity.
    + rewrite IH. destruct (existsb (String.eqb k) (map fst r)); reflexivity.
Qed.

(** first occurrences, in order *)
Fixpoint first_occ (seen : list string) (ks : list string) : list string :=
  match ks with
  | [] => []
  | k :: r => if existsb (String.eqb k) seen then first_occ seen r else k :: first_occ (k :: seen) r
  end.

Lemma existsb_app_single : forall k (l : list string) x,
  existsb (String.eqb k) (l ++ [x]) = existsb (String.eqb k) l || String.eqb k x.
Proof. intros. rewrite existsb_app. cbn. rewrite orb_false_r. reflexivity. Qed.

Lemma first_occ_ext : forall ks s1 s2,
  (forall k, existsb (String.eqb k) s1 = existsb (String.eqb k) s2) -> first_occ s1 ks = first_occ s2 ks.
Proof.
  induction ks as [|k r IH]; intros s1 s2 H; cbn [first_occ]; [reflexivity|].
  rewrite (H k). destruct (existsb (String.eqb k) s2); [apply IH; exact H|].
  f_equal. apply IH. intros k0. cbn [existsb]. rewrite (H k0). reflexivity.
Qed.

(** decoding a mapping: the keys of the result are the yielded keys in first-yield order *)
Theorem oset_fold_keys : forall (ps : list (string * gv)) (acc : list (string * gv)),
  map fst (fold_left (fun m kv => oset (fst kv) (snd kv) m) ps acc)
  = map fst acc ++ first_occ (map fst acc) (map fst ps).
Proof.
  induction ps as [|[k v] r IH]; intros acc; cbn [fold_left map fst first_occ].
  - rewrite app_nil_r. reflexivity.
  - rewrite IH. rewrite oset_keys.
    destruct (existsb (String.eqb k) (map fst acc)) eqn:E.
    + reflexivity.
    + rewrite <- app_assoc. cbn [app]. f_equal. f_equal.
      apply first_occ_ext. intros k0. rewrite existsb_app_single. cbn [existsb].
      rewrite orb_comm. reflexivity.
Qed.

(** the pipeline env block keeps document order through parse and marshal *)
Theorem env_block_parse_order : forall l e w,
  unm_env_block (GMap l) = Ok (Some e) w -> map fst e = map fst l.
Proof.
  intros l e w H. cbn [unm_env_block] in H.
  apply PipelineProofs.bind_ok in H. destruct H as [es [w1 [w2 [M [R _]]]]].
  cbn [ret] in R. inversion R; subst. clear R.
  apply PipelineProofs.mapM_Forall2 in M.
  induction M as [|[k v] [k2 s] r es' [w' Hx] _ IH]; [reflexivity|].
  cbn [map fst]. f_equal; [|exact IH].
  apply PipelineProofs.bind_ok in Hx. destruct Hx as [x [wa [wb [_ [Hr _]]]]].
  cbn [ret fst] in Hr. inversion Hr. reflexivity.
Qed.
Theorem env_block_marshal_order : forall e, map fst (match mj_env_block e with JObj l => l | _ => [] end) = map fst e.
Proof. intros e. unfold mj_env_block. rewrite map_map. reflexivity. Qed.
(** any mapping nested in unknown fields / unknown steps keeps its order in JSON *)
Theorem nested_mapping_order : forall l, match gv_json (GMap l) with JObj m => map fst m = map fst l | _ => False end.
Proof. intros l. cbn [gv_json]. rewrite map_map. reflexivity. Qed.
