From Coq Require Import String List Bool.
From GP Require Import Model.Jwk.
Import ListNotations.
Local Open Scope string_scope.

Definition approved (kty alg : string) : Prop :=
  (kty = "RSA" /\ alg = "PS512") \/ (kty = "EC" /\ alg = "ES512") \/ (kty = "OKP" /\ alg = "EdDSA").

Lemma mem_In : forall x l, mem x l = true <-> In x l.
Proof.
  intros x l; unfold mem; rewrite existsb_exists; split.
  - intros [y [Hy He]]. apply String.eqb_eq in He. subst; assumption.
  - intros H; exists x; split; [assumption | apply String.eqb_refl].
Qed.

Lemma approved_mem : forall kty alg,
  (mem alg valid_signing_algs && mem kty valid_ktys && mem alg (lookup kty valid_algs_for_kty) = true)
  <-> approved kty alg.
Proof.
  intros kty alg; unfold approved; split.
  - intros H. apply andb_prop in H. destruct H as [H H3]. apply andb_prop in H. destruct H as [_ H2].
    apply mem_In in H2. unfold valid_ktys in H2. cbn [In] in H2.
    destruct H2 as [E|[E|[E|[E|[]]]]]; subst kty.
    + change (lookup "RSA" valid_algs_for_kty) with ["PS512"] in H3.
      apply mem_In in H3; cbn [In] in H3; destruct H3 as [E|[]]; subst alg; tauto.
    + change (lookup "EC" valid_algs_for_kty) with ["ES512"] in H3.
      apply mem_In in H3; cbn [In] in H3; destruct H3 as [E|[]]; subst alg; tauto.
    + change (lookup "oct" valid_algs_for_kty) with (@nil string) in H3. discriminate H3.
    + change (lookup "OKP" valid_algs_for_kty) with ["EdDSA"] in H3.
      apply mem_In in H3; cbn [In] in H3; destruct H3 as [E|[]]; subst alg; tauto.
  - intros [[? ?]|[[? ?]|[? ?]]]; subst; vm_compute; reflexivity.
Qed.

Theorem validate_ok_iff : forall k,
  validate k = None <->
  (k_valid k = true /\ k_has_alg k = true /\ k_is_sig k = true /\ approved (k_kty k) (k_alg k)).
Proof.
  intros k. unfold validate. rewrite <- approved_mem.
  destruct (k_valid k), (k_has_alg k), (k_is_sig k); cbn [negb];
    try (split; [discriminate | intros [? [? [? ?]]]; discriminate]).
  destruct (mem (k_alg k) valid_signing_algs); cbn [negb andb];
    [| split; [discriminate | intros [_ [_ [_ H]]]; discriminate]].
  destruct (mem (k_kty k) valid_ktys); cbn [negb andb];
    [| split; [discriminate | intros [_ [_ [_ H]]]; discriminate]].
  destruct (mem (k_alg k) (lookup (k_kty k) valid_algs_for_kty)); cbn [negb];
    [tauto | split; [discriminate | intros [_ [_ [_ H]]]; discriminate]].
Qed.

(** every symmetric key, a missing algorithm, a non-signature algorithm are rejected *)
Theorem validate_rejects_oct : forall k, k_kty k = "oct" -> validate k <> None.
Proof.
  intros k Hk H. apply validate_ok_iff in H. destruct H as [_ [_ [_ A]]].
  unfold approved in A. rewrite Hk in A. destruct A as [[E _]|[[E _]|[E _]]]; discriminate.
Qed.
Theorem validate_rejects_missing_alg : forall k, k_has_alg k = false -> validate k <> None.
Proof. intros k Hk H. apply validate_ok_iff in H. destruct H as [_ [E _]]. congruence. Qed.
Theorem validate_rejects_non_signature : forall k, k_is_sig k = false -> validate k <> None.
Proof. intros k Hk H. apply validate_ok_iff in H. destruct H as [_ [_ [E _]]]. congruence. Qed.

Lemma find_kid_spec : forall id ks n i k,
  find_kid id n ks = Some (i, k) ->
  exists pre post, ks = (pre ++ (id, k) :: post)%list /\ i = n + length pre /\
                   (forall kid' k', In (kid', k') pre -> kid' <> id).
Proof.
  intros id ks; induction ks as [|[kid k0] r IH]; intros n i k H; cbn [find_kid] in H; [discriminate|].
  destruct (String.eqb_spec kid id) as [E|E].
  - inversion H; subst. exists [], r. cbn. split; [reflexivity|]. split; [apply plus_n_O|]. intros ? ? [].
  - apply IH in H. destruct H as [pre [post [H1 [H2 H3]]]]. subst r.
    exists ((kid, k0) :: pre), post. cbn [app length]. split; [reflexivity|]. split.
    + rewrite H2. rewrite <- plus_n_Sm. reflexivity.
    + intros kid' k' [Hin|Hin]; [inversion Hin; subst; assumption | eapply H3; eassumption].
Qed.

Lemma find_kid_none : forall id ks n, find_kid id n ks = None -> forall k, ~ In (id, k) ks.
Proof.
  intros id ks; induction ks as [|[kid k0] r IH]; intros n H k Hin; [contradiction|].
  cbn [find_kid] in H. destruct (String.eqb_spec kid id) as [E|E]; [discriminate|].
  destruct Hin as [Hin|Hin]; [inversion Hin; subst; contradiction | eapply IH; eassumption].
Qed.

(** loading: the key with the requested id (the first one), or the only key; always validated *)
Theorem load_ok_spec : forall ks id n k,
  load ks id = inl (n, k) ->
  validate k = None /\
  ((id = "" /\ exists kid, ks = [(kid, k)] /\ n = 0) \/
   (id <> "" /\ exists pre post, ks = (pre ++ (id, k) :: post)%list /\ n = length pre /\
                  forall kid' k', In (kid', k') pre -> kid' <> id)).
Proof.
  intros ks id n k H. unfold load in H.
  destruct (String.eqb_spec id "") as [E|E].
  - destruct ks as [|[kid k0] [|]]; try discriminate.
    destruct (validate k0) eqn:V; [discriminate|]. inversion H; subst.
    split; [assumption|]. left. split; [reflexivity|]. exists kid. split; reflexivity.
  - destruct (find_kid id 0 ks) as [[i k0]|] eqn:F; [|discriminate].
    destruct (validate k0) eqn:V; [discriminate|]. inversion H; subst.
    split; [assumption|]. right. split; [assumption|].
    apply find_kid_spec in F. destruct F as [pre [post [H1 [H2 H3]]]].
    exists pre, post. split; [assumption|]. split; [assumption|]. assumption.
Qed.

Theorem load_fails_ambiguous : forall ks, length ks <> 1 -> load ks "" = inr LNoKeyID.
Proof.
  intros ks H. unfold load. cbn. destruct ks as [|[kid k0] [|]]; cbn in H; try congruence; reflexivity.
Qed.

Theorem load_fails_absent : forall ks id, id <> "" -> (forall k, ~ In (id, k) ks) -> load ks id = inr LNotFound.
Proof.
  intros ks id Hid H. unfold load. destruct (String.eqb_spec id ""); [contradiction|].
  destruct (find_kid id 0 ks) as [[i k0]|] eqn:F; [|reflexivity].
  apply find_kid_spec in F. destruct F as [pre [post [H1 _]]]. exfalso. apply (H k0). subst ks.
  apply in_or_app. right. left. reflexivity.
Qed.

Theorem load_fails_invalid : forall ks id n k e,
  (id = "" /\ ks = [(fst (hd ("", k) ks), k)] /\ n = 0 \/ id <> "" /\ find_kid id 0 ks = Some (n, k)) ->
  validate k = Some e -> load ks id = inr (LInvalid e).
Proof.
  intros ks id n k e H V. unfold load. destruct H as [[E [Hks _]]|[E F]].
  - subst id. cbn. rewrite Hks. cbn. rewrite V. reflexivity.
  - destruct (String.eqb_spec id ""); [contradiction|]. rewrite F. rewrite V. reflexivity.
Qed.
