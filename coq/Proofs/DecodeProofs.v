(** Proofs about Model/Decode.v: which input key each struct field consumes and
    what is left over for the inline catch-all field. *)
From Coq Require Import String List Ascii Bool Arith ZArith Lia Permutation.
From GP Require Import Model.Gv Model.Decode Gen.Structs.
Import ListNotations.
Local Open Scope string_scope.
Local Open Scope list_scope. (* so that ++ is list append, not String.append *)

(* the keys a keyed field can answer to: its primary key and its non-empty aliases *)
Definition field_keys (r : field_row) : list string :=
  primary_key r :: filter (fun a => negb (String.eqb a "")) (split_comma (row_aliases r)).
Definition keyed (fields : list field_row) : list field_row :=
  filter (fun r => match classify r with FKeyed => true | _ => false end) fields.
(* no key string is usable by two different fields (position-wise), nor twice by one field *)
Definition keys_disjoint (fields : list field_row) : Prop :=
  NoDup (concat (map field_keys (keyed fields))).

Definition consumed (p : partition) : list string := map (fun a => snd (fst a)) (assigned p).

(** * Generic list / association-list facts *)

Lemma aget_In : forall (m : list (string * gv)) k v, aget k m = Some v -> In (k, v) m.
Proof.
  induction m as [|[k' v'] m IH]; intros k v H; simpl in H.
  - discriminate.
  - destruct (String.eqb_spec k k') as [E|E].
    + inversion H; subst. left; reflexivity.
    + right. apply IH. exact H.
Qed.

Lemma aget_In_keys : forall (m : list (string * gv)) k v, aget k m = Some v -> In k (map fst m).
Proof.
  intros m k v H. apply aget_In in H.
  apply in_map_iff. exists (k, v). split; [reflexivity|exact H].
Qed.

Lemma existsb_eqb_In : forall x c, existsb (String.eqb x) c = true <-> In x c.
Proof.
  intros x c. rewrite existsb_exists. split.
  - intros (y & Hy & E). apply String.eqb_eq in E. subst. exact Hy.
  - intros H. exists x. split; [exact H|apply String.eqb_refl].
Qed.

Lemma NoDup_app_inv : forall (a b : list string),
  NoDup (a ++ b) -> NoDup b /\ forall x, In x a -> ~ In x b.
Proof.
  induction a as [|y a IH]; intros b H.
  - split; [exact H|intros x []].
  - rewrite <- app_comm_cons in H. inversion H as [|? ? Hn Hd]; subst.
    destruct (IH _ Hd) as [Hb Hx]. split; [exact Hb|].
    intros x [<-|Hi].
    + intro Hin. apply Hn. apply in_or_app. right. exact Hin.
    + apply Hx. exact Hi.
Qed.

Lemma filter_split_perm : forall (f : string -> bool) l,
  Permutation l (filter f l ++ filter (fun x => negb (f x)) l).
Proof.
  intros f. induction l as [|x l IH].
  - constructor.
  - cbn [filter]. destruct (f x); cbn [negb].
    + rewrite <- app_comm_cons. constructor. exact IH.
    + apply Permutation_cons_app. exact IH.
Qed.

Lemma split_perm : forall (c l : list string),
  NoDup l -> NoDup c -> incl c l ->
  Permutation l (c ++ filter (fun x => negb (existsb (String.eqb x) c)) l).
Proof.
  intros c l Hl Hc Hi.
  eapply perm_trans; [apply (filter_split_perm (fun x => existsb (String.eqb x) c))|].
  apply Permutation_app_tail.
  apply NoDup_Permutation.
  - apply NoDup_filter. exact Hl.
  - exact Hc.
  - intros x. rewrite filter_In. rewrite existsb_eqb_In. split.
    + intros [_ H]. exact H.
    + intros H. split; [apply Hi; exact H|exact H].
Qed.

Lemma map_fst_filter : forall (f : string -> bool) (m : list (string * gv)),
  map fst (filter (fun kv => f (fst kv)) m) = filter f (map fst m).
Proof.
  intros f. induction m as [|a m IH].
  - reflexivity.
  - cbn [filter map]. destruct (f (fst a)); cbn [map]; rewrite IH; reflexivity.
Qed.

(** * first_alias / field_lookup *)

(* the first present alias, in alias-list order *)
Theorem first_alias_spec : forall aliases m k v,
  first_alias aliases m = Some (k, v) ->
  exists pre post, aliases = pre ++ k :: post /\ k <> "" /\ aget k m = Some v /\
                   forall a, In a pre -> a = "" \/ aget a m = None.
Proof.
  induction aliases as [|a r IH]; intros m k v H; cbn [first_alias] in H.
  - discriminate.
  - destruct (String.eqb_spec a "") as [E|E].
    + destruct (IH _ _ _ H) as (pre & post & Ea & Hk & Hg & Hp).
      exists (a :: pre), post.
      split; [rewrite Ea; reflexivity|]. split; [exact Hk|]. split; [exact Hg|].
      intros x [<-|Hx]; [left; exact E|apply Hp; exact Hx].
    + destruct (aget a m) as [va|] eqn:Eg.
      * inversion H; subst. exists [], r.
        split; [reflexivity|]. split; [exact E|]. split; [exact Eg|].
        intros x [].
      * destruct (IH _ _ _ H) as (pre & post & Ea & Hk & Hg & Hp).
        exists (a :: pre), post.
        split; [rewrite Ea; reflexivity|]. split; [exact Hk|]. split; [exact Hg|].
        intros x [<-|Hx]; [right; exact Eg|apply Hp; exact Hx].
Qed.

Lemma field_lookup_spec : forall r m k v,
  field_lookup r m = Some (k, v) ->
  In k (field_keys r) /\ aget k m = Some v /\
  (k = primary_key r \/
   (aget (primary_key r) m = None /\ first_alias (split_comma (row_aliases r)) m = Some (k, v))).
Proof.
  intros r m k v H. unfold field_lookup in H.
  destruct (aget (primary_key r) m) as [pv|] eqn:Ep.
  - inversion H; subst.
    split; [unfold field_keys; left; reflexivity|].
    split; [exact Ep|left; reflexivity].
  - destruct (first_alias_spec _ _ _ _ H) as (pre & post & Ea & Hk & Hg & _).
    split.
    + unfold field_keys. right. apply filter_In. split.
      * rewrite Ea. apply in_or_app. right. left. reflexivity.
      * destruct (String.eqb_spec k ""); [contradiction|reflexivity].
    + split; [exact Hg|]. right. split; [reflexivity|exact H].
Qed.

(** * assign_fields *)

Definition asg (fields : list field_row) (m : list (string * gv)) : list (field_row * string * gv) :=
  fst (fst (assign_fields fields m)).

Lemma asg_nil : forall m, asg [] m = [].
Proof. reflexivity. Qed.

Lemma asg_cons : forall r rest m,
  asg (r :: rest) m =
  match classify r with
  | FKeyed => match field_lookup r m with
              | Some (k, v) => (r, k, v) :: asg rest m
              | None => asg rest m
              end
  | _ => asg rest m
  end.
Proof.
  intros r rest m. unfold asg. cbn [assign_fields].
  destruct (assign_fields rest m) as [[a i] mu].
  destruct (classify r); try reflexivity.
  destruct (field_lookup r m) as [[k v]|]; reflexivity.
Qed.

Lemma partition_assigned : forall fields m, assigned (partition_keys fields m) = asg fields m.
Proof.
  intros fields m. unfold partition_keys, asg.
  destruct (assign_fields fields m) as [[a i] mu]. reflexivity.
Qed.

Lemma partition_leftover : forall fields m,
  leftover (partition_keys fields m) =
  filter (fun kv => negb (existsb (String.eqb (fst kv))
                            (map (fun a => snd (fst a)) (asg fields m)))) m.
Proof.
  intros fields m. unfold partition_keys, asg.
  destruct (assign_fields fields m) as [[a i] mu]. reflexivity.
Qed.

Lemma asg_In : forall fields m r k v,
  In (r, k, v) (asg fields m) <->
  In r fields /\ classify r = FKeyed /\ field_lookup r m = Some (k, v).
Proof.
  induction fields as [|r0 rest IH]; intros m r k v.
  - rewrite asg_nil. split; [intros []|intros [[] _]].
  - rewrite asg_cons. destruct (classify r0) eqn:Ec.
    + rewrite IH. split.
      * intros (Hi & Hc & Hl). split; [right; exact Hi|split; assumption].
      * intros ([<-|Hi] & Hc & Hl); [congruence|]. split; [exact Hi|split; assumption].
    + rewrite IH. split.
      * intros (Hi & Hc & Hl). split; [right; exact Hi|split; assumption].
      * intros ([<-|Hi] & Hc & Hl); [congruence|]. split; [exact Hi|split; assumption].
    + destruct (field_lookup r0 m) as [[k0 v0]|] eqn:El.
      * split.
        -- intros [E|H].
           ++ inversion E; subst. split; [left; reflexivity|split; assumption].
           ++ apply IH in H. destruct H as (Hi & Hc & Hl).
              split; [right; exact Hi|split; assumption].
        -- intros ([<-|Hi] & Hc & Hl).
           ++ left. congruence.
           ++ right. apply IH. split; [exact Hi|split; assumption].
      * rewrite IH. split.
        -- intros (Hi & Hc & Hl). split; [right; exact Hi|split; assumption].
        -- intros ([<-|Hi] & Hc & Hl); [congruence|]. split; [exact Hi|split; assumption].
Qed.

(** * keyed *)

Lemma keyed_cons_keyed : forall r rest, classify r = FKeyed -> keyed (r :: rest) = r :: keyed rest.
Proof. intros r rest H. unfold keyed. cbn [filter]. rewrite H. reflexivity. Qed.

Lemma keyed_cons_other : forall r rest, classify r <> FKeyed -> keyed (r :: rest) = keyed rest.
Proof.
  intros r rest H. unfold keyed. cbn [filter].
  destruct (classify r); try reflexivity. contradiction H; reflexivity.
Qed.

Lemma keyed_In : forall fields r, In r (keyed fields) <-> In r fields /\ classify r = FKeyed.
Proof.
  intros fields r. unfold keyed. rewrite filter_In. split.
  - intros [Hi Hc]. split; [exact Hi|]. destruct (classify r); try discriminate. reflexivity.
  - intros [Hi Hc]. split; [exact Hi|]. rewrite Hc. reflexivity.
Qed.

Lemma consumed_in_keys : forall fields m k,
  In k (map (fun a => snd (fst a)) (asg fields m)) ->
  (exists r, In r (keyed fields) /\ In k (field_keys r)) /\ In k (map fst m).
Proof.
  intros fields m k H. apply in_map_iff in H. destruct H as ([[r k'] v] & E & Hin).
  cbn [fst snd] in E. subst k'.
  apply asg_In in Hin. destruct Hin as (Hi & Hc & Hl).
  apply field_lookup_spec in Hl. destruct Hl as (Hk & Hg & _).
  split.
  - exists r. split; [apply keyed_In; split; assumption|exact Hk].
  - eapply aget_In_keys. exact Hg.
Qed.

Lemma consumed_in_concat : forall fields m k,
  In k (map (fun a => snd (fst a)) (asg fields m)) ->
  In k (concat (map field_keys (keyed fields))).
Proof.
  intros fields m k H. apply consumed_in_keys in H. destruct H as [(r & Hr & Hk) _].
  apply in_concat. exists (field_keys r). split; [|exact Hk].
  apply in_map. exact Hr.
Qed.

Lemma consumed_NoDup : forall fields m,
  keys_disjoint fields -> NoDup (map (fun a => snd (fst a)) (asg fields m)).
Proof.
  unfold keys_disjoint.
  induction fields as [|r0 rest IH]; intros m H.
  - rewrite asg_nil. constructor.
  - rewrite asg_cons. destruct (classify r0) eqn:Ec.
    + apply IH. rewrite keyed_cons_other in H; [exact H|congruence].
    + apply IH. rewrite keyed_cons_other in H; [exact H|congruence].
    + rewrite (keyed_cons_keyed _ _ Ec), map_cons, concat_cons in H.
      apply NoDup_app_inv in H. destruct H as [Hrest Hdis].
      destruct (field_lookup r0 m) as [[k0 v0]|] eqn:El.
      * cbn [map fst snd]. constructor; [|apply IH; exact Hrest].
        intros Hin. apply consumed_in_concat in Hin.
        apply field_lookup_spec in El. destruct El as (Hk & _ & _).
        exact (Hdis _ Hk Hin).
      * apply IH. exact Hrest.
Qed.

(** * Main theorems *)

(* leftover keeps document order and the values *)
Theorem leftover_spec : forall fields m,
  leftover (partition_keys fields m) =
  filter (fun kv => negb (existsb (String.eqb (fst kv)) (consumed (partition_keys fields m)))) m.
Proof.
  intros fields m. rewrite partition_leftover. unfold consumed.
  rewrite partition_assigned. reflexivity.
Qed.

(* each input key is consumed by exactly one place *)
Theorem partition_exact : forall fields m,
  NoDup (map fst m) -> keys_disjoint fields ->
  let p := partition_keys fields m in
  Permutation (map fst m) (consumed p ++ map fst (leftover p)) /\
  NoDup (consumed p ++ map fst (leftover p)).
Proof.
  intros fields m Hm Hd p. subst p.
  rewrite leftover_spec.
  remember (consumed (partition_keys fields m)) as c eqn:Ec.
  assert (Hc : NoDup c).
  { subst c. unfold consumed. rewrite partition_assigned. apply consumed_NoDup. exact Hd. }
  assert (Hi : incl c (map fst m)).
  { subst c. unfold consumed. rewrite partition_assigned. intros k Hk.
    apply consumed_in_keys in Hk. destruct Hk as [_ Hk]. exact Hk. }
  pose proof (map_fst_filter (fun x => negb (existsb (String.eqb x) c)) m) as E.
  cbv beta in E. rewrite E.
  assert (P : Permutation (map fst m)
                (c ++ filter (fun x => negb (existsb (String.eqb x) c)) (map fst m))).
  { apply split_perm; assumption. }
  split; [exact P|]. eapply Permutation_NoDup; [exact P|exact Hm].
Qed.

(* the matching rule *)
Theorem match_rule : forall fields m r k v,
  In (r, k, v) (assigned (partition_keys fields m)) ->
  In r fields /\ classify r = FKeyed /\ aget k m = Some v /\
  (k = primary_key r \/
   (aget (primary_key r) m = None /\ first_alias (split_comma (row_aliases r)) m = Some (k, v))).
Proof.
  intros fields m r k v H. rewrite partition_assigned in H.
  apply asg_In in H. destruct H as (Hi & Hc & Hl).
  apply field_lookup_spec in Hl. destruct Hl as (_ & Hg & Hr).
  split; [exact Hi|]. split; [exact Hc|]. split; [exact Hg|exact Hr].
Qed.

Theorem assigned_complete : forall fields m r k v,
  In r fields -> classify r = FKeyed -> field_lookup r m = Some (k, v) ->
  In (r, k, v) (assigned (partition_keys fields m)).
Proof.
  intros fields m r k v Hi Hc Hl. rewrite partition_assigned.
  apply asg_In. split; [exact Hi|split; assumption].
Qed.

(* absent keys leave the field untouched *)
Theorem absent_untouched : forall fields m r,
  (forall k, In k (field_keys r) -> aget k m = None) ->
  forall k v, ~ In (r, k, v) (assigned (partition_keys fields m)).
Proof.
  intros fields m r Habs k v H. rewrite partition_assigned in H.
  apply asg_In in H. destruct H as (_ & _ & Hl).
  apply field_lookup_spec in Hl. destruct Hl as (Hk & Hg & _).
  rewrite (Habs _ Hk) in Hg. discriminate.
Qed.

Theorem leftover_sublist : forall fields m k v,
  In (k, v) (leftover (partition_keys fields m)) ->
  In (k, v) m /\ ~ In k (consumed (partition_keys fields m)).
Proof.
  intros fields m k v H. rewrite leftover_spec in H.
  apply filter_In in H. destruct H as [Hin Hb]. cbn [fst] in Hb.
  split; [exact Hin|]. intros Hc. apply existsb_eqb_In in Hc.
  rewrite Hc in Hb. discriminate.
Qed.

(* a key no field answers to always ends in the leftover *)
Theorem unknown_key_leftover : forall fields m k v,
  In (k, v) m -> (forall r, In r (keyed fields) -> ~ In k (field_keys r)) ->
  In (k, v) (leftover (partition_keys fields m)).
Proof.
  intros fields m k v Hin Hno. rewrite leftover_spec.
  apply filter_In. split; [exact Hin|]. cbn [fst].
  destruct (existsb (String.eqb k) (consumed (partition_keys fields m))) eqn:Eb; [|reflexivity].
  exfalso. apply existsb_eqb_In in Eb. unfold consumed in Eb.
  rewrite partition_assigned in Eb. apply consumed_in_keys in Eb.
  destruct Eb as [(r & Hr & Hk) _]. exact (Hno _ Hr Hk).
Qed.

(* the inline field is the (last) field tagged ",inline"; "-" and unexported fields are never assigned *)
Theorem skipped_never_assigned : forall fields m r k v,
  classify r <> FKeyed -> ~ In (r, k, v) (assigned (partition_keys fields m)).
Proof.
  intros fields m r k v Hc H. rewrite partition_assigned in H.
  apply asg_In in H. destruct H as (_ & Hc' & _). contradiction.
Qed.

(** * The library's descriptors *)

(* the generated descriptors used by the library satisfy the hypothesis (decided by computation) *)
Definition nodupb (l : list string) : bool :=
  (fix go (l : list string) : bool :=
     match l with [] => true | x :: r => negb (existsb (String.eqb x) r) && go r end) l.

Lemma nodupb_sound : forall l, nodupb l = true -> NoDup l.
Proof.
  induction l as [|x l IH]; intros H.
  - constructor.
  - unfold nodupb in H. apply andb_true_iff in H. destruct H as [H1 H2].
    constructor.
    + intros Hin. apply existsb_eqb_In in Hin. rewrite Hin in H1. discriminate.
    + apply IH. exact H2.
Qed.

Theorem library_structs_disjoint :
  keys_disjoint struct_Pipeline /\ keys_disjoint struct_CommandStep /\
  keys_disjoint struct_CommandStep_UnmarshalOrdered_anon0 /\ keys_disjoint struct_GroupStep /\
  keys_disjoint struct_Matrix /\ keys_disjoint struct_MatrixAdjustment /\ keys_disjoint struct_Cache /\
  keys_disjoint struct_Signature.
Proof.
  unfold keys_disjoint.
  repeat match goal with |- _ /\ _ => split end;
    (apply nodupb_sound; vm_compute; reflexivity).
Qed.

(* non-vacuity: the command-step descriptor on a document using an alias and an unknown key *)
Example partition_example :
  let p := partition_keys struct_CommandStep
             [("id", GStr "k1"); ("zzz", GInt 1%Z); ("label", GStr "L"); ("name", GStr "N")] in
  consumed p = ["id"; "label"] /\ map fst (leftover p) = ["zzz"; "name"].
Proof. vm_compute. repeat split; reflexivity. Qed.

Print Assumptions partition_exact.
Print Assumptions library_structs_disjoint.
