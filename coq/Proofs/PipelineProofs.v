(** Proofs about the parse side (Model/Pipeline.v): totality up to fuel, one step
    per input entry, unknown steps hold their input verbatim and are all counted
    in the warning, and a usable result marshals when the document is finite. *)
From Coq Require Import String List Ascii Bool Arith Lia ZArith.
From GP Require Import Base.Sexp Model.Gv Model.Decode Model.Kinds Model.Pipeline Model.Marshal Gen.Structs.
Import ListNotations.
Local Open Scope string_scope.

Fixpoint count_unknown_step (s : step) : nat :=
  match s with
  | SUnknown _ => 1
  | SGroup _ _ ss _ => fold_right (fun x a => count_unknown_step x + a) 0 ss
  | _ => 0
  end.
Definition count_unknown (l : list step) : nat := fold_right (fun x a => count_unknown_step x + a) 0 l.

(** ---------------------------------------------------------------- the res monad *)

Lemma bind_ok : forall {T U} (r : res T) (f : T -> res U) y w,
  bind r f = Ok y w -> exists x w1 w2, r = Ok x w1 /\ f x = Ok y w2 /\ w = w1 + w2.
Proof.
  intros T U r f y w H. unfold bind in H.
  destruct r as [x w1|]; [|discriminate].
  destruct (f x) as [y' w2|] eqn:E; [|discriminate].
  inversion H; subst. exists x, w1, w2. auto.
Qed.

Lemma mapM_cons_ok : forall {T U} (f : T -> res U) x r ys w,
  mapM f (x :: r) = Ok ys w ->
  exists y w1 ys' w2, f x = Ok y w1 /\ mapM f r = Ok ys' w2 /\ ys = y :: ys' /\ w = w1 + w2.
Proof.
  intros T U f x r ys w H. cbn [mapM] in H.
  apply bind_ok in H. destruct H as [y [w1 [w2 [H1 [H2 Hw]]]]].
  apply bind_ok in H2. destruct H2 as [ys' [w3 [w4 [H3 [H4 Hw']]]]].
  unfold ret in H4. inversion H4; subst.
  exists y, w1, ys', w3. repeat split; auto; try lia.
Qed.

Lemma mapM_length : forall {T U} (f : T -> res U) l ys w,
  mapM f l = Ok ys w -> length ys = length l.
Proof.
  intros T U f l; induction l as [|x r IH]; intros ys w H.
  - cbn in H. inversion H; reflexivity.
  - apply mapM_cons_ok in H. destruct H as [y [w1 [ys' [w2 [H1 [H2 [Hy Hw]]]]]]].
    subst. cbn [length]. f_equal. eapply IH; eassumption.
Qed.

Lemma mapM_Forall2 : forall {T U} (f : T -> res U) l ys w,
  mapM f l = Ok ys w -> Forall2 (fun x y => exists w', f x = Ok y w') l ys.
Proof.
  intros T U f l; induction l as [|x r IH]; intros ys w H.
  - cbn in H. inversion H; constructor.
  - apply mapM_cons_ok in H. destruct H as [y [w1 [ys' [w2 [H1 [H2 [Hy Hw]]]]]]].
    subst. constructor; [exists w1; assumption | eapply IH; eassumption].
Qed.

Lemma mapM_ext : forall {T U} (f g : T -> res U) l,
  (forall x, In x l -> f x = g x) -> mapM f l = mapM g l.
Proof.
  intros T U f g l; induction l as [|x r IH]; intros H; [reflexivity|].
  cbn [mapM]. rewrite (H x (or_introl eq_refl)). rewrite IH; [reflexivity|].
  intros y Hy; apply H; right; assumption.
Qed.

Lemma mapM_count : forall {T U} (f : T -> res U) (c : U -> nat) l ys w,
  (forall x y w', In x l -> f x = Ok y w' -> w' = c y) ->
  mapM f l = Ok ys w -> w = fold_right (fun y a => c y + a) 0 ys.
Proof.
  intros T U f c l; induction l as [|x r IH]; intros ys w Hc H.
  - cbn in H. inversion H; reflexivity.
  - apply mapM_cons_ok in H. destruct H as [y [w1 [ys' [w2 [H1 [H2 [Hy Hw]]]]]]].
    subst. cbn [fold_right]. f_equal.
    + eapply Hc; [left; reflexivity | eassumption].
    + eapply IH; [|eassumption]. intros; eapply Hc; [right|]; eassumption.
Qed.

(** ---------------------------------------------------------------- unfolding the step fixpoints *)

Definition group_body (rec : gv -> res (list step)) (m : list (string * gv)) : res step :=
  let p := partition_keys struct_GroupStep m in
  do k <- opt_field "Key" p "" unm_string;
  do gr <- match field "Group" p with
           | Some GNull => ret None
           | Some v => do s <- unm_string v; ret (Some s)
           | None => ret None
           end;
  do ss <- opt_field "Steps" p [] rec;
  ret (SGroup k gr ss (leftover p)).

Definition typed_body (rec : gv -> res (list step)) (m : list (string * gv)) (k : kind) : res step :=
  match k with
  | KUnknown _ => warn1 (SUnknown (GMap m))
  | KCommand => match unm_command m with Ok c w => Ok (SCommand c) w | Err => warn1 (SUnknown (GMap m)) end
  | KWait => ret (SWait "" m)
  | KInput => ret (SInput "" m)
  | KTrigger => ret (STrigger m)
  | KGroup => match group_body rec m with Ok st w => Ok st w | Err => warn1 (SUnknown (GMap m)) end
  end.

Definition step_body (rec : gv -> res (list step)) (g : gv) : res step :=
  match g with
  | GStr s =>
      match kind_of_scalar s with
      | KWait => ret (SWait s [])
      | KInput => ret (SInput s [])
      | _ => warn1 (SUnknown (GStr s))
      end
  | GMap m =>
      match aget "type" m with
      | Some (GStr t) => typed_body rec m (kind_by_type t)
      | Some _ => Err
      | None => typed_body rec m (kind_by_keys (map fst m))
      end
  | _ => Err
  end.

Lemma unm_steps_S : forall f g,
  unm_steps (S f) g = match g with GNull => ret [] | GSeq l => mapM (unm_step f) l | _ => Err end.
Proof. reflexivity. Qed.

Lemma unm_step_S : forall f g, unm_step (S f) g = step_body (unm_steps f) g.
Proof. reflexivity. Qed.

Lemma unm_steps_0 : forall g, unm_steps 0 g = Err.
Proof. reflexivity. Qed.
Lemma unm_step_0 : forall g, unm_step 0 g = Err.
Proof. reflexivity. Qed.

(** ---------------------------------------------------------------- one step per entry *)

Theorem steps_one_per_entry : forall f l ss w, unm_steps f (GSeq l) = Ok ss w -> length ss = length l.
Proof.
  intros [|f] l ss w H; [discriminate|].
  rewrite unm_steps_S in H. eapply mapM_length; eassumption.
Qed.

Theorem steps_pointwise : forall f l ss w, unm_steps (S f) (GSeq l) = Ok ss w ->
  Forall2 (fun g s => exists w', unm_step f g = Ok s w') l ss.
Proof.
  intros f l ss w H. rewrite unm_steps_S in H. eapply mapM_Forall2; eassumption.
Qed.

(** ---------------------------------------------------------------- decoders that never warn *)

Definition zero_w {T} (r : res T) : Prop := match r with Ok _ w => w = 0 | Err => True end.

Lemma zero_ret : forall {T} (x : T), zero_w (ret x).
Proof. intros; reflexivity. Qed.

Lemma zero_bind : forall {T U} (r : res T) (f : T -> res U),
  zero_w r -> (forall x, zero_w (f x)) -> zero_w (bind r f).
Proof.
  intros T U r f Hr Hf. unfold bind. destruct r as [x w|]; [|exact I].
  specialize (Hf x). destruct (f x) as [y w'|]; [|exact I].
  cbn in *. subst. reflexivity.
Qed.

Lemma zero_mapM : forall {T U} (f : T -> res U) l, (forall x, zero_w (f x)) -> zero_w (mapM f l).
Proof.
  intros T U f l H; induction l as [|x r IH]; cbn [mapM]; [apply zero_ret|].
  apply zero_bind; [apply H|intro y]. apply zero_bind; [apply IH|intro ys]. apply zero_ret.
Qed.

Lemma zero_opt_field : forall {T} name p (d : T) f, (forall v, zero_w (f v)) -> zero_w (opt_field name p d f).
Proof. intros T name p d f H. unfold opt_field. destruct (field name p); [apply H|apply zero_ret]. Qed.

Lemma zero_ok : forall {T} (r : res T) x w, zero_w r -> r = Ok x w -> w = 0.
Proof. intros T r x w H E. rewrite E in H. exact H. Qed.

Ltac zw_step :=
  first
    [ match goal with
      | |- zero_w Err => exact I
      | |- zero_w (ret _) => apply zero_ret
      | |- zero_w (bind _ _) => apply zero_bind; [|intro]
      | |- zero_w (opt_field _ _ _ _) => apply zero_opt_field; intro
      | |- zero_w (mapM _ _) => apply zero_mapM; intro
      | |- zero_w (match ?x with _ => _ end) => destruct x
      end ].
Ltac zw := repeat zw_step.

Lemma zero_unm_string : forall g, zero_w (unm_string g).
Proof. intro g. unfold unm_string. zw. Qed.

Lemma zero_unm_strings : forall g, zero_w (unm_strings g).
Proof. intro g. unfold unm_strings. zw; apply zero_unm_string. Qed.

Lemma zero_unm_map_ss : forall g, zero_w (unm_map_ss g).
Proof. intro g. unfold unm_map_ss. zw; apply zero_unm_string. Qed.

Lemma zero_unm_bool : forall g, zero_w (unm_bool g).
Proof. intro g. unfold unm_bool. zw. Qed.

Lemma zero_unm_sig : forall g, zero_w (unm_sig g).
Proof.
  intro g. unfold unm_sig. cbv zeta.
  zw; first [apply zero_unm_string | apply zero_unm_strings].
Qed.

Lemma zero_unm_plugins : forall g, zero_w (unm_plugins g).
Proof. intro g. unfold unm_plugins. zw. Qed.

Lemma zero_unm_with : forall g, zero_w (unm_with g).
Proof. intro g. unfold unm_with. zw. Qed.

Lemma zero_unm_adj : forall g, zero_w (unm_adj g).
Proof. intro g. unfold unm_adj. cbv zeta. zw; apply zero_unm_with. Qed.

Lemma zero_unm_adjs : forall g, zero_w (unm_adjs g).
Proof. intro g. unfold unm_adjs. zw; apply zero_unm_adj. Qed.

Lemma zero_unm_setup : forall g, zero_w (unm_setup g).
Proof. intro g. unfold unm_setup. zw; first [apply zero_unm_string | apply zero_unm_strings]. Qed.

Lemma zero_unm_matrix : forall g, zero_w (unm_matrix g).
Proof.
  intro g. unfold unm_matrix. cbv zeta.
  zw; first [apply zero_unm_string | apply zero_unm_setup | apply zero_unm_adjs].
Qed.

Lemma zero_unm_cache : forall g, zero_w (unm_cache g).
Proof.
  intro g. unfold unm_cache. cbv zeta.
  zw; first [apply zero_unm_string | apply zero_unm_strings | apply zero_unm_bool].
Qed.

Lemma zero_unm_command : forall m, zero_w (unm_command m).
Proof.
  intro m. unfold unm_command. cbv zeta.
  zw; first [apply zero_unm_string | apply zero_unm_strings | apply zero_unm_plugins
            | apply zero_unm_map_ss | apply zero_unm_sig | apply zero_unm_matrix | apply zero_unm_cache].
Qed.

Lemma zero_unm_env_block : forall g, zero_w (unm_env_block g).
Proof. intro g. unfold unm_env_block. zw; apply zero_unm_string. Qed.

(** ---------------------------------------------------------------- inversion of a step *)

Lemma group_body_inv : forall rec m st w, group_body rec m = Ok st w ->
  exists k gr ss,
    st = SGroup k gr ss (leftover (partition_keys struct_GroupStep m)) /\
    match field "Steps" (partition_keys struct_GroupStep m) with
    | Some v => rec v = Ok ss w
    | None => ss = [] /\ w = 0
    end.
Proof.
  intros rec m st w H. unfold group_body in H. cbv zeta in H.
  set (p := partition_keys struct_GroupStep m) in *.
  apply bind_ok in H. destruct H as [k [w1 [w2 [H1 [H2 Hw]]]]].
  apply bind_ok in H2. destruct H2 as [gr [w3 [w4 [H3 [H4 Hw']]]]].
  apply bind_ok in H4. destruct H4 as [ss [w5 [w6 [H5 [H6 Hw'']]]]].
  unfold ret in H6. inversion H6; subst st w6. clear H6.
  assert (E1 : w1 = 0).
  { eapply zero_ok; [|exact H1]. apply zero_opt_field; intro; apply zero_unm_string. }
  assert (E3 : w3 = 0).
  { eapply zero_ok; [|exact H3]. zw; apply zero_unm_string. }
  assert (Ew : w = w5) by lia. clear Hw Hw' Hw''. subst w.
  exists k, gr, ss. split; [reflexivity|].
  unfold opt_field in H5. destruct (field "Steps" p); [assumption|].
  unfold ret in H5. inversion H5; auto.
Qed.

Inductive typed_shape (rec : gv -> res (list step)) (m : list (string * gv)) (k : kind) (s : step) (w : nat) : Prop :=
| TSFallback : s = SUnknown (GMap m) -> w = 1 -> typed_shape rec m k s w
| TSCommand : forall c, k = KCommand -> unm_command m = Ok c 0 -> s = SCommand c -> w = 0 -> typed_shape rec m k s w
| TSWait : k = KWait -> s = SWait "" m -> w = 0 -> typed_shape rec m k s w
| TSInput : k = KInput -> s = SInput "" m -> w = 0 -> typed_shape rec m k s w
| TSTrigger : k = KTrigger -> s = STrigger m -> w = 0 -> typed_shape rec m k s w
| TSGroup : forall key gr ss,
    k = KGroup ->
    s = SGroup key gr ss (leftover (partition_keys struct_GroupStep m)) ->
    match field "Steps" (partition_keys struct_GroupStep m) with
    | Some v => rec v = Ok ss w
    | None => ss = [] /\ w = 0
    end -> typed_shape rec m k s w.

Lemma typed_body_inv : forall rec m k s w, typed_body rec m k = Ok s w -> typed_shape rec m k s w.
Proof.
  intros rec m k s w H. unfold typed_body in H.
  destruct k.
  - destruct (unm_command m) as [c w'|] eqn:E.
    + inversion H; subst. assert (w = 0) by (eapply zero_ok; [apply zero_unm_command|exact E]). subst.
      eapply TSCommand; eauto.
    + inversion H; subst. apply TSFallback; reflexivity.
  - inversion H; subst. apply TSWait; reflexivity.
  - inversion H; subst. apply TSInput; reflexivity.
  - inversion H; subst. apply TSTrigger; reflexivity.
  - destruct (group_body rec m) as [st w'|] eqn:E.
    + inversion H; subst. apply group_body_inv in E. destruct E as [key [gr [ss [E1 E2]]]].
      eapply TSGroup; eauto.
    + inversion H; subst. apply TSFallback; reflexivity.
  - inversion H; subst. apply TSFallback; reflexivity.
Qed.

Inductive step_shape (rec : gv -> res (list step)) (g : gv) (s : step) (w : nat) : Prop :=
| SSWait : forall str, g = GStr str -> kind_of_scalar str = KWait -> s = SWait str [] -> w = 0 -> step_shape rec g s w
| SSInput : forall str, g = GStr str -> kind_of_scalar str = KInput -> s = SInput str [] -> w = 0 -> step_shape rec g s w
| SSUnknown : forall str, g = GStr str -> s = SUnknown g -> w = 1 -> step_shape rec g s w
| SSTyped : forall m t, g = GMap m -> aget "type" m = Some (GStr t) ->
    typed_shape rec m (kind_by_type t) s w -> step_shape rec g s w
| SSKeys : forall m, g = GMap m -> aget "type" m = None ->
    typed_shape rec m (kind_by_keys (map fst m)) s w -> step_shape rec g s w.

Lemma step_body_inv : forall rec g s w, step_body rec g = Ok s w -> step_shape rec g s w.
Proof.
  intros rec g s w H. unfold step_body in H.
  destruct g; try discriminate.
  - destruct (kind_of_scalar s0) eqn:E; inversion H; subst;
      first [ eapply SSWait; eauto; fail | eapply SSInput; eauto; fail | eapply SSUnknown; eauto ].
  - destruct (aget "type" l) as [v|] eqn:E.
    + destruct v; try discriminate. eapply SSTyped; eauto. apply typed_body_inv; assumption.
    + eapply SSKeys; eauto. apply typed_body_inv; assumption.
Qed.

(** ---------------------------------------------------------------- unknown steps, warnings *)

Theorem unknown_verbatim : forall f g c w, unm_step f g = Ok (SUnknown c) w -> c = g /\ w = 1.
Proof.
  intros [|f] g c w H; [discriminate|].
  rewrite unm_step_S in H. apply step_body_inv in H.
  destruct H as [str Hg Hk Hs Hw|str Hg Hk Hs Hw|str Hg Hs Hw|m t Hg Ht Hs|m Hg Ht Hs];
    try discriminate.
  - inversion Hs; subst; auto.
  - destruct Hs; try discriminate. subst. inversion H; subst; auto.
  - destruct Hs; try discriminate. subst. inversion H; subst; auto.
Qed.

Lemma step_body_count : forall rec g s w,
  (forall v ss w', rec v = Ok ss w' -> w' = count_unknown ss) ->
  step_body rec g = Ok s w -> w = count_unknown_step s.
Proof.
  intros rec g s w Hrec H. apply step_body_inv in H.
  assert (T : forall m k, typed_shape rec m k s w -> w = count_unknown_step s).
  { intros m k Hs.
    destruct Hs as [? ?|c ? ? ? ?|? ? ?|? ? ?|? ? ?|key gr ss Hk Hs' Hm]; subst; try reflexivity.
    cbn [count_unknown_step]. fold (count_unknown ss).
    destruct (field "Steps" (partition_keys struct_GroupStep m)).
    - eapply Hrec; eassumption.
    - destruct Hm; subst; reflexivity. }
  destruct H; subst; try reflexivity; eapply T; eassumption.
Qed.

Lemma warnings_mutual : forall f,
  (forall g ss w, unm_steps f g = Ok ss w -> w = count_unknown ss) /\
  (forall g s w, unm_step f g = Ok s w -> w = count_unknown_step s).
Proof.
  induction f as [|f [IH1 IH2]]; [split; intros; discriminate|].
  split.
  - intros g ss w H. rewrite unm_steps_S in H.
    destruct g; try discriminate.
    + inversion H; reflexivity.
    + unfold count_unknown. eapply mapM_count; [|eassumption].
      intros x y w' _ Hx. eapply IH2; eassumption.
  - intros g s w H. rewrite unm_step_S in H. eapply step_body_count; eassumption.
Qed.

Theorem warnings_count_unknown : forall f g ss w, unm_steps f g = Ok ss w -> w = count_unknown ss.
Proof. intros f; apply (warnings_mutual f). Qed.

(** ---------------------------------------------------------------- facts about partition_keys *)

Fixpoint named_lookup (name : string) (fields : list field_row) (m : list (string * gv)) : option gv :=
  match fields with
  | [] => None
  | r :: rest =>
      match classify r with
      | FKeyed => match field_lookup r m with
                  | Some (_, v) => if String.eqb (row_name r) name then Some v else named_lookup name rest m
                  | None => named_lookup name rest m
                  end
      | _ => named_lookup name rest m
      end
  end.

Lemma field_named : forall name fields m, field name (partition_keys fields m) = named_lookup name fields m.
Proof.
  intros name fields m. unfold field, partition_keys.
  assert (H : assigned_to name (fst (fst (assign_fields fields m))) = named_lookup name fields m).
  { induction fields as [|r rest IH]; [reflexivity|].
    cbn [assign_fields named_lookup].
    destruct (assign_fields rest m) as [[asg inf] multi]. cbn [fst] in IH.
    destruct (classify r); cbn [fst]; try assumption.
    destruct (field_lookup r m) as [[k v]|]; cbn [fst]; [|assumption].
    cbn [assigned_to]. rewrite IH. reflexivity. }
  destruct (assign_fields fields m) as [[asg inf] multi]. cbn [assigned fst] in *. assumption.
Qed.

Lemma group_steps_field : forall m, field "Steps" (partition_keys struct_GroupStep m) = aget "steps" m.
Proof.
  intro m. rewrite field_named. cbv - [aget].
  repeat match goal with |- context [match aget ?k m with _ => _ end] => destruct (aget k m) end; reflexivity.
Qed.

Lemma pipeline_steps_field : forall m, field "Steps" (partition_keys struct_Pipeline m) = aget "steps" m.
Proof.
  intro m. rewrite field_named. cbv - [aget].
  repeat match goal with |- context [match aget ?k m with _ => _ end] => destruct (aget k m) end; reflexivity.
Qed.

Lemma aget_in : forall {T} k (m : list (string * T)) v, aget k m = Some v -> In (k, v) m.
Proof.
  intros T k m; induction m as [|[k' v'] r IH]; intros v H; [discriminate|].
  cbn [aget] in H. destruct (String.eqb k k') eqn:E.
  - apply String.eqb_eq in E. inversion H; subst. left; reflexivity.
  - right; apply IH; assumption.
Qed.

Lemma first_alias_in : forall al m k v, first_alias al m = Some (k, v) -> In (k, v) m.
Proof.
  induction al as [|a r IH]; intros m k v H; [discriminate|].
  cbn [first_alias] in H. destruct (String.eqb a ""); [apply IH; assumption|].
  destruct (aget a m) as [v'|] eqn:E; [|apply IH; assumption].
  inversion H; subst. apply aget_in; assumption.
Qed.

Lemma field_lookup_in : forall r m k v, field_lookup r m = Some (k, v) -> In (k, v) m.
Proof.
  intros r m k v H. unfold field_lookup in H.
  destruct (aget (primary_key r) m) as [v'|] eqn:E.
  - inversion H; subst. apply aget_in; assumption.
  - eapply first_alias_in; eassumption.
Qed.

Lemma named_lookup_in : forall name fields m v, named_lookup name fields m = Some v -> exists k, In (k, v) m.
Proof.
  intros name fields m v; induction fields as [|r rest IH]; intro H; [discriminate|].
  cbn [named_lookup] in H.
  destruct (classify r); try (apply IH; assumption).
  destruct (field_lookup r m) as [[k v']|] eqn:E; [|apply IH; assumption].
  destruct (String.eqb (row_name r) name); [|apply IH; assumption].
  inversion H; subst. exists k. eapply field_lookup_in; eassumption.
Qed.

Lemma field_in : forall name fields m v, field name (partition_keys fields m) = Some v -> exists k, In (k, v) m.
Proof. intros name fields m v H. rewrite field_named in H. eapply named_lookup_in; eassumption. Qed.

Lemma leftover_incl : forall fields m kv, In kv (leftover (partition_keys fields m)) -> In kv m.
Proof.
  intros fields m kv H. unfold partition_keys in H.
  destruct (assign_fields fields m) as [[asg inf] multi]. cbn [leftover] in H.
  apply filter_In in H. tauto.
Qed.

(** ---------------------------------------------------------------- shape of the result *)

Lemma unm_steps_shape : forall f v ss w, unm_steps f v = Ok ss w ->
  match v with
  | GSeq l => length ss = length l
  | GNull => ss = []
  | _ => False
  end.
Proof.
  intros [|f] v ss w H; [discriminate|]. rewrite unm_steps_S in H.
  destruct v; try discriminate.
  - inversion H; reflexivity.
  - eapply mapM_length; eassumption.
Qed.

Theorem group_steps_shape : forall f m k gr ss rem w,
  unm_step f (GMap m) = Ok (SGroup k gr ss rem) w ->
  match aget "steps" m with
  | Some (GSeq l) => length ss = length l
  | Some GNull | None => ss = []
  | Some _ => False
  end.
Proof.
  intros [|f] m k gr ss rem w H; [discriminate|].
  rewrite unm_step_S in H. apply step_body_inv in H.
  assert (T : forall kd, typed_shape (unm_steps f) m kd (SGroup k gr ss rem) w ->
              match aget "steps" m with
              | Some (GSeq l) => length ss = length l
              | Some GNull | None => ss = []
              | Some _ => False
              end).
  { intros kd Hs.
    destruct Hs as [? ?|c ? ? ? ?|? ? ?|? ? ?|? ? ?|key gr' ss' Hk Hs' Hm]; try discriminate.
    inversion Hs'; subst. rewrite group_steps_field in Hm.
    destruct (aget "steps" m) as [v|].
    - apply unm_steps_shape in Hm. destruct v; assumption.
    - tauto. }
  destruct H as [str Hg Hk Hs Hw|str Hg Hk Hs Hw|str Hg Hs Hw|m' t Hg Ht Hs|m' Hg Ht Hs];
    try discriminate; inversion Hg; subst m'; eapply T; eassumption.
Qed.

Lemma parse_inv : forall f g p w, parse f g = Ok p w ->
  (exists l ss, g = GSeq l /\ unm_steps f g = Ok ss w /\ p = mkPipeline ss None [] false) \/
  (exists m, g = GMap m /\
     pp_rem p = leftover (partition_keys struct_Pipeline m) /\
     match field "Steps" (partition_keys struct_Pipeline m) with
     | Some v => unm_steps f v = Ok (pp_steps p) w
     | None => pp_steps p = [] /\ w = 0
     end).
Proof.
  intros f g p w H. unfold parse in H. destruct g; try discriminate.
  - left. apply bind_ok in H. destruct H as [ss [w1 [w2 [H1 [H2 Hw]]]]].
    unfold ret in H2. inversion H2; subst. exists l, ss. rewrite Nat.add_0_r. auto.
  - right. exists l. cbv zeta in H.
    set (P := partition_keys struct_Pipeline l) in *.
    apply bind_ok in H. destruct H as [oss [w1 [w2 [H1 [H2 Hw]]]]].
    apply bind_ok in H2. destruct H2 as [e [w3 [w4 [H3 [H4 Hw']]]]].
    unfold ret in H4. inversion H4; subst p w4. clear H4. cbn [pp_rem pp_steps].
    assert (E3 : w3 = 0).
    { eapply zero_ok; [|exact H3]. apply zero_opt_field; intro; apply zero_unm_env_block. }
    assert (Ew : w = w1) by lia. clear Hw Hw'. subst w.
    split; [reflexivity|]. split; [reflexivity|].
    destruct (field "Steps" P) as [v|].
    + apply bind_ok in H1. destruct H1 as [x [w5 [w6 [H5 [H6 Hw'']]]]].
      unfold ret in H6. inversion H6; subst. cbn beta iota. rewrite Nat.add_0_r. assumption.
    + unfold ret in H1. inversion H1; subst. cbn beta iota. auto.
Qed.

Theorem parse_steps_shape : forall g p w, parse_doc g = Ok p w ->
  match g with
  | GSeq l => length (pp_steps p) = length l
  | GMap m => match aget "steps" m with
              | Some (GSeq l) => length (pp_steps p) = length l
              | Some GNull | None => pp_steps p = []
              | Some _ => False
              end
  | _ => False
  end.
Proof.
  intros g p w H. unfold parse_doc in H. apply parse_inv in H.
  destruct H as [[l [ss [Hg [H Hp]]]]|[m [Hg [Hr H]]]]; subst g.
  - subst p. cbn [pp_steps]. eapply steps_one_per_entry; eassumption.
  - rewrite pipeline_steps_field in H.
    destruct (aget "steps" m) as [v|].
    + apply unm_steps_shape in H. destruct v; assumption.
    + tauto.
Qed.

Theorem parse_warnings : forall g p w, parse_doc g = Ok p w -> w = count_unknown (pp_steps p).
Proof.
  intros g p w H. unfold parse_doc in H. apply parse_inv in H.
  destruct H as [[l [ss [Hg [H Hp]]]]|[m [Hg [Hr H]]]]; subst g.
  - subst p. cbn [pp_steps]. eapply warnings_count_unknown; eassumption.
  - destruct (field "Steps" (partition_keys struct_Pipeline m)) as [v|].
    + eapply warnings_count_unknown; eassumption.
    + destruct H as [H1 H2]. rewrite H1, H2. reflexivity.
Qed.

(** ---------------------------------------------------------------- fuel *)

Lemma depth_pos : forall g, 1 <= gv_depth g.
Proof. destruct g; cbn [gv_depth]; lia. Qed.

Lemma depth_in_seq : forall l x, In x l -> gv_depth x < gv_depth (GSeq l).
Proof.
  intros l x H. cbn [gv_depth]. apply le_n_S.
  induction l as [|y r IH]; [destruct H|].
  cbn [fold_right]. destruct H as [H|H]; [subst; lia|]. specialize (IH H). lia.
Qed.

Lemma depth_in_map : forall m k v, In (k, v) m -> gv_depth v < gv_depth (GMap m).
Proof.
  intros m k v H. cbn [gv_depth]. apply le_n_S.
  induction m as [|y r IH]; [destruct H|].
  cbn [fold_right]. destruct H as [H|H]; [subst; cbn [snd]; lia|]. specialize (IH H). lia.
Qed.

Lemma group_body_ext : forall rec1 rec2 m,
  (forall k v, In (k, v) m -> rec1 v = rec2 v) -> group_body rec1 m = group_body rec2 m.
Proof.
  intros rec1 rec2 m H. unfold group_body. cbv zeta.
  assert (E : opt_field "Steps" (partition_keys struct_GroupStep m) [] rec1
              = opt_field "Steps" (partition_keys struct_GroupStep m) [] rec2).
  { unfold opt_field. destruct (field "Steps" (partition_keys struct_GroupStep m)) as [v|] eqn:F; [|reflexivity].
    apply field_in in F. destruct F as [k F]. eapply H; eassumption. }
  rewrite E. reflexivity.
Qed.

Lemma step_body_ext : forall rec1 rec2 g,
  (forall m k v, g = GMap m -> In (k, v) m -> rec1 v = rec2 v) -> step_body rec1 g = step_body rec2 g.
Proof.
  intros rec1 rec2 g H. destruct g; try reflexivity.
  assert (T : forall k, typed_body rec1 l k = typed_body rec2 l k).
  { intro k. unfold typed_body. rewrite (group_body_ext rec1 rec2 l); [reflexivity|].
    intros k' v Hin. eapply H; [reflexivity|eassumption]. }
  unfold step_body. destruct (aget "type" l) as [v|]; [|apply T].
  destruct v; try reflexivity. apply T.
Qed.

Lemma fuel_mutual : forall f,
  (forall g f', gv_depth g <= f -> f <= f' -> unm_steps f' g = unm_steps f g) /\
  (forall g f', gv_depth g <= f -> f <= f' -> unm_step f' g = unm_step f g).
Proof.
  induction f as [|f [IH1 IH2]].
  - split; intros g f' Hd; pose proof (depth_pos g); lia.
  - split; intros g f' Hd Hf; (destruct f' as [|f']; [lia|]).
    + rewrite !unm_steps_S. destruct g; try reflexivity.
      apply mapM_ext. intros x Hx. apply IH2; [|lia].
      apply depth_in_seq in Hx. lia.
    + rewrite !unm_step_S. apply step_body_ext.
      intros m k v Hg Hin. subst g. apply IH1; [|lia].
      apply depth_in_map in Hin. lia.
Qed.

Lemma unm_steps_fuel : forall g f f', gv_depth g <= f -> gv_depth g <= f' -> unm_steps f g = unm_steps f' g.
Proof.
  intros g f f' H H'.
  destruct (fuel_mutual (gv_depth g)) as [E _].
  rewrite (E g f (le_n _) H), (E g f' (le_n _) H'). reflexivity.
Qed.

(** TOTALITY: the model functions are total by construction; the only artificial failure is fuel
    exhaustion, and the fuel chosen by parse_doc always suffices: more fuel changes nothing *)
Theorem fuel_stable : forall g f, S (gv_depth g) <= f -> parse f g = parse_doc g.
Proof.
  intros g f Hf. unfold parse_doc, parse. destruct g; try reflexivity.
  - rewrite (unm_steps_fuel (GSeq l) f (S (gv_depth (GSeq l)))); [reflexivity|lia|lia].
  - cbv zeta.
    destruct (field "Steps" (partition_keys struct_Pipeline l)) as [v|] eqn:F; [|reflexivity].
    apply field_in in F. destruct F as [k F]. apply depth_in_map in F.
    rewrite (unm_steps_fuel v f (S (gv_depth (GMap l)))); [reflexivity|lia|lia].
Qed.

(** ---------------------------------------------------------------- finiteness is preserved *)

Definition res_all {T} (P : T -> Prop) (r : res T) : Prop := match r with Ok x _ => P x | Err => True end.

Lemma all_ret : forall {T} (P : T -> Prop) x, P x -> res_all P (ret x).
Proof. intros; assumption. Qed.

Lemma all_True : forall {T} (r : res T), res_all (fun _ => True) r.
Proof. intros T r; destruct r; exact I. Qed.

Lemma all_bind : forall {T U} (P : T -> Prop) (Q : U -> Prop) (r : res T) (f : T -> res U),
  res_all P r -> (forall x, P x -> res_all Q (f x)) -> res_all Q (bind r f).
Proof.
  intros T U P Q r f Hr Hf. unfold bind. destruct r as [x w|]; [|exact I].
  specialize (Hf x Hr). destruct (f x) as [y w'|]; [|exact I]. exact Hf.
Qed.

Lemma all_opt_field : forall {T} (P : T -> Prop) name p d f,
  P d -> (forall v, field name p = Some v -> res_all P (f v)) -> res_all P (opt_field name p d f).
Proof.
  intros T P name p d f Hd Hf. unfold opt_field.
  destruct (field name p) as [v|]; [apply Hf; reflexivity | apply all_ret; assumption].
Qed.

Lemma all_mapM_b : forall {T U} (q : U -> bool) (f : T -> res U) l,
  (forall x, In x l -> res_all (fun y => q y = true) (f x)) ->
  res_all (fun ys => forallb q ys = true) (mapM f l).
Proof.
  intros T U q f l; induction l as [|x r IH]; intro H; cbn [mapM]; [reflexivity|].
  apply all_bind with (P := fun y => q y = true); [apply H; left; reflexivity|intros y Hy].
  apply all_bind with (P := fun ys => forallb q ys = true);
    [apply IH; intros z Hz; apply H; right; assumption|intros ys Hys].
  apply all_ret. cbn [forallb]. rewrite Hy, Hys. reflexivity.
Qed.

Lemma all_ok : forall {T} (P : T -> Prop) (r : res T) x w, res_all P r -> r = Ok x w -> P x.
Proof. intros T P r x w H E. rewrite E in H. exact H. Qed.

Ltac all_err := match goal with |- res_all _ Err => exact I end.
Ltac skipb := apply all_bind with (P := fun _ => True); [apply all_True | intros ? _].

(** nested induction on generic values *)
Section gv_induction.
  Variable P : gv -> Prop.
  Hypothesis HNull : P GNull.
  Hypothesis HBool : forall b, P (GBool b).
  Hypothesis HInt : forall z, P (GInt z).
  Hypothesis HFloat : forall j s, P (GFloat j s).
  Hypothesis HStr : forall s, P (GStr s).
  Hypothesis HTime : forall j, P (GTime j).
  Hypothesis HSeq : forall l, Forall P l -> P (GSeq l).
  Hypothesis HMap : forall l, Forall (fun kv => P (snd kv)) l -> P (GMap l).
  Hypothesis HUMap : forall l, Forall (fun kv => P (snd kv)) l -> P (GUMap l).

  Fixpoint gv_ind' (g : gv) : P g :=
    match g with
    | GNull => HNull
    | GBool b => HBool b
    | GInt z => HInt z
    | GFloat j s => HFloat j s
    | GStr s => HStr s
    | GTime j => HTime j
    | GSeq l => HSeq l ((fix go (l : list gv) : Forall P l :=
                           match l with
                           | [] => Forall_nil _
                           | x :: r => Forall_cons x (gv_ind' x) (go r)
                           end) l)
    | GMap l => HMap l ((fix go (l : list (string * gv)) : Forall (fun kv => P (snd kv)) l :=
                           match l with
                           | [] => Forall_nil _
                           | kv :: r => Forall_cons kv (gv_ind' (snd kv)) (go r)
                           end) l)
    | GUMap l => HUMap l ((fix go (l : list (string * gv)) : Forall (fun kv => P (snd kv)) l :=
                             match l with
                             | [] => Forall_nil _
                             | kv :: r => Forall_cons kv (gv_ind' (snd kv)) (go r)
                             end) l)
    end.
End gv_induction.

Lemma to_map_recursive_finite : forall g, gv_finite (to_map_recursive g) = gv_finite g.
Proof.
  induction g using gv_ind'; try reflexivity.
  - cbn [to_map_recursive gv_finite].
    induction H as [|x r Hx Hr IH]; [reflexivity|]. cbn [map forallb]. rewrite Hx, IH. reflexivity.
  - cbn [to_map_recursive gv_finite].
    induction H as [|x r Hx Hr IH]; [reflexivity|]. cbn [map forallb fst snd]. rewrite Hx, IH. reflexivity.
Qed.

Lemma rem_finite_in : forall m k v, rem_finite m = true -> In (k, v) m -> gv_finite v = true.
Proof.
  intros m k v H Hin. unfold rem_finite in H. rewrite forallb_forall in H. apply (H (k, v) Hin).
Qed.

Lemma rem_finite_incl : forall m m', (forall kv, In kv m' -> In kv m) -> rem_finite m = true -> rem_finite m' = true.
Proof.
  intros m m' Hi H. unfold rem_finite in *. rewrite forallb_forall in *. intros kv Hkv. apply H, Hi, Hkv.
Qed.

Lemma seq_finite_in : forall l x, gv_finite (GSeq l) = true -> In x l -> gv_finite x = true.
Proof. intros l x H Hin. cbn [gv_finite] in H. rewrite forallb_forall in H. apply H, Hin. Qed.

Lemma map_finite : forall m, gv_finite (GMap m) = rem_finite m.
Proof. reflexivity. Qed.

Lemma field_finite : forall name fields m v,
  rem_finite m = true -> field name (partition_keys fields m) = Some v -> gv_finite v = true.
Proof.
  intros name fields m v H F. apply field_in in F. destruct F as [k F]. eapply rem_finite_in; eassumption.
Qed.

Lemma leftover_finite : forall fields m,
  rem_finite m = true -> rem_finite (leftover (partition_keys fields m)) = true.
Proof. intros fields m H. eapply rem_finite_incl; [apply leftover_incl|assumption]. Qed.

(** plugins *)
Definition plugin_fin (p : plugin) : bool := gv_finite (pl_config p).

Lemma plugins_of_map_fin : forall m, rem_finite m = true -> forallb plugin_fin (plugins_of_map m) = true.
Proof.
  intros m H. unfold plugins_of_map. rewrite forallb_forall. intros p Hp.
  apply in_map_iff in Hp. destruct Hp as [[k v] [E Hin]]. subst p.
  unfold plugin_fin. cbn [pl_config snd]. rewrite to_map_recursive_finite.
  eapply rem_finite_in; eassumption.
Qed.

Lemma forallb_concat : forall {T} (q : T -> bool) ls,
  forallb (fun l => forallb q l) ls = true -> forallb q (concat ls) = true.
Proof.
  intros T q ls; induction ls as [|l r IH]; intro H; [reflexivity|].
  cbn [forallb concat] in *. apply andb_true_iff in H. destruct H as [H1 H2].
  rewrite forallb_app, H1, IH; auto.
Qed.

Lemma fin_unm_plugins : forall g, gv_finite g = true ->
  res_all (fun ps => forallb plugin_fin ps = true) (unm_plugins g).
Proof.
  intros g H. unfold unm_plugins. destruct g; try all_err.
  - reflexivity.
  - apply all_bind with (P := fun ps => forallb (fun l => forallb plugin_fin l) ps = true).
    + apply all_mapM_b. intros x Hx. pose proof (seq_finite_in _ _ H Hx) as Hf.
      destruct x; try all_err.
      * reflexivity.
      * apply all_ret. apply plugins_of_map_fin. assumption.
    + intros ps Hps. apply all_ret. apply forallb_concat; assumption.
  - apply all_ret. apply plugins_of_map_fin. assumption.
Qed.

(** matrix *)
Definition adj_ok (a : option madj) : bool :=
  match a with Some a => gv_finite (ma_skip a) && rem_finite (ma_rem a) | None => true end.

Lemma fin_unm_adj : forall g, gv_finite g = true -> res_all (fun a => adj_ok a = true) (unm_adj g).
Proof.
  intros g H. unfold unm_adj. destruct g; try all_err.
  - reflexivity.
  - cbv zeta. rewrite map_finite in H. skipb. apply all_ret.
    cbn [adj_ok ma_skip ma_rem]. rewrite leftover_finite by assumption. rewrite andb_true_r.
    destruct (field "Skip" (partition_keys struct_MatrixAdjustment l)) as [v|] eqn:F; [|reflexivity].
    eapply field_finite; eassumption.
Qed.

Lemma fin_unm_adjs : forall g, gv_finite g = true -> res_all (fun l => forallb adj_ok l = true) (unm_adjs g).
Proof.
  intros g H. unfold unm_adjs. destruct g; try all_err.
  - reflexivity.
  - apply all_mapM_b. intros x Hx. apply fin_unm_adj. eapply seq_finite_in; eassumption.
Qed.

Definition omatrix_ok (o : option matrix) : Prop := match o with Some m => matrix_ok m = true | None => True end.

Lemma fin_unm_matrix : forall g, gv_finite g = true -> res_all omatrix_ok (unm_matrix g).
Proof.
  intros g H. unfold unm_matrix. destruct g; try all_err.
  - exact I.
  - skipb. apply all_ret. reflexivity.
  - cbv zeta. rewrite map_finite in H. skipb.
    apply all_bind with (P := fun ad => forallb adj_ok ad = true).
    + apply all_opt_field; [reflexivity|]. intros v F. apply fin_unm_adjs. eapply field_finite; eassumption.
    + intros ad Had. apply all_ret. unfold omatrix_ok, matrix_ok. cbn [mx_rem mx_adj].
      rewrite leftover_finite by assumption. exact Had.
Qed.

(** cache *)
Definition ocache_ok (o : option cache) : Prop :=
  match o with Some x => ca_disabled x || rem_finite (ca_rem x) = true | None => True end.

Lemma fin_unm_cache : forall g, gv_finite g = true -> res_all ocache_ok (unm_cache g).
Proof.
  intros g H. unfold unm_cache. destruct g; try all_err.
  - exact I.
  - apply all_ret. apply orb_true_r.
  - apply all_ret. apply orb_true_r.
  - skipb. apply all_ret. apply orb_true_r.
  - cbv zeta. rewrite map_finite in H. skipb. skipb. skipb. skipb. apply all_ret.
    unfold ocache_ok. cbn [ca_disabled ca_rem]. rewrite leftover_finite by assumption. apply orb_true_r.
Qed.

Lemma fin_unm_command : forall m, rem_finite m = true -> res_all (fun c => command_ok c = true) (unm_command m).
Proof.
  intros m H. unfold unm_command. cbv zeta.
  set (outer := partition_keys struct_CommandStep_UnmarshalOrdered_anon0 m).
  assert (Ho : rem_finite (leftover outer) = true) by (apply leftover_finite; assumption).
  set (p := partition_keys struct_CommandStep (leftover outer)).
  skipb. skipb. skipb. skipb.
  apply all_bind with (P := fun ps => forallb plugin_fin ps = true).
  { apply all_opt_field; [reflexivity|]. intros v F. apply fin_unm_plugins. eapply field_finite; eassumption. }
  intros pl Hpl. skipb. skipb.
  apply all_bind with (P := omatrix_ok).
  { apply all_opt_field; [exact I|]. intros v F. apply fin_unm_matrix. eapply field_finite; eassumption. }
  intros mx Hmx.
  apply all_bind with (P := ocache_ok).
  { apply all_opt_field; [exact I|]. intros v F. apply fin_unm_cache. eapply field_finite; eassumption. }
  intros ca Hca. apply all_ret.
  unfold command_ok. cbn [cs_plugins cs_rem cs_matrix cs_cache].
  fold plugin_fin. change (fun p0 : plugin => gv_finite (pl_config p0)) with plugin_fin.
  rewrite Hpl. unfold p. rewrite leftover_finite by assumption. cbn [andb].
  apply andb_true_iff. split.
  - destruct mx; [exact Hmx|reflexivity].
  - destruct ca; [exact Hca|reflexivity].
Qed.

(** steps *)
Lemma scalar_input_nonempty : forall s, kind_of_scalar s = KInput -> String.eqb s "" = false.
Proof.
  intros s H. destruct (String.eqb s "") eqn:E; [|reflexivity].
  apply String.eqb_eq in E. subst s. vm_compute in H. discriminate.
Qed.

Lemma step_body_fin : forall rec g,
  gv_finite g = true ->
  (forall v, gv_finite v = true -> res_all (fun ss => forallb step_ok ss = true) (rec v)) ->
  res_all (fun s => step_ok s = true) (step_body rec g).
Proof.
  intros rec g Hg Hrec. destruct (step_body rec g) as [s w|] eqn:E; [|exact I].
  cbn [res_all]. apply step_body_inv in E.
  assert (T : forall m k, g = GMap m -> (k = KInput -> m <> []) -> typed_shape rec m k s w -> step_ok s = true).
  { intros m k Hm Hne Hs. subst g. pose proof Hg as Hr. rewrite map_finite in Hr.
    destruct Hs as [Hs ?|c ? Hc Hs ?|? Hs ?|Hk Hs ?|? Hs ?|key gr ss Hk Hs Hf]; subst s.
    - exact Hg.
    - cbn [step_ok]. exact (all_ok _ _ _ _ (fin_unm_command m Hr) Hc).
    - cbn [step_ok]. rewrite Hr. apply orb_true_r.
    - cbn [step_ok]. rewrite Hr. specialize (Hne Hk). destruct m; [congruence|reflexivity].
    - exact Hr.
    - cbn [step_ok]. rewrite leftover_finite by assumption. rewrite andb_true_r.
      destruct (field "Steps" (partition_keys struct_GroupStep m)) as [v|] eqn:F.
      + exact (all_ok (fun ss => forallb step_ok ss = true) _ _ _
                 (Hrec v (field_finite _ _ _ _ Hr F)) Hf).
      + destruct Hf; subst; reflexivity. }
  destruct E as [str Hs Hk Hst Hw|str Hs Hk Hst Hw|str Hs Hst Hw|m t Hm Ht Hs|m Hm Ht Hs].
  - subst. cbn [step_ok rem_finite forallb]. apply orb_true_r.
  - subst. cbn [step_ok]. rewrite (scalar_input_nonempty _ Hk). reflexivity.
  - subst. exact Hg.
  - eapply T; [exact Hm| |exact Hs]. intros _ Hn. subst m. discriminate.
  - eapply T; [exact Hm| |exact Hs]. intros Hk Hn. subst m. vm_compute in Hk. discriminate.
Qed.

Lemma fin_mutual : forall f,
  (forall g, gv_finite g = true -> res_all (fun ss => forallb step_ok ss = true) (unm_steps f g)) /\
  (forall g, gv_finite g = true -> res_all (fun s => step_ok s = true) (unm_step f g)).
Proof.
  induction f as [|f [IH1 IH2]]; [split; intros; exact I|].
  split; intros g Hg.
  - rewrite unm_steps_S. destruct g; try all_err.
    + reflexivity.
    + apply all_mapM_b. intros x Hx. apply IH2. eapply seq_finite_in; eassumption.
  - rewrite unm_step_S. apply step_body_fin; assumption.
Qed.

Lemma parse_pipeline_ok : forall f g p w, parse f g = Ok p w -> gv_finite g = true -> pipeline_ok p = true.
Proof.
  intros f g p w H Hg. apply parse_inv in H. unfold pipeline_ok.
  destruct H as [[l [ss [Hl [H Hp]]]]|[m [Hm [Hr H]]]]; subst g.
  - subst p. cbn [pp_steps pp_rem]. rewrite andb_true_r.
    exact (all_ok (fun ss => forallb step_ok ss = true) _ _ _ (proj1 (fin_mutual f) _ Hg) H).
  - rewrite map_finite in Hg. rewrite Hr, leftover_finite by assumption. rewrite andb_true_r.
    destruct (field "Steps" (partition_keys struct_Pipeline m)) as [v|] eqn:F.
    + exact (all_ok (fun ss => forallb step_ok ss = true) _ _ _
               (proj1 (fin_mutual f) v (field_finite _ _ _ _ Hg F)) H).
    + destruct H as [H _]. rewrite H. reflexivity.
Qed.

(** a usable result marshals, provided the document has no non-finite float *)
Theorem usable_marshals : forall g p w, parse_doc g = Ok p w -> gv_finite g = true -> marshal_json p <> None.
Proof.
  intros g p w H Hg. unfold marshal_json.
  rewrite (parse_pipeline_ok _ _ _ _ H Hg). discriminate.
Qed.

(** ... and the finiteness hypothesis is needed (finding F5) *)
Example usable_marshals_refuted : exists g p w,
  parse_doc g = Ok p w /\ marshal_json p = None.
Proof.
  exists (GMap [("steps", GSeq [GMap [("command", GStr "x"); ("foo", GFloat "" "NaN")]])]).
  eexists; eexists; split; vm_compute; reflexivity.
Qed.

Print Assumptions fuel_stable.
Print Assumptions usable_marshals.
Print Assumptions parse_warnings.
