(** Proofs about Model/Reflect.v: on alias-free type tables and well-typed
    documents, the reflective unmarshaler started on a fresh zero destination
    produces exactly what the structural reference decoder (standing for the
    YAML library's own decoder) produces. *)
From Coq Require Import String List Ascii Bool Arith Lia ZArith Permutation.
From GP Require Import Base.Sexp Model.Gv Model.Decode Model.Reflect Gen.Structs Proofs.DecodeProofs.
Import ListNotations.
Local Open Scope string_scope.
Local Open Scope list_scope.

(** * Helper definitions (independent of the type table) *)

(* the inline field the reference decoder picks: the last field tagged ",inline" *)
Fixpoint last_inline (l : list field_row) : option field_row :=
  match l with
  | [] => None
  | r :: rest => match last_inline rest with
                 | Some x => Some x
                 | None => match classify r with FInline => Some r | _ => None end
                 end
  end.
(* the inline field the library picks: the first one *)
Fixpoint first_inline (l : list field_row) : option field_row :=
  match l with
  | [] => None
  | r :: rest => match classify r with FInline => Some r | _ => first_inline rest end
  end.
(* more than one inline field (a property of the field list alone) *)
Fixpoint multi_inl (l : list field_row) : bool :=
  match l with
  | [] => false
  | r :: rest => match classify r with
                 | FInline => match first_inline rest with Some _ => true | None => multi_inl rest end
                 | _ => multi_inl rest
                 end
  end.
(* the document keys that are no keyed field's primary key, in document order *)
Definition rest_keys (fields : list field_row) (m : list (string * gv)) : list (string * gv) :=
  filter (fun kv => negb (existsb (fun r => String.eqb (primary_key r) (fst kv)) (keyed fields))) m.

(* destination struct contents described pointwise over the exported fields *)
Definition mk (F : field_row -> val) (L : list field_row) : list (string * val) :=
  map (fun r => (row_name r, F r)) L.

Definition aname (a : field_row * string * gv) : string := row_name (fst (fst a)).
Fixpoint afind (name : string) (asg : list (field_row * string * gv)) : option (field_row * gv) :=
  match asg with
  | [] => None
  | (r, _, v) :: rest => if String.eqb (row_name r) name then Some (r, v) else afind name rest
  end.

(** * The loops of [unm] as top-level functions *)
Section Loops.
  Variable E : gv -> ures.
  Fixpoint map_each (m : list (string * gv)) (acc : list (string * val)) : ures :=
    match m with
    | [] => UOk (VMap acc)
    | (k, v) :: r =>
        match E v with
        | UOk nv => map_each r (aset k nv acc)
        | UErr => UErr
        end
    end.
  Fixpoint seq_each (l : list gv) (acc : list val) : ures :=
    match l with
    | [] => UOk (VSlice acc)
    | a :: r =>
        match E a with
        | UOk x => seq_each r (acc ++ [x])
        | UErr => UErr
        end
    end.
  Variable U : ty -> gv -> val -> ures.
  Fixpoint st_each (asg : list (field_row * string * gv)) (fs : list (string * val))
    : option (list (string * val)) :=
    match asg with
    | [] => Some fs
    | (r, _, v) :: rest =>
        let cur := match struct_get (row_name r) fs with Some x => x | None => VNil end in
        match U (ty_of_row r) v cur with
        | UOk nv => st_each rest (struct_set (row_name r) nv fs)
        | UErr => None
        end
    end.
End Loops.

(** * Generic list facts *)

Lemma name_inj : forall (l : list field_row) r r',
  NoDup (map row_name l) -> In r l -> In r' l -> row_name r = row_name r' -> r = r'.
Proof.
  induction l as [|a l IH]; intros r r' Hnd Hr Hr' E.
  - destruct Hr.
  - cbn [map] in Hnd. inversion Hnd as [|? ? Hn Hd]; subst.
    destruct Hr as [<-|Hr]; destruct Hr' as [<-|Hr'].
    + reflexivity.
    + exfalso. apply Hn. rewrite E. apply in_map. exact Hr'.
    + exfalso. apply Hn. rewrite <- E. apply in_map. exact Hr.
    + apply IH; assumption.
Qed.

Lemma NoDup_map_filter : forall (p : field_row -> bool) (l : list field_row),
  NoDup (map row_name l) -> NoDup (map row_name (filter p l)).
Proof.
  intros p. induction l as [|a l IH]; intros H.
  - constructor.
  - cbn [map] in H. inversion H as [|? ? Hn Hd]; subst. cbn [filter].
    destruct (p a).
    + cbn [map]. constructor; [|apply IH; exact Hd].
      intros Hin. apply Hn. apply in_map_iff in Hin. destruct Hin as (x & Ex & Hx).
      apply filter_In in Hx. destruct Hx as [Hx _].
      rewrite <- Ex. apply in_map. exact Hx.
    + apply IH. exact Hd.
Qed.

Lemma aget_mk : forall F (L : list field_row) r,
  NoDup (map row_name L) -> In r L -> aget (row_name r) (mk F L) = Some (F r).
Proof.
  intros F. induction L as [|a L IH]; intros r Hnd Hr.
  - destruct Hr.
  - cbn [map] in Hnd. inversion Hnd as [|? ? Hn Hd]; subst.
    unfold mk. cbn [map aget]. fold (mk F L).
    destruct Hr as [<-|Hr].
    + rewrite String.eqb_refl. reflexivity.
    + destruct (String.eqb_spec (row_name r) (row_name a)) as [E|E].
      * exfalso. apply Hn. rewrite <- E. apply in_map. exact Hr.
      * apply IH; assumption.
Qed.

Lemma struct_set_mk : forall name v F L,
  struct_set name v (mk F L) = mk (fun r => if String.eqb (row_name r) name then v else F r) L.
Proof.
  intros name v F L. unfold struct_set, mk. rewrite map_map. apply map_ext.
  intros r. cbn [fst snd]. destruct (String.eqb (row_name r) name); reflexivity.
Qed.

Lemma In_aget_some : forall (m : list (string * gv)) k,
  In k (map fst m) -> exists v, aget k m = Some v.
Proof.
  induction m as [|[k' v'] m IH]; intros k H.
  - destruct H.
  - cbn [aget]. destruct (String.eqb_spec k k') as [E|E].
    + exists v'. reflexivity.
    + cbn [map fst] in H. destruct H as [H|H]; [congruence|]. apply IH. exact H.
Qed.

(** * afind *)

Lemma afind_none : forall name asg, ~ In name (map aname asg) -> afind name asg = None.
Proof.
  intros name. induction asg as [|[[r k] v] rest IH]; intros H.
  - reflexivity.
  - cbn [afind]. cbn [map] in H. unfold aname at 1 in H. cbn [fst] in H.
    destruct (String.eqb_spec (row_name r) name) as [E|E].
    + exfalso. apply H. left. exact E.
    + apply IH. intros Hin. apply H. right. exact Hin.
Qed.

Lemma afind_In : forall asg r k v,
  NoDup (map aname asg) -> In (r, k, v) asg -> afind (row_name r) asg = Some (r, v).
Proof.
  induction asg as [|[[r0 k0] v0] rest IH]; intros r k v Hnd Hin.
  - destruct Hin.
  - cbn [map] in Hnd. inversion Hnd as [|? ? Hn Hd]; subst. cbn [afind].
    destruct Hin as [E|Hin].
    + inversion E; subst. rewrite String.eqb_refl. reflexivity.
    + destruct (String.eqb_spec (row_name r0) (row_name r)) as [E|E].
      * exfalso. apply Hn. unfold aname at 1. cbn [fst]. rewrite E.
        change (row_name r) with (aname (r, k, v)). apply in_map. exact Hin.
      * eapply IH; eassumption.
Qed.

Lemma afind_Some : forall name asg r v,
  afind name asg = Some (r, v) -> exists k, In (r, k, v) asg /\ row_name r = name.
Proof.
  intros name. induction asg as [|[[r0 k0] v0] rest IH]; intros r v H.
  - discriminate.
  - cbn [afind] in H. destruct (String.eqb_spec (row_name r0) name) as [E|E].
    + inversion H; subst. exists k0. split; [left; reflexivity|reflexivity].
    + destruct (IH _ _ H) as (k & Hin & En). exists k. split; [right; exact Hin|exact En].
Qed.

(** * The partition on alias-free field lists *)

Lemma field_lookup_af : forall r m, row_aliases r = "" ->
  field_lookup r m = match aget (primary_key r) m with Some v => Some (primary_key r, v) | None => None end.
Proof.
  intros r m H. unfold field_lookup. rewrite H. destruct (aget (primary_key r) m); reflexivity.
Qed.

Lemma asg_names_sub : forall fields m name,
  In name (map aname (asg fields m)) -> In name (map row_name fields).
Proof.
  intros fields m name H. apply in_map_iff in H. destruct H as ([[r k] v] & E & Hin).
  apply asg_In in Hin. destruct Hin as (Hi & _ & _).
  unfold aname in E. cbn [fst] in E. rewrite <- E. apply in_map. exact Hi.
Qed.

Lemma asg_names_NoDup : forall fields m,
  NoDup (map row_name fields) -> NoDup (map aname (asg fields m)).
Proof.
  induction fields as [|r0 rest IH]; intros m H.
  - rewrite asg_nil. constructor.
  - cbn [map] in H. inversion H as [|? ? Hn Hd]; subst.
    rewrite asg_cons. destruct (classify r0); try (apply IH; exact Hd).
    destruct (field_lookup r0 m) as [[k v]|]; [|apply IH; exact Hd].
    cbn [map]. constructor; [|apply IH; exact Hd].
    unfold aname at 1. cbn [fst]. intros Hin. apply Hn.
    eapply asg_names_sub. exact Hin.
Qed.

Lemma afind_asg : forall fields m r,
  NoDup (map row_name fields) -> (forall x, In x fields -> row_aliases x = "") -> In r fields ->
  afind (row_name r) (asg fields m) =
  match classify r with
  | FKeyed => match aget (primary_key r) m with Some v => Some (r, v) | None => None end
  | _ => None
  end.
Proof.
  intros fields m r Hnd Haf Hr.
  destruct (afind (row_name r) (asg fields m)) as [[r0 v]|] eqn:E.
  - apply afind_Some in E. destruct E as (k & Hin & En).
    apply asg_In in Hin. destruct Hin as (Hi & Hc & Hl).
    assert (r0 = r) by (eapply name_inj; eassumption). subst r0.
    rewrite Hc. rewrite (field_lookup_af _ _ (Haf _ Hr)) in Hl.
    destruct (aget (primary_key r) m) as [v'|]; [|discriminate].
    inversion Hl; subst. reflexivity.
  - destruct (classify r) eqn:Ec; try reflexivity.
    destruct (aget (primary_key r) m) as [v|] eqn:Eg; [|reflexivity].
    exfalso.
    assert (Hin : In (r, primary_key r, v) (asg fields m)).
    { apply asg_In. split; [exact Hr|]. split; [exact Ec|].
      rewrite (field_lookup_af _ _ (Haf _ Hr)), Eg. reflexivity. }
    rewrite (afind_In _ _ _ _ (asg_names_NoDup _ _ Hnd) Hin) in E. discriminate.
Qed.

Lemma leftover_af : forall fields m, (forall x, In x fields -> row_aliases x = "") ->
  leftover (partition_keys fields m) = rest_keys fields m.
Proof.
  intros fields m Haf. rewrite partition_leftover. unfold rest_keys.
  apply filter_ext_in. intros [k v] Hin. cbn [fst]. f_equal.
  apply eq_true_iff_eq. rewrite existsb_eqb_In, existsb_exists. split.
  - intros H. apply in_map_iff in H. destruct H as ([[r k'] v'] & Ek & Ha).
    cbn [fst snd] in Ek. subst k'. apply asg_In in Ha. destruct Ha as (Hi & Hc & Hl).
    rewrite (field_lookup_af _ _ (Haf _ Hi)) in Hl.
    destruct (aget (primary_key r) m) as [w|]; [|discriminate]. inversion Hl; subst.
    exists r. split; [apply keyed_In; split; assumption|apply String.eqb_refl].
  - intros (r & Hr & Ek). apply String.eqb_eq in Ek. apply keyed_In in Hr. destruct Hr as [Hi Hc].
    assert (Hk : In k (map fst m)) by (apply in_map_iff; exists (k, v); split; [reflexivity|exact Hin]).
    destruct (In_aget_some _ _ Hk) as [w Hw].
    apply in_map_iff. exists (r, k, w). split; [reflexivity|].
    apply asg_In. split; [exact Hi|]. split; [exact Hc|].
    rewrite (field_lookup_af _ _ (Haf _ Hi)), Ek, Hw. reflexivity.
Qed.

(** * Inline field selection *)

Lemma assign_inline : forall fields m,
  snd (fst (assign_fields fields m)) = first_inline fields /\
  snd (assign_fields fields m) = multi_inl fields.
Proof.
  induction fields as [|r rest IH]; intros m.
  - split; reflexivity.
  - cbn [assign_fields first_inline multi_inl]. specialize (IH m).
    destruct (assign_fields rest m) as [[a i] mu]. cbn [fst snd] in IH. destruct IH as [E1 E2]. subst i mu.
    destruct (classify r).
    + split; reflexivity.
    + split; reflexivity.
    + destruct (field_lookup r m) as [[k v]|]; split; reflexivity.
Qed.

Lemma partition_inline : forall fields m, inline_field (partition_keys fields m) = first_inline fields.
Proof.
  intros fields m. unfold partition_keys. pose proof (assign_inline fields m) as [H _].
  destruct (assign_fields fields m) as [[a i] mu]. exact H.
Qed.

(* multiple_inline only depends on the field list, not on the document *)
Lemma partition_multi : forall fields m, multiple_inline (partition_keys fields m) = multi_inl fields.
Proof.
  intros fields m. unfold partition_keys. pose proof (assign_inline fields m) as [_ H].
  destruct (assign_fields fields m) as [[a i] mu]. exact H.
Qed.

Lemma first_inline_spec : forall l r, first_inline l = Some r -> In r l /\ classify r = FInline.
Proof.
  induction l as [|a l IH]; intros r H.
  - discriminate.
  - cbn [first_inline] in H. destruct (classify a) eqn:Ec.
    + destruct (IH _ H). split; [right|]; assumption.
    + inversion H; subst. split; [left; reflexivity|exact Ec].
    + destruct (IH _ H). split; [right|]; assumption.
Qed.

Lemma first_inline_none : forall l, first_inline l = None -> forall r, In r l -> classify r <> FInline.
Proof.
  induction l as [|a l IH]; intros H r Hr.
  - destruct Hr.
  - cbn [first_inline] in H. destruct (classify a) eqn:Ec; try discriminate;
      (destruct Hr as [<-|Hr]; [congruence|apply IH; assumption]).
Qed.

Lemma last_inline_none : forall l, (forall r, In r l -> classify r <> FInline) -> last_inline l = None.
Proof.
  induction l as [|a l IH]; intros H.
  - reflexivity.
  - cbn [last_inline]. rewrite IH by (intros r Hr; apply H; right; exact Hr).
    destruct (classify a) eqn:Ec; try reflexivity.
    exfalso. exact (H a (or_introl eq_refl) Ec).
Qed.

Lemma multi_false_last : forall l, multi_inl l = false -> last_inline l = first_inline l.
Proof.
  induction l as [|a l IH]; intros H.
  - reflexivity.
  - cbn [multi_inl] in H. cbn [last_inline first_inline]. destruct (classify a) eqn:Ec.
    + rewrite (IH H). destruct (first_inline l); reflexivity.
    + destruct (first_inline l) eqn:Ef; [discriminate|].
      rewrite (last_inline_none _ (first_inline_none _ Ef)). reflexivity.
    + rewrite (IH H). destruct (first_inline l); reflexivity.
Qed.

Lemma classify_exported : forall r, classify r <> FSkip -> is_exported (row_name r) = true.
Proof.
  intros r H. unfold classify in H. destruct (is_exported (row_name r)); [reflexivity|].
  exfalso. apply H. reflexivity.
Qed.

(** * The three loops against their pointwise descriptions *)

Lemma seq_each_spec : forall (E : gv -> ures) (R : gv -> val) l acc,
  (forall a, In a l -> E a = UOk (R a)) ->
  seq_each E l acc = UOk (VSlice (acc ++ map R l)).
Proof.
  intros E R. induction l as [|a l IH]; intros acc H.
  - cbn [seq_each map]. rewrite app_nil_r. reflexivity.
  - cbn [seq_each]. rewrite (H a (or_introl eq_refl)).
    rewrite IH by (intros b Hb; apply H; right; exact Hb).
    cbn [map]. rewrite <- app_assoc. reflexivity.
Qed.

Lemma map_each_spec : forall (E : gv -> ures) (R : gv -> val) m acc,
  (forall kv, In kv m -> E (snd kv) = UOk (R (snd kv))) ->
  map_each E m acc = UOk (VMap (fold_left (fun acc kv => aset (fst kv) (R (snd kv)) acc) m acc)).
Proof.
  intros E R. induction m as [|[k v] m IH]; intros acc H.
  - reflexivity.
  - cbn [map_each]. pose proof (H (k, v) (or_introl eq_refl)) as Hkv. cbn [snd] in Hkv.
    rewrite Hkv. cbn [fold_left fst snd].
    rewrite IH by (intros b Hb; apply H; right; exact Hb).
    reflexivity.
Qed.

Lemma st_each_spec : forall (U : ty -> gv -> val -> ures) (R : field_row -> gv -> val)
                            (Z : field_row -> val) (L : list field_row),
  NoDup (map row_name L) ->
  forall asg F,
  NoDup (map aname asg) ->
  (forall r k v, In (r, k, v) asg -> In r L /\ F r = Z r /\ U (ty_of_row r) v (Z r) = UOk (R r v)) ->
  st_each U asg (mk F L) =
  Some (mk (fun r => match afind (row_name r) asg with Some (r0, v) => R r0 v | None => F r end) L).
Proof.
  intros U R Z L HL. induction asg as [|[[r0 k0] v0] rest IH]; intros F Hnd H.
  - reflexivity.
  - cbn [map] in Hnd. inversion Hnd as [|? ? Hn Hd]; subst.
    unfold aname at 1 in Hn. cbn [fst] in Hn.
    destruct (H r0 k0 v0 (or_introl eq_refl)) as (HinL & HF & HU).
    cbn [st_each]. unfold struct_get. rewrite (aget_mk F L r0 HL HinL). rewrite HF, HU.
    rewrite struct_set_mk. rewrite IH.
    + f_equal. unfold mk. apply map_ext. intros r. f_equal. cbn [afind].
      rewrite (String.eqb_sym (row_name r0) (row_name r)).
      destruct (String.eqb_spec (row_name r) (row_name r0)) as [E|E].
      * rewrite afind_none; [reflexivity|]. rewrite E. exact Hn.
      * reflexivity.
    + exact Hd.
    + intros r k v Hin. destruct (H r k v (or_intror Hin)) as (H1 & H2 & H3).
      split; [exact H1|]. split; [|exact H3].
      destruct (String.eqb_spec (row_name r) (row_name r0)) as [E|E]; [|exact H2].
      exfalso. apply Hn. rewrite <- E. change (row_name r) with (aname (r, k, v)).
      apply in_map. exact Hin.
Qed.

Section ReflectProofs.
  Variable structs : list (string * list field_row).
  Variable zf : nat.

  (* no alias tags anywhere; every struct has pairwise distinct keys; at most one inline field *)
  Definition alias_free : Prop := forall n r, In r (fields_of structs n) -> row_aliases r = "".
  Definition keys_ok : Prop :=
    forall n, keys_disjoint (fields_of structs n) /\ NoDup (map row_name (fields_of structs n)).
  Definition one_inline : Prop :=
    forall n m, multiple_inline (partition_keys (fields_of structs n) m) = false.

  (* the zero-value fuel is above the by-value struct nesting depth, in its weakest form:
     [zero] at fuel zf satisfies its own unfolding equation at the same fuel *)
  Definition zero_closed : Prop :=
    forall n, zero structs zf (TStruct n) =
              VStruct (map (fun r => (row_name r, zero structs zf (ty_of_row r))) (exported structs n)).

  (* well-typed: node kinds match target kinds exactly; fuel bounds the depth *)
  Fixpoint well_typed (fuel : nat) (t : ty) (g : gv) {struct fuel} : bool :=
    match fuel with
    | O => false
    | S f =>
        match g with
        | GNull => true
        | _ =>
            match t with
            | TString => match g with GStr _ => true | _ => false end
            | TInt => match g with GInt _ => true | _ => false end
            | TBool => match g with GBool _ => true | _ => false end
            | TFloat => match g with GFloat _ _ => true | _ => false end
            | TAny => true
            | TPtr u => well_typed f u g
            | TSlice et => match g with GSeq l => forallb (well_typed f et) l | _ => false end
            | TMap vt => match g with
                         | GMap m => forallb (fun kv => well_typed f vt (snd kv)) m
                         | _ => false
                         end
            | TStruct n =>
                match g with
                | GMap m =>
                    let fields := fields_of structs n in
                    forallb (fun r => match classify r with
                                      | FKeyed => match aget (primary_key r) m with
                                                  | Some v => well_typed f (ty_of_row r) v
                                                  | None => true
                                                  end
                                      | _ => true
                                      end) fields
                    && match last_inline fields, rest_keys fields m with
                       | Some r, (_ :: _) as lo => well_typed f (ty_of_row r) (GMap lo)
                       | _, _ => true
                       end
                | _ => false
                end
            end
        end
    end.

  (** ** Unfolding equations *)

  (* [zero] recurses on its fuel, so these need a case split on it *)
  Lemma zero_ptr : forall k u, zero structs k (TPtr u) = VNil.
  Proof. intros [|k] u; reflexivity. Qed.
  Lemma zero_slice : forall k u, zero structs k (TSlice u) = VNil.
  Proof. intros [|k] u; reflexivity. Qed.
  Lemma zero_map : forall k u, zero structs k (TMap u) = VNil.
  Proof. intros [|k] u; reflexivity. Qed.

  Lemma unm_null : forall f t old, unm structs zf (S f) t GNull old = UOk (zero structs zf t).
  Proof. reflexivity. Qed.

  Lemma unm_ptr : forall f u g old, g <> GNull ->
    unm structs zf (S f) (TPtr u) g old =
    match unm structs zf f u g (match old with VPtr v => v | _ => zero structs zf u end) with
    | UOk v => UOk (VPtr v)
    | UErr => UErr
    end.
  Proof. intros f u g old H. destruct g; try reflexivity. contradiction H; reflexivity. Qed.

  Lemma unm_slice : forall f et l old,
    unm structs zf (S f) (TSlice et) (GSeq l) old =
    seq_each (fun a => unm structs zf f et a (zero structs zf et)) l
             (match old with VSlice x => x | _ => [] end).
  Proof. reflexivity. Qed.

  Lemma unm_map : forall f vt m old,
    unm structs zf (S f) (TMap vt) (GMap m) old =
    map_each (fun v => unm structs zf f vt v (zero structs zf vt)) m
             (match old with VMap l => l | _ => [] end).
  Proof. reflexivity. Qed.

  Lemma unm_struct : forall f n m fs,
    unm structs zf (S f) (TStruct n) (GMap m) (VStruct fs) =
    let p := partition_keys (fields_of structs n) m in
    if multiple_inline p then UErr
    else match st_each (unm structs zf f) (assigned p) fs with
         | None => UErr
         | Some fs1 =>
             match inline_field p, leftover p with
             | Some r, (_ :: _) as lo =>
                 let cur := match struct_get (row_name r) fs1 with Some x => x | None => VNil end in
                 match unm structs zf f (ty_of_row r) (GMap lo) cur with
                 | UOk nv => UOk (VStruct (struct_set (row_name r) nv fs1))
                 | UErr => UErr
                 end
             | _, _ => UOk (VStruct fs1)
             end
         end.
  Proof. reflexivity. Qed.

  Lemma ref_struct : forall f n m fs, zero structs zf (TStruct n) = VStruct fs ->
    ref structs zf (S f) (TStruct n) (GMap m) =
    let fields := fields_of structs n in
    let lo := rest_keys fields m in
    let z := fun r : field_row => match aget (row_name r) fs with Some x => x | None => VNil end in
    VStruct (map (fun r =>
                    (row_name r,
                     match classify r with
                     | FKeyed => match aget (primary_key r) m with
                                 | Some v => ref structs zf f (ty_of_row r) v
                                 | None => z r
                                 end
                     | FInline =>
                         match last_inline fields, lo with
                         | Some r', (_ :: _) =>
                             if String.eqb (row_name r') (row_name r)
                             then ref structs zf f (ty_of_row r) (GMap lo)
                             else z r
                         | _, _ => z r
                         end
                     | FSkip => z r
                     end)) (exported structs n)).
  Proof.
    intros f n m fs E. cbn [ref]. rewrite E. reflexivity.
  Qed.

  (** ** The struct case *)

  Lemma struct_case : alias_free -> keys_ok -> one_inline -> zero_closed ->
    forall f,
    (forall t g, well_typed f t g = true ->
                 unm structs zf f t g (zero structs zf t) = UOk (ref structs zf f t g)) ->
    forall n m, well_typed (S f) (TStruct n) (GMap m) = true ->
    unm structs zf (S f) (TStruct n) (GMap m) (zero structs zf (TStruct n)) =
    UOk (ref structs zf (S f) (TStruct n) (GMap m)).
  Proof.
    intros Haf Hk Hone HZ f IH n m Hwt.
    set (fields := fields_of structs n) in *.
    set (L := exported structs n).
    set (Z := fun r : field_row => zero structs zf (ty_of_row r)).
    assert (Hnd : NoDup (map row_name fields)) by (apply (Hk n)).
    assert (HL : NoDup (map row_name L)) by (apply NoDup_map_filter; exact Hnd).
    assert (Haf' : forall x, In x fields -> row_aliases x = "") by (intros x Hx; exact (Haf n x Hx)).
    assert (HinL : forall r, In r fields -> classify r <> FSkip -> In r L).
    { intros r Hr Hc. apply filter_In. split; [exact Hr|apply classify_exported; exact Hc]. }
    assert (HLin : forall r, In r L -> In r fields).
    { intros r Hr. apply filter_In in Hr. apply Hr. }
    assert (Hmulti : multi_inl fields = false).
    { rewrite <- (partition_multi fields m). apply Hone. }
    (* unpack well-typedness *)
    cbn [well_typed] in Hwt. fold fields in Hwt.
    apply andb_true_iff in Hwt. destruct Hwt as [Hw1 Hw2].
    rewrite forallb_forall in Hw1.
    rewrite (multi_false_last _ Hmulti) in Hw2.
    (* both sides *)
    rewrite (ref_struct f n m _ (HZ n)). rewrite (HZ n). rewrite unm_struct.
    fold fields. fold L. cbv zeta.
    change (map (fun r0 : field_row => (row_name r0, zero structs zf (ty_of_row r0))) L) with (mk Z L).
    rewrite (partition_multi fields m), Hmulti.
    rewrite partition_assigned, partition_inline, (leftover_af _ _ Haf').
    rewrite (multi_false_last _ Hmulti).
    rewrite (st_each_spec (unm structs zf f) (fun r v => ref structs zf f (ty_of_row r) v) Z L HL
               (asg fields m) Z (asg_names_NoDup _ _ Hnd)).
    2:{ intros r k v Hin. apply asg_In in Hin. destruct Hin as (Hi & Hc & Hl).
        split; [apply HinL; [exact Hi|congruence]|]. split; [reflexivity|].
        apply IH. specialize (Hw1 r Hi). rewrite Hc in Hw1.
        rewrite (field_lookup_af _ _ (Haf' _ Hi)) in Hl.
        destruct (aget (primary_key r) m) as [w|]; [|discriminate].
        inversion Hl; subst. exact Hw1. }
    (* pointwise description of the keyed part *)
    assert (HF1 : forall r, In r L ->
              match afind (row_name r) (asg fields m) with
              | Some (r0, v) => ref structs zf f (ty_of_row r0) v
              | None => Z r
              end =
              match classify r with
              | FKeyed => match aget (primary_key r) m with
                          | Some v => ref structs zf f (ty_of_row r) v
                          | None => Z r
                          end
              | _ => Z r
              end).
    { intros r Hr. rewrite (afind_asg fields m r Hnd Haf' (HLin _ Hr)).
      destruct (classify r); try reflexivity.
      destruct (aget (primary_key r) m); reflexivity. }
    assert (Hz : forall r, In r L ->
              match aget (row_name r) (mk Z L) with Some x => x | None => VNil end = Z r).
    { intros r Hr. rewrite (aget_mk Z L r HL Hr). reflexivity. }
    destruct (first_inline fields) as [ri|] eqn:Ei.
    - destruct (first_inline_spec _ _ Ei) as [Hri Hci].
      assert (HriL : In ri L) by (apply HinL; [exact Hri|congruence]).
      destruct (rest_keys fields m) as [|kv lo] eqn:Elo.
      + (* no leftover keys *)
        f_equal. f_equal. unfold mk at 1. apply map_ext_in. intros r Hr. f_equal.
        rewrite (HF1 r Hr). rewrite (Hz r Hr).
        destruct (classify r); try reflexivity.
      + (* leftover keys go to the inline field *)
        unfold struct_get. rewrite (aget_mk _ L ri HL HriL).
        rewrite (HF1 ri HriL). rewrite Hci.
        unfold Z at 1. rewrite (IH _ _ Hw2).
        rewrite struct_set_mk.
        f_equal. f_equal. unfold mk at 1. apply map_ext_in. intros r Hr. f_equal.
        rewrite (HF1 r Hr). rewrite (Hz r Hr).
        rewrite (String.eqb_sym (row_name ri) (row_name r)).
        destruct (String.eqb_spec (row_name r) (row_name ri)) as [E|E].
        * assert (r = ri) by (eapply name_inj; [exact Hnd|apply HLin; exact Hr|exact Hri|exact E]).
          subst r. rewrite Hci. reflexivity.
        * destruct (classify r); reflexivity.
    - (* no inline field *)
      f_equal. f_equal. unfold mk at 1. apply map_ext_in. intros r Hr. f_equal.
      rewrite (HF1 r Hr). rewrite (Hz r Hr).
      destruct (classify r) eqn:Ec; try reflexivity.
  Qed.

  (** ** Main theorem *)

  Theorem unm_agrees_ref : alias_free -> keys_ok -> one_inline -> zero_closed ->
    forall fuel t g, well_typed fuel t g = true ->
      unm structs zf fuel t g (zero structs zf t) = UOk (ref structs zf fuel t g).
  Proof.
    intros Haf Hk Hone HZ. induction fuel as [|f IH]; intros t g H.
    - discriminate H.
    - assert (Hg : g = GNull \/ g <> GNull) by (destruct g; [left; reflexivity|right; discriminate..]).
      destruct Hg as [->|Hg]; [reflexivity|].
      destruct t.
      + (* TString *) destruct g; try discriminate H; try reflexivity.
      + (* TInt *) destruct g; try discriminate H; try reflexivity.
      + (* TBool *) destruct g; try discriminate H; try reflexivity.
      + (* TFloat *) destruct g; try discriminate H; try reflexivity.
      + (* TAny *) destruct g; try reflexivity.
      + (* TPtr *)
        rewrite (unm_ptr f t g _ Hg). rewrite zero_ptr.
        assert (Hw : well_typed f t g = true) by (destruct g; try exact H; contradiction Hg; reflexivity).
        rewrite (IH _ _ Hw). destruct g; try reflexivity. contradiction Hg; reflexivity.
      + (* TSlice *)
        destruct g; try discriminate H; try (contradiction Hg; reflexivity).
        cbn [well_typed] in H. rewrite forallb_forall in H.
        rewrite unm_slice. rewrite zero_slice.
        rewrite (seq_each_spec _ (ref structs zf f t)).
        * reflexivity.
        * intros a Ha. apply IH. apply H. exact Ha.
      + (* TMap *)
        destruct g; try discriminate H; try (contradiction Hg; reflexivity).
        cbn [well_typed] in H. rewrite forallb_forall in H.
        rewrite unm_map. rewrite zero_map.
        rewrite (map_each_spec _ (ref structs zf f t)).
        * reflexivity.
        * intros kv Hkv. apply IH. apply H. exact Hkv.
      + (* TStruct *)
        destruct g; try discriminate H; try (contradiction Hg; reflexivity).
        apply struct_case; assumption.
  Qed.

  (* in particular the library never rejects a well-typed document *)
  Corollary unm_total_on_well_typed : alias_free -> keys_ok -> one_inline -> zero_closed ->
    forall fuel t g, well_typed fuel t g = true ->
      unm structs zf fuel t g (zero structs zf t) <> UErr.
  Proof.
    intros Haf Hk Hone HZ fuel t g H. rewrite (unm_agrees_ref Haf Hk Hone HZ _ _ _ H). discriminate.
  Qed.

  (** ** The extra hypothesis: any positive fuel at which [zero] is stable *)

  Lemma zero_closed_step : zero_closed -> forall t, zero structs (S zf) t = zero structs zf t.
  Proof.
    intros HZ t. destruct t; try (destruct zf; reflexivity).
    rewrite (HZ name). reflexivity.
  Qed.
End ReflectProofs.

(* closedness is preserved by more fuel *)
Lemma zero_closed_S : forall structs zf, zero_closed structs zf -> zero_closed structs (S zf).
Proof.
  intros structs zf HZ n. cbn [zero]. f_equal. apply map_ext. intros r. f_equal.
  symmetry. apply zero_closed_step. exact HZ.
Qed.

Lemma zero_closed_le : forall structs a b, a <= b -> zero_closed structs a -> zero_closed structs b.
Proof.
  intros structs a b Hle. induction Hle; intros H; [exact H|].
  apply zero_closed_S. apply IHHle. exact H.
Qed.

(** * The generated family *)
(* the hypotheses hold for the alias-free part of the generated family, and an example is well-typed *)
From GP Require Import Gen.TestStructs.
Definition plain_family : list (string * list field_row) :=
  filter (fun e => existsb (String.eqb (fst e)) ["T1"; "T2"; "T3"; "T4"; "T5"; "T6"; "T7"; "T9"]) test_structs.

Lemma aget_In_gen : forall (T : Type) (l : list (string * T)) k v, aget k l = Some v -> In (k, v) l.
Proof.
  intros T. induction l as [|[k' v'] l IH]; intros k v H; cbn [aget] in H.
  - discriminate.
  - destruct (String.eqb_spec k k') as [E|E].
    + inversion H; subst. left; reflexivity.
    + right. apply IH. exact H.
Qed.

Lemma fields_of_cases : forall structs n,
  fields_of structs n = [] \/ In (fields_of structs n) (map snd structs).
Proof.
  intros structs n. unfold fields_of. destruct (aget n structs) as [l|] eqn:E.
  - right. apply aget_In_gen in E. apply in_map_iff. exists (n, l). split; [reflexivity|exact E].
  - left. reflexivity.
Qed.

(* a property of every field list in the table that also holds of [] holds of every fields_of *)
Lemma fields_of_forall : forall structs (chk : list field_row -> bool) (P : list field_row -> Prop),
  (forall l, chk l = true -> P l) -> P [] ->
  forallb chk (map snd structs) = true ->
  forall n, P (fields_of structs n).
Proof.
  intros structs chk P Hs Hnil Hall n.
  destruct (fields_of_cases structs n) as [E|Hin].
  - rewrite E. exact Hnil.
  - apply Hs. rewrite forallb_forall in Hall. apply Hall. exact Hin.
Qed.

Theorem family_alias_free : alias_free plain_family.
Proof.
  intros n. revert n.
  apply (fields_of_forall plain_family
           (fun l => forallb (fun r => String.eqb (row_aliases r) "") l)
           (fun l => forall r, In r l -> row_aliases r = "")).
  - intros l H r Hr. rewrite forallb_forall in H. apply String.eqb_eq. apply H. exact Hr.
  - intros r [].
  - vm_compute. reflexivity.
Qed.

Theorem family_keys_ok : keys_ok plain_family.
Proof.
  unfold keys_ok. apply (fields_of_forall plain_family
           (fun l => nodupb (concat (map field_keys (keyed l))) && nodupb (map row_name l))
           (fun l => keys_disjoint l /\ NoDup (map row_name l))).
  - intros l H. apply andb_true_iff in H. destruct H as [H1 H2].
    split; [unfold keys_disjoint|]; apply nodupb_sound; assumption.
  - split; [unfold keys_disjoint|]; constructor.
  - vm_compute. reflexivity.
Qed.

Theorem family_one_inline : one_inline plain_family.
Proof.
  intros n m. rewrite partition_multi. revert n.
  apply (fields_of_forall plain_family (fun l => negb (multi_inl l)) (fun l => multi_inl l = false)).
  - intros l H. apply negb_true_iff. exact H.
  - reflexivity.
  - vm_compute. reflexivity.
Qed.

(* by-value struct nesting in the family is at most 2 deep (T4 holds a T1) *)
Theorem family_zero_closed : forall zf, 2 <= zf -> zero_closed plain_family zf.
Proof.
  intros zf Hle. apply (zero_closed_le plain_family 2 zf Hle).
  intros n. unfold exported.
  assert (Hc : forall l, fields_of plain_family n = l ->
               l = [] \/ In (n, l) plain_family).
  { intros l E. unfold fields_of in E. destruct (aget n plain_family) as [l'|] eqn:Eg.
    - right. subst l'. apply aget_In_gen. exact Eg.
    - left. symmetry. exact E. }
  destruct (Hc _ eq_refl) as [E|Hin].
  - cbn [zero]. unfold exported. rewrite E. reflexivity.
  - vm_compute in Hin.
    repeat (destruct Hin as [Hin|Hin]; [inversion Hin; subst; vm_compute; reflexivity|]).
    destruct Hin.
Qed.

Corollary family_unm_agrees_ref : forall zf fuel t g, 2 <= zf ->
  well_typed plain_family fuel t g = true ->
  unm plain_family zf fuel t g (zero plain_family zf t) = UOk (ref plain_family zf fuel t g).
Proof.
  intros zf fuel t g Hz H.
  apply (unm_agrees_ref plain_family zf family_alias_free family_keys_ok family_one_inline
           (family_zero_closed zf Hz)). exact H.
Qed.

Definition example_doc : gv :=
  GMap [("inner", GMap [("a", GStr "x"); ("c", GBool true)]);
        ("p", GMap [("b", GInt 3); ("d", GNull)]);
        ("q", GStr "s");
        ("r", GSeq [GInt 1; GInt 2]);
        ("unknown", GSeq [GNull])].

Example well_typed_example : exists g, well_typed plain_family 20 (TStruct "T4") g = true /\ g <> GNull.
Proof. exists example_doc. split; [vm_compute; reflexivity|discriminate]. Qed.

(* non-vacuity of the inline case: leftover keys reach the catch-all map of T9, recursively *)
Definition example_inline_doc : gv :=
  GMap [("val", GStr "top"); ("extra", GInt 7);
        ("child", GMap [("val", GStr "c"); ("more", GSeq [GStr "u"; GNull])]);
        ("kids", GSeq [GMap [("val", GStr "k1")]; GMap [("zzz", GBool false)]])].
Example well_typed_inline_example :
  well_typed plain_family 20 (TStruct "T9") example_inline_doc = true /\
  unm plain_family 3 20 (TStruct "T9") example_inline_doc (zero plain_family 3 (TStruct "T9"))
  = UOk (ref plain_family 3 20 (TStruct "T9") example_inline_doc).
Proof. split; vm_compute; reflexivity. Qed.

(* the by-value nesting hypothesis is necessary: below the nesting depth the theorem fails *)
Example zero_closed_needed :
  well_typed plain_family 20 (TStruct "T4") example_doc = true /\
  unm plain_family 1 20 (TStruct "T4") example_doc (zero plain_family 1 (TStruct "T4"))
  <> UOk (ref plain_family 1 20 (TStruct "T4") example_doc).
Proof. split; [vm_compute; reflexivity|vm_compute; discriminate]. Qed.

Print Assumptions unm_agrees_ref.
Print Assumptions unm_total_on_well_typed.
Print Assumptions family_unm_agrees_ref.
