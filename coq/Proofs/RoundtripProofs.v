From Coq Require Import String List Ascii Bool Arith Permutation.
From GP Require Import Model.Gv Model.Pipeline Model.Marshal Model.Jcs Model.Sign Proofs.JcsProofs Proofs.SignProofs.
Import ListNotations.
Local Open Scope string_scope.
Local Open Scope list_scope.

(** Verification reads the presented step only through the values of the five
    mandatory fields and through which pipeline variables its env shadows. *)
Definition same_signed_content (c c' : command_step) : Prop :=
  (forall repo f, field_value c' repo f = field_value c repo f) /\
  (forall n, ahas n (cs_env c') = ahas n (cs_env c)).

Lemma values_for_fields_ext : forall c c' repo fields,
  (forall f, field_value c' repo f = field_value c repo f) ->
  values_for_fields c' repo fields = values_for_fields c repo fields.
Proof.
  intros c c' repo fields H. induction fields as [|f r IH]; cbn [values_for_fields]; [reflexivity|].
  rewrite IH, H. reflexivity.
Qed.

Lemma env_values_ext : forall c c' penv,
  (forall n, ahas n (cs_env c') = ahas n (cs_env c)) -> env_values c' penv = env_values c penv.
Proof.
  intros c c' penv H. unfold env_values. f_equal.
  apply filter_ext. intros kv. rewrite H. reflexivity.
Qed.

Theorem verify_payload_ext : forall sg c c' repo penv,
  same_signed_content c c' -> verify_payload sg c' repo penv = verify_payload sg c repo penv.
Proof.
  intros sg c c' repo penv [Hf He]. unfold verify_payload.
  destruct (sg_fields sg) as [[|f r]|]; try reflexivity.
  destruct (all_mandatory (f :: r)); cbn [negb]; [|reflexivity].
  rewrite (values_for_fields_ext c c' repo (f :: r) (Hf repo)).
  rewrite (env_values_ext c c' penv He). reflexivity.
Qed.

Section Roundtrip.
  Variable K PK : Type.
  Variable pub : K -> PK.
  Variable alg_of : K -> string.
  Variable sgn : K -> string -> string.
  Variable vrf : PK -> string -> string -> bool.
  Hypothesis vrf_ideal : forall pk m s, vrf pk m s = true <-> exists k, pk = pub k /\ s = sgn k m.

  (** a step signed, then replaced by any step with the same signed content (what
      marshalling and re-parsing produces), still verifies with the pipeline env
      plus unrelated variables *)
  Theorem signed_roundtrip : forall k c c' repo penv penv',
    NoDup (map fst penv) -> NoDup (map fst penv') ->
    (forall n v, aget n penv = Some v -> aget n penv' = Some v) ->
    same_signed_content c c' ->
    verify PK vrf (pub k) (sign K alg_of sgn k c repo penv) c' repo penv' = true.
  Proof.
    intros k c c' repo penv penv' N N' Hs Hc.
    pose proof (SignProofs.sign_then_verify K PK pub alg_of sgn vrf vrf_ideal JcsProofs.ser_perm
                  k c repo penv penv' N N' Hs) as V.
    unfold verify in *. rewrite (verify_payload_ext _ c c' repo penv' Hc). exact V.
  Qed.
End Roundtrip.
