(** The bridge from the re-parse fixpoint (Proofs/ReparseProofs.v) to signature
    round-tripping (Proofs/RoundtripProofs.v): command steps with equal JSON
    marshallings have the same signed content. *)
From Coq Require Import String List Ascii Bool Arith Lia Permutation.
From GP Require Import Model.Gv Model.Decode Model.Plugin Model.Pipeline Model.Marshal Model.Reparse Model.Jcs Model.Sign
     Gen.Structs Proofs.DecodeProofs Proofs.MarshalProofs Proofs.PipelineProofs Proofs.JcsProofs Proofs.SignProofs
     Proofs.RoundtripProofs Proofs.ReparseProofs.
Import ListNotations.
Local Open Scope string_scope.
Local Open Scope list_scope.

(** what the argument needs of a command step: its extra fields have distinct keys, none of them a
    schema key, and the extra fields of its matrix do not contain "setup" *)
Definition cmd_keys_ok (c : command_step) : Prop :=
  NoDup (map fst (cs_rem c)) /\
  (forall k, In k cmd_primary -> ~ In k (map fst (cs_rem c))) /\
  match cs_matrix c with Some m => ~ In "setup" (map fst (mx_rem m)) | None => True end.

Lemma cmd_ok_keys_ok : forall c, cmd_ok c -> cmd_keys_ok c.
Proof.
  intros c ((Nr & Av & _) & _ & _ & _ & HM & _). split; [exact Nr|split; [exact Av|]].
  destruct (cs_matrix c) as [m|]; [|exact I]. destruct HM as (_ & _ & (_ & Avm & _)).
  apply Avm. unfold matrix_schema. in_lit.
Qed.

(** ------------------------------------------------------------------ *)
(** the schema members of a marshalled command step *)

Lemma schema_entry : forall c k, cmd_keys_ok c -> In k cmd_primary ->
  aget k (members (mj_command c)) = match aget k (cmd_ol c) with Some o => o | None => None end.
Proof.
  intros c k (Nr & Av & _) I. rewrite mj_command_ol.
  assert (Nol : NoDup (map fst (cmd_ol c))) by (apply nodupb_sound; reflexivity).
  rewrite inline_friendly_lookup by (try apply compact_nodup; assumption).
  rewrite aget_compact by exact Nol.
  rewrite (aget_none k (cs_rem c)) by (apply Av; exact I).
  destruct (aget k (cmd_ol c)) as [[j|]|]; reflexivity.
Qed.

(** ------------------------------------------------------------------ *)
(** Matrix.IsEmpty is determined by the marshalled matrix *)

Definition empty_matrix_json : json := JObj [("setup", JNull)].

Lemma empty_matrix_marshals : forall m, matrix_is_empty m = true -> mj_matrix m = empty_matrix_json.
Proof.
  intros [su adj rem] H. unfold matrix_is_empty in H. cbn [mx_setup mx_adj mx_rem] in H.
  destruct su as [[|x r]|]; destruct adj; destruct rem; try discriminate H; reflexivity.
Qed.

Lemma marshals_empty_matrix : forall m, ~ In "setup" (map fst (mx_rem m)) ->
  mj_matrix m = empty_matrix_json -> matrix_is_empty m = true.
Proof.
  intros m Av E. destruct (mx_simple m) as [vs|] eqn:S.
  - unfold mj_matrix in E. rewrite S in E. discriminate E.
  - rewrite (mj_matrix_eq m S) in E.
    assert (K : forall k, In k (map fst (compact (matrix_ol m))) \/ In k (map fst (mx_rem m)) -> k = "setup").
    { intros k Hk. apply inline_friendly_keys in Hk. rewrite E in Hk. cbn in Hk. destruct Hk as [<-|[]]. reflexivity. }
    assert (ER : mx_rem m = []).
    { destruct (mx_rem m) as [|[k v] t] eqn:ER; [reflexivity|]. exfalso. apply Av.
      assert (k = "setup") by (apply K; right; left; reflexivity). subst k. left. reflexivity. }
    assert (EA : mx_adj m = []).
    { destruct (mx_adj m) as [|a t] eqn:EA; [reflexivity|]. exfalso.
      assert (X : "adjustments" = "setup"); [|discriminate X].
      apply K. left. eapply compact_keys_in. unfold matrix_ol. rewrite EA. right. left. reflexivity. }
    assert (G : aget "setup" (members (inline_friendly (compact (matrix_ol m)) (mx_rem m)))
                = Some (mj_setup (mx_setup m))).
    { rewrite ER. rewrite inline_friendly_lookup by
        (first [apply compact_nodup; apply nodupb_sound; reflexivity|constructor]).
      rewrite aget_compact by (apply nodupb_sound; reflexivity). reflexivity. }
    rewrite E in G. cbn in G. inversion G as [G'].
    unfold matrix_is_empty. rewrite EA, ER.
    destruct (mx_setup m) as [[|x r]|]; try reflexivity. exfalso.
    assert (ML : mj_setup (Some (x :: r)) = match setup_anon (x :: r) with
                                            | Some vs => jstrs vs
                                            | None => JObj (sort_keys (map (fun kv => (fst kv, mj_strs_opt (snd kv))) (x :: r)))
                                            end) by reflexivity.
    rewrite ML in G'. destruct (setup_anon (x :: r)); discriminate G'.
Qed.

Lemma matrix_is_empty_eq : forall m m',
  ~ In "setup" (map fst (mx_rem m)) -> ~ In "setup" (map fst (mx_rem m')) ->
  mj_matrix m' = mj_matrix m -> matrix_is_empty m' = matrix_is_empty m.
Proof.
  intros m m' A A' E.
  destruct (matrix_is_empty m) eqn:B.
  - apply marshals_empty_matrix; [exact A'|]. rewrite E. apply empty_matrix_marshals. exact B.
  - destruct (matrix_is_empty m') eqn:B'; [|reflexivity].
    rewrite <- B. symmetry. apply marshals_empty_matrix; [exact A|]. rewrite <- E.
    apply empty_matrix_marshals. exact B'.
Qed.

(** ------------------------------------------------------------------ *)
(** env shadowing is determined by the marshalled env *)

Lemma ahas_keys : forall {T} n (l l' : list (string * T)),
  (In n (map fst l') <-> In n (map fst l)) -> ahas n l' = ahas n l.
Proof.
  intros T n l l' H. unfold ahas.
  destruct (aget n l') as [v'|] eqn:E'; destruct (aget n l) as [v|] eqn:E; try reflexivity; exfalso.
  - apply aget_none_iff in E. apply E. apply H. apply aget_some_in in E'. apply (in_map fst) in E'. exact E'.
  - apply aget_none_iff in E'. apply E'. apply H. apply aget_some_in in E. apply (in_map fst) in E. exact E.
Qed.

Lemma map_ss_keys : forall l n, In n (map fst (members (mj_map_ss l))) <-> In n (map fst l).
Proof.
  intros l n. unfold mj_map_ss. cbn [members]. rewrite sort_keys_in.
  rewrite (map_fst_map (fun v => JStr v) l). reflexivity.
Qed.

Lemma map_ss_ahas : forall l l' n, mj_map_ss l' = mj_map_ss l -> ahas n l' = ahas n l.
Proof. intros l l' n H. apply ahas_keys. rewrite <- !map_ss_keys, H. reflexivity. Qed.

(** ------------------------------------------------------------------ *)
(** equal marshalled command steps have equal signed content *)

Theorem mj_command_signed_content_gen : forall c c',
  cmd_keys_ok c -> cmd_keys_ok c' -> mj_command c' = mj_command c -> same_signed_content c c'.
Proof.
  intros c c' K K' H.
  assert (EQ : forall k, In k cmd_primary ->
               match aget k (cmd_ol c') with Some o => o | None => None end =
               match aget k (cmd_ol c) with Some o => o | None => None end).
  { intros k I. rewrite <- !schema_entry by assumption. rewrite H. reflexivity. }
  pose proof (EQ "command" ltac:(unfold cmd_primary; in_lit)) as Ec.
  pose proof (EQ "env" ltac:(unfold cmd_primary; in_lit)) as Ee.
  pose proof (EQ "plugins" ltac:(unfold cmd_primary; in_lit)) as Ep.
  pose proof (EQ "matrix" ltac:(unfold cmd_primary; in_lit)) as Em.
  unfold cmd_ol in Ec, Ee, Ep, Em. cbn [aget String.eqb Ascii.eqb Bool.eqb] in Ec, Ee, Ep, Em.
  split.
  - intros repo f. unfold field_value.
    destruct (String.eqb f "command"); [congruence|].
    destruct (String.eqb f "env").
    { f_equal. destruct (cs_env c') eqn:E1, (cs_env c) eqn:E2; cbn [ne_opt] in Ee;
        try discriminate Ee; [reflexivity|congruence]. }
    destruct (String.eqb f "plugins").
    { f_equal. destruct (cs_plugins c') eqn:E1, (cs_plugins c) eqn:E2; cbn [ne_opt] in Ep;
        try discriminate Ep; [reflexivity|congruence]. }
    destruct (String.eqb f "matrix"); [|reflexivity].
    f_equal. destruct K as (_ & _ & KM), K' as (_ & _ & KM').
    destruct (cs_matrix c') as [m'|], (cs_matrix c) as [m|]; cbn [option_map] in Em;
      try discriminate Em; [|reflexivity].
    assert (E : mj_matrix m' = mj_matrix m) by congruence.
    rewrite (matrix_is_empty_eq m m' KM KM' E), E. reflexivity.
  - intros n. destruct (cs_env c') eqn:E1, (cs_env c) eqn:E2; cbn [ne_opt] in Ee;
      try discriminate Ee; [reflexivity|].
    apply map_ss_ahas. congruence.
Qed.

(* equal marshalled command steps have equal signed content *)
Theorem mj_command_signed_content : forall c c',
  cmd_ok c -> cmd_ok c' -> mj_command c' = mj_command c -> same_signed_content c c'.
Proof. intros c c' H H' E. apply mj_command_signed_content_gen; try apply cmd_ok_keys_ok; assumption. Qed.

(** ------------------------------------------------------------------ *)
(** what CommandStep.UnmarshalOrdered returns on a mapping with distinct keys is [cmd_keys_ok] *)

Lemma unm_matrix_setup_free : forall v m w, unm_matrix v = Ok (Some m) w -> ~ In "setup" (map fst (mx_rem m)).
Proof.
  intros v m w H. destruct v; try discriminate H.
  - cbn [unm_matrix] in H. apply PipelineProofs.bind_ok in H. destruct H as (ss & w1 & w2 & _ & H & _).
    inversion H; subst. intros [].
  - rewrite (unm_matrix_rem _ _ _ H). apply (primary_not_leftover _ l "setup" []). rewrite kt_matrix. in_lit.
Qed.

Lemma unm_command_matrix : forall m c w, unm_command m = Ok c w ->
  exists w', opt_field "Matrix"
               (partition_keys struct_CommandStep (leftover (partition_keys struct_CommandStep_UnmarshalOrdered_anon0 m)))
               None unm_matrix = Ok (cs_matrix c) w'.
Proof.
  intros m c w H. unfold unm_command in H. cbv zeta in H.
  do 7 (apply PipelineProofs.bind_ok in H; destruct H as (? & ? & ? & _ & H & _)).
  apply PipelineProofs.bind_ok in H. destruct H as (mx & w1 & w2 & HM & H & _).
  apply PipelineProofs.bind_ok in H. destruct H as (ca & w3 & w4 & _ & H & _).
  unfold ret in H. inversion H; subst. cbn [cs_matrix]. eauto.
Qed.

Lemma unm_command_keys_ok : forall m c w, NoDup (map fst m) -> unm_command m = Ok c w -> cmd_keys_ok c.
Proof.
  intros m c w N H. split; [|split].
  - rewrite (unm_command_rem _ _ _ H). apply leftover_nodup. apply leftover_nodup. exact N.
  - rewrite (unm_command_rem _ _ _ H). intros k Hk I. unfold cmd_primary in Hk. cbn [In] in Hk.
    destruct Hk as [<-|Hk].
    + assert (I' : In "commands" (map fst (leftover (partition_keys struct_CommandStep_UnmarshalOrdered_anon0 m)))).
      { apply in_map_iff in I. destruct I as (kv & E & I). apply leftover_incl in I.
        apply in_map_iff. exists kv. split; assumption. }
      revert I'. apply (primary_not_leftover _ m "commands" ["command"]). rewrite kt_outer. in_lit.
    + revert I.
      repeat (destruct Hk as [<-|Hk]; [eapply primary_not_leftover; rewrite kt_cmd; in_lit|]). destruct Hk.
  - destruct (unm_command_matrix _ _ _ H) as (w' & HM). unfold opt_field in HM.
    destruct (cs_matrix c) as [mx|] eqn:Em; [|exact I].
    destruct (field "Matrix" _) as [v|]; [|discriminate HM].
    eapply unm_matrix_setup_free. exact HM.
Qed.

(* hence: the command step obtained by re-reading the marshalled step has the same signed content *)
Corollary command_roundtrip_signed_content : forall c, cmd_ok c ->
  exists c', unm_command (gmap (members (mj_command c))) = Ok c' 0 /\ same_signed_content c c'.
Proof.
  intros c OK. destruct (command_roundtrip c OK) as (c' & E1 & E2).
  exists c'. split; [exact E1|].
  apply mj_command_signed_content_gen; [apply cmd_ok_keys_ok; exact OK| |exact E2].
  eapply unm_command_keys_ok; [|exact E1]. rewrite keys_gmap, mj_command_ol. apply inline_friendly_nodup.
Qed.

(** composed with [signed_roundtrip]: a signature made over a command step verifies against the step
    obtained by marshalling it to JSON and parsing it back *)
Section Link.
  Variable K PK : Type.
  Variable pub : K -> PK.
  Variable alg_of : K -> string.
  Variable sgn : K -> string -> string.
  Variable vrf : PK -> string -> string -> bool.
  Hypothesis vrf_ideal : forall pk m s, vrf pk m s = true <-> exists k, pk = pub k /\ s = sgn k m.

  Theorem signature_survives_reparse : forall k c repo penv penv',
    cmd_ok c -> NoDup (map fst penv) -> NoDup (map fst penv') ->
    (forall n v, aget n penv = Some v -> aget n penv' = Some v) ->
    exists c', unm_command (gmap (members (mj_command c))) = Ok c' 0 /\
               verify PK vrf (pub k) (sign K alg_of sgn k c repo penv) c' repo penv' = true.
  Proof.
    intros k c repo penv penv' OK N N' Hs.
    destruct (command_roundtrip_signed_content c OK) as (c' & E & SC).
    exists c'. split; [exact E|].
    apply (signed_roundtrip K PK pub alg_of sgn vrf vrf_ideal); assumption.
  Qed.
End Link.

Print Assumptions command_roundtrip_signed_content.
Print Assumptions signature_survives_reparse.
