(** Proofs about Model/MatrixInterp.v: the hand-written matcher accepts exactly
    the declarative token shape, and transform is leftmost, non-overlapping,
    single pass. *)
From Coq Require Import String List Ascii Bool Arith Lia.
From GP Require Import Model.MatrixInterp.
From GP Require Model.Matrix.
Import ListNotations.
Local Open Scope string_scope.

(* the declarative token shape from the property text *)
Definition token_str (w1 key w2 : string) : string := "{{" ++ w1 ++ "matrix" ++ key ++ w2 ++ "}}".
Definition is_token (t key : string) : Prop :=
  exists w1 w2, all_of is_ws w1 = true /\ all_of is_ws w2 = true /\ is_key key = true /\ t = token_str w1 key w2.

(** ---------------------------------------------------------------- *)
(** Strings *)

Lemma app_assoc_s : forall a b c : string, (a ++ b) ++ c = a ++ (b ++ c).
Proof.
  induction a as [|x a IH]; intros b c.
  - reflexivity.
  - cbn [String.append]. rewrite IH. reflexivity.
Qed.

Lemma length_app_s : forall a b : string, String.length (a ++ b) = String.length a + String.length b.
Proof.
  induction a as [|x a IH]; intros b.
  - reflexivity.
  - cbn [String.append String.length]. rewrite IH. reflexivity.
Qed.

Lemma append_nil_l : forall s : string, "" ++ s = s.
Proof. reflexivity. Qed.

Lemma append_cons : forall c (a b : string), String c a ++ b = String c (a ++ b).
Proof. reflexivity. Qed.

Lemma app_inj_len : forall a a' b b' : string,
  String.length a = String.length a' -> a ++ b = a' ++ b' -> a = a'.
Proof.
  induction a as [|x a IH]; intros [|x' a'] b b' Hl He; cbn [String.length] in Hl; try discriminate.
  - reflexivity.
  - cbn [String.append] in He. injection He as Hx He. injection Hl as Hl.
    subst x'. f_equal. eapply IH; eassumption.
Qed.

(** ---------------------------------------------------------------- *)
(** strip_prefix and span *)

Lemma strip_prefix_app : forall p s, strip_prefix p (p ++ s) = Some s.
Proof.
  induction p as [|a p IH]; intros s.
  - reflexivity.
  - cbn [String.append strip_prefix]. rewrite Ascii.eqb_refl. apply IH.
Qed.

Lemma strip_prefix_inv : forall p s r, strip_prefix p s = Some r -> s = p ++ r.
Proof.
  induction p as [|a p IH]; intros s r H.
  - cbn [strip_prefix] in H. injection H as ->. reflexivity.
  - cbn [strip_prefix] in H. destruct s as [|b s]; [discriminate|].
    destruct (Ascii.eqb_spec a b) as [->|_]; [|discriminate].
    cbn [String.append]. f_equal. apply IH. exact H.
Qed.

Lemma span_inv : forall f s x y, span f s = (x, y) -> s = x ++ y /\ all_of f x = true.
Proof.
  induction s as [|a s IH]; intros x y H.
  - cbn [span] in H. injection H as <- <-. split; reflexivity.
  - cbn [span] in H. destruct (f a) eqn:Fa.
    + destruct (span f s) as [x0 y0] eqn:E. injection H as <- <-.
      destruct (IH _ _ eq_refl) as [-> Hx]. split.
      * reflexivity.
      * cbn [all_of]. rewrite Fa, Hx. reflexivity.
    + injection H as <- <-. split; reflexivity.
Qed.

(** r is empty or starts with a character outside f *)
Definition stops (f : ascii -> bool) (r : string) : bool :=
  match r with EmptyString => true | String c _ => negb (f c) end.

Lemma span_app : forall f w r, all_of f w = true -> stops f r = true -> span f (w ++ r) = (w, r).
Proof.
  induction w as [|a w IH]; intros r Hw Hr.
  - cbn [String.append]. destruct r as [|c r]; [reflexivity|].
    cbn [stops] in Hr. cbn [span]. destruct (f c); [discriminate|reflexivity].
  - cbn [all_of] in Hw. apply andb_true_iff in Hw as [Ha Hw].
    cbn [String.append span]. rewrite Ha. rewrite (IH r Hw Hr). reflexivity.
Qed.

(** ---------------------------------------------------------------- *)
(** Character class facts *)

Lemma ws_not_dimc : forall c, is_ws c = true -> is_dimc c = false.
Proof. intros c; destruct c as [[] [] [] [] [] [] [] []]; vm_compute; intros; congruence. Qed.

Lemma ws_not_dot : forall c, is_ws c = true -> Ascii.eqb c "."%char = false.
Proof. intros c; destruct c as [[] [] [] [] [] [] [] []]; vm_compute; intros; congruence. Qed.

Lemma stops_dimc_ws_close : forall w r, all_of is_ws w = true -> stops is_dimc (w ++ "}}" ++ r) = true.
Proof.
  intros [|c w] r H.
  - reflexivity.
  - cbn [all_of] in H. apply andb_true_iff in H as [Hc _].
    cbn [String.append stops]. rewrite (ws_not_dimc _ Hc). reflexivity.
Qed.

(** ---------------------------------------------------------------- *)
(** match_token with the ascii pattern turned into a boolean test *)

Definition tail_branch (pre : nat) (s3 : string) : option (string * nat) :=
  match match_tail s3 with
  | Some n => Some (EmptyString, pre + n)
  | None => None
  end.

Definition dot_branch (pre : nat) (s4 : string) : option (string * nat) :=
  let (d, s5) := span is_dimc s4 in
  if String.eqb d "" then None
  else match match_tail s5 with
       | Some n => Some (String "."%char d, pre + 1 + String.length d + n)
       | None => None
       end.

Definition after_word (pre : nat) (s3 : string) : option (string * nat) :=
  match s3 with
  | EmptyString => tail_branch pre s3
  | String c s4 => if Ascii.eqb c "."%char then dot_branch pre s4 else tail_branch pre s3
  end.

Lemma match_token_eq : forall s,
  match_token s =
  match strip_prefix "{{" s with
  | None => None
  | Some s1 =>
      let (w1, s2) := span is_ws s1 in
      match strip_prefix "matrix" s2 with
      | None => None
      | Some s3 => after_word (2 + String.length w1 + 6) s3
      end
  end.
Proof.
  intros s. unfold match_token, after_word, dot_branch, tail_branch, tok_open, tok_word.
  destruct (strip_prefix "{{" s) as [s1|]; [|reflexivity].
  destruct (span is_ws s1) as [w1 s2].
  destruct (strip_prefix "matrix" s2) as [s3|]; [|reflexivity].
  destruct s3 as [|c s4]; [reflexivity|].
  destruct c as [[] [] [] [] [] [] [] []]; reflexivity.
Qed.

Lemma match_tail_app : forall w r, all_of is_ws w = true ->
  match_tail (w ++ "}}" ++ r) = Some (String.length w + 2).
Proof.
  intros w r Hw. unfold match_tail, tok_close.
  rewrite (span_app is_ws w ("}}" ++ r) Hw eq_refl).
  rewrite strip_prefix_app. reflexivity.
Qed.

Lemma match_tail_inv : forall s n, match_tail s = Some n ->
  exists w r, s = w ++ "}}" ++ r /\ all_of is_ws w = true /\ n = String.length w + 2.
Proof.
  intros s n H. unfold match_tail, tok_close in H.
  destruct (span is_ws s) as [w r0] eqn:E. apply span_inv in E as [-> Hw].
  destruct (strip_prefix "}}" r0) as [r|] eqn:E2; [|discriminate].
  apply strip_prefix_inv in E2. subst r0. injection H as <-.
  exists w, r. repeat split; assumption.
Qed.

Lemma is_key_inv : forall k, is_key k = true ->
  k = "" \/ exists d, k = String "."%char d /\ String.eqb d "" = false /\ all_of is_dimc d = true.
Proof.
  intros [|c d] H.
  - left; reflexivity.
  - right. destruct c as [[] [] [] [] [] [] [] []]; unfold is_key in H; try discriminate H.
    apply andb_true_iff in H as [H1 H2]. apply negb_true_iff in H1.
    exists d. repeat split; assumption.
Qed.

(** ---------------------------------------------------------------- *)
(** The matcher accepts exactly the declarative tokens *)

Lemma token_len : forall w1 key w2,
  String.length (token_str w1 key w2) =
  2 + String.length w1 + 6 + String.length key + String.length w2 + 2.
Proof.
  intros. unfold token_str. rewrite !length_app_s. cbn [String.length]. lia.
Qed.

Theorem match_token_sound : forall s key n, match_token s = Some (key, n) ->
  exists t rest, s = t ++ rest /\ is_token t key /\ String.length t = n.
Proof.
  intros s key n H. rewrite match_token_eq in H.
  destruct (strip_prefix "{{" s) as [s1|] eqn:E1; [|discriminate].
  apply strip_prefix_inv in E1.
  destruct (span is_ws s1) as [w1 s2] eqn:E2. apply span_inv in E2 as [E2 Hw1].
  destruct (strip_prefix "matrix" s2) as [s3|] eqn:E3; [|discriminate].
  apply strip_prefix_inv in E3.
  assert (Htail : forall s3, s2 = "matrix" ++ s3 ->
            tail_branch (2 + String.length w1 + 6) s3 = Some (key, n) ->
            exists t rest, s = t ++ rest /\ is_token t key /\ String.length t = n).
  { clear s3 E3 H. intros s3 E3 H. unfold tail_branch in H.
    destruct (match_tail s3) as [m|] eqn:E4; [|discriminate].
    injection H as <- <-.
    apply match_tail_inv in E4 as (w2 & r & -> & Hw2 & ->).
    exists (token_str w1 "" w2), r. split; [|split].
    - subst. unfold token_str. rewrite !app_assoc_s. reflexivity.
    - exists w1, w2. repeat split; assumption.
    - rewrite token_len. cbn [String.length]. lia. }
  destruct s3 as [|c s4].
  - apply (Htail _ E3 H).
  - cbn [after_word] in H. destruct (Ascii.eqb_spec c "."%char) as [->|_].
    + unfold dot_branch in H.
      destruct (span is_dimc s4) as [d s5] eqn:E4. apply span_inv in E4 as [-> Hd].
      destruct (String.eqb d "") eqn:Ed; [discriminate|].
      destruct (match_tail s5) as [m|] eqn:E5; [|discriminate].
      injection H as <- <-.
      apply match_tail_inv in E5 as (w2 & r & -> & Hw2 & ->).
      exists (token_str w1 (String "."%char d) w2), r. split; [|split].
      * subst. unfold token_str. rewrite !app_assoc_s. reflexivity.
      * exists w1, w2. repeat split; try assumption.
        unfold is_key. rewrite Ed, Hd. reflexivity.
      * rewrite token_len. cbn [String.length]. lia.
    + apply (Htail _ E3 H).
Qed.

Theorem match_token_complete : forall t key rest, is_token t key ->
  match_token (t ++ rest) = Some (key, String.length t).
Proof.
  intros t key rest (w1 & w2 & Hw1 & Hw2 & Hk & ->).
  rewrite token_len. rewrite match_token_eq. unfold token_str.
  rewrite !app_assoc_s. rewrite strip_prefix_app.
  rewrite (span_app is_ws w1 ("matrix" ++ _) Hw1 eq_refl).
  rewrite strip_prefix_app.
  destruct (is_key_inv _ Hk) as [->|(d & -> & Ed & Hd)].
  - rewrite (append_nil_l (w2 ++ "}}" ++ rest)). cbn [String.length].
    assert (Hnd : after_word (2 + String.length w1 + 6) (w2 ++ "}}" ++ rest)
                  = tail_branch (2 + String.length w1 + 6) (w2 ++ "}}" ++ rest)).
    { destruct w2 as [|c w2].
      - reflexivity.
      - cbn [all_of] in Hw2. apply andb_true_iff in Hw2 as [Hc _].
        cbn [String.append after_word]. rewrite (ws_not_dot _ Hc). reflexivity. }
    rewrite Hnd. unfold tail_branch. rewrite (match_tail_app _ _ Hw2).
    f_equal. f_equal. lia.
  - rewrite (append_cons "."%char d). cbn [after_word]. rewrite Ascii.eqb_refl.
    unfold dot_branch.
    rewrite (span_app is_dimc d _ Hd (stops_dimc_ws_close w2 rest Hw2)).
    rewrite Ed. rewrite (match_tail_app _ _ Hw2).
    cbn [String.length]. f_equal. f_equal. lia.
Qed.

Theorem token_unique : forall t key t' key' r r',
  is_token t key -> is_token t' key' -> t ++ r = t' ++ r' -> t = t' /\ key = key'.
Proof.
  intros t key t' key' r r' H H' E.
  pose proof (match_token_complete t key r H) as M.
  pose proof (match_token_complete t' key' r' H') as M'.
  rewrite E in M. rewrite M' in M. injection M as Hk Hl.
  split.
  - symmetry in Hl. exact (app_inj_len _ _ _ _ Hl E).
  - symmetry; exact Hk.
Qed.

(** ---------------------------------------------------------------- *)
(** transform *)

(* no token starts anywhere in s *)
Fixpoint token_free (s : string) : Prop :=
  match s with
  | EmptyString => True
  | String a r => match_token s = None /\ token_free r
  end.

Lemma scan_cons0 : forall repl a r,
  scan repl (String a r) 0 =
  match match_token (String a r) with
  | Some (key, n) =>
      let (o, u) := scan repl r (n - 1) in
      match repl key with
      | Some v => (v ++ o, u)
      | None => (o, key :: u)
      end
  | None => let (o, u) := scan repl r 0 in (String a o, u)
  end.
Proof. reflexivity. Qed.

Lemma scan_skip : forall repl a rest,
  scan repl (a ++ rest) (String.length a) = scan repl rest 0.
Proof.
  intros repl. induction a as [|c a IH]; intros rest.
  - reflexivity.
  - cbn [String.append String.length scan]. apply IH.
Qed.

Theorem transform_token_free : forall repl s, token_free s -> transform repl s = (s, []).
Proof.
  intros repl. unfold transform. induction s as [|a s IH]; intros H.
  - reflexivity.
  - destruct H as [Hm Hf]. rewrite scan_cons0, Hm, (IH Hf). reflexivity.
Qed.

Lemma token_nonempty : forall t key, is_token t key -> exists c t', t = String c t'.
Proof.
  intros t key (w1 & w2 & _ & _ & _ & ->). unfold token_str.
  eexists. eexists. cbn [String.append]. reflexivity.
Qed.

(* leftmost, non-overlapping, single pass: plain text in which no token starts (in context),
   then a token; the replacement text is concatenated and never rescanned *)
Theorem transform_step : forall repl plain t key rest,
  (forall a b, plain = a ++ b -> b <> "" -> match_token (b ++ t ++ rest) = None) ->
  is_token t key ->
  transform repl (plain ++ t ++ rest) =
    (let (o, u) := transform repl rest in
     match repl key with
     | Some v => (plain ++ v ++ o, u)
     | None => (plain ++ o, key :: u)
     end).
Proof.
  intros repl plain t key rest Hp Ht. unfold transform.
  induction plain as [|c p IH].
  - clear Hp. pose proof (match_token_complete t key rest Ht) as M.
    destruct (token_nonempty _ _ Ht) as (c & t' & ->).
    cbn [String.append String.length] in *.
    rewrite scan_cons0, M.
    replace (S (String.length t') - 1) with (String.length t') by lia.
    rewrite scan_skip.
    destruct (scan repl rest 0) as [o u]. destruct (repl key); reflexivity.
  - cbn [String.append]. rewrite scan_cons0.
    assert (M : match_token (String c (p ++ t ++ rest)) = None).
    { apply (Hp "" (String c p)); [reflexivity|discriminate]. }
    rewrite M. rewrite IH.
    + destruct (scan repl rest 0) as [o u]. destruct (repl key); reflexivity.
    + intros a b E Hb. apply (Hp (String c a) b); [|exact Hb].
      rewrite E. reflexivity.
Qed.

(* a token naming an unknown dimension makes Transform fail *)
Theorem transform_unknown_fails : forall repl plain t key rest,
  (forall a b, plain = a ++ b -> b <> "" -> match_token (b ++ t ++ rest) = None) ->
  is_token t key -> repl key = None ->
  transform_result repl (plain ++ t ++ rest) = None.
Proof.
  intros repl plain t key rest Hp Ht Hk. unfold transform_result.
  rewrite (transform_step repl plain t key rest Hp Ht), Hk.
  destruct (transform repl rest) as [o u]. reflexivity.
Qed.

(* Transform succeeds iff no unknown token was met *)
Theorem transform_result_spec : forall repl s,
  transform_result repl s = (match snd (transform repl s) with [] => Some (fst (transform repl s)) | _ => None end).
Proof.
  intros repl s. unfold transform_result.
  destruct (transform repl s) as [o [|k u]]; reflexivity.
Qed.

(** ---------------------------------------------------------------- *)
(** newMatrixInterpolator *)

Theorem repl_of_perm_anon : forall p, repl_of_perm p "" = Matrix.assoc "" p.
Proof.
  unfold repl_of_perm. induction p as [|[d v] p IH].
  - reflexivity.
  - cbn [Matrix.assoc]. rewrite IH. destruct d as [|c d]; reflexivity.
Qed.

Theorem repl_of_perm_dim : forall p d, d <> "" -> repl_of_perm p (String "."%char d) = Matrix.assoc d p.
Proof.
  intros p d Hd. unfold repl_of_perm. induction p as [|[d' v] p IH].
  - reflexivity.
  - cbn [Matrix.assoc]. rewrite IH. destruct d' as [|c d'].
    + destruct d as [|x d]; [contradiction Hd; reflexivity|reflexivity].
    + change (String.eqb (if String.eqb (String c d') "" then "" else String "."%char (String c d')) (String "."%char d))
        with (Ascii.eqb "."%char "."%char && String.eqb (String c d') d)%bool.
      rewrite Ascii.eqb_refl. cbn [andb].
      rewrite (String.eqb_sym (String c d') d). reflexivity.
Qed.

(** ---------------------------------------------------------------- *)
(* non-vacuity / examples, by vm_compute *)
Example transform_example :
  transform_result (repl_of_perm [("os", "linux"); ("", "V")]) "a {{ matrix.os }}-{{matrix}} {{matrix.}} {{{matrix}}}"
  = Some "a linux-V {{matrix.}} {V}".
Proof. vm_compute. reflexivity. Qed.

Example transform_unknown_example :
  transform_result (repl_of_perm [("os", "linux")]) "{{matrix.arch}}" = None.
Proof. vm_compute. reflexivity. Qed.

Example transform_no_rescan_example :
  transform_result (repl_of_perm [("", "{{matrix}}")]) "{{matrix}}" = Some "{{matrix}}".
Proof. vm_compute. reflexivity. Qed.

Print Assumptions transform_step.
Print Assumptions match_token_complete.
