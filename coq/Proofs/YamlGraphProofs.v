(** Proofs about Model/YamlGraph.v: DecodeYAML over the yaml.v3 node graph
    terminates within the fuel its entry points use (for every graph, cyclic or
    not), rejects value cycles, tolerates merge cycles, and applies the merge
    precedence rules (explicit keys first, earlier merge sources before later
    ones, first occurrence wins). *)
From Coq Require Import String List Bool Arith Lia Relations.
From GP Require Import Model.Gv Model.YamlGraph.
Import ListNotations.

(** * membership helpers *)

Lemma mems_In : forall k l, mems k l = true <-> In k l.
Proof.
  intros k l; unfold mems; rewrite existsb_exists; split.
  - intros [x [Hx He]]. apply String.eqb_eq in He. subst; auto.
  - intros H. exists k. split; auto. apply String.eqb_refl.
Qed.
Lemma mems_nIn : forall k l, mems k l = false <-> ~ In k l.
Proof. intros. rewrite <- mems_In. destruct (mems k l); intuition congruence. Qed.

Lemma memn_In : forall n l, memn n l = true <-> In n l.
Proof.
  intros n l; unfold memn; rewrite existsb_exists; split.
  - intros [x [Hx He]]. apply Nat.eqb_eq in He. subst; auto.
  - intros H. exists n. split; auto. apply Nat.eqb_refl.
Qed.
Lemma memn_nIn : forall n l, memn n l = false <-> ~ In n l.
Proof. intros. rewrite <- memn_In. destruct (memn n l); intuition congruence. Qed.

(** * MERGE RULES at the level of one mapping *)

Theorem skip_keys_spec : forall keys ps out keys',
  skip_keys keys ps = (out, keys') ->
  (forall k v, In (k, v) out -> ~ In k keys) /\
  NoDup (map fst out) /\
  (forall k v, In (k, v) out -> In (k, v) ps) /\
  (forall k, In k (map fst ps) -> ~ In k keys -> In k (map fst out)) /\
  (forall k, In k keys' <-> In k keys \/ In k (map fst out)).
Proof.
  intros keys ps; revert keys.
  induction ps as [|[k0 v0] r IH]; intros keys out keys' H; cbn [skip_keys] in H.
  - inversion H; subst; clear H. cbn.
    split; [intros k v []|]. split; [constructor|]. split; [intros k v []|].
    split; [intros k []|]. intros k; tauto.
  - destruct (mems k0 keys) eqn:Hm.
    + apply mems_In in Hm. destruct (IH _ _ _ H) as (A & B & C & D & E).
      split; [exact A|]. split; [exact B|].
      split; [intros k v Hi; right; eauto|].
      split; [|exact E].
      intros k Hk Hn. cbn in Hk. destruct Hk as [Hk|Hk]; [subst; contradiction|]. auto.
    + apply mems_nIn in Hm.
      destruct (skip_keys (k0 :: keys) r) as [out' keys''] eqn:Hs.
      inversion H; subst; clear H.
      destruct (IH _ _ _ Hs) as (A & B & C & D & E).
      split.
      { intros k v [Hi|Hi].
        - inversion Hi; subst; auto.
        - intros Hk. apply (A _ _ Hi). right; auto. }
      split.
      { cbn. constructor; auto. intros Hi. apply in_map_iff in Hi.
        destruct Hi as [[k v] [Hf Hi]]. cbn in Hf; subst. apply (A _ _ Hi). left; auto. }
      split.
      { intros k v [Hi|Hi]; [left; auto| right; eauto]. }
      split.
      { intros k Hk Hn. cbn in Hk |- *. destruct Hk as [Hk|Hk]; [left; auto|].
        destruct (string_dec k0 k); [left; auto|right]. apply D; auto. intros [|]; auto. }
      intros k. rewrite E. cbn. tauto.
Qed.

Theorem skip_keys_first : forall keys ps out keys' k v,
  skip_keys keys ps = (out, keys') -> In (k, v) out ->
  exists pre post, ps = pre ++ (k, v) :: post /\ ~ In k (map fst pre).
Proof.
  intros keys ps; revert keys.
  induction ps as [|[k0 v0] r IH]; intros keys out keys' k v H Hi.
  - cbn in H. inversion H; subst. destruct Hi.
  - pose proof (skip_keys_spec _ _ _ _ H) as (A & _).
    cbn [skip_keys] in H. destruct (mems k0 keys) eqn:Hm.
    + apply mems_In in Hm. destruct (IH _ _ _ _ _ H Hi) as (pre & post & E & N).
      exists ((k0, v0) :: pre), post. split; [subst; reflexivity|].
      cbn. intros [Hk|Hk]; [subst; apply (A _ _ Hi); auto | auto].
    + destruct (skip_keys (k0 :: keys) r) as [out' keys''] eqn:Hs.
      inversion H; subst; clear H.
      destruct Hi as [Hi|Hi].
      * inversion Hi; subst. exists [], r. split; auto.
      * pose proof (skip_keys_spec _ _ _ _ Hs) as (A' & _).
        destruct (IH _ _ _ _ _ Hs Hi) as (pre & post & E & N).
        exists ((k0, v0) :: pre), post. split; [subst; reflexivity|].
        cbn. intros [Hk|Hk]; [subst; apply (A' _ _ Hi); left; auto| auto].
Qed.

Theorem explicit_keys_spec : forall st content ks,
  explicit_keys st content = Some ks ->
  forall i k v, nth_error content (2 * i) = Some k -> nth_error content (2 * i + 1) = Some v ->
     is_merge_key st k = false -> exists ck, ckey_of st k = Some ck /\ In ck ks.
Proof.
  intros st content ks H i; revert content ks H.
  induction i as [|i IH]; intros content ks H k v Hk Hv Hm.
  - destruct content as [|k0 [|v0 rest]]; cbn in Hk, Hv; try discriminate.
    inversion Hk; subst. cbn [explicit_keys] in H. rewrite Hm in H.
    destruct (ckey_of st k) as [ck|]; [|discriminate].
    destruct (explicit_keys st rest); [|discriminate].
    inversion H; subst. exists ck; split; auto. left; auto.
  - replace (2 * S i) with (S (S (2 * i))) in Hk by lia.
    replace (2 * S i + 1) with (S (S (2 * i + 1))) in Hv by lia.
    destruct content as [|k0 [|v0 rest]]; cbn [nth_error] in Hk, Hv; try discriminate.
    cbn [explicit_keys] in H.
    destruct (is_merge_key st k0).
    + eapply IH; eauto.
    + destruct (ckey_of st k0); [|discriminate].
      destruct (explicit_keys st rest) eqn:He; [|discriminate].
      inversion H; subst. destruct (IH _ _ He _ _ Hk Hv Hm) as (ck & ? & ?).
      exists ck; split; auto. right; auto.
Qed.

(** * one-step unfoldings of [range] and [decode] with their local loops named *)

Definition rpairs (fuel' : nat) (st : store) :=
  fix pairs (content : list nat) (keys : list string) (merged : list nat)
            (acc : list (string * nat)) {struct content} : rres :=
    match content with
    | k :: v :: rest =>
        if is_merge_key st k then
          match range fuel' st merged v with
          | ROk ps merged' =>
              let (out, keys') := skip_keys keys ps in
              pairs rest keys' merged' (acc ++ out)
          | r => r
          end
        else match ckey_of st k with
             | Some ck => pairs rest keys merged (acc ++ [(ck, v)])
             | None => RErr
             end
    | _ => ROk acc merged
    end.

Definition rseq (fuel' : nat) (st : store) :=
  fix each (items : list nat) (merged : list nat) (acc : list (string * nat))
           {struct items} : rres :=
    match items with
    | [] => ROk acc merged
    | e :: rest =>
        match range fuel' st merged e with
        | ROk ps merged' => each rest merged' (acc ++ ps)
        | r => r
        end
    end.

Lemma range_S : forall f st merged n,
  range (S f) st merged n =
  if memn n merged then ROk [] merged
  else match node st n with
       | YMap content =>
           match explicit_keys st content with
           | None => RErr
           | Some keys0 => rpairs f st content keys0 (n :: merged) []
           end
       | YSeq items => rseq f st items (n :: merged) []
       | YAlias t => range f st (n :: merged) t
       | _ => RErr
       end.
Proof. reflexivity. Qed.

Lemma rpairs_nil : forall f st keys merged acc,
  rpairs f st [] keys merged acc = ROk acc merged.
Proof. reflexivity. Qed.
Lemma rpairs_one : forall f st k keys merged acc,
  rpairs f st [k] keys merged acc = ROk acc merged.
Proof. reflexivity. Qed.
Lemma rpairs_cons2 : forall f st k v rest keys merged acc,
  rpairs f st (k :: v :: rest) keys merged acc =
  if is_merge_key st k then
    match range f st merged v with
    | ROk ps merged' =>
        let (out, keys') := skip_keys keys ps in
        rpairs f st rest keys' merged' (acc ++ out)
    | r => r
    end
  else match ckey_of st k with
       | Some ck => rpairs f st rest keys merged (acc ++ [(ck, v)])
       | None => RErr
       end.
Proof. reflexivity. Qed.
Lemma rseq_cons : forall f st e rest merged acc,
  rseq f st (e :: rest) merged acc =
  match range f st merged e with
  | ROk ps merged' => rseq f st rest merged' (acc ++ ps)
  | r => r
  end.
Proof. reflexivity. Qed.

Definition dseq (fuel' : nat) (st : store) (seen' : list nat) :=
  fix each (items : list nat) (acc : list gv) {struct items} : dres :=
    match items with
    | [] => DOk (GSeq acc)
    | c :: rest =>
        match decode fuel' st seen' c with
        | DOk v => each rest (acc ++ [v])
        | r => r
        end
    end.
Definition dmap (fuel' : nat) (st : store) (seen' : list nat) :=
  fix each (ps : list (string * nat)) (m : list (string * gv)) {struct ps} : dres :=
    match ps with
    | [] => DOk (GMap m)
    | (k, vn) :: rest =>
        match decode fuel' st seen' vn with
        | DOk v => each rest (oset k v m)
        | r => r
        end
    end.

Lemma decode_S : forall f st seen n,
  decode (S f) st seen n =
  if memn n seen then DErr
  else match node st n with
       | YScalar _ _ dec => match dec with Some v => DOk v | None => DErr end
       | YSeq items => dseq f st (n :: seen) items []
       | YMap _ =>
           match range (S (length st)) st [] n with
           | RErr => DErr
           | RFuel => DFuel
           | ROk ps _ => dmap f st (n :: seen) ps []
           end
       | YAlias t => decode f st (n :: seen) t
       | YDoc content =>
           match content with
           | [] => DOk GNull
           | [c] => decode f st (n :: seen) c
           | _ => DErr
           end
       | YOther => DErr
       end.
Proof. reflexivity. Qed.

Lemma dseq_cons : forall f st seen c rest acc,
  dseq f st seen (c :: rest) acc =
  match decode f st seen c with
  | DOk v => dseq f st seen rest (acc ++ [v])
  | r => r
  end.
Proof. reflexivity. Qed.
Lemma dmap_cons : forall f st seen k vn rest m,
  dmap f st seen ((k, vn) :: rest) m =
  match decode f st seen vn with
  | DOk v => dmap f st seen rest (oset k v m)
  | r => r
  end.
Proof. reflexivity. Qed.

(** * a node met again on the current path is an error *)

Theorem decode_seen : forall f st seen n, In n seen -> decode (S f) st seen n = DErr.
Proof.
  intros f st seen n H. rewrite decode_S. apply memn_In in H. rewrite H. reflexivity.
Qed.

(** * examples *)

Definition sc (s : string) : ynode := YScalar false (Some s) (Some (GStr s)).
Definition mg : ynode := YScalar true None (Some (GStr "<<"%string)).

Example merge_precedence_example :
  (* 0: {<<: [*a, *b], x: "top"}  a = 5: {x: "a", y: "a"}  b = 6: {y: "b", z: "b"} *)
  let st := [YMap [1; 2; 3; 4]; mg; YSeq [7; 8]; sc "x"; sc "top"; YMap [3; 9; 10; 9]; YMap [10; 11; 12; 11];
             YAlias 5; YAlias 6; sc "a"; sc "y"; sc "b"; sc "z"] in
  decode_yaml st 0 = DOk (GMap [("y", GStr "a"); ("z", GStr "b"); ("x", GStr "top")])%string.
Proof. vm_compute. reflexivity. Qed.

Example merge_cycle_tolerated_example :
  (* 0: &m {<<: *m, x: "v"} *)
  let st := [YMap [1; 2; 3; 4]; mg; YAlias 0; sc "x"; sc "v"] in
  decode_yaml st 0 = DOk (GMap [("x", GStr "v")])%string.
Proof. vm_compute. reflexivity. Qed.

Example value_cycle_rejected_example :
  (* 0: &a [*a]   and   2: &m {self: *m} *)
  decode_yaml [YSeq [1]; YAlias 0] 0 = DErr /\
  decode_yaml [YSeq [1]; YAlias 0; YMap [3; 4]; sc "self"; YAlias 2] 2 = DErr.
Proof. vm_compute. split; reflexivity. Qed.

(** * value edges and value cycles *)

Definition vchild (st : store) (a b : nat) : Prop :=
  match node st a with
  | YSeq items => In b items
  | YAlias t => b = t
  | YDoc [c] => b = c
  | YMap _ => exists ps mg k, range (S (length st)) st [] a = ROk ps mg /\ In (k, b) ps
  | _ => False
  end.

Lemma dseq_ok : forall f st seen items acc v,
  dseq f st seen items acc = DOk v ->
  forall b, In b items -> exists v', decode f st seen b = DOk v'.
Proof.
  intros f st seen items.
  induction items as [|c rest IH]; intros acc v H b Hb; [destruct Hb|].
  rewrite dseq_cons in H.
  destruct (decode f st seen c) as [vc| |] eqn:Hc; try discriminate.
  destruct Hb as [Hb|Hb]; [subst; eauto|]. eapply IH; eauto.
Qed.

Lemma dmap_ok : forall f st seen ps m v,
  dmap f st seen ps m = DOk v ->
  forall k b, In (k, b) ps -> exists v', decode f st seen b = DOk v'.
Proof.
  intros f st seen ps.
  induction ps as [|[k0 vn] rest IH]; intros m v H k b Hb; [destruct Hb|].
  rewrite dmap_cons in H.
  destruct (decode f st seen vn) as [vc| |] eqn:Hc; try discriminate.
  destruct Hb as [Hb|Hb]; [inversion Hb; subst; eauto|]. eapply IH; eauto.
Qed.

Theorem decode_ok_children : forall f st seen n v,
  decode (S f) st seen n = DOk v ->
  ~ In n seen /\ forall b, vchild st n b -> exists v', decode f st (n :: seen) b = DOk v'.
Proof.
  intros f st seen n v H. rewrite decode_S in H.
  destruct (memn n seen) eqn:Hm; [discriminate|]. apply memn_nIn in Hm.
  split; [exact Hm|].
  intros b Hb. unfold vchild in Hb.
  destruct (node st n) as [im ck dec|items|content|t|content|] eqn:Hn.
  - destruct Hb.
  - eapply dseq_ok; eauto.
  - destruct Hb as (ps & mg0 & k & Hr & Hi). rewrite Hr in H. eapply dmap_ok; eauto.
  - subst. eauto.
  - destruct content as [|c [|]]; try destruct Hb. eauto.
  - destruct Hb.
Qed.

Lemma decode_reach : forall st a b, clos_trans nat (vchild st) a b ->
  forall f seen v, decode f st seen a = DOk v ->
  exists f' seen' v', decode f' st seen' b = DOk v' /\ In a seen' /\ incl seen seen'.
Proof.
  intros st a b H. apply clos_trans_t1n in H.
  induction H as [a y Hs | a y z Hs Ht IH]; intros f seen v Hd.
  - destruct f as [|f]; [cbn in Hd; discriminate|].
    destruct (decode_ok_children _ _ _ _ _ Hd) as [_ Hc].
    destruct (Hc _ Hs) as [v' Hv]. exists f, (a :: seen), v'.
    split; auto. split; [left; auto| intros x Hx; right; auto].
  - destruct f as [|f]; [cbn in Hd; discriminate|].
    destruct (decode_ok_children _ _ _ _ _ Hd) as [_ Hc].
    destruct (Hc _ Hs) as [v' Hv].
    destruct (IH _ _ _ Hv) as (f' & seen' & v'' & Hd' & Hin & Hincl).
    exists f', seen', v''. split; auto.
    split; [apply Hincl; left; auto | intros x Hx; apply Hincl; right; auto].
Qed.

Theorem value_cycle_rejected : forall st f seen n v,
  clos_trans nat (vchild st) n n -> decode f st seen n <> DOk v.
Proof.
  intros st f seen n v H Hd.
  destruct (decode_reach _ _ _ H _ _ _ Hd) as (f' & seen' & v' & Hd' & Hin & _).
  destruct f' as [|f']; [cbn in Hd'; discriminate|].
  rewrite (decode_seen _ _ _ _ Hin) in Hd'. discriminate.
Qed.

(** * BOUNDED TIME: the measure is the number of valid node ids not yet in the set *)

Definition cnt (st : store) (m : list nat) : nat :=
  length (filter (fun i => negb (memn i m)) (seq 0 (length st))).

Lemma filter_len_le : forall (f g : nat -> bool) l,
  (forall i, f i = true -> g i = true) -> length (filter f l) <= length (filter g l).
Proof.
  intros f g l H. induction l as [|a l IH]; cbn; [auto|].
  destruct (f a) eqn:Hf; [rewrite (H _ Hf); cbn; lia | destruct (g a); cbn; lia].
Qed.

Lemma filter_len_lt : forall (f g : nat -> bool) l n,
  (forall i, f i = true -> g i = true) -> In n l -> f n = false -> g n = true ->
  length (filter f l) < length (filter g l).
Proof.
  intros f g l n H. induction l as [|a l IH]; intros Hi Hf Hg; [destruct Hi|].
  cbn. destruct Hi as [->|Hi].
  - rewrite Hf, Hg. cbn. pose proof (filter_len_le f g l H). lia.
  - specialize (IH Hi Hf Hg).
    destruct (f a) eqn:Hfa; [rewrite (H _ Hfa); cbn; lia | destruct (g a); cbn; lia].
Qed.

Lemma cnt_incl : forall st m1 m2, incl m1 m2 -> cnt st m2 <= cnt st m1.
Proof.
  intros st m1 m2 H. unfold cnt. apply filter_len_le. intros i Hi.
  apply negb_true_iff in Hi. apply negb_true_iff.
  apply memn_nIn in Hi. apply memn_nIn. intros Hc. apply Hi, H, Hc.
Qed.

Lemma cnt_add : forall st m n, n < length st -> memn n m = false -> cnt st (n :: m) < cnt st m.
Proof.
  intros st m n Hv Hm. unfold cnt. apply filter_len_lt with (n := n).
  - intros i Hi. apply negb_true_iff in Hi. apply negb_true_iff.
    apply memn_nIn in Hi. apply memn_nIn. intros Hc. apply Hi. right; auto.
  - apply in_seq. lia.
  - apply negb_false_iff. apply memn_In. left; auto.
  - rewrite Hm. reflexivity.
Qed.

Lemma node_valid : forall st n, node st n <> YOther -> n < length st.
Proof.
  intros st n H. unfold node in H. destruct (lt_dec n (length st)) as [|Hn]; auto.
  rewrite nth_overflow in H by lia. congruence.
Qed.

Lemma list_pair_ind : forall (A : Type) (P : list A -> Prop),
  P [] -> (forall a, P [a]) -> (forall a b r, P r -> P (a :: b :: r)) -> forall l, P l.
Proof.
  intros A P H0 H1 H2.
  assert (H : forall l, P l /\ forall a, P (a :: l)).
  { induction l as [|x l [IH1 IH2]]; split; auto. }
  intros l; apply H.
Qed.

(** the merged set only grows *)
Lemma range_incl : forall f st merged n ps mg',
  range f st merged n = ROk ps mg' -> incl merged mg'.
Proof.
  induction f as [|f IH]; intros st merged n ps mg' H; [cbn in H; discriminate|].
  rewrite range_S in H.
  destruct (memn n merged); [inversion H; subst; apply incl_refl|].
  assert (Hp : forall content keys m acc ps mg',
             rpairs f st content keys m acc = ROk ps mg' -> incl m mg').
  { clear H. intros content.
    induction content as [|a|k v rest IHc] using list_pair_ind; intros keys m acc ps0 mg0 H.
    - rewrite rpairs_nil in H. inversion H; subst; apply incl_refl.
    - rewrite rpairs_one in H. inversion H; subst; apply incl_refl.
    - rewrite rpairs_cons2 in H. destruct (is_merge_key st k).
      + destruct (range f st m v) as [ps1 m1| |] eqn:Hr; try discriminate.
        destruct (skip_keys keys ps1) as [out keys'].
        apply IH in Hr. apply IHc in H. eapply incl_tran; eauto.
      + destruct (ckey_of st k); [|discriminate]. eapply IHc; eauto. }
  assert (Hs : forall items m acc ps mg',
             rseq f st items m acc = ROk ps mg' -> incl m mg').
  { clear H. intros items.
    induction items as [|e rest IHc]; intros m acc ps0 mg0 H.
    - cbn in H. inversion H; subst; apply incl_refl.
    - rewrite rseq_cons in H.
      destruct (range f st m e) as [ps1 m1| |] eqn:Hr; try discriminate.
      apply IH in Hr. apply IHc in H. eapply incl_tran; eauto. }
  assert (Ht : incl merged (n :: merged)) by (apply incl_tl, incl_refl).
  destruct (node st n) as [im ck dec|items|content|t|content|]; try discriminate.
  - apply Hs in H. eapply incl_tran; eauto.
  - destruct (explicit_keys st content); [|discriminate].
    apply Hp in H. eapply incl_tran; eauto.
  - apply IH in H. eapply incl_tran; eauto.
Qed.

Lemma range_total_gen : forall f st merged n,
  cnt st merged < f -> range f st merged n <> RFuel.
Proof.
  induction f as [|f IH]; intros st merged n Hc; [lia|].
  rewrite range_S. destruct (memn n merged) eqn:Hm; [discriminate|].
  assert (Hp : forall content keys m acc,
             cnt st m < f -> rpairs f st content keys m acc <> RFuel).
  { intros content.
    induction content as [|a|k v rest IHc] using list_pair_ind; intros keys m acc Hcm.
    - rewrite rpairs_nil; discriminate.
    - rewrite rpairs_one; discriminate.
    - rewrite rpairs_cons2. destruct (is_merge_key st k).
      + destruct (range f st m v) as [ps1 m1| |] eqn:Hr.
        * destruct (skip_keys keys ps1) as [out keys']. apply IHc.
          apply range_incl in Hr. pose proof (cnt_incl st _ _ Hr). lia.
        * discriminate.
        * exfalso. eapply IH; eauto.
      + destruct (ckey_of st k); [apply IHc; auto | discriminate]. }
  assert (Hs : forall items m acc,
             cnt st m < f -> rseq f st items m acc <> RFuel).
  { intros items.
    induction items as [|e rest IHc]; intros m acc Hcm.
    - cbn; discriminate.
    - rewrite rseq_cons.
      destruct (range f st m e) as [ps1 m1| |] eqn:Hr.
      + apply IHc. apply range_incl in Hr. pose proof (cnt_incl st _ _ Hr). lia.
      + discriminate.
      + exfalso. eapply IH; eauto. }
  destruct (node st n) as [im ck dec|items|content|t|content|] eqn:Hn; try discriminate;
    (assert (Hv : n < length st) by (apply node_valid; rewrite Hn; discriminate);
     pose proof (cnt_add st merged n Hv Hm)).
  - apply Hs; lia.
  - destruct (explicit_keys st content); [apply Hp; lia | discriminate].
  - apply IH; lia.
Qed.

Lemma cnt_nil : forall st, cnt st [] = length st.
Proof.
  intros st. unfold cnt. cbn [memn existsb negb].
  rewrite <- (seq_length (length st) 0) at 2.
  generalize (seq 0 (length st)). induction l; cbn; auto.
Qed.

Theorem range_total : forall st n, range (S (length st)) st [] n <> RFuel.
Proof. intros st n. apply range_total_gen. rewrite cnt_nil. lia. Qed.

Lemma decode_total_gen : forall f st seen n,
  cnt st seen < f -> decode f st seen n <> DFuel.
Proof.
  induction f as [|f IH]; intros st seen n Hc; [lia|].
  rewrite decode_S. destruct (memn n seen) eqn:Hm; [discriminate|].
  destruct (node st n) as [im ck dec|items|content|t|content|] eqn:Hn; try discriminate;
    (assert (Hv : n < length st) by (apply node_valid; rewrite Hn; discriminate);
     pose proof (cnt_add st seen n Hv Hm) as Hlt).
  - destruct dec; discriminate.
  - clear Hn. generalize (@nil gv). induction items as [|c rest IHc]; intros acc.
    + cbn; discriminate.
    + rewrite dseq_cons. destruct (decode f st (n :: seen) c) as [vc| |] eqn:Hd.
      * apply IHc.
      * discriminate.
      * exfalso. eapply IH; [|exact Hd]. lia.
  - destruct (range (S (length st)) st [] n) as [ps m1| |] eqn:Hr.
    + clear Hr. generalize (@nil (string * gv)). induction ps as [|[k vn] rest IHc]; intros m.
      * cbn; discriminate.
      * rewrite dmap_cons. destruct (decode f st (n :: seen) vn) as [vc| |] eqn:Hd.
        -- apply IHc.
        -- discriminate.
        -- exfalso. eapply IH; [|exact Hd]. lia.
    + discriminate.
    + exfalso. eapply range_total; eauto.
  - apply IH; lia.
  - destruct content as [|c [|]]; try discriminate. apply IH; lia.
Qed.

Theorem decode_total : forall st root, decode_yaml st root <> DFuel.
Proof. intros st root. unfold decode_yaml. apply decode_total_gen. rewrite cnt_nil. lia. Qed.

Print Assumptions decode_total.
Print Assumptions value_cycle_rejected.
