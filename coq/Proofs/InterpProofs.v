(** Proofs about the interpolation walkers (Model/Interp.v): errors are
    reported, every string is expanded exactly once, ordered maps keep their
    order, Go maps are rewritten deterministically, signatures are untouched
    and the shape of steps is kept. *)
From Coq Require Import String List Ascii Bool Arith Lia Permutation.
From GP Require Import Model.Gv Model.Pipeline Model.Interp Proofs.MarshalProofs Proofs.JcsProofs.
Import ListNotations.
Local Open Scope string_scope.
Local Open Scope list_scope.

(** ------------------------------------------------------------------ *)
(** induction principles for the nested inductives *)

Section GvInd.
  Variable P : gv -> Prop.
  Hypothesis Hnull : P GNull.
  Hypothesis Hbool : forall b, P (GBool b).
  Hypothesis Hint : forall z, P (GInt z).
  Hypothesis Hfloat : forall j s, P (GFloat j s).
  Hypothesis Hstr : forall s, P (GStr s).
  Hypothesis Htime : forall j, P (GTime j).
  Hypothesis Hseq : forall l, Forall P l -> P (GSeq l).
  Hypothesis Hmap : forall l, Forall (fun kv => P (snd kv)) l -> P (GMap l).
  Hypothesis Humap : forall l, Forall (fun kv => P (snd kv)) l -> P (GUMap l).

  Fixpoint gv_ind' (g : gv) : P g :=
    match g with
    | GNull => Hnull
    | GBool b => Hbool b
    | GInt z => Hint z
    | GFloat j s => Hfloat j s
    | GStr s => Hstr s
    | GTime j => Htime j
    | GSeq l => Hseq l ((fix go (l : list gv) : Forall P l :=
                           match l with
                           | [] => Forall_nil _
                           | x :: r => Forall_cons x (gv_ind' x) (go r)
                           end) l)
    | GMap l => Hmap l ((fix go (l : list (string * gv)) : Forall (fun kv => P (snd kv)) l :=
                           match l with
                           | [] => Forall_nil _
                           | (k, v) :: r => Forall_cons (P := fun kv => P (snd kv)) (k, v) (gv_ind' v) (go r)
                           end) l)
    | GUMap l => Humap l ((fix go (l : list (string * gv)) : Forall (fun kv => P (snd kv)) l :=
                             match l with
                             | [] => Forall_nil _
                             | (k, v) :: r => Forall_cons (P := fun kv => P (snd kv)) (k, v) (gv_ind' v) (go r)
                             end) l)
    end.
End GvInd.

Section StepInd.
  Variable P : step -> Prop.
  Hypothesis Hcommand : forall c, P (SCommand c).
  Hypothesis Hwait : forall s c, P (SWait s c).
  Hypothesis Hinput : forall s c, P (SInput s c).
  Hypothesis Htrigger : forall c, P (STrigger c).
  Hypothesis Hgroup : forall k g ss rem, Forall P ss -> P (SGroup k g ss rem).
  Hypothesis Hunknown : forall c, P (SUnknown c).

  Fixpoint step_ind' (s : step) : P s :=
    match s with
    | SCommand c => Hcommand c
    | SWait s c => Hwait s c
    | SInput s c => Hinput s c
    | STrigger c => Htrigger c
    | SGroup k g ss rem =>
        Hgroup k g ss rem ((fix go (l : list step) : Forall P l :=
                              match l with
                              | [] => Forall_nil _
                              | x :: r => Forall_cons x (step_ind' x) (go r)
                              end) ss)
    | SUnknown c => Hunknown c
    end.
End StepInd.

(** ------------------------------------------------------------------ *)
(** omapM *)

Section OmapM.
  Context {T U : Type} (f : T -> option U).

  Lemma omapM_cons : forall x r,
    omapM f (x :: r) = match f x, omapM f r with Some y, Some ys => Some (y :: ys) | _, _ => None end.
  Proof. reflexivity. Qed.

  Lemma omapM_Forall2 : forall l l', omapM f l = Some l' -> Forall2 (fun x y => f x = Some y) l l'.
  Proof.
    induction l as [|x r IH]; intros l' H.
    - cbn [omapM] in H. injection H as <-. constructor.
    - rewrite omapM_cons in H. destruct (f x) as [y|] eqn:Ex; [|discriminate H].
      destruct (omapM f r) as [ys|] eqn:Er; [|discriminate H].
      injection H as <-. constructor; [exact Ex|]. apply IH. reflexivity.
  Qed.

  Lemma omapM_length : forall l l', omapM f l = Some l' -> length l' = length l.
  Proof.
    intros l l' H. apply omapM_Forall2 in H. induction H as [|x y r r' _ _ IH]; cbn [length]; [reflexivity|].
    rewrite IH. reflexivity.
  Qed.

  Lemma omapM_ok_iff : forall l, omapM f l <> None <-> (forall x, In x l -> f x <> None).
  Proof.
    induction l as [|x r IH].
    - cbn [omapM In]. split; [intros _ x []|intros _; discriminate].
    - rewrite omapM_cons. split.
      + intros H y [<-|I].
        * destruct (f x); [discriminate|]. exfalso. apply H. reflexivity.
        * apply IH; [|exact I]. destruct (f x); [|exfalso; apply H; reflexivity].
          destruct (omapM f r); [discriminate|]. exfalso. apply H. reflexivity.
      + intros H.
        assert (Hx : f x <> None) by (apply H; left; reflexivity).
        assert (Hr : omapM f r <> None) by (apply IH; intros y I; apply H; right; exact I).
        destruct (f x); [|congruence]. destruct (omapM f r); [discriminate|congruence].
  Qed.

  (** over a permuted list: a permuted result, or an error for both *)
  Lemma omapM_perm : forall l l', Permutation l l' ->
    match omapM f l, omapM f l' with
    | Some a, Some b => Permutation a b
    | None, None => True
    | _, _ => False
    end.
  Proof.
    intros l l' Pm. induction Pm as [|x l l' Pm IH|x y l|l l' l'' Pm1 IH1 Pm2 IH2].
    - cbn [omapM]. apply Permutation_refl.
    - rewrite !omapM_cons. destruct (f x) as [y|].
      + destruct (omapM f l) as [a|]; destruct (omapM f l') as [b|]; try exact IH.
        apply perm_skip. exact IH.
      + exact I.
    - rewrite !omapM_cons. destruct (f x) as [x'|]; destruct (f y) as [y'|];
        destruct (omapM f l) as [a|]; try exact I.
      apply perm_swap.
    - destruct (omapM f l) as [a|]; destruct (omapM f l') as [b|]; destruct (omapM f l'') as [c|];
        try exact I; try contradiction.
      eapply Permutation_trans; eassumption.
  Qed.
End OmapM.

(** ------------------------------------------------------------------ *)
(** small list facts *)

Lemma filter_all : forall {A} (p : A -> bool) (l : list A),
  (forall x, In x l -> p x = true) -> filter p l = l.
Proof.
  intros A p l. induction l as [|x r IH]; intros H; cbn [filter]; [reflexivity|].
  rewrite (H x) by (left; reflexivity). rewrite IH; [reflexivity|].
  intros y I. apply H. right. exact I.
Qed.

Lemma last_cons : forall {A} (r : list A) (x d : A), last (x :: r) d = last r x.
Proof.
  intros A r. induction r as [|y r IH]; intros x d; [reflexivity|].
  change (last (x :: y :: r) d) with (last (y :: r) d). rewrite !IH. reflexivity.
Qed.

Lemma perm_concat_map : forall {A B} (h : A -> list B) (l l' : list A),
  Permutation l l' -> Permutation (concat (map h l)) (concat (map h l')).
Proof.
  intros A B h l l' Pm. rewrite <- !flat_map_concat_map. apply Permutation_flat_map. exact Pm.
Qed.

Lemma aset_fresh : forall {V} k (v : V) l, ~ In k (map fst l) -> aset k v l = l ++ [(k, v)].
Proof.
  intros V k v l. induction l as [|[k0 v0] r IH]; intros H; cbn [aset app]; [reflexivity|].
  cbn [map fst In] in H. destruct (String.eqb_spec k k0) as [E|N].
  - exfalso. apply H. left. congruence.
  - rewrite IH; [reflexivity|]. intros I. apply H. right. exact I.
Qed.

Section InterpProofs.
  Variable expand : string -> option string.
  (* total version used to state results: what a string becomes *)
  Definition ex (s : string) : string := match expand s with Some x => x | None => s end.

  (** ---------------------------------------------------------------- *)
  (** SIGNATURES ARE LEFT UNTOUCHED, the structure of a command step is kept *)

  Theorem interp_command_sig : forall c c', interp_command expand c = Some c' -> cs_sig c' = cs_sig c.
  Proof.
    intros c c' H. unfold interp_command in H.
    destruct (expand (cs_command c)); [|discriminate H].
    destruct (expand (cs_label c)); [|discriminate H].
    destruct (omapM (interp_plugin expand) (cs_plugins c)); [|discriminate H].
    destruct (expand (cs_key c)); [|discriminate H].
    destruct (interp_umap expand expand (cs_env c)); [|discriminate H].
    destruct (opt_interp (interp_matrix expand) (cs_matrix c)); [|discriminate H].
    destruct (opt_interp (interp_cache expand) (cs_cache c)); [|discriminate H].
    destruct (interp_rem expand (cs_rem c)); [|discriminate H].
    injection H as <-. reflexivity.
  Qed.

  Theorem interp_command_fields : forall c c', interp_command expand c = Some c' ->
    expand (cs_command c) = Some (cs_command c') /\ expand (cs_label c) = Some (cs_label c') /\
    expand (cs_key c) = Some (cs_key c') /\ length (cs_plugins c') = length (cs_plugins c) /\
    (match cs_matrix c, cs_matrix c' with None, None => True | Some _, Some _ => True | _, _ => False end) /\
    (match cs_cache c, cs_cache c' with
     | None, None => True
     | Some a, Some b => expand (ca_name a) = Some (ca_name b) /\ expand (ca_size a) = Some (ca_size b) /\
                         length (ca_paths b) = length (ca_paths a) /\ ca_disabled b = ca_disabled a
     | _, _ => False end).
  Proof.
    intros c c' H. unfold interp_command in H.
    destruct (expand (cs_command c)) as [cmd|] eqn:Ecmd; [|discriminate H].
    destruct (expand (cs_label c)) as [lbl|] eqn:Elbl; [|discriminate H].
    destruct (omapM (interp_plugin expand) (cs_plugins c)) as [pls|] eqn:Epls; [|discriminate H].
    destruct (expand (cs_key c)) as [key|] eqn:Ekey; [|discriminate H].
    destruct (interp_umap expand expand (cs_env c)) as [env|] eqn:Eenv; [|discriminate H].
    destruct (opt_interp (interp_matrix expand) (cs_matrix c)) as [mx|] eqn:Emx; [|discriminate H].
    destruct (opt_interp (interp_cache expand) (cs_cache c)) as [ca|] eqn:Eca; [|discriminate H].
    destruct (interp_rem expand (cs_rem c)) as [rem|] eqn:Erem; [|discriminate H].
    injection H as <-. cbn [cs_command cs_label cs_key cs_plugins cs_matrix cs_cache].
    split; [reflexivity|]. split; [reflexivity|]. split; [reflexivity|].
    split; [eapply omapM_length; exact Epls|]. split.
    - revert Emx. destruct (cs_matrix c) as [m|]; cbn [opt_interp]; intros Emx.
      + destruct (interp_matrix expand m) as [m'|]; cbn [option_map] in Emx; [|discriminate Emx].
        injection Emx as <-. exact I.
      + injection Emx as <-. exact I.
    - revert Eca. destruct (cs_cache c) as [a|]; cbn [opt_interp]; intros Eca.
      + destruct (interp_cache expand a) as [b|] eqn:Eb; cbn [option_map] in Eca; [|discriminate Eca].
        injection Eca as <-. unfold interp_cache in Eb.
        destruct (expand (ca_name a)) as [n|] eqn:En; [|discriminate Eb].
        destruct (interp_strs expand (ca_paths a)) as [p|] eqn:Ep; [|discriminate Eb].
        destruct (expand (ca_size a)) as [sz|] eqn:Es; [|discriminate Eb].
        destruct (interp_rem expand (ca_rem a)) as [r|] eqn:Er; [|discriminate Eb].
        injection Eb as <-. cbn [ca_name ca_size ca_paths ca_disabled].
        split; [reflexivity|]. split; [reflexivity|]. split; [|reflexivity].
        eapply omapM_length. exact Ep.
      + injection Eca as <-. exact I.
  Qed.

  (** ---------------------------------------------------------------- *)
  (** step kinds and list lengths are preserved, at every depth *)

  Fixpoint same_shape (a b : step) : Prop :=
    match a, b with
    | SCommand _, SCommand _ => True
    | SWait s1 _, SWait s2 _ => s1 = s2
    | SInput s1 _, SInput s2 _ => s1 = s2
    | STrigger _, STrigger _ => True
    | SGroup _ _ ss1 _, SGroup _ _ ss2 _ =>
        (fix all2 (x y : list step) : Prop :=
           match x, y with [], [] => True | a :: x', b :: y' => same_shape a b /\ all2 x' y' | _, _ => False end) ss1 ss2
    | SUnknown _, SUnknown _ => True
    | _, _ => False
    end.

  Definition all2_shape : list step -> list step -> Prop :=
    fix all2 (x y : list step) : Prop :=
      match x, y with [], [] => True | a :: x', b :: y' => same_shape a b /\ all2 x' y' | _, _ => False end.

  Lemma same_shape_group : forall k g ss rem k' g' ss' rem',
    same_shape (SGroup k g ss rem) (SGroup k' g' ss' rem') = all2_shape ss ss'.
  Proof. reflexivity. Qed.

  Definition igo_steps : list step -> option (list step) :=
    fix go (l : list step) : option (list step) :=
      match l with
      | [] => Some []
      | x :: r => match interp_step expand x, go r with Some y, Some ys => Some (y :: ys) | _, _ => None end
      end.

  Lemma interp_step_group : forall k g ss rem,
    interp_step expand (SGroup k g ss rem) =
    match expand k, opt_interp expand g, igo_steps ss, interp_rem expand rem with
    | Some k', Some g', Some ss', Some rem' => Some (SGroup k' g' ss' rem')
    | _, _, _, _ => None
    end.
  Proof. reflexivity. Qed.

  Lemma igo_steps_omapM : forall l, igo_steps l = omapM (interp_step expand) l.
  Proof.
    induction l as [|x r IH]; [reflexivity|].
    rewrite omapM_cons, <- IH. reflexivity.
  Qed.

  Theorem interp_step_shape : forall s s', interp_step expand s = Some s' -> same_shape s s'.
  Proof.
    intros s. induction s as [c|sc ct|sc ct|ct|k g ss rem IH|c] using step_ind'; intros s' H.
    - cbn [interp_step] in H. destruct (interp_command expand c); cbn [option_map] in H; [|discriminate H].
      injection H as <-. exact I.
    - cbn [interp_step] in H. destruct (interp_rem expand ct); cbn [option_map] in H; [|discriminate H].
      injection H as <-. reflexivity.
    - cbn [interp_step] in H. destruct (interp_rem expand ct); cbn [option_map] in H; [|discriminate H].
      injection H as <-. reflexivity.
    - cbn [interp_step] in H. destruct (interp_rem expand ct); cbn [option_map] in H; [|discriminate H].
      injection H as <-. exact I.
    - rewrite interp_step_group in H.
      destruct (expand k) as [k'|]; [|discriminate H].
      destruct (opt_interp expand g) as [g'|]; [|discriminate H].
      destruct (igo_steps ss) as [ss'|] eqn:Ess; [|discriminate H].
      destruct (interp_rem expand rem) as [rem'|]; [|discriminate H].
      injection H as <-. rewrite same_shape_group.
      rewrite igo_steps_omapM in Ess. apply omapM_Forall2 in Ess.
      induction Ess as [|x y r r' Hxy _ IHr].
      + exact I.
      + inversion IH as [|? ? Hx Hr]; subst.
        change (same_shape x y /\ all2_shape r r'). split; [apply Hx; exact Hxy|apply IHr; exact Hr].
    - cbn [interp_step] in H. destruct (interp_gv expand c); cbn [option_map] in H; [|discriminate H].
      injection H as <-. exact I.
  Qed.

  (** ---------------------------------------------------------------- *)
  (** entries of a mapping: (original key, new key, new value) *)

  Definition uf {V} (fv : V -> option V) (kv : string * V) : option (string * string * V) :=
    match expand (fst kv), fv (snd kv) with
    | Some k', Some v' => Some (fst kv, k', v')
    | _, _ => None
    end.

  Lemma interp_umap_eq : forall V (fv : V -> option V) l,
    interp_umap expand fv l = match omapM (uf fv) l with Some es => Some (urename es) | None => None end.
  Proof. reflexivity. Qed.

  Lemma uf_some : forall V (fv : V -> option V) kv e, uf fv kv = Some e ->
    fst (fst e) = fst kv /\ expand (fst kv) = Some (snd (fst e)) /\ fv (snd kv) = Some (snd e).
  Proof.
    intros V fv kv e H. unfold uf in H.
    destruct (expand (fst kv)) as [k'|]; [|discriminate H].
    destruct (fv (snd kv)) as [v'|]; [|discriminate H].
    injection H as <-. cbn [fst snd]. auto.
  Qed.

  Lemma uf_keys : forall V (fv : V -> option V) l es,
    Forall2 (fun kv e => uf fv kv = Some e) l es -> map (fun e => fst (fst e)) es = map fst l.
  Proof.
    intros V fv l es F. induction F as [|kv e r r' Hke _ IH]; cbn [map]; [reflexivity|].
    apply uf_some in Hke. destruct Hke as (E1 & _ & _). rewrite E1, IH. reflexivity.
  Qed.

  Lemma uf_newkeys : forall V (fv : V -> option V) l es,
    Forall2 (fun kv e => uf fv kv = Some e) l es ->
    map (fun e => snd (fst e)) es = map (fun kv => ex (fst kv)) l.
  Proof.
    intros V fv l es F. induction F as [|kv e r r' Hke _ IH]; cbn [map]; [reflexivity|].
    apply uf_some in Hke. destruct Hke as (_ & E2 & _). f_equal; [|exact IH]. unfold ex. rewrite E2. reflexivity.
  Qed.

  (** ---------------------------------------------------------------- *)
  (** DETERMINISM for Go maps *)

  Lemma urename_perm : forall V (es es' : list (string * string * V)),
    NoDup (map (fun e => fst (fst e)) es) -> Permutation es es' -> urename es = urename es'.
  Proof.
    intros V es es' N Pm. unfold urename.
    rewrite (sort_keys_perm_eq (map (fun e => (fst (fst e), e)) es) (map (fun e => (fst (fst e), e)) es')).
    - reflexivity.
    - rewrite map_map. cbn [fst]. exact N.
    - apply Permutation_map. exact Pm.
  Qed.

  Theorem interp_umap_perm : forall V (fv : V -> option V) l l',
    NoDup (map fst l) -> Permutation l l' -> interp_umap expand fv l = interp_umap expand fv l'.
  Proof.
    intros V fv l l' N Pm. rewrite !interp_umap_eq.
    pose proof (omapM_perm (uf fv) l l' Pm) as Hp.
    destruct (omapM (uf fv) l) as [es|] eqn:E; destruct (omapM (uf fv) l') as [es'|]; try contradiction.
    - f_equal. apply urename_perm; [|exact Hp].
      apply omapM_Forall2 in E. rewrite (uf_keys _ _ _ _ E). exact N.
    - reflexivity.
  Qed.

  Definition igo_seq : list gv -> option (list gv) :=
    fix go (l : list gv) : option (list gv) :=
      match l with
      | [] => Some []
      | x :: r => match interp_gv expand x, go r with Some y, Some ys => Some (y :: ys) | _, _ => None end
      end.

  Definition igo_map : list (string * gv) -> option (list (string * string * gv)) :=
    fix go (l : list (string * gv)) : option (list (string * string * gv)) :=
      match l with
      | [] => Some []
      | (k, v) :: r =>
          match expand k, interp_gv expand v, go r with
          | Some k', Some v', Some es => Some ((k, k', v') :: es)
          | _, _, _ => None
          end
      end.

  Lemma interp_gv_seq : forall l, interp_gv expand (GSeq l) = option_map GSeq (igo_seq l).
  Proof. reflexivity. Qed.

  Lemma interp_gv_map : forall l,
    interp_gv expand (GMap l) =
    match igo_map l with Some es => Some (GMap (orename (length es) [] es)) | None => None end.
  Proof. reflexivity. Qed.

  Lemma interp_gv_umap : forall l,
    interp_gv expand (GUMap l) = match igo_map l with Some es => Some (GUMap (urename es)) | None => None end.
  Proof. reflexivity. Qed.

  Lemma igo_seq_omapM : forall l, igo_seq l = omapM (interp_gv expand) l.
  Proof.
    induction l as [|x r IH]; [reflexivity|].
    rewrite omapM_cons, <- IH. reflexivity.
  Qed.

  Lemma igo_map_cons : forall k v r,
    igo_map ((k, v) :: r) =
    match expand k, interp_gv expand v, igo_map r with
    | Some k', Some v', Some es => Some ((k, k', v') :: es)
    | _, _, _ => None
    end.
  Proof. reflexivity. Qed.

  Lemma igo_map_omapM : forall l, igo_map l = omapM (uf (interp_gv expand)) l.
  Proof.
    induction l as [|[k v] r IH]; [reflexivity|].
    rewrite omapM_cons, igo_map_cons, <- IH. unfold uf. cbn [fst snd].
    destruct (expand k); [|reflexivity]. destruct (interp_gv expand v); [|reflexivity].
    destruct (igo_map r); reflexivity.
  Qed.

  Theorem interp_gv_umap_perm : forall l l',
    NoDup (map fst l) -> Permutation l l' -> interp_gv expand (GUMap l) = interp_gv expand (GUMap l').
  Proof.
    intros l l' N Pm. rewrite !interp_gv_umap, !igo_map_omapM.
    pose proof (interp_umap_perm _ (interp_gv expand) l l' N Pm) as H. rewrite !interp_umap_eq in H.
    destruct (omapM (uf (interp_gv expand)) l) as [es|]; destruct (omapM (uf (interp_gv expand)) l') as [es'|];
      try discriminate H; [|reflexivity].
    injection H as ->. reflexivity.
  Qed.

  (** and for colliding keys the greatest original key wins, whatever the order *)
  Lemma fold_aset_last : forall V (L : list (string * string * V)) k' acc,
    aget k' (fold_left (fun acc e => aset (snd (fst e)) (snd e) acc) L acc) =
    match filter (fun e => String.eqb (snd (fst e)) k') L with
    | [] => aget k' acc
    | x :: r => Some (snd (last r x))
    end.
  Proof.
    induction L as [|e L IH]; intros k' acc; cbn [fold_left filter]; [reflexivity|].
    rewrite IH, aget_aset. rewrite (String.eqb_sym k').
    destruct (String.eqb (snd (fst e)) k') eqn:E; [|reflexivity].
    destruct (filter (fun e0 => String.eqb (snd (fst e0)) k') L) as [|x r]; [reflexivity|].
    rewrite last_cons. reflexivity.
  Qed.

  Theorem urename_collision : forall V (es : list (string * string * V)) k',
    NoDup (map (fun e => fst (fst e)) es) ->
    aget k' (urename es) =
    (* the value of the entry with the greatest original key among those renamed to k' *)
    match filter (fun e => String.eqb (snd (fst e)) k') (map snd (sort_keys (map (fun e => (fst (fst e), e)) es))) with
    | [] => None
    | x :: r => Some (snd (last r x))
    end.
  Proof. intros V es k' _. unfold urename. rewrite fold_aset_last. reflexivity. Qed.

  (** ---------------------------------------------------------------- *)
  (** free-form values *)

  (* every string of a free-form value: keys and string leaves *)
  Fixpoint gv_strings (g : gv) : list string :=
    match g with
    | GStr s => [s]
    | GSeq l => concat (map gv_strings l)
    | GMap l => concat (map (fun kv => fst kv :: gv_strings (snd kv)) l)
    | GUMap l => concat (map (fun kv => fst kv :: gv_strings (snd kv)) l)
    | _ => []
    end.

  (* ordered maps only: no key expands to the ORIGINAL key of a LATER entry
     (Replace(old, new, v) would delete that later entry before it is visited) *)
  Fixpoint no_capture (ks : list string) : Prop :=
    match ks with
    | [] => True
    | k :: r => ~ In (ex k) r /\ no_capture r
    end.

  (* at every mapping level, the expanded keys are pairwise distinct
     (and, for ordered maps, no_capture holds) *)
  Fixpoint no_collision (g : gv) : Prop :=
    match g with
    | GSeq l => (fix all (l : list gv) : Prop := match l with [] => True | x :: r => no_collision x /\ all r end) l
    | GMap l => NoDup (map (fun kv => ex (fst kv)) l) /\ no_capture (map fst l) /\
                (fix all (l : list (string * gv)) : Prop := match l with [] => True | kv :: r => no_collision (snd kv) /\ all r end) l
    | GUMap l => NoDup (map (fun kv => ex (fst kv)) l) /\
                 (fix all (l : list (string * gv)) : Prop := match l with [] => True | kv :: r => no_collision (snd kv) /\ all r end) l
    | _ => True
    end.

  Definition all_nc_seq : list gv -> Prop :=
    fix all (l : list gv) : Prop := match l with [] => True | x :: r => no_collision x /\ all r end.
  Definition all_nc : list (string * gv) -> Prop :=
    fix all (l : list (string * gv)) : Prop := match l with [] => True | kv :: r => no_collision (snd kv) /\ all r end.

  Lemma no_collision_seq : forall l, no_collision (GSeq l) = all_nc_seq l.
  Proof. reflexivity. Qed.
  Lemma no_collision_map : forall l,
    no_collision (GMap l) = (NoDup (map (fun kv => ex (fst kv)) l) /\ no_capture (map fst l) /\ all_nc l).
  Proof. reflexivity. Qed.
  Lemma no_collision_umap : forall l,
    no_collision (GUMap l) = (NoDup (map (fun kv => ex (fst kv)) l) /\ all_nc l).
  Proof. reflexivity. Qed.

  Lemma all_nc_seq_Forall : forall l, all_nc_seq l -> Forall no_collision l.
  Proof.
    induction l as [|x r IH]; intros H; [constructor|].
    change (no_collision x /\ all_nc_seq r) in H. destruct H as [H1 H2]. constructor; [exact H1|apply IH; exact H2].
  Qed.
  Lemma all_nc_Forall : forall l, all_nc l -> Forall (fun kv => no_collision (snd kv)) l.
  Proof.
    induction l as [|x r IH]; intros H; [constructor|].
    change (no_collision (snd x) /\ all_nc r) in H. destruct H as [H1 H2]. constructor; [exact H1|apply IH; exact H2].
  Qed.

  Lemma gv_strings_seq : forall l, gv_strings (GSeq l) = concat (map gv_strings l).
  Proof. reflexivity. Qed.
  Lemma gv_strings_map : forall l, gv_strings (GMap l) = concat (map (fun kv => fst kv :: gv_strings (snd kv)) l).
  Proof. reflexivity. Qed.
  Lemma gv_strings_umap : forall l, gv_strings (GUMap l) = concat (map (fun kv => fst kv :: gv_strings (snd kv)) l).
  Proof. reflexivity. Qed.

  (** ---------------------------------------------------------------- *)
  (** ERRORS ARE REPORTED *)

  Lemma entries_ok_iff : forall l,
    Forall (fun kv => interp_gv expand (snd kv) <> None <->
                      (forall s, In s (gv_strings (snd kv)) -> expand s <> None)) l ->
    (igo_map l <> None <->
     (forall s, In s (concat (map (fun kv => fst kv :: gv_strings (snd kv)) l)) -> expand s <> None)).
  Proof.
    intros l IH. rewrite Forall_forall in IH. rewrite igo_map_omapM, omapM_ok_iff. split.
    - intros H s Hs. apply in_concat in Hs. destruct Hs as (y & Hy & Hsy).
      apply in_map_iff in Hy. destruct Hy as (kv & <- & Hkv).
      specialize (H kv Hkv). unfold uf in H. destruct Hsy as [<-|Hsy].
      + destruct (expand (fst kv)); [discriminate|]. exfalso. apply H. reflexivity.
      + apply (IH kv Hkv); [|exact Hsy].
        destruct (interp_gv expand (snd kv)); [discriminate|].
        destruct (expand (fst kv)); exfalso; apply H; reflexivity.
    - intros H kv Hkv. unfold uf.
      assert (Hin : In (fst kv :: gv_strings (snd kv)) (map (fun kv => fst kv :: gv_strings (snd kv)) l)).
      { apply in_map_iff. exists kv. split; [reflexivity|exact Hkv]. }
      assert (Hk : expand (fst kv) <> None).
      { apply H. apply in_concat. eexists. split; [exact Hin|]. left. reflexivity. }
      assert (Hv : interp_gv expand (snd kv) <> None).
      { apply (IH kv Hkv). intros s Hs. apply H. apply in_concat. eexists. split; [exact Hin|]. right. exact Hs. }
      destruct (expand (fst kv)); [|congruence].
      destruct (interp_gv expand (snd kv)); [discriminate|congruence].
  Qed.

  Theorem interp_gv_ok_iff : forall g,
    interp_gv expand g <> None <-> (forall s, In s (gv_strings g) -> expand s <> None).
  Proof.
    induction g as [|b|z|j st|s|j|l IH|l IH|l IH] using gv_ind'.
    - cbn [interp_gv gv_strings]. split; [intros _ s []|intros _; discriminate].
    - cbn [interp_gv gv_strings]. split; [intros _ s []|intros _; discriminate].
    - cbn [interp_gv gv_strings]. split; [intros _ s []|intros _; discriminate].
    - cbn [interp_gv gv_strings]. split; [intros _ s []|intros _; discriminate].
    - cbn [interp_gv gv_strings In]. split.
      + intros H s' [<-|[]]. destruct (expand s); [discriminate|]. exfalso. apply H. reflexivity.
      + intros H. assert (Hs : expand s <> None) by (apply H; left; reflexivity).
        destruct (expand s); [discriminate|congruence].
    - cbn [interp_gv gv_strings]. split; [intros _ s []|intros _; discriminate].
    - rewrite interp_gv_seq, gv_strings_seq, igo_seq_omapM. rewrite Forall_forall in IH.
      assert (Hiff : omapM (interp_gv expand) l <> None <->
                     (forall s, In s (concat (map gv_strings l)) -> expand s <> None)).
      { rewrite omapM_ok_iff. split.
        - intros H s Hs. apply in_concat in Hs. destruct Hs as (y & Hy & Hsy).
          apply in_map_iff in Hy. destruct Hy as (x & <- & Hx). apply (IH x Hx); [|exact Hsy]. apply H. exact Hx.
        - intros H x Hx. apply (IH x Hx). intros s Hs. apply H. apply in_concat.
          exists (gv_strings x). split; [apply in_map; exact Hx|exact Hs]. }
      rewrite <- Hiff. destruct (omapM (interp_gv expand) l); cbn [option_map]; split; congruence.
    - rewrite interp_gv_map, gv_strings_map, <- (entries_ok_iff l IH).
      destruct (igo_map l); split; congruence.
    - rewrite interp_gv_umap, gv_strings_umap, <- (entries_ok_iff l IH).
      destruct (igo_map l); split; congruence.
  Qed.

  (** ---------------------------------------------------------------- *)
  (** ordered maps: without collisions the rename loop deletes nothing *)

  Fixpoint nocap {V} (es : list (string * string * V)) : Prop :=
    match es with
    | [] => True
    | e :: r => ~ In (snd (fst e)) (map (fun e => fst (fst e)) r) /\ nocap r
    end.

  Lemma orename_nocoll : forall V f (todo : list (string * string * V)) done,
    length todo <= f ->
    NoDup (map fst done ++ map (fun e => snd (fst e)) todo) -> nocap todo ->
    orename f done todo = done ++ map (fun e => (snd (fst e), snd e)) todo.
  Proof.
    induction f as [|f IH]; intros todo done Hl Hn Hc.
    - destruct todo as [|e r]; [|cbn [length] in Hl; lia]. cbn [orename map]. rewrite app_nil_r. reflexivity.
    - destruct todo as [|[[k k'] v'] rest].
      + cbn [orename map]. rewrite app_nil_r. reflexivity.
      + cbn [orename]. cbn [nocap fst snd] in Hc. destruct Hc as [Hc1 Hc2]. cbn [map fst snd] in Hn.
        assert (Fd : filter (fun kv : string * V => negb (String.eqb (fst kv) k')) done = done).
        { apply filter_all. intros kv Hkv. apply negb_true_iff. apply String.eqb_neq. intros E.
          apply NoDup_remove_2 in Hn. apply Hn. apply in_or_app. left. rewrite <- E. apply in_map. exact Hkv. }
        assert (Fr : filter (fun e : string * string * V => negb (String.eqb (fst (fst e)) k')) rest = rest).
        { apply filter_all. intros e He. apply negb_true_iff. apply String.eqb_neq. intros E.
          apply Hc1. rewrite <- E. apply in_map_iff. exists e. split; [reflexivity|exact He]. }
        rewrite Fd, Fr. rewrite IH.
        * cbn [map fst snd]. rewrite <- app_assoc. reflexivity.
        * cbn [length] in Hl. lia.
        * rewrite map_app, <- app_assoc. cbn [map fst app]. exact Hn.
        * exact Hc2.
  Qed.

  Lemma nocap_of : forall V (fv : V -> option V) l es,
    Forall2 (fun kv e => uf fv kv = Some e) l es -> no_capture (map fst l) -> nocap es.
  Proof.
    intros V fv l es F. induction F as [|kv e r r' Hke F IH]; intros Hc; [exact I|].
    cbn [map no_capture] in Hc. destruct Hc as [H1 H2]. cbn [nocap]. split; [|apply IH; exact H2].
    rewrite (uf_keys _ _ _ _ F). apply uf_some in Hke. destruct Hke as (_ & E2 & _).
    unfold ex in H1. rewrite E2 in H1. exact H1.
  Qed.

  Lemma omap_result : forall l es,
    Forall2 (fun kv e => uf (interp_gv expand) kv = Some e) l es ->
    NoDup (map (fun kv => ex (fst kv)) l) -> no_capture (map fst l) ->
    orename (length es) [] es = map (fun e => (snd (fst e), snd e)) es.
  Proof.
    intros l es F Hn Hc. rewrite orename_nocoll; [reflexivity|apply le_n| |eapply nocap_of; eassumption].
    cbn [map app]. rewrite (uf_newkeys _ _ _ _ F). exact Hn.
  Qed.

  (* ordered maps keep their order when keys do not collide
     (STRENGTHENED: also no key may expand to the original key of a later entry) *)
  Theorem interp_gv_omap_order : forall l g',
    interp_gv expand (GMap l) = Some g' ->
    NoDup (map (fun kv => ex (fst kv)) l) -> no_capture (map fst l) ->
    exists l', g' = GMap l' /\ map fst l' = map (fun kv => ex (fst kv)) l.
  Proof.
    intros l g' H Hn Hc. rewrite interp_gv_map in H.
    destruct (igo_map l) as [es|] eqn:E; [|discriminate H]. injection H as <-.
    rewrite igo_map_omapM in E. apply omapM_Forall2 in E.
    eexists. split; [reflexivity|]. rewrite (omap_result l es E Hn Hc).
    rewrite map_map. cbn [fst]. eapply uf_newkeys. exact E.
  Qed.

  (** ---------------------------------------------------------------- *)
  (** Go maps: without collisions every entry is kept *)

  Lemma fold_aset_fresh : forall V (L : list (string * string * V)) acc,
    NoDup (map fst acc ++ map (fun e => snd (fst e)) L) ->
    fold_left (fun acc e => aset (snd (fst e)) (snd e) acc) L acc =
    acc ++ map (fun e => (snd (fst e), snd e)) L.
  Proof.
    induction L as [|e L IH]; intros acc Hn; cbn [fold_left map].
    - rewrite app_nil_r. reflexivity.
    - cbn [map] in Hn.
      assert (Hf : ~ In (snd (fst e)) (map fst acc)).
      { apply NoDup_remove_2 in Hn. intros Hi. apply Hn. apply in_or_app. left. exact Hi. }
      rewrite (aset_fresh _ _ _ Hf). rewrite IH.
      + rewrite <- app_assoc. reflexivity.
      + rewrite map_app, <- app_assoc. cbn [map fst app]. exact Hn.
  Qed.

  Lemma urename_nocoll : forall V (es : list (string * string * V)),
    NoDup (map (fun e => snd (fst e)) es) ->
    exists L, Permutation L es /\ urename es = map (fun e => (snd (fst e), snd e)) L.
  Proof.
    intros V es Hn. exists (map snd (sort_keys (map (fun e => (fst (fst e), e)) es))).
    assert (Pm : Permutation (map snd (sort_keys (map (fun e => (fst (fst e), e)) es))) es).
    { eapply Permutation_trans; [apply Permutation_map; apply sort_keys_perm|].
      rewrite map_map. cbn [snd]. rewrite map_id. apply Permutation_refl. }
    split; [exact Pm|]. unfold urename. rewrite fold_aset_fresh; [reflexivity|].
    cbn [map app]. eapply Permutation_NoDup; [|exact Hn].
    apply Permutation_map. apply Permutation_sym. exact Pm.
  Qed.

  (** ---------------------------------------------------------------- *)
  (** EXACTLY ONCE *)

  Lemma strings_entries : forall l es,
    Forall2 (fun kv e => uf (interp_gv expand) kv = Some e) l es ->
    Forall (fun kv => forall g', interp_gv expand (snd kv) = Some g' -> no_collision (snd kv) ->
                                 Permutation (gv_strings g') (map ex (gv_strings (snd kv)))) l ->
    Forall (fun kv => no_collision (snd kv)) l ->
    Permutation (concat (map (fun kv => fst kv :: gv_strings (snd kv)) (map (fun e => (snd (fst e), snd e)) es)))
                (map ex (concat (map (fun kv => fst kv :: gv_strings (snd kv)) l))).
  Proof.
    intros l es F. induction F as [|kv e r r' Hke _ IH]; intros HI HN.
    - apply Permutation_refl.
    - inversion HI as [|? ? HI1 HI2]; subst. inversion HN as [|? ? HN1 HN2]; subst.
      apply uf_some in Hke. destruct Hke as (_ & E2 & E3).
      cbn [map concat fst snd]. rewrite map_app. cbn [map app].
      replace (ex (fst kv)) with (snd (fst e)) by (unfold ex; rewrite E2; reflexivity).
      apply perm_skip. apply Permutation_app; [apply HI1; assumption|apply IH; assumption].
  Qed.

  Theorem interp_gv_strings : forall g g',
    interp_gv expand g = Some g' -> no_collision g ->
    Permutation (gv_strings g') (map ex (gv_strings g)).
  Proof.
    induction g as [|b|z|j st|s|j|l IH|l IH|l IH] using gv_ind'; intros g' H Hnc.
    - cbn [interp_gv] in H. injection H as <-. apply Permutation_refl.
    - cbn [interp_gv] in H. injection H as <-. apply Permutation_refl.
    - cbn [interp_gv] in H. injection H as <-. apply Permutation_refl.
    - cbn [interp_gv] in H. injection H as <-. apply Permutation_refl.
    - cbn [interp_gv] in H. destruct (expand s) as [x|] eqn:E; cbn [option_map] in H; [|discriminate H].
      injection H as <-. cbn [gv_strings map]. unfold ex. rewrite E. apply Permutation_refl.
    - cbn [interp_gv] in H. injection H as <-. apply Permutation_refl.
    - rewrite interp_gv_seq, igo_seq_omapM in H.
      destruct (omapM (interp_gv expand) l) as [l'|] eqn:E; cbn [option_map] in H; [|discriminate H].
      injection H as <-. rewrite no_collision_seq in Hnc. apply all_nc_seq_Forall in Hnc.
      rewrite !gv_strings_seq. apply omapM_Forall2 in E.
      induction E as [|x y r r' Hxy _ IHr].
      + apply Permutation_refl.
      + inversion IH as [|? ? HI1 HI2]; subst. inversion Hnc as [|? ? HN1 HN2]; subst.
        cbn [map concat]. rewrite map_app. apply Permutation_app; [apply HI1; assumption|apply IHr; assumption].
    - rewrite interp_gv_map in H. destruct (igo_map l) as [es|] eqn:E; [|discriminate H]. injection H as <-.
      rewrite igo_map_omapM in E. apply omapM_Forall2 in E.
      rewrite no_collision_map in Hnc. destruct Hnc as (Hn & Hc & Ha). apply all_nc_Forall in Ha.
      rewrite (omap_result l es E Hn Hc). rewrite !gv_strings_map.
      apply strings_entries; assumption.
    - rewrite interp_gv_umap in H. destruct (igo_map l) as [es|] eqn:E; [|discriminate H]. injection H as <-.
      rewrite igo_map_omapM in E. apply omapM_Forall2 in E.
      rewrite no_collision_umap in Hnc. destruct Hnc as (Hn & Ha). apply all_nc_Forall in Ha.
      destruct (urename_nocoll _ es) as (L & Pm & EL).
      { rewrite (uf_newkeys _ _ _ _ E). exact Hn. }
      rewrite EL. rewrite !gv_strings_umap.
      eapply Permutation_trans; [|apply (strings_entries l es E IH Ha)].
      apply perm_concat_map. apply Permutation_map. exact Pm.
  Qed.
End InterpProofs.

(** the strengthening of [no_collision] / [interp_gv_omap_order] by [no_capture] is needed:
    with distinct expanded keys only, an ordered-map entry can still be lost *)
Example omap_capture_counterexample :
  let expand := fun s => if String.eqb s "a" then Some "b" else if String.eqb s "b" then Some "c" else Some s in
  NoDup (map (fun kv : string * gv => ex expand (fst kv)) [("a", GNull); ("b", GNull)]) /\
  interp_gv expand (GMap [("a", GNull); ("b", GNull)]) = Some (GMap [("b", GNull)]).
Proof.
  split; [|vm_compute; reflexivity].
  vm_compute. constructor; [intros [H|[]]; discriminate H|]. constructor; [intros []|constructor].
Qed.

Print Assumptions interp_gv_strings.
Print Assumptions interp_umap_perm.
