(** Proofs about Model/EnvBlock.v: the concrete interpolateEnvBlock loop over
    the slot-list map refines the list-level specification, and what the
    specification says about the environment (write-back, runtime precedence). *)
From Coq Require Import String List Bool Arith Lia.
From GP Require Import Model.OMap Model.EnvBlock Proofs.OMapProofs.
Import ListNotations.

Section EnvBlockProofs.
  Variable E : Type.
  Variable eget : E -> string -> option string.
  Variable eset : E -> string -> string -> E.
  Variable expand : E -> string -> option string.

  Local Notation VISIT := (visit eget eset expand).
  Local Notation BLOOP := (block_loop eget eset expand).
  Local Notation SLOOP := (spec_loop eget eset expand).
  Local Notation SBLOCK := (spec_block eget eset expand).
  Local Notation RUN := (run_block eget eset expand).
  Local Notation ABSL := (absl string).
  Local Notation KILL := (kill string).

  (** how a concrete outcome and a specification outcome correspond *)
  Definition rel (a : option (omap string * E)) (b : option (list (string * string) * E)) : Prop :=
    match a, b with
    | Some (m', e'), Some (l', e'') => Inv string m' /\ abs m' = l' /\ e' = e''
    | None, None => True
    | _, _ => False
    end.

  (** ------------------------------------------------------------------ *)
  (** one iteration of the concrete loop at the cursor *)

  Lemma bl_dead : forall prefer (l1 : list (slot string)) k v0 r ix rest e,
    BLOOP prefer (length l1 :: rest) (mkOMap (l1 ++ mkSlot k v0 true :: r) ix) e =
    BLOOP prefer rest (mkOMap (l1 ++ mkSlot k v0 true :: r) ix) e.
  Proof.
    intros prefer l1 k v0 r ix rest e. cbn [block_loop items].
    rewrite nth_error_mid. reflexivity.
  Qed.

  Lemma bl_live : forall prefer (l1 : list (slot string)) k v0 r ix rest e,
    BLOOP prefer (length l1 :: rest) (mkOMap (l1 ++ mkSlot k v0 false :: r) ix) e =
    match VISIT prefer e k v0 with
    | Some (k', v', e') =>
        BLOOP prefer rest (replace k k' v' (mkOMap (l1 ++ mkSlot k v0 false :: r) ix)) e'
    | None => None
    end.
  Proof.
    intros prefer l1 k v0 r ix rest e. cbn [block_loop items].
    rewrite nth_error_mid. reflexivity.
  Qed.

  Lemma sl_zero : forall prefer done todo e,
    SLOOP prefer 0 done todo e = Some (done ++ todo, e).
  Proof. reflexivity. Qed.

  Lemma sl_nil : forall prefer fuel done e,
    SLOOP prefer (S fuel) done [] e = Some (done, e).
  Proof. reflexivity. Qed.

  Lemma sl_cons : forall prefer fuel done k v rest e,
    SLOOP prefer (S fuel) done ((k, v) :: rest) e =
    match VISIT prefer e k v with
    | Some (k', v', e') =>
        SLOOP prefer fuel (p_remove k' done ++ [(k', v')]) (p_remove k' rest) e'
    | None => None
    end.
  Proof. reflexivity. Qed.

  (** loop invariant, in the style of OMapProofs.rr_loop: cursor at [length l1],
      slots before it abstract to [done], the rest to [todo] *)
  Lemma bl_loop : forall prefer n (l2 l1 : list (slot string)) ix fuel e,
    length l2 = n -> Inv string (mkOMap (l1 ++ l2) ix) -> length (ABSL l2) <= fuel ->
    rel (BLOOP prefer (seq (length l1) n) (mkOMap (l1 ++ l2) ix) e)
        (SLOOP prefer fuel (ABSL l1) (ABSL l2) e).
  Proof.
    intros prefer n. induction n as [|n IH]; intros l2 l1 ix fuel e Hlen I Hfuel.
    - destruct l2 as [|s r]; [|discriminate]. cbn [seq block_loop].
      change (ABSL []) with (@nil (string * string)).
      destruct fuel as [|fuel]; [rewrite sl_zero | rewrite sl_nil]; unfold rel;
        (split; [exact I|]); (split; [|reflexivity]);
        rewrite abs_absl; cbn [items]; rewrite !app_nil_r; reflexivity.
    - destruct l2 as [|[k v0 d] r]; [discriminate|]. simpl in Hlen. injection Hlen as Hlen.
      cbn [seq]. destruct d.
      + rewrite bl_dead.
        assert (E2 : S (length l1) = length (l1 ++ [mkSlot k v0 true]))
          by (rewrite app_length; simpl; lia).
        rewrite absl_dead_cons in Hfuel |- *.
        rewrite (app_mid _ l1 _ r) in I.
        pose proof (IH r (l1 ++ [mkSlot k v0 true]) ix fuel e Hlen I Hfuel) as H.
        rewrite absl_app in H.
        change (ABSL [mkSlot k v0 true]) with (@nil (string * string)) in H.
        rewrite app_nil_r in H. rewrite <- app_mid in H. rewrite <- E2 in H. exact H.
      + rewrite bl_live. rewrite absl_live_cons in Hfuel |- *. simpl in Hfuel.
        destruct fuel as [|fuel]; [lia|]. rewrite sl_cons.
        destruct (VISIT prefer e k v0) as [[[k' v'] e']|]; [|exact Logic.I].
        destruct (replace_at _ l1 k v0 r ix k' v' I) as [ix' Hr].
        pose proof (inv_step _ _ (OReplace k k' v') I) as I'.
        cbn [step] in I'. rewrite Hr in I'. rewrite Hr.
        assert (E2 : S (length l1) = length (KILL k' l1 ++ [mkSlot k' v' false]))
          by (rewrite app_length, kill_length; simpl; lia).
        rewrite (app_mid _ (KILL k' l1) _ (KILL k' r)) in I'.
        assert (Hlen' : length (KILL k' r) = n) by (rewrite kill_length; exact Hlen).
        assert (Hfuel' : length (ABSL (KILL k' r)) <= fuel).
        { rewrite absl_kill. pose proof (p_remove_length _ k' (ABSL r)). lia. }
        pose proof (IH _ _ ix' fuel e' Hlen' I' Hfuel') as H.
        rewrite absl_app, !absl_kill in H.
        change (ABSL [mkSlot k' v' false]) with [(k', v')] in H.
        rewrite <- app_mid in H. rewrite <- E2 in H. exact H.
  Qed.

  (* REFINEMENT: the concrete loop over slots with in-place Replace equals the list-level
     top-to-bottom fold, including the error case, for every map satisfying the representation
     invariant (hence every reachable map), every environment and both flag values *)
  Theorem env_block_refines : forall prefer m e, Inv string m ->
    match run_block eget eset expand prefer m e, spec_block eget eset expand prefer (abs m) e with
    | Some (m', e'), Some (l', e'') => Inv string m' /\ abs m' = l' /\ e' = e''
    | None, None => True
    | _, _ => False
    end.
  Proof.
    intros prefer m e I.
    change (rel (RUN prefer m e) (SBLOCK prefer (abs m) e)).
    destruct (observers_agree _ _ I) as (_ & Hz & _).
    unfold run_block. destruct (is_zero m) eqn:Ez.
    - destruct (abs m) as [|p l] eqn:Ea; [|discriminate].
      unfold spec_block. cbn [length]. rewrite sl_zero. unfold rel.
      split; [exact I|]. split; [exact Ea | reflexivity].
    - destruct m as [l ix]. cbn [items]. unfold spec_block.
      rewrite abs_absl. cbn [items].
      apply (bl_loop prefer (length l) l [] ix (length (ABSL l)) e eq_refl I).
      apply Nat.le_refl.
  Qed.

  (* the specification read off: the first entry is expanded with the caller's environment,
     the rest with the environment it leaves behind *)
  Theorem spec_block_cons : forall prefer k v rest e,
    spec_block eget eset expand prefer ((k, v) :: rest) e =
    match visit eget eset expand prefer e k v with
    | Some (k', v', e') => spec_loop eget eset expand prefer (length rest) [(k', v')] (p_remove k' rest) e'
    | None => None
    end.
  Proof. intros prefer k v rest e. reflexivity. Qed.

  (* whatever the flag, the block records the pipeline's expansion of name and value *)
  Theorem visit_records : forall prefer e k v k' v' e',
    visit eget eset expand prefer e k v = Some (k', v', e') ->
    expand e k = Some k' /\ expand e v = Some v'.
  Proof.
    intros prefer e k v k' v' e' H. unfold visit in H.
    destruct (expand e k) as [k1|]; [|discriminate].
    destruct (expand e v) as [v1|]; [|discriminate].
    injection H as Hk Hv _. subst. split; reflexivity.
  Qed.

  (** the environment a visit leaves behind *)
  Lemma visit_env : forall prefer e k v k' v' e',
    VISIT prefer e k v = Some (k', v', e') ->
    e' = match eget e k' with
         | Some _ => if prefer then e else eset e k' v'
         | None => eset e k' v'
         end.
  Proof.
    intros prefer e k v k' v' e' H. unfold visit in H.
    destruct (expand e k) as [k1|]; [|discriminate].
    destruct (expand e v) as [v1|]; [|discriminate].
    injection H as Hk Hv He. subst. reflexivity.
  Qed.

  (* environment laws: names are compared through a normalisation (identity, or upper-casing) *)
  Variable norm : string -> string.
  Hypothesis get_norm : forall e a b, norm a = norm b -> eget e a = eget e b.
  Hypothesis get_set : forall e k v x,
    eget (eset e k v) x = if String.eqb (norm k) (norm x) then Some v else eget e x.

  Lemma get_set_same : forall e k v, eget (eset e k v) k = Some v.
  Proof. intros e k v. rewrite get_set, String.eqb_refl. reflexivity. Qed.

  (** [eset] never removes a name *)
  Lemma set_keeps_defined : forall e k v x, eget e x <> None -> eget (eset e k v) x <> None.
  Proof.
    intros e k v x H. rewrite get_set.
    destruct (String.eqb (norm k) (norm x)); [discriminate | exact H].
  Qed.

  (* WRITE-BACK: after visiting an entry without runtime precedence its expanded value is
     what the environment holds for its expanded name *)
  Theorem visit_writes_back : forall e k v k' v' e',
    visit eget eset expand false e k v = Some (k', v', e') -> eget e' k' = Some v'.
  Proof.
    intros e k v k' v' e' H. apply visit_env in H. subst e'.
    destruct (eget e k'); apply get_set_same.
  Qed.

  (** one visit with runtime precedence leaves present variables alone *)
  Lemma visit_true_keeps : forall e k v k' v' e' x v0,
    VISIT true e k v = Some (k', v', e') -> eget e x = Some v0 -> eget e' x = Some v0.
  Proof.
    intros e k v k' v' e' x v0 H Hx. apply visit_env in H. subst e'.
    destruct (eget e k') as [w|] eqn:Hk; [exact Hx|].
    rewrite get_set. destruct (String.eqb_spec (norm k') (norm x)) as [En|Nn]; [|exact Hx].
    rewrite (get_norm e k' x En) in Hk. congruence.
  Qed.

  Lemma loop_true_keeps : forall fuel done todo e l' e' x v0,
    SLOOP true fuel done todo e = Some (l', e') ->
    eget e x = Some v0 -> eget e' x = Some v0.
  Proof.
    intros fuel. induction fuel as [|fuel IH]; intros done todo e l' e' x v0 H Hx.
    - rewrite sl_zero in H. injection H as _ He. subst e'. exact Hx.
    - destruct todo as [|[k v] rest].
      + rewrite sl_nil in H. injection H as _ He. subst e'. exact Hx.
      + rewrite sl_cons in H.
        destruct (VISIT true e k v) as [[[k1 v1] e1]|] eqn:Hv; [|discriminate].
        eapply IH; [exact H|]. eapply visit_true_keeps; [exact Hv | exact Hx].
  Qed.

  (* RUNTIME PRECEDENCE: with the flag, a variable present in the caller's environment keeps the
     caller's value through the whole block *)
  Theorem prefer_runtime_keeps : forall l e l' e' x v0,
    spec_block eget eset expand true l e = Some (l', e') ->
    eget e x = Some v0 -> eget e' x = Some v0.
  Proof.
    intros l e l' e' x v0 H Hx. unfold spec_block in H.
    eapply loop_true_keeps; [exact H | exact Hx].
  Qed.

  (* and one that is absent gets the value of the first entry defining it *)
  Theorem prefer_runtime_step : forall e k v k' v' e',
    visit eget eset expand true e k v = Some (k', v', e') ->
    (eget e k' = None -> eget e' k' = Some v') /\ (forall v0, eget e k' = Some v0 -> e' = e).
  Proof.
    intros e k v k' v' e' H. apply visit_env in H. split.
    - intros Hn. rewrite Hn in H. subst e'. apply get_set_same.
    - intros v0 Hs. rewrite Hs in H. exact H.
  Qed.

  (** a visit defines its expanded name and removes nothing *)
  Lemma visit_defines : forall prefer e k v k' v' e',
    VISIT prefer e k v = Some (k', v', e') -> eget e' k' <> None.
  Proof.
    intros prefer e k v k' v' e' H. apply visit_env in H. subst e'.
    destruct (eget e k') as [w|] eqn:Hk.
    - destruct prefer.
      + rewrite Hk. discriminate.
      + rewrite get_set_same. discriminate.
    - rewrite get_set_same. discriminate.
  Qed.

  Lemma visit_keeps_defined : forall prefer e k v k' v' e' x,
    VISIT prefer e k v = Some (k', v', e') -> eget e x <> None -> eget e' x <> None.
  Proof.
    intros prefer e k v k' v' e' x H Hx. apply visit_env in H. subst e'.
    destruct (eget e k') as [w|]; [destruct prefer|];
      first [exact Hx | apply set_keeps_defined; exact Hx].
  Qed.

  Lemma p_remove_in : forall (p : string * string) k l, In p (p_remove k l) -> In p l.
  Proof.
    intros p k l. induction l as [|[k0 v0] r IH]; intros H.
    - exact H.
    - cbn [p_remove] in H. destruct (String.eqb k k0).
      + right. apply IH. exact H.
      + destruct H as [H|H]; [left; exact H | right; apply IH; exact H].
  Qed.

  Lemma loop_names_defined : forall prefer fuel done todo e l' e',
    length todo <= fuel ->
    (forall k v, In (k, v) done -> eget e k <> None) ->
    SLOOP prefer fuel done todo e = Some (l', e') ->
    forall k v, In (k, v) l' -> eget e' k <> None.
  Proof.
    intros prefer fuel. induction fuel as [|fuel IH]; intros done todo e l' e' Hf Hd H.
    - destruct todo as [|p r]; [|simpl in Hf; lia].
      rewrite sl_zero in H. injection H as Hl He. subst l' e'.
      rewrite app_nil_r. exact Hd.
    - destruct todo as [|[k v] rest].
      + rewrite sl_nil in H. injection H as Hl He. subst l' e'. exact Hd.
      + rewrite sl_cons in H.
        destruct (VISIT prefer e k v) as [[[k1 v1] e1]|] eqn:Hv; [|discriminate].
        eapply IH; [| |exact H].
        * simpl in Hf. pose proof (p_remove_length _ k1 rest). lia.
        * intros a b Hin. apply in_app_or in Hin. destruct Hin as [Hin|Hin].
          -- apply p_remove_in in Hin. eapply visit_keeps_defined; [exact Hv|].
             eapply Hd. exact Hin.
          -- destruct Hin as [Hin|[]]. injection Hin as Ha Hb. subst a b.
             eapply visit_defines. exact Hv.
  Qed.

  (* names defined by the block are present afterwards (either flag) *)
  Theorem block_names_defined : forall prefer l e l' e' k' v',
    spec_block eget eset expand prefer l e = Some (l', e') -> In (k', v') l' -> eget e' k' <> None.
  Proof.
    intros prefer l e l' e' k' v' H Hin. unfold spec_block in H.
    eapply (loop_names_defined prefer (length l) [] l e l' e'); [apply Nat.le_refl | | exact H | exact Hin].
    intros k v [].
  Qed.
End EnvBlockProofs.

Print Assumptions env_block_refines.
Print Assumptions prefer_runtime_keeps.
