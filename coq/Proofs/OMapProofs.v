(** Proofs about Model/OMap.v: the slot-list/index representation refines the
    list-of-pairs reference model. *)
From Coq Require Import String List Arith Bool Lia.
Import ListNotations.
From GP Require Import Model.OMap.

Section OMapProofs.
  Variable V : Type.
  Variable veq : V -> V -> bool.

  Definition Inv (m : omap V) : Prop :=
    NoDup (map fst (index m)) /\
    (forall k i, idx_get k (index m) = Some i <->
                 exists v, nth_error (items m) i = Some (mkSlot k v false)) /\
    length (index m) = length (live (items m)).

  (** list-level abstraction *)
  Definition absl (l : list (slot V)) : pairs V :=
    map (fun s => (skey s, sval s)) (live l).

  Lemma abs_absl : forall m : omap V, abs m = absl (items m).
  Proof. intros m. reflexivity. Qed.

  (** ------------------------------------------------------------------ *)
  (** index association list *)

  Lemma idx_get_some_in : forall k ix i, idx_get k ix = Some i -> In k (map fst ix).
  Proof.
    intros k ix. induction ix as [|[k0 i0] r IH]; intros i H; simpl in *.
    - discriminate.
    - destruct (String.eqb_spec k k0) as [E|N].
      + left. symmetry. exact E.
      + right. eapply IH. exact H.
  Qed.

  Lemma idx_get_none_notin : forall k ix, idx_get k ix = None -> ~ In k (map fst ix).
  Proof.
    intros k ix. induction ix as [|[k0 i0] r IH]; intros H; simpl in *.
    - intros F. exact F.
    - destruct (String.eqb_spec k k0) as [E|N].
      + discriminate.
      + intros [F|F].
        * apply N. symmetry. exact F.
        * exact (IH H F).
  Qed.

  Lemma in_idx_get : forall k ix, In k (map fst ix) -> exists i, idx_get k ix = Some i.
  Proof.
    intros k ix Hin. destruct (idx_get k ix) as [i|] eqn:E.
    - exists i. reflexivity.
    - exfalso. exact (idx_get_none_notin _ _ E Hin).
  Qed.

  Lemma notin_idx_get : forall k ix, ~ In k (map fst ix) -> idx_get k ix = None.
  Proof.
    intros k ix Hn. destruct (idx_get k ix) as [i|] eqn:E; [|reflexivity].
    exfalso. apply Hn. eapply idx_get_some_in. exact E.
  Qed.

  Lemma idx_get_del : forall k' k ix,
    idx_get k' (idx_del k ix) = if String.eqb k' k then None else idx_get k' ix.
  Proof.
    intros k' k ix. induction ix as [|[k0 i0] r IH]; simpl.
    - destruct (String.eqb k' k); reflexivity.
    - destruct (String.eqb_spec k k0) as [E1|N1].
      + subst k0. rewrite IH. destruct (String.eqb_spec k' k); reflexivity.
      + simpl. rewrite IH.
        destruct (String.eqb_spec k' k0) as [E2|N2];
          destruct (String.eqb_spec k' k) as [E3|N3]; try reflexivity.
        exfalso. apply N1. congruence.
  Qed.

  Lemma idx_get_del_same : forall k ix, idx_get k (idx_del k ix) = None.
  Proof. intros k ix. rewrite idx_get_del, String.eqb_refl. reflexivity. Qed.

  Lemma idx_get_del_other : forall k' k ix, k' <> k ->
    idx_get k' (idx_del k ix) = idx_get k' ix.
  Proof.
    intros k' k ix N. rewrite idx_get_del.
    destruct (String.eqb_spec k' k) as [E|_]; [contradiction|reflexivity].
  Qed.

  Lemma in_del_keys : forall k' k ix,
    In k' (map fst (idx_del k ix)) -> In k' (map fst ix) /\ k' <> k.
  Proof.
    intros k' k ix Hin. apply in_idx_get in Hin. destruct Hin as [i Hi].
    rewrite idx_get_del in Hi.
    destruct (String.eqb_spec k' k) as [E|N]; [discriminate|].
    split; [|exact N]. eapply idx_get_some_in. exact Hi.
  Qed.

  Lemma NoDup_del : forall k ix, NoDup (map fst ix) -> NoDup (map fst (idx_del k ix)).
  Proof.
    intros k ix. induction ix as [|[k0 i0] r IH]; intros ND; simpl in *.
    - constructor.
    - inversion ND as [|x xs Hnin ND']; subst.
      destruct (String.eqb k k0).
      + apply IH. exact ND'.
      + simpl. constructor.
        * intros Hin. apply in_del_keys in Hin. apply Hnin. exact (proj1 Hin).
        * apply IH. exact ND'.
  Qed.

  Lemma idx_del_absent : forall k ix, idx_get k ix = None -> idx_del k ix = ix.
  Proof.
    intros k ix. induction ix as [|[k0 i0] r IH]; intros H; simpl in *.
    - reflexivity.
    - destruct (String.eqb k k0).
      + discriminate.
      + f_equal. apply IH. exact H.
  Qed.

  Lemma idx_del_comm : forall a b ix, idx_del a (idx_del b ix) = idx_del b (idx_del a ix).
  Proof.
    intros a b ix. induction ix as [|[k0 i0] r IH]; simpl.
    - reflexivity.
    - destruct (String.eqb a k0) eqn:Ea; destruct (String.eqb b k0) eqn:Eb;
        simpl; rewrite ?Ea, ?Eb; rewrite ?IH; reflexivity.
  Qed.

  Lemma NoDup_idx_set : forall k i ix,
    NoDup (map fst ix) -> NoDup (map fst (idx_set k i ix)).
  Proof.
    intros k i ix ND. unfold idx_set. simpl. constructor.
    - intros Hin. apply in_del_keys in Hin. apply (proj2 Hin). reflexivity.
    - apply NoDup_del. exact ND.
  Qed.

  Lemma idx_get_set : forall k' k i ix,
    idx_get k' (idx_set k i ix) = if String.eqb k' k then Some i else idx_get k' ix.
  Proof.
    intros k' k i ix. unfold idx_set. simpl. rewrite idx_get_del.
    destruct (String.eqb k' k); reflexivity.
  Qed.

  (** ------------------------------------------------------------------ *)
  (** upd *)

  Lemma upd_nil : forall T (f : T -> T) i, upd i f [] = [].
  Proof. intros T f i. destruct i; reflexivity. Qed.

  Lemma upd_length : forall T (f : T -> T) l i, length (upd i f l) = length l.
  Proof.
    intros T f l. induction l as [|x r IH]; intros i.
    - rewrite upd_nil. reflexivity.
    - destruct i; simpl; [reflexivity | rewrite IH; reflexivity].
  Qed.

  Lemma nth_error_upd_eq : forall T (f : T -> T) l i,
    nth_error (upd i f l) i = option_map f (nth_error l i).
  Proof.
    intros T f l. induction l as [|x r IH]; intros i.
    - rewrite upd_nil. destruct i; reflexivity.
    - destruct i; simpl; [reflexivity | apply IH].
  Qed.

  Lemma nth_error_upd_ne : forall T (f : T -> T) l i j, i <> j ->
    nth_error (upd i f l) j = nth_error l j.
  Proof.
    intros T f l. induction l as [|x r IH]; intros i j N.
    - rewrite upd_nil. reflexivity.
    - destruct i as [|i]; destruct j as [|j]; simpl; try reflexivity.
      + contradiction.
      + apply IH. lia.
  Qed.

  Lemma upd_app_l : forall T (f : T -> T) l r i, i < length l ->
    upd i f (l ++ r) = upd i f l ++ r.
  Proof.
    intros T f l r. induction l as [|x l' IH]; intros i H; simpl in H.
    - lia.
    - destruct i as [|i]; simpl; [reflexivity|]. f_equal. apply IH. lia.
  Qed.

  Lemma upd_app_r : forall T (f : T -> T) l1 x r i, length l1 = i ->
    upd i f (l1 ++ x :: r) = l1 ++ f x :: r.
  Proof.
    intros T f l1 x r. induction l1 as [|y l' IH]; intros i H; simpl in H; subst i; simpl.
    - reflexivity.
    - f_equal. apply IH. reflexivity.
  Qed.

  Lemma upd_ext_at : forall T (f g : T -> T) l i s,
    nth_error l i = Some s -> f s = g s -> upd i f l = upd i g l.
  Proof.
    intros T f g l. induction l as [|x r IH]; intros i s Hn Hfg.
    - destruct i; discriminate.
    - destruct i as [|i]; simpl in *.
      + injection Hn as Hx. subst x. rewrite Hfg. reflexivity.
      + f_equal. eapply IH; eassumption.
  Qed.

  (** ------------------------------------------------------------------ *)
  (** live / absl *)

  Lemma live_app : forall l1 l2 : list (slot V), live (l1 ++ l2) = live l1 ++ live l2.
  Proof.
    intros l1 l2. induction l1 as [|s r IH]; simpl.
    - reflexivity.
    - destruct (sdel s); simpl; rewrite IH; reflexivity.
  Qed.

  Lemma absl_app : forall l1 l2, absl (l1 ++ l2) = absl l1 ++ absl l2.
  Proof. intros l1 l2. unfold absl. rewrite live_app, map_app. reflexivity. Qed.

  Lemma absl_live_cons : forall k v l, absl (mkSlot k v false :: l) = (k, v) :: absl l.
  Proof. intros k v l. reflexivity. Qed.

  Lemma absl_dead_cons : forall k v l, absl (mkSlot k v true :: l) = absl l.
  Proof. intros k v l. reflexivity. Qed.

  Lemma keys_absl : forall l, map fst (absl l) = map skey (live l).
  Proof. intros l. unfold absl. rewrite map_map. apply map_ext. intros s. reflexivity. Qed.

  Lemma absl_length : forall l, length (absl l) = length (live l).
  Proof. intros l. unfold absl. apply map_length. Qed.

  Lemma in_absl : forall k l,
    In k (map fst (absl l)) <-> exists i v, nth_error l i = Some (mkSlot k v false).
  Proof.
    intros k l. induction l as [|[k0 v0 d] r IH].
    - split.
      + intros F. destruct F.
      + intros (i & v & H). destruct i; discriminate.
    - destruct d.
      + rewrite absl_dead_cons. rewrite IH. split.
        * intros (i & v & H). exists (S i), v. exact H.
        * intros (i & v & H). destruct i as [|i]; simpl in H; [discriminate|].
          exists i, v. exact H.
      + rewrite absl_live_cons. simpl. rewrite IH. split.
        * intros [E|(i & v & H)].
          -- subst k0. exists 0, v0. reflexivity.
          -- exists (S i), v. exact H.
        * intros (i & v & H). destruct i as [|i]; simpl in H.
          -- left. injection H as Hk Hv. exact Hk.
          -- right. exists i, v. exact H.
  Qed.

  Definition LiveUniq (l : list (slot V)) : Prop :=
    forall i j k v v', nth_error l i = Some (mkSlot k v false) ->
                       nth_error l j = Some (mkSlot k v' false) -> i = j.

  Lemma liveuniq_nodup : forall l, LiveUniq l -> NoDup (map fst (absl l)).
  Proof.
    intros l. induction l as [|[k0 v0 d] r IH]; intros U.
    - constructor.
    - assert (U' : LiveUniq r).
      { intros i j k v v' Hi Hj.
        assert (E : S i = S j) by (eapply U; [exact Hi | exact Hj]).
        lia. }
      destruct d.
      + rewrite absl_dead_cons. apply IH. exact U'.
      + rewrite absl_live_cons. simpl. constructor.
        * intros Hin. apply in_absl in Hin. destruct Hin as (j & v' & Hj).
          assert (E : 0 = S j) by (eapply (U 0 (S j) k0 v0 v'); [reflexivity | exact Hj]).
          discriminate.
        * apply IH. exact U'.
  Qed.

  (** ------------------------------------------------------------------ *)
  (** reference-model list lemmas *)

  Lemma p_get_notin : forall k (l : pairs V), ~ In k (map fst l) -> p_get k l = None.
  Proof.
    intros k l. induction l as [|[k0 v0] r IH]; intros Hn; simpl in *.
    - reflexivity.
    - destruct (String.eqb_spec k k0) as [E|N].
      + exfalso. apply Hn. left. symmetry. exact E.
      + apply IH. intros F. apply Hn. right. exact F.
  Qed.

  Lemma p_get_app_hit : forall k v (A B : pairs V), ~ In k (map fst A) ->
    p_get k (A ++ (k, v) :: B) = Some v.
  Proof.
    intros k v A B. induction A as [|[k0 v0] r IH]; intros Hn; simpl in *.
    - rewrite String.eqb_refl. reflexivity.
    - destruct (String.eqb_spec k k0) as [E|N].
      + exfalso. apply Hn. left. symmetry. exact E.
      + apply IH. intros F. apply Hn. right. exact F.
  Qed.

  Lemma p_rekey_app_hit : forall old new v v0 (A B : pairs V), ~ In old (map fst A) ->
    p_rekey old new v (A ++ (old, v0) :: B) = A ++ (new, v) :: B.
  Proof.
    intros old new v v0 A B. induction A as [|[k0 w0] r IH]; intros Hn; simpl in *.
    - rewrite String.eqb_refl. reflexivity.
    - destruct (String.eqb_spec old k0) as [E|N].
      + exfalso. apply Hn. left. symmetry. exact E.
      + f_equal. apply IH. intros F. apply Hn. right. exact F.
  Qed.

  Lemma p_rekey_same : forall k v (l : pairs V), p_rekey k k v l = p_update k v l.
  Proof.
    intros k v l. induction l as [|[k0 v0] r IH]; simpl.
    - reflexivity.
    - destruct (String.eqb_spec k k0) as [E|N].
      + subst k0. reflexivity.
      + rewrite IH. reflexivity.
  Qed.

  Lemma p_remove_notin : forall k (l : pairs V), ~ In k (map fst l) -> p_remove k l = l.
  Proof.
    intros k l. induction l as [|[k0 v0] r IH]; intros Hn; simpl in *.
    - reflexivity.
    - destruct (String.eqb_spec k k0) as [E|N].
      + exfalso. apply Hn. left. symmetry. exact E.
      + f_equal. apply IH. intros F. apply Hn. right. exact F.
  Qed.

  Lemma p_remove_length : forall k (l : pairs V), length (p_remove k l) <= length l.
  Proof.
    intros k l. induction l as [|[k0 v0] r IH]; simpl.
    - lia.
    - destruct (String.eqb k k0); simpl; lia.
  Qed.

  (** ------------------------------------------------------------------ *)
  (** kill: tombstone every live slot with a given key *)

  Definition killf (k : string) (s : slot V) : slot V :=
    if String.eqb k (skey s) && negb (sdel s) then tomb s else s.
  Definition kill (k : string) (l : list (slot V)) : list (slot V) := map (killf k) l.

  Lemma kill_length : forall k l, length (kill k l) = length l.
  Proof. intros k l. unfold kill. apply map_length. Qed.

  Lemma kill_app : forall k l1 l2, kill k (l1 ++ l2) = kill k l1 ++ kill k l2.
  Proof. intros k l1 l2. unfold kill. apply map_app. Qed.

  Lemma killf_dead : forall k k0 v0, killf k (mkSlot k0 v0 true) = mkSlot k0 v0 true.
  Proof. intros k k0 v0. unfold killf. simpl. rewrite andb_false_r. reflexivity. Qed.

  Lemma killf_live_same : forall k v0, killf k (mkSlot k v0 false) = mkSlot k v0 true.
  Proof. intros k v0. unfold killf. simpl. rewrite String.eqb_refl. reflexivity. Qed.

  Lemma killf_live_other : forall k k0 v0, k <> k0 ->
    killf k (mkSlot k0 v0 false) = mkSlot k0 v0 false.
  Proof.
    intros k k0 v0 N. unfold killf. simpl.
    destruct (String.eqb_spec k k0) as [E|_]; [contradiction|reflexivity].
  Qed.

  Lemma absl_kill : forall k l, absl (kill k l) = p_remove k (absl l).
  Proof.
    intros k l. induction l as [|[k0 v0 d] r IH].
    - reflexivity.
    - unfold kill in *. rewrite map_cons. destruct d.
      + rewrite killf_dead. rewrite !absl_dead_cons. exact IH.
      + rewrite absl_live_cons. simpl p_remove.
        destruct (String.eqb_spec k k0) as [E|N].
        * subst k0. rewrite killf_live_same. rewrite absl_dead_cons. exact IH.
        * rewrite killf_live_other by exact N. rewrite absl_live_cons. rewrite IH. reflexivity.
  Qed.

  Lemma kill_absent : forall k l, ~ In k (map fst (absl l)) -> kill k l = l.
  Proof.
    intros k l. induction l as [|[k0 v0 d] r IH]; intros Hn.
    - reflexivity.
    - unfold kill in *. rewrite map_cons. destruct d.
      + rewrite killf_dead. f_equal. apply IH. exact Hn.
      + rewrite absl_live_cons in Hn. simpl in Hn.
        rewrite killf_live_other.
        * f_equal. apply IH. intros F. apply Hn. right. exact F.
        * intros E. apply Hn. left. symmetry. exact E.
  Qed.

  Lemma nodup_split_keys : forall l1 k v l2,
    NoDup (map fst (absl (l1 ++ mkSlot k v false :: l2))) ->
    ~ In k (map fst (absl l1)) /\ ~ In k (map fst (absl l2)).
  Proof.
    intros l1 k v l2 ND. rewrite absl_app, absl_live_cons, map_app in ND. simpl in ND.
    apply NoDup_remove_2 in ND. split; intros F; apply ND; apply in_or_app; [left|right]; exact F.
  Qed.

  Lemma kill_present : forall k v l i, NoDup (map fst (absl l)) ->
    nth_error l i = Some (mkSlot k v false) -> upd i tomb l = kill k l.
  Proof.
    intros k v l i ND Hn. apply nth_error_split in Hn. destruct Hn as (l1 & l2 & El & Hlen).
    subst l. apply nodup_split_keys in ND. destruct ND as [N1 N2].
    rewrite (upd_app_r _ _ _ _ _ _ Hlen). rewrite kill_app. unfold kill at 2. rewrite map_cons.
    fold (kill k l2). rewrite killf_live_same.
    rewrite (kill_absent _ _ N1), (kill_absent _ _ N2). reflexivity.
  Qed.

  (** ------------------------------------------------------------------ *)
  (** consequences of Inv *)

  Lemma inv_get_slot : forall m k i, Inv m -> idx_get k (index m) = Some i ->
    exists v, nth_error (items m) i = Some (mkSlot k v false).
  Proof. intros m k i (_ & H & _) Hg. apply H. exact Hg. Qed.

  Lemma inv_slot_get : forall m k v i, Inv m ->
    nth_error (items m) i = Some (mkSlot k v false) -> idx_get k (index m) = Some i.
  Proof. intros m k v i (_ & H & _) Hn. apply H. exists v. exact Hn. Qed.

  Lemma corr_liveuniq : forall (l : list (slot V)) ix,
    (forall k i, idx_get k ix = Some i <-> exists v, nth_error l i = Some (mkSlot k v false)) ->
    LiveUniq l.
  Proof.
    intros l ix H i j k v v' Hi Hj.
    assert (Ei : idx_get k ix = Some i) by (apply H; exists v; exact Hi).
    assert (Ej : idx_get k ix = Some j) by (apply H; exists v'; exact Hj).
    rewrite Ei in Ej. injection Ej as E. exact E.
  Qed.

  (** the third conjunct of Inv follows from the first two *)
  Lemma inv_intro : forall m : omap V,
    NoDup (map fst (index m)) ->
    (forall k i, idx_get k (index m) = Some i <->
                 exists v, nth_error (items m) i = Some (mkSlot k v false)) ->
    Inv m.
  Proof.
    intros m ND H. split; [exact ND|]. split; [exact H|].
    assert (ND2 : NoDup (map fst (absl (items m)))).
    { apply liveuniq_nodup. eapply corr_liveuniq. exact H. }
    rewrite <- absl_length.
    rewrite <- (map_length fst (index m)), <- (map_length fst (absl (items m))).
    apply Nat.le_antisymm; apply NoDup_incl_length; try assumption.
    - intros k Hin. apply in_idx_get in Hin. destruct Hin as [i Hi].
      apply H in Hi. destruct Hi as [v Hv]. apply in_absl. exists i, v. exact Hv.
    - intros k Hin. apply in_absl in Hin. destruct Hin as (i & v & Hv).
      eapply idx_get_some_in. apply H. exists v. exact Hv.
  Qed.

  Lemma inv_nodup : forall m, Inv m -> NoDup (map fst (absl (items m))).
  Proof. intros m (_ & H & _). apply liveuniq_nodup. eapply corr_liveuniq. exact H. Qed.

  Theorem abs_nodup : forall m, Inv m -> NoDup (map fst (abs m)).
  Proof. intros m I. rewrite abs_absl. apply inv_nodup. exact I. Qed.

  Lemma inv_absent : forall m k, Inv m -> idx_get k (index m) = None ->
    ~ In k (map fst (absl (items m))).
  Proof.
    intros m k I Hg Hin. apply in_absl in Hin. destruct Hin as (i & v & Hv).
    rewrite (inv_slot_get _ _ _ _ I Hv) in Hg. discriminate.
  Qed.

  Lemma inv_p_get_some : forall m k i v, Inv m ->
    nth_error (items m) i = Some (mkSlot k v false) -> p_get k (abs m) = Some v.
  Proof.
    intros m k i v I Hn. pose proof (inv_nodup _ I) as ND. rewrite abs_absl.
    apply nth_error_split in Hn. destruct Hn as (l1 & l2 & El & _).
    rewrite El in ND. rewrite El.
    apply nodup_split_keys in ND. destruct ND as [N1 _].
    rewrite absl_app, absl_live_cons. apply p_get_app_hit. exact N1.
  Qed.

  Lemma inv_p_get_none : forall m k, Inv m -> idx_get k (index m) = None ->
    p_get k (abs m) = None.
  Proof. intros m k I Hg. apply p_get_notin. exact (inv_absent _ _ I Hg). Qed.

  Lemma p_has_present : forall m k i, Inv m -> idx_get k (index m) = Some i ->
    p_has k (abs m) = true.
  Proof.
    intros m k i I Hg. destruct (inv_get_slot _ _ _ I Hg) as [v Hs].
    unfold p_has. rewrite (inv_p_get_some _ _ _ _ I Hs). reflexivity.
  Qed.

  Lemma p_has_absent : forall m k, Inv m -> idx_get k (index m) = None ->
    p_has k (abs m) = false.
  Proof. intros m k I Hg. unfold p_has. rewrite (inv_p_get_none _ _ I Hg). reflexivity. Qed.

  Lemma absl_upd_const : forall l i old v0 new v, NoDup (map fst (absl l)) ->
    nth_error l i = Some (mkSlot old v0 false) ->
    absl (upd i (fun _ => mkSlot new v false) l) = p_rekey old new v (absl l).
  Proof.
    intros l i old v0 new v ND Hn. apply nth_error_split in Hn.
    destruct Hn as (l1 & l2 & El & Hlen). subst l.
    apply nodup_split_keys in ND. destruct ND as [N1 _].
    rewrite (upd_app_r _ _ _ _ _ _ Hlen). rewrite !absl_app, !absl_live_cons.
    symmetry. apply p_rekey_app_hit. exact N1.
  Qed.

  (** ------------------------------------------------------------------ *)
  (** building blocks: setat, rekey, app_new, delr *)

  Definition setat (i : nat) (k : string) (v : V) (m : omap V) : omap V :=
    mkOMap (upd i (fun _ => mkSlot k v false) (items m)) (index m).

  Lemma setat_inv : forall m i k v, Inv m -> idx_get k (index m) = Some i ->
    Inv (setat i k v m).
  Proof.
    intros m i k v I Hg. destruct (inv_get_slot _ _ _ I Hg) as [v0 Hs].
    destruct I as (ND & H & _). unfold setat. apply inv_intro; simpl.
    - exact ND.
    - intros k' j. destruct (Nat.eq_dec i j) as [E|N].
      + subst j. rewrite nth_error_upd_eq, Hs. simpl. split.
        * intros Hg'. apply H in Hg'. destruct Hg' as [v' Hv']. rewrite Hs in Hv'.
          injection Hv' as Ek _. subst k'. exists v. reflexivity.
        * intros [v' Hv']. injection Hv' as Ek _. subst k'. exact Hg.
      + rewrite (nth_error_upd_ne _ _ _ _ _ N). apply H.
  Qed.

  Lemma setat_abs : forall m i k v, Inv m -> idx_get k (index m) = Some i ->
    abs (setat i k v m) = p_rekey k k v (abs m).
  Proof.
    intros m i k v I Hg. destruct (inv_get_slot _ _ _ I Hg) as [v0 Hs].
    rewrite !abs_absl. unfold setat. simpl.
    eapply absl_upd_const; [exact (inv_nodup _ I) | exact Hs].
  Qed.

  Definition rekey (i : nat) (old new : string) (v : V) (m : omap V) : omap V :=
    mkOMap (upd i (fun _ => mkSlot new v false) (items m))
           ((new, i) :: idx_del old (index m)).

  Lemma rekey_inv : forall m i old new v, Inv m ->
    idx_get old (index m) = Some i -> idx_get new (index m) = None ->
    Inv (rekey i old new v m).
  Proof.
    intros m i old new v I Hold Hnew. destruct (inv_get_slot _ _ _ I Hold) as [v0 Hs].
    destruct I as (ND & H & _). unfold rekey. apply inv_intro; simpl.
    - constructor.
      + intros Hin. apply in_del_keys in Hin. destruct Hin as [Hin _].
        exact (idx_get_none_notin _ _ Hnew Hin).
      + apply NoDup_del. exact ND.
    - intros k' j. rewrite idx_get_del.
      destruct (String.eqb_spec k' new) as [En|Nn].
      + subst k'. split.
        * intros Hj. injection Hj as Ej. subst j. exists v.
          rewrite nth_error_upd_eq, Hs. reflexivity.
        * intros [v' Hv']. destruct (Nat.eq_dec i j) as [E|N].
          { subst j. reflexivity. }
          rewrite (nth_error_upd_ne _ _ _ _ _ N) in Hv'.
          assert (Hc : idx_get new (index m) = Some j) by (apply H; exists v'; exact Hv').
          congruence.
      + destruct (String.eqb_spec k' old) as [Eo|No].
        * subst k'. split; [discriminate|]. intros [v' Hv']. exfalso.
          destruct (Nat.eq_dec i j) as [E|N].
          -- subst j. rewrite nth_error_upd_eq, Hs in Hv'. simpl in Hv'.
             injection Hv' as Ek _. apply Nn. symmetry. exact Ek.
          -- rewrite (nth_error_upd_ne _ _ _ _ _ N) in Hv'.
             assert (Hc : idx_get old (index m) = Some j) by (apply H; exists v'; exact Hv').
             congruence.
        * destruct (Nat.eq_dec i j) as [E|N].
          -- subst j. rewrite nth_error_upd_eq, Hs. simpl. split.
             ++ intros Hg. apply H in Hg. destruct Hg as [v' Hv']. rewrite Hs in Hv'.
                injection Hv' as Ek _. exfalso. apply No. symmetry. exact Ek.
             ++ intros [v' Hv']. injection Hv' as Ek _. exfalso. apply Nn. symmetry. exact Ek.
          -- rewrite (nth_error_upd_ne _ _ _ _ _ N). apply H.
  Qed.

  Lemma rekey_abs : forall m i old new v, Inv m -> idx_get old (index m) = Some i ->
    abs (rekey i old new v m) = p_rekey old new v (abs m).
  Proof.
    intros m i old new v I Hg. destruct (inv_get_slot _ _ _ I Hg) as [v0 Hs].
    rewrite !abs_absl. unfold rekey. simpl.
    eapply absl_upd_const; [exact (inv_nodup _ I) | exact Hs].
  Qed.

  Definition app_new (k : string) (v : V) (m : omap V) : omap V :=
    mkOMap (items m ++ [mkSlot k v false]) ((k, length (items m)) :: index m).

  Lemma app_new_inv : forall m k v, Inv m -> idx_get k (index m) = None ->
    Inv (app_new k v m).
  Proof.
    intros m k v I Hk. destruct I as (ND & H & _). unfold app_new. apply inv_intro; simpl.
    - constructor; [exact (idx_get_none_notin _ _ Hk) | exact ND].
    - intros k' j.
      destruct (lt_eq_lt_dec j (length (items m))) as [[Hlt|Heq]|Hgt].
      + rewrite nth_error_app1 by exact Hlt.
        destruct (String.eqb_spec k' k) as [E|N].
        * subst k'. split.
          -- intros Hj. injection Hj as Ej. lia.
          -- intros [v' Hv'].
             assert (Hc : idx_get k (index m) = Some j) by (apply H; exists v'; exact Hv').
             congruence.
        * apply H.
      + subst j. rewrite nth_error_app2 by lia. rewrite Nat.sub_diag. simpl.
        destruct (String.eqb_spec k' k) as [E|N].
        * subst k'. split; intros _; [exists v|]; reflexivity.
        * split.
          -- intros Hg. apply H in Hg. destruct Hg as [v' Hv'].
             assert (Hc : nth_error (items m) (length (items m)) = None)
               by (apply nth_error_None; lia).
             congruence.
          -- intros [v' Hv']. injection Hv' as Ek _. exfalso. apply N. symmetry. exact Ek.
      + rewrite nth_error_app2 by lia.
        assert (Hnone : nth_error [mkSlot k v false] (j - length (items m)) = None)
          by (apply nth_error_None; simpl; lia).
        rewrite Hnone. split.
        * intros Hg. exfalso. destruct (String.eqb_spec k' k) as [E|N].
          -- injection Hg as Ej. lia.
          -- apply H in Hg. destruct Hg as [v' Hv'].
             assert (Hc : nth_error (items m) j = None) by (apply nth_error_None; lia).
             congruence.
        * intros [v' Hv']. discriminate.
  Qed.

  Lemma app_new_abs : forall m k v, abs (app_new k v m) = abs m ++ [(k, v)].
  Proof. intros m k v. rewrite !abs_absl. unfold app_new. simpl. rewrite absl_app. reflexivity. Qed.

  Definition delr (k : string) (m : omap V) : omap V :=
    mkOMap (kill k (items m)) (idx_del k (index m)).

  Lemma killf_inv_live : forall k s k' v',
    killf k s = mkSlot k' v' false -> s = mkSlot k' v' false /\ k <> k'.
  Proof.
    intros k [k0 v0 d] k' v' H. destruct d.
    - rewrite killf_dead in H. discriminate.
    - destruct (String.eqb_spec k k0) as [E|N].
      + subst k0. rewrite killf_live_same in H. discriminate.
      + rewrite (killf_live_other _ _ _ N) in H. split; [exact H|].
        injection H as Ek _. congruence.
  Qed.

  Lemma delr_inv : forall m k, Inv m -> Inv (delr k m).
  Proof.
    intros m k (ND & H & _). unfold delr. apply inv_intro; simpl.
    - apply NoDup_del. exact ND.
    - intros k' j. rewrite idx_get_del. unfold kill. rewrite nth_error_map.
      destruct (String.eqb_spec k' k) as [E|N].
      + subst k'. split; [discriminate|]. intros [v' Hv']. exfalso.
        destruct (nth_error (items m) j) as [s|]; simpl in Hv'; [|discriminate].
        injection Hv' as Hv'. apply killf_inv_live in Hv'. destruct Hv' as [_ Hne].
        apply Hne. reflexivity.
      + rewrite H. split.
        * intros [v' Hv']. exists v'. rewrite Hv'. simpl.
          rewrite killf_live_other; [reflexivity|]. congruence.
        * intros [v' Hv'].
          destruct (nth_error (items m) j) as [s|]; simpl in Hv'; [|discriminate].
          injection Hv' as Hv'. apply killf_inv_live in Hv'. destruct Hv' as [Es _].
          subst s. exists v'. reflexivity.
  Qed.

  Lemma delr_abs : forall m k, abs (delr k m) = p_remove k (abs m).
  Proof. intros m k. rewrite !abs_absl. unfold delr. simpl. apply absl_kill. Qed.

  Lemma kill_spec : forall m k, Inv m ->
    match idx_get k (index m) with
    | Some ni => upd ni tomb (items m)
    | None => items m
    end = kill k (items m).
  Proof.
    intros m k I. destruct (idx_get k (index m)) as [ni|] eqn:Hg.
    - destruct (inv_get_slot _ _ _ I Hg) as [v0 Hs].
      eapply kill_present; [exact (inv_nodup _ I) | exact Hs].
    - symmetry. apply kill_absent. exact (inv_absent _ _ I Hg).
  Qed.

  (** ------------------------------------------------------------------ *)
  (** compact *)

  Lemma NoDup_reindex : forall (l : list (slot V)) n ix,
    NoDup (map fst ix) -> NoDup (map fst (reindex n l ix)).
  Proof.
    intros l. induction l as [|s r IH]; intros n ix ND; simpl.
    - exact ND.
    - apply IH. apply NoDup_idx_set. exact ND.
  Qed.

  Lemma reindex_get_notin : forall (l : list (slot V)) k n ix,
    ~ In k (map skey l) -> idx_get k (reindex n l ix) = idx_get k ix.
  Proof.
    intros l k. induction l as [|s r IH]; intros n ix Hn; simpl in *.
    - reflexivity.
    - rewrite IH.
      + rewrite idx_get_set. destruct (String.eqb_spec k (skey s)) as [E|N].
        * exfalso. apply Hn. left. symmetry. exact E.
        * reflexivity.
      + intros F. apply Hn. right. exact F.
  Qed.

  Lemma reindex_get_in : forall (l : list (slot V)) p s n ix,
    NoDup (map skey l) -> nth_error l p = Some s ->
    idx_get (skey s) (reindex n l ix) = Some (n + p).
  Proof.
    intros l. induction l as [|s0 r IH]; intros p s n ix ND Hp.
    - destruct p; discriminate.
    - simpl in ND. inversion ND as [|x xs Hnin ND']; subst.
      destruct p as [|p]; simpl in Hp |- *.
      + injection Hp as E. subst s0. rewrite (reindex_get_notin _ _ _ _ Hnin).
        rewrite idx_get_set, String.eqb_refl. f_equal. lia.
      + rewrite (IH p s (S n) _ ND' Hp). f_equal. lia.
  Qed.

  Lemma compact_inv : forall m, Inv m -> Inv (compact m).
  Proof.
    intros m I. pose proof (inv_nodup _ I) as NDk. rewrite keys_absl in NDk.
    destruct I as (ND & H & _). unfold compact. apply inv_intro; simpl.
    - apply NoDup_reindex. exact ND.
    - intros k i. split.
      + intros Hg.
        destruct (in_dec string_dec k (map skey (live (items m)))) as [Hin|Hnin].
        * apply in_map_iff in Hin. destruct Hin as (s & Hk & Hs).
          apply In_nth_error in Hs. destruct Hs as [p Hp].
          pose proof (reindex_get_in _ _ _ 0 (index m) NDk Hp) as Hr.
          rewrite Hk in Hr. rewrite Hr in Hg. injection Hg as Ei. simpl in Ei. subst i.
          exists (sval s). rewrite (map_nth_error _ _ _ Hp). rewrite Hk. reflexivity.
        * rewrite (reindex_get_notin _ _ _ _ Hnin) in Hg. apply H in Hg.
          destruct Hg as [v Hv]. exfalso. apply Hnin. rewrite <- keys_absl.
          apply in_absl. exists i, v. exact Hv.
      + intros [v Hv]. rewrite nth_error_map in Hv.
        destruct (nth_error (live (items m)) i) as [s|] eqn:Hp; simpl in Hv; [|discriminate].
        injection Hv as Hk _. rewrite <- Hk.
        rewrite (reindex_get_in _ _ _ 0 (index m) NDk Hp). reflexivity.
  Qed.

  Lemma absl_compact : forall l : list (slot V),
    absl (map (fun s => mkSlot (skey s) (sval s) false) (live l)) = absl l.
  Proof.
    intros l. induction l as [|[k0 v0 d] r IH].
    - reflexivity.
    - destruct d.
      + exact IH.
      + cbn [live sdel map skey sval]. rewrite !absl_live_cons. rewrite IH. reflexivity.
  Qed.

  Lemma compact_abs : forall m : omap V, abs (compact m) = abs m.
  Proof. intros m. rewrite !abs_absl. unfold compact. simpl. apply absl_compact. Qed.

  (** ------------------------------------------------------------------ *)
  (** the operations in terms of the building blocks *)

  Lemma set_present : forall m k v i, Inv m -> idx_get k (index m) = Some i ->
    set k v m = setat i k v m.
  Proof.
    intros m k v i I Hg. destruct (inv_get_slot _ _ _ I Hg) as [v0 Hs].
    unfold set, setat. rewrite Hg. f_equal. eapply upd_ext_at; [exact Hs | reflexivity].
  Qed.

  Lemma set_absent : forall (m : omap V) k v, idx_get k (index m) = None ->
    set k v m = app_new k v m.
  Proof.
    intros m k v Hg. unfold set, app_new. rewrite Hg. unfold idx_set.
    rewrite (idx_del_absent _ _ Hg). reflexivity.
  Qed.

  Lemma replace_same : forall (m : omap V) k v i, idx_get k (index m) = Some i ->
    replace k k v m = setat i k v m.
  Proof.
    intros m k v i Hg. unfold replace, setat. rewrite Hg. rewrite String.eqb_refl.
    reflexivity.
  Qed.

  Lemma replace_present : forall m old new v i, Inv m ->
    idx_get old (index m) = Some i -> old <> new ->
    replace old new v m = rekey i old new v (delr new m).
  Proof.
    intros m old new v i I Hg N. unfold replace, rekey, delr. rewrite Hg.
    destruct (String.eqb_spec old new) as [E|_]; [contradiction|]. simpl.
    rewrite (kill_spec _ new I). unfold idx_set. rewrite idx_del_comm. reflexivity.
  Qed.

  Lemma replace_absent : forall m old new v, Inv m -> idx_get old (index m) = None ->
    replace old new v m = app_new new v (delr new m).
  Proof.
    intros m old new v I Hg. unfold replace, app_new, delr. rewrite Hg.
    simpl. rewrite orb_true_r. simpl. f_equal.
    - destruct (idx_get new (index m)) as [ni|] eqn:Hn.
      + destruct (inv_get_slot _ _ _ I Hn) as [v1 Hs].
        assert (Hlt : ni < length (items m)) by (apply nth_error_Some; congruence).
        rewrite (upd_app_l _ _ _ _ _ Hlt).
        rewrite (kill_present _ _ _ _ (inv_nodup _ I) Hs).
        apply upd_app_r. apply kill_length.
      + rewrite (kill_absent _ _ (inv_absent _ _ I Hn)). apply upd_app_r. reflexivity.
    - unfold idx_set. rewrite (idx_del_absent _ _ Hg), kill_length. reflexivity.
  Qed.

  Lemma delete_absent : forall (m : omap V) k, idx_get k (index m) = None -> delete k m = m.
  Proof. intros m k Hg. unfold delete. rewrite Hg. reflexivity. Qed.

  Lemma delete_present : forall m k i, Inv m -> idx_get k (index m) = Some i ->
    delete k m =
    if Nat.leb (2 * length (index (delr k m))) (length (items (delr k m)))
    then compact (delr k m) else delr k m.
  Proof.
    intros m k i I Hg. unfold delete. rewrite Hg.
    pose proof (kill_spec m k I) as Hk. rewrite Hg in Hk. rewrite Hk. reflexivity.
  Qed.

  (** ------------------------------------------------------------------ *)
  (** main theorems: invariant and refinement *)

  Theorem inv_empty : Inv (@empty V).
  Proof.
    apply inv_intro; simpl.
    - constructor.
    - intros k i. split.
      + discriminate.
      + intros [v Hv]. destruct i; discriminate.
  Qed.

  Theorem inv_step : forall m o, Inv m -> Inv (step m o).
  Proof.
    intros m o I. destruct o as [k v|old new v|k]; cbn [step].
    - destruct (idx_get k (index m)) as [i|] eqn:Hg.
      + rewrite (set_present _ _ v _ I Hg). apply setat_inv; assumption.
      + rewrite (set_absent _ _ v Hg). apply app_new_inv; assumption.
    - destruct (idx_get old (index m)) as [i|] eqn:Hg.
      + destruct (string_dec old new) as [E|N].
        * subst new. rewrite (replace_same _ _ v _ Hg). apply setat_inv; assumption.
        * rewrite (replace_present _ _ _ v _ I Hg N). apply rekey_inv.
          -- apply delr_inv. exact I.
          -- unfold delr. simpl. rewrite (idx_get_del_other _ _ _ N). exact Hg.
          -- unfold delr. simpl. apply idx_get_del_same.
      + rewrite (replace_absent _ _ _ v I Hg). apply app_new_inv.
        * apply delr_inv. exact I.
        * unfold delr. simpl. apply idx_get_del_same.
    - destruct (idx_get k (index m)) as [i|] eqn:Hg.
      + rewrite (delete_present _ _ _ I Hg).
        destruct (Nat.leb (2 * length (index (delr k m))) (length (items (delr k m)))).
        * apply compact_inv. apply delr_inv. exact I.
        * apply delr_inv. exact I.
      + rewrite (delete_absent _ _ Hg). exact I.
  Qed.

  Theorem abs_step : forall m o, Inv m -> abs (step m o) = spec_step (abs m) o.
  Proof.
    intros m o I. destruct o as [k v|old new v|k]; cbn [step spec_step].
    - unfold p_set. destruct (idx_get k (index m)) as [i|] eqn:Hg.
      + rewrite (set_present _ _ v _ I Hg). rewrite (p_has_present _ _ _ I Hg).
        rewrite (setat_abs _ _ _ v I Hg). apply p_rekey_same.
      + rewrite (set_absent _ _ v Hg). rewrite (p_has_absent _ _ I Hg).
        apply app_new_abs.
    - unfold p_replace. destruct (idx_get old (index m)) as [i|] eqn:Hg.
      + rewrite (p_has_present _ _ _ I Hg).
        destruct (String.eqb_spec old new) as [E|N].
        * subst new. rewrite (replace_same _ _ v _ Hg). apply setat_abs; assumption.
        * rewrite (replace_present _ _ _ v _ I Hg N).
          rewrite rekey_abs.
          -- rewrite delr_abs. reflexivity.
          -- apply delr_inv. exact I.
          -- unfold delr. simpl. rewrite (idx_get_del_other _ _ _ N). exact Hg.
      + rewrite (p_has_absent _ _ I Hg). rewrite (replace_absent _ _ _ v I Hg).
        rewrite app_new_abs, delr_abs. reflexivity.
    - unfold p_delete. destruct (idx_get k (index m)) as [i|] eqn:Hg.
      + rewrite (delete_present _ _ _ I Hg).
        destruct (Nat.leb (2 * length (index (delr k m))) (length (items (delr k m)))).
        * rewrite compact_abs. apply delr_abs.
        * apply delr_abs.
      + rewrite (delete_absent _ _ Hg). symmetry. apply p_remove_notin.
        rewrite abs_absl. exact (inv_absent _ _ I Hg).
  Qed.

  Lemma fold_refines : forall ops m, Inv m ->
    Inv (fold_left (@step V) ops m) /\
    abs (fold_left (@step V) ops m) = fold_left (@spec_step V) ops (abs m).
  Proof.
    intros ops. induction ops as [|o r IH]; intros m I; simpl.
    - split; [exact I | reflexivity].
    - rewrite <- (abs_step _ o I). apply IH. apply inv_step. exact I.
  Qed.

  Theorem inv_reachable : forall ops, Inv (fold_left (@step V) ops empty).
  Proof. intros ops. exact (proj1 (fold_refines ops empty inv_empty)). Qed.

  Theorem abs_refines : forall ops,
    abs (fold_left (@step V) ops empty) = fold_left (@spec_step V) ops [].
  Proof. intros ops. exact (proj2 (fold_refines ops empty inv_empty)). Qed.

  (** ------------------------------------------------------------------ *)
  (** observers *)

  Lemma inv_len : forall m, Inv m -> len m = length (abs m).
  Proof.
    intros m (_ & _ & HL). unfold len. rewrite HL. rewrite abs_absl, absl_length. reflexivity.
  Qed.

  Theorem observers_agree : forall m, Inv m ->
    len m = length (abs m) /\
    is_zero m = (match abs m with [] => true | _ => false end) /\
    (forall k, get k m = p_get k (abs m)) /\
    (forall k, contains k m = p_has k (abs m)) /\
    range m = abs m.
  Proof.
    intros m I.
    pose proof (inv_len _ I) as Hlen.
    assert (Hz : is_zero m = match abs m with [] => true | _ => false end).
    { unfold is_zero. rewrite Hlen. destruct (abs m); reflexivity. }
    split; [exact Hlen|]. split; [exact Hz|]. split; [|split].
    - intros k. unfold get. destruct (idx_get k (index m)) as [i|] eqn:Hg.
      + destruct (inv_get_slot _ _ _ I Hg) as [v Hs]. rewrite Hs. simpl.
        symmetry. eapply inv_p_get_some; eassumption.
      + symmetry. apply inv_p_get_none; assumption.
    - intros k. unfold contains. destruct (idx_get k (index m)) as [i|] eqn:Hg.
      + symmetry. eapply p_has_present; eassumption.
      + symmetry. apply p_has_absent; assumption.
    - change (range m) with (if is_zero m then [] else abs m).
      rewrite Hz. destruct (abs m); reflexivity.
  Qed.

  (** ------------------------------------------------------------------ *)
  (** Equal *)

  Lemma equal_loop_dead_l : forall k v ra lb,
    equal_loop veq (mkSlot k v true :: ra) lb = equal_loop veq ra lb.
  Proof. reflexivity. Qed.

  Lemma equal_loop_live_nil : forall k v ra,
    equal_loop veq (mkSlot k v false :: ra) [] = true.
  Proof. reflexivity. Qed.

  Lemma equal_loop_live_dead : forall k v ra k' v' rb,
    equal_loop veq (mkSlot k v false :: ra) (mkSlot k' v' true :: rb) =
    equal_loop veq (mkSlot k v false :: ra) rb.
  Proof. reflexivity. Qed.

  Lemma equal_loop_live_live : forall k v ra k' v' rb,
    equal_loop veq (mkSlot k v false :: ra) (mkSlot k' v' false :: rb) =
    if String.eqb k k' then if veq v v' then equal_loop veq ra rb else false else false.
  Proof. reflexivity. Qed.

  Lemma p_eqb_length : forall a b : pairs V,
    length a <> length b -> p_eqb veq a b = false.
  Proof.
    intros a. induction a as [|[k v] ra IH]; intros [|[k' v'] rb] H; simpl in *;
      try reflexivity; try lia.
    rewrite IH by lia. apply andb_false_r.
  Qed.

  Lemma equal_loop_correct : forall la lb,
    length (live la) = length (live lb) ->
    equal_loop veq la lb = p_eqb veq (absl la) (absl lb).
  Proof.
    intros la. induction la as [|[ka va da] ra IHa]; intros lb H.
    - simpl in H. unfold absl. destruct (live lb); [reflexivity | discriminate].
    - destruct da.
      + rewrite equal_loop_dead_l, absl_dead_cons. apply IHa. exact H.
      + induction lb as [|[kb vb db] rb IHb].
        * simpl in H. discriminate.
        * destruct db.
          -- rewrite equal_loop_live_dead, absl_dead_cons. apply IHb. exact H.
          -- rewrite equal_loop_live_live, !absl_live_cons. simpl in H.
             injection H as H. simpl.
             destruct (String.eqb ka kb); simpl; [|reflexivity].
             destruct (veq va vb); simpl; [|reflexivity].
             apply IHa. exact H.
  Qed.

  Theorem equal_correct : forall a b, Inv a -> Inv b ->
    equal veq a b = p_eqb veq (abs a) (abs b).
  Proof.
    intros a b Ia Ib. unfold equal.
    pose proof (inv_len _ Ia) as La. pose proof (inv_len _ Ib) as Lb.
    destruct (Nat.eqb_spec (len a) (len b)) as [E|N].
    - rewrite !abs_absl. apply equal_loop_correct.
      rewrite <- !absl_length. rewrite <- !abs_absl. congruence.
    - symmetry. apply p_eqb_length. congruence.
  Qed.

  Lemma p_eqb_eq : (forall x y, veq x y = true <-> x = y) ->
    forall a b : pairs V, p_eqb veq a b = true <-> a = b.
  Proof.
    intros Hveq a. induction a as [|[k v] ra IH]; intros [|[k' v'] rb]; simpl; split; intros H;
      try reflexivity; try discriminate.
    - apply andb_true_iff in H. destruct H as [H1 H3].
      apply andb_true_iff in H1. destruct H1 as [H1 H2].
      apply String.eqb_eq in H1. apply Hveq in H2. apply IH in H3. subst. reflexivity.
    - injection H as Ek Ev Er. subst k' v' rb. rewrite String.eqb_refl.
      rewrite (proj2 (Hveq v v) eq_refl). simpl. apply IH. reflexivity.
  Qed.

  Theorem equal_iff : (forall x y, veq x y = true <-> x = y) ->
    forall a b, Inv a -> Inv b -> (equal veq a b = true <-> abs a = abs b).
  Proof.
    intros Hveq a b Ia Ib. rewrite (equal_correct _ _ Ia Ib). apply p_eqb_eq. exact Hveq.
  Qed.

  Theorem equal_refl : (forall x y, veq x y = true <-> x = y) ->
    forall a, Inv a -> equal veq a a = true.
  Proof. intros Hveq a Ia. apply (equal_iff Hveq a a Ia Ia). reflexivity. Qed.

  Theorem equal_sym : (forall x y, veq x y = true <-> x = y) ->
    forall a b, Inv a -> Inv b -> equal veq a b = equal veq b a.
  Proof.
    intros Hveq a b Ia Ib. apply eq_true_iff_eq.
    rewrite (equal_iff Hveq a b Ia Ib), (equal_iff Hveq b a Ib Ia).
    split; intros H; symmetry; exact H.
  Qed.

  (** ------------------------------------------------------------------ *)
  (** rename from inside Range *)

  Definition rr_body (fk : string -> string) (fv : string -> V -> V)
             (m : omap V) (i : nat) : omap V :=
    match nth_error (items m) i with
    | Some s => if sdel s then m
                else replace (skey s) (fk (skey s)) (fv (skey s) (sval s)) m
    | None => m
    end.

  Lemma nth_error_mid : forall (l1 : list (slot V)) s r,
    nth_error (l1 ++ s :: r) (length l1) = Some s.
  Proof.
    intros l1 s r. rewrite nth_error_app2 by lia. rewrite Nat.sub_diag. reflexivity.
  Qed.

  Lemma rr_body_dead : forall fk fv l1 k v0 r ix,
    rr_body fk fv (mkOMap (l1 ++ mkSlot k v0 true :: r) ix) (length l1) =
    mkOMap (l1 ++ mkSlot k v0 true :: r) ix.
  Proof.
    intros fk fv l1 k v0 r ix. unfold rr_body. simpl. rewrite nth_error_mid. reflexivity.
  Qed.

  Lemma rr_body_live : forall fk fv l1 k v0 r ix,
    rr_body fk fv (mkOMap (l1 ++ mkSlot k v0 false :: r) ix) (length l1) =
    replace k (fk k) (fv k v0) (mkOMap (l1 ++ mkSlot k v0 false :: r) ix).
  Proof.
    intros fk fv l1 k v0 r ix. unfold rr_body. simpl. rewrite nth_error_mid. reflexivity.
  Qed.

  (** a Replace whose [old] is the live slot at the cursor: slot count is
      unchanged, the cursor slot becomes (k', v'), every other live slot with
      key k' is tombstoned *)
  Lemma replace_at : forall l1 k v0 r ix k' v',
    Inv (mkOMap (l1 ++ mkSlot k v0 false :: r) ix) ->
    exists ix',
      replace k k' v' (mkOMap (l1 ++ mkSlot k v0 false :: r) ix) =
      mkOMap (kill k' l1 ++ mkSlot k' v' false :: kill k' r) ix'.
  Proof.
    intros l1 k v0 r ix k' v' I.
    assert (Hg : idx_get k (index (mkOMap (l1 ++ mkSlot k v0 false :: r) ix)) = Some (length l1)).
    { apply (inv_slot_get _ k v0 _ I). simpl. apply nth_error_mid. }
    pose proof (inv_nodup _ I) as ND. simpl in ND.
    apply nodup_split_keys in ND. destruct ND as [N1 N2].
    destruct (string_dec k k') as [E|N].
    - subst k'. rewrite (replace_same _ _ v' _ Hg). unfold setat. simpl. eexists.
      rewrite (upd_app_r _ _ _ _ _ _ eq_refl).
      rewrite (kill_absent _ _ N1), (kill_absent _ _ N2). reflexivity.
    - rewrite (replace_present _ _ _ v' _ I Hg N). unfold rekey, delr. simpl. eexists.
      rewrite kill_app. unfold kill at 2. rewrite map_cons. fold (kill k' r).
      rewrite killf_live_other by congruence.
      rewrite (upd_app_r _ _ _ _ _ _ (kill_length k' l1)). reflexivity.
  Qed.

  Lemma app_mid : forall (l1 : list (slot V)) x r, l1 ++ x :: r = (l1 ++ [x]) ++ r.
  Proof. intros l1 x r. rewrite <- app_assoc. reflexivity. Qed.

  (** loop invariant: with the cursor at [length l1], the slots before the
      cursor abstract to [done], the slots from the cursor on to [todo] *)
  Lemma rr_loop : forall fk fv n l2 l1 ix fuel,
    length l2 = n -> Inv (mkOMap (l1 ++ l2) ix) -> length (absl l2) <= fuel ->
    Inv (fold_left (rr_body fk fv) (seq (length l1) n) (mkOMap (l1 ++ l2) ix)) /\
    abs (fold_left (rr_body fk fv) (seq (length l1) n) (mkOMap (l1 ++ l2) ix)) =
    p_rename_go fk fv fuel (absl l1) (absl l2).
  Proof.
    intros fk fv n. induction n as [|n IH]; intros l2 l1 ix fuel Hlen I Hfuel.
    - destruct l2 as [|s r]; [|discriminate]. simpl. split; [exact I|].
      rewrite abs_absl. simpl. rewrite app_nil_r.
      destruct fuel; simpl; [rewrite app_nil_r|]; reflexivity.
    - destruct l2 as [|[k v0 d] r]; [discriminate|]. simpl in Hlen. injection Hlen as Hlen.
      cbn [seq fold_left]. destruct d.
      + rewrite rr_body_dead.
        assert (E2 : S (length l1) = length (l1 ++ [mkSlot k v0 true]))
          by (rewrite app_length; simpl; lia).
        rewrite (app_mid l1 _ r). rewrite (app_mid l1 _ r) in I. rewrite E2.
        rewrite absl_dead_cons in Hfuel |- *.
        destruct (IH r (l1 ++ [mkSlot k v0 true]) ix fuel Hlen I Hfuel) as [IHi IHa].
        split; [exact IHi|]. rewrite IHa. rewrite absl_app.
        rewrite absl_dead_cons. simpl. rewrite app_nil_r. reflexivity.
      + rewrite rr_body_live.
        destruct (replace_at l1 k v0 r ix (fk k) (fv k v0) I) as [ix' Hr].
        pose proof (inv_step _ (OReplace k (fk k) (fv k v0)) I) as I'.
        cbn [step] in I'. rewrite Hr in I'. rewrite Hr.
        assert (E2 : S (length l1) =
                     length (kill (fk k) l1 ++ [mkSlot (fk k) (fv k v0) false]))
          by (rewrite app_length, kill_length; simpl; lia).
        rewrite (app_mid (kill (fk k) l1) _ (kill (fk k) r)).
        rewrite (app_mid (kill (fk k) l1) _ (kill (fk k) r)) in I'. rewrite E2.
        rewrite absl_live_cons in Hfuel |- *. simpl in Hfuel.
        destruct fuel as [|fuel]; [lia|].
        assert (Hlen' : length (kill (fk k) r) = n) by (rewrite kill_length; exact Hlen).
        assert (Hfuel' : length (absl (kill (fk k) r)) <= fuel).
        { rewrite absl_kill. pose proof (p_remove_length (fk k) (absl r)). lia. }
        destruct (IH _ _ ix' fuel Hlen' I' Hfuel') as [IHi IHa].
        split; [exact IHi|]. rewrite IHa. rewrite absl_app, !absl_kill.
        reflexivity.
  Qed.

  Theorem range_rename_refines : forall fk fv m, Inv m ->
    Inv (range_rename fk fv m) /\ abs (range_rename fk fv m) = p_rename fk fv (abs m).
  Proof.
    intros fk fv m I.
    destruct (observers_agree _ I) as (_ & Hz & _).
    change (range_rename fk fv m) with
      (if is_zero m then m
       else fold_left (rr_body fk fv) (seq 0 (length (items m))) m).
    destruct (is_zero m) eqn:Ez.
    - split; [exact I|]. destruct (abs m); [reflexivity|discriminate].
    - destruct m as [l ix]. simpl items. unfold p_rename.
      apply (rr_loop fk fv (length l) l [] ix (length (abs (mkOMap l ix))) eq_refl I).
      rewrite abs_absl. simpl. lia.
  Qed.

End OMapProofs.

Print Assumptions abs_refines.
Print Assumptions equal_correct.
Print Assumptions range_rename_refines.
