From Coq Require Import String List Bool Lia.
From GP Require Import Model.Kinds.
Import ListNotations.
Local Open Scope string_scope.

Lemma mem_In : forall x l, mem x l = true <-> In x l.
Proof.
  intros x l; unfold mem; rewrite existsb_exists; split.
  - intros [y [Hy He]]. apply String.eqb_eq in He. subst; assumption.
  - intros H; exists x; split; [assumption | apply String.eqb_refl].
Qed.

Lemma mem_false : forall x l, mem x l = false <-> ~ In x l.
Proof.
  intros x l; split; intros H.
  - intros Hin. apply mem_In in Hin. congruence.
  - destruct (mem x l) eqn:E; [apply mem_In in E; contradiction | reflexivity].
Qed.

Definition fam_present (fam keys : list string) : bool := existsb (fun x => mem x keys) fam.

Lemma fam_present_spec : forall fam keys,
  fam_present fam keys = true <-> exists x, In x fam /\ In x keys.
Proof.
  intros; unfold fam_present; rewrite existsb_exists; split;
    intros [x [H1 H2]]; exists x; split; try assumption; apply mem_In; assumption.
Qed.

(** generic priority lemma: the first row with a present key wins *)
Lemma by_keys_first : forall tbl keys dflt pre fam k post,
  tbl = (pre ++ (fam, k) :: post)%list ->
  (forall f k', In (f, k') pre -> fam_present f keys = false) ->
  fam_present fam keys = true ->
  by_keys tbl keys dflt = k.
Proof.
  intros tbl keys dflt pre; revert tbl.
  induction pre as [|[f0 k0] pre IH]; intros tbl fam k post Htbl Hpre Hfam; subst tbl; cbn [app by_keys].
  - unfold fam_present in Hfam. rewrite Hfam. reflexivity.
  - assert (H0 : fam_present f0 keys = false) by (apply (Hpre f0 k0); left; reflexivity).
    unfold fam_present in H0. rewrite H0.
    eapply IH; [reflexivity | | assumption].
    intros f k' Hin. apply (Hpre f k'). right; assumption.
Qed.

Lemma by_keys_none : forall tbl keys dflt,
  (forall f k, In (f, k) tbl -> fam_present f keys = false) -> by_keys tbl keys dflt = dflt.
Proof.
  induction tbl as [|[f0 k0] tbl IH]; intros keys dflt H; cbn [by_keys]; [reflexivity|].
  assert (H0 : fam_present f0 keys = false) by (apply (H f0 k0); left; reflexivity).
  unfold fam_present in H0; rewrite H0. apply IH. intros f k Hin; apply (H f k); right; assumption.
Qed.

(** by_keys only depends on which of the table's keys are present *)
Lemma by_keys_ext : forall tbl keys keys' dflt,
  (forall f k x, In (f, k) tbl -> In x f -> (In x keys <-> In x keys')) ->
  by_keys tbl keys dflt = by_keys tbl keys' dflt.
Proof.
  induction tbl as [|[f0 k0] tbl IH]; intros keys keys' dflt H; cbn [by_keys]; [reflexivity|].
  assert (E : existsb (fun x => mem x keys) f0 = existsb (fun x => mem x keys') f0).
  { apply eq_true_iff_eq. rewrite !existsb_exists. split; intros [x [Hx Hm]]; exists x; split; try assumption;
      apply mem_In; apply mem_In in Hm; apply (H f0 k0 x (or_introl eq_refl) Hx); assumption. }
  rewrite E. destruct (existsb (fun x => mem x keys') f0); [reflexivity|].
  apply IH. intros f k x Hin Hx. apply (H f k x); [right; assumption | assumption].
Qed.

Lemma families_keys_ten : forall f k x, In (f, k) families -> In x f -> In x the_ten_keys.
Proof.
  intros f k x Hin Hx. unfold the_ten_keys. unfold families in Hin. cbn [In] in Hin.
  repeat (destruct Hin as [Hin|Hin]; [inversion Hin; subst; cbn [In] in Hx |- *; tauto|]).
  contradiction.
Qed.

(** ------------------------------------------------------------------ *)
(** the rule table *)

Theorem kind_by_type_table :
  kind_by_type "command" = KCommand /\ kind_by_type "script" = KCommand /\
  kind_by_type "wait" = KWait /\ kind_by_type "waiter" = KWait /\
  kind_by_type "block" = KInput /\ kind_by_type "input" = KInput /\ kind_by_type "manual" = KInput /\
  kind_by_type "trigger" = KTrigger /\ kind_by_type "group" = KGroup.
Proof. repeat split; vm_compute; reflexivity. Qed.

Definition known_types : list string :=
  ["command"; "script"; "wait"; "waiter"; "block"; "input"; "manual"; "trigger"; "group"].

Theorem kind_by_type_unknown : forall t, ~ In t known_types ->
  kind_by_type t = KUnknown ErrUnknownStepType.
Proof.
  intros t H. unfold kind_by_type, type_table. cbn [by_label].
  assert (M : forall l, (forall x, In x l -> In x known_types) -> mem t l = false).
  { intros l Hl. apply mem_false. intros Hin. apply H, Hl, Hin. }
  rewrite !M; [reflexivity| | | | |]; intros x Hx; unfold known_types; cbn [In] in *; tauto.
Qed.

Theorem kind_by_type_known_iff : forall t,
  In t known_types <-> (forall s, kind_by_type t <> KUnknown s).
Proof.
  intros t; split.
  - intros Hin s. unfold known_types in Hin. cbn [In] in Hin.
    repeat (destruct Hin as [Hin|Hin]; [subst t; vm_compute; discriminate|]). contradiction.
  - intros H. destruct (in_dec string_dec t known_types) as [Hi|Hn]; [assumption|].
    exfalso. apply (H ErrUnknownStepType). apply kind_by_type_unknown; assumption.
Qed.

(** inference: the first family (in the documented order) with a key present wins,
    for every key set *)
Theorem kind_by_keys_priority : forall keys pre fam k post,
  families = (pre ++ (fam, k) :: post)%list ->
  (forall f k', In (f, k') pre -> forall x, In x f -> ~ In x keys) ->
  (exists x, In x fam /\ In x keys) ->
  kind_by_keys keys = k.
Proof.
  intros keys pre fam k post Hf Hpre Hex. unfold kind_by_keys.
  eapply by_keys_first; [exact Hf | | apply fam_present_spec; exact Hex].
  intros f k' Hin. destruct (fam_present f keys) eqn:E; [|reflexivity].
  apply fam_present_spec in E. destruct E as [x [Hx Hk]]. exfalso. exact (Hpre f k' Hin x Hx Hk).
Qed.

Theorem kind_by_keys_none : forall keys,
  (forall x, In x the_ten_keys -> ~ In x keys) ->
  kind_by_keys keys = KUnknown ErrStepTypeInference.
Proof.
  intros keys H. unfold kind_by_keys. apply by_keys_none.
  intros f k Hin. destruct (fam_present f keys) eqn:E; [|reflexivity].
  apply fam_present_spec in E. destruct E as [x [Hx Hk]].
  exfalso. apply (H x); [eapply families_keys_ten; eassumption | assumption].
Qed.

Theorem kind_by_keys_unknown_iff : forall keys,
  (forall x, In x the_ten_keys -> ~ In x keys) <-> (exists s, kind_by_keys keys = KUnknown s).
Proof.
  intros keys; split.
  - intros H; exists ErrStepTypeInference; apply kind_by_keys_none; assumption.
  - intros [s Hs] x Hten Hin. unfold kind_by_keys, families in Hs. cbn [by_keys] in Hs.
    assert (P : forall fam, In x fam -> existsb (fun y => mem y keys) fam = true).
    { intros fam Hf. apply existsb_exists. exists x; split; [assumption | apply mem_In; assumption]. }
    unfold the_ten_keys in Hten. cbn [In] in Hten.
    repeat match type of Hs with
           | context [existsb ?f ?fam] =>
               let E := fresh "E" in destruct (existsb f fam) eqn:E; [discriminate Hs|]
           end.
    repeat (destruct Hten as [Hten|Hten];
            [subst x;
             match goal with
             | E : existsb _ ?fam = false |- _ =>
                 assert (existsb (fun y => mem y keys) fam = true) by (apply P; cbn [In]; tauto); congruence
             end|]).
    contradiction.
Qed.

(** additional keys never change the decision; nor do order or repetition of keys *)
Theorem extra_keys_irrelevant : forall keys extra,
  (forall x, In x extra -> ~ In x the_ten_keys) ->
  kind_by_keys (keys ++ extra)%list = kind_by_keys keys.
Proof.
  intros keys extra H. unfold kind_by_keys. apply by_keys_ext.
  intros f k x Hin Hx. rewrite in_app_iff. split; [|tauto].
  intros [Hk|He]; [assumption|]. exfalso. apply (H x He). eapply families_keys_ten; eassumption.
Qed.

Theorem key_set_only : forall keys keys',
  (forall x, In x keys <-> In x keys') -> kind_by_keys keys = kind_by_keys keys'.
Proof. intros keys keys' H. unfold kind_by_keys. apply by_keys_ext. intros; apply H. Qed.

Theorem type_overrides_keys : forall t keys keys', kind_of_map (Some t) keys = kind_of_map (Some t) keys'.
Proof. reflexivity. Qed.

(** an unknown step always carries the right sentinel, and only arises when
    nothing in the table matches *)
Theorem unknown_classified : forall ty keys s,
  kind_of_map ty keys = KUnknown s ->
  (exists t, ty = Some t /\ ~ In t known_types /\ s = ErrUnknownStepType) \/
  (ty = None /\ (forall x, In x the_ten_keys -> ~ In x keys) /\ s = ErrStepTypeInference).
Proof.
  intros [t|] keys s H; cbn [kind_of_map] in H.
  - left. exists t. destruct (in_dec string_dec t known_types) as [Hi|Hn].
    + exfalso. apply (proj1 (kind_by_type_known_iff t) Hi s). exact H.
    + rewrite (kind_by_type_unknown t Hn) in H. inversion H. auto.
  - right. assert (Hn : forall x, In x the_ten_keys -> ~ In x keys)
      by (apply kind_by_keys_unknown_iff; exists s; exact H).
    rewrite (kind_by_keys_none keys Hn) in H. inversion H. auto.
Qed.

(** scalar steps *)
Theorem kind_of_scalar_table :
  kind_of_scalar "wait" = KWait /\ kind_of_scalar "waiter" = KWait /\
  kind_of_scalar "block" = KInput /\ kind_of_scalar "input" = KInput /\ kind_of_scalar "manual" = KInput.
Proof. repeat split; vm_compute; reflexivity. Qed.

Theorem kind_of_scalar_unknown : forall s,
  ~ In s ["wait"; "waiter"; "block"; "input"; "manual"] -> kind_of_scalar s = KUnknown ErrUnknownStepType.
Proof.
  intros s H. unfold kind_of_scalar, scalar_table. cbn [by_label].
  assert (M : forall l, (forall x, In x l -> In x ["wait"; "waiter"; "block"; "input"; "manual"]) -> mem s l = false).
  { intros l Hl. apply mem_false. intros Hin. apply H, Hl, Hin. }
  rewrite !M; [reflexivity| |]; intros x Hx; cbn [In] in *; tauto.
Qed.
