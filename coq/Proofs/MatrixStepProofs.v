From Coq Require Import String List Bool Arith.
From GP Require Import Model.Gv Model.Pipeline Model.Interp Model.MatrixInterp Model.MatrixStep.
From GP Require Model.Matrix.
Import ListNotations.

Lemma omapM_fst : forall (expand : string -> option string) (l l' : list (string * string)),
  interp_map_values expand l = Some l' -> map fst l' = map fst l.
Proof.
  intros expand l. unfold interp_map_values.
  induction l as [|[k v] r IH]; intros l' H.
  - cbn in H. inversion H. reflexivity.
  - cbn [omapM fst snd] in H.
    destruct (expand v) as [v'|]; cbn [option_map] in H; [|discriminate H].
    match type of H with
    | match ?X with _ => _ end = _ => destruct X as [r'|] eqn:E; [|discriminate H]
    end.
    inversion H; subst. cbn [map fst]. f_equal. apply IH. reflexivity.
Qed.

(** matrix interpolation touches command, label, plugins, env VALUES and unknown fields only *)
Theorem minterp_frame : forall expand c c',
  minterp_command expand c = Some c' ->
  cs_key c' = cs_key c /\ cs_sig c' = cs_sig c /\ cs_matrix c' = cs_matrix c /\ cs_cache c' = cs_cache c /\
  map fst (cs_env c') = map fst (cs_env c) /\ length (cs_plugins c') = length (cs_plugins c).
Proof.
  intros expand c c' H. unfold minterp_command in H.
  destruct (expand (cs_command c)); [|discriminate H].
  destruct (expand (cs_label c)); [|discriminate H].
  destruct (omapM (interp_plugin expand) (cs_plugins c)) as [pls|] eqn:P; [|discriminate H].
  destruct (interp_map_values expand (cs_env c)) as [env|] eqn:E; [|discriminate H].
  destruct (interp_rem expand (cs_rem c)); [|discriminate H].
  inversion H; subst; cbn. repeat split; try reflexivity.
  - apply (omapM_fst expand); exact E.
  - clear -P. revert pls P. induction (cs_plugins c) as [|x r IH]; intros pls P; cbn [omapM] in P.
    + inversion P. reflexivity.
    + destruct (interp_plugin expand x); [|discriminate P].
      destruct (omapM (interp_plugin expand) r) as [r'|]; [|discriminate P].
      inversion P; subst. cbn [length]. f_equal. apply IH. reflexivity.
Qed.

(** an empty permutation changes nothing; a rejected permutation yields no modified step *)
Theorem empty_permutation_identity : forall c,
  Matrix.validate (option_map to_vmatrix (cs_matrix c)) [] = Matrix.Accept ->
  interpolate_matrix_permutation c [] = MOk c.
Proof. intros c H. unfold interpolate_matrix_permutation. rewrite H. reflexivity. Qed.

Theorem rejected_yields_no_step : forall c p,
  Matrix.validate (option_map to_vmatrix (cs_matrix c)) p <> Matrix.Accept ->
  interpolate_matrix_permutation c p = MRejected.
Proof.
  intros c p H. unfold interpolate_matrix_permutation.
  destruct (Matrix.validate (option_map to_vmatrix (cs_matrix c)) p); [contradiction H; reflexivity | reflexivity].
Qed.

Theorem accepted_step_frame : forall c p c',
  interpolate_matrix_permutation c p = MOk c' ->
  cs_key c' = cs_key c /\ cs_sig c' = cs_sig c /\ cs_matrix c' = cs_matrix c /\ cs_cache c' = cs_cache c /\
  map fst (cs_env c') = map fst (cs_env c).
Proof.
  intros c p c' H. unfold interpolate_matrix_permutation in H.
  destruct (Matrix.validate (option_map to_vmatrix (cs_matrix c)) p); [|discriminate H].
  destruct p as [|x r].
  - inversion H; subst. repeat split; reflexivity.
  - destruct (minterp_command (transform_result (repl_of_perm (x :: r))) c) as [c2|] eqn:E; [|discriminate H].
    inversion H; subst. destruct (minterp_frame _ _ _ E) as [A [B [C [D [F _]]]]]. repeat split; assumption.
Qed.
