(** The YAML leg of "the normal form is a fixpoint": re-parsing the YAML marshalling of a
    pipeline (Model/MarshalYaml.v) yields a pipeline that marshals to the same JSON as the
    original, and hence the same JSON as the JSON-leg re-parse (Proofs/ReparseProofs.v).

    Bottom-up, relating the two legs rather than redoing the JSON one:
      my_any_json (a free-form value keeps its JSON through the YAML emitter/scanner),
      yobj_fix (the leftover of a re-read struct marshals like the original inline map),
      sig/cache/with/adj/setup/matrix/plugins/command/step round trips,
      reparse_yaml_fixpoint (MAIN, under [pipeline_fix_ok] and [yaml_side_ok]),
      yaml_json_legs_agree, parse_result_yaml_side_ok, command_roundtrip_yaml,
      signature_survives_yaml_reparse.

    Classes the YAML leg excludes beyond the JSON leg, each shown real by an example:
      a signature without signed_fields (nil slice: JSON null, YAML [] -> "signed_fields":[]),
      a pipeline with `env: {}` (JSON keeps "env":{}, yaml.v3 omits a zero ordered map),
      a `skip` holding an empty Go map (JSON omitempty drops it, yaml.v3 keeps `skip: {}`),
      an unknown step that the YAML scanner reads differently (a timestamp `type`),
      incoherent float tokens, a disabled cache whose extra fields collide with a field key. *)
From Coq Require Import String List Ascii Bool Arith Lia ZArith Permutation Sorted.
From GP Require Import Base.Sexp Model.Gv Model.Decode Model.Kinds Model.Plugin Model.Pipeline Model.Marshal Model.Reparse
     Model.MarshalYaml Model.Jcs Model.Sign Gen.Structs
     Proofs.DecodeProofs Proofs.MarshalProofs Proofs.PipelineProofs Proofs.JcsProofs Proofs.PluginProofs Proofs.SignProofs
     Proofs.RoundtripProofs Proofs.ReparseProofs Proofs.RoundtripLink.
Import ListNotations.
Local Open Scope string_scope.
Local Open Scope list_scope.

(** ------------------------------------------------------------------ *)
(** * 1. Float tokens and free-form values *)

(* the float64 [GFloat j st] keeps its JSON token through yaml.Marshal + the scanner:
   either its 'g' token [st] is not integral (it stays a float), or it is and reads back as
   the int whose decimal form is the JSON token [j] *)
Definition y_float_ok (j st : string) : Prop := gv_json (y_float j st) = JNum j.

(* a predicate on every float of a free-form value *)
Fixpoint gv_floats (Q : string -> string -> Prop) (g : gv) : Prop :=
  match g with
  | GFloat j st => Q j st
  | GSeq l => (fix go (l : list gv) : Prop := match l with [] => True | x :: r => gv_floats Q x /\ go r end) l
  | GMap l => (fix go (l : list (string * gv)) : Prop :=
                 match l with [] => True | kv :: r => gv_floats Q (snd kv) /\ go r end) l
  | GUMap l => (fix go (l : list (string * gv)) : Prop :=
                  match l with [] => True | kv :: r => gv_floats Q (snd kv) /\ go r end) l
  | _ => True
  end.

Definition gv_yf : gv -> Prop := gv_floats y_float_ok.
Definition rem_yf (rem : list (string * gv)) : Prop := Forall (fun kv => gv_yf (snd kv)) rem.

Lemma gv_floats_seq : forall Q l, gv_floats Q (GSeq l) <-> Forall (gv_floats Q) l.
Proof.
  intros Q. induction l as [|x r IH]; [split; intros; [constructor|exact I]|].
  change (gv_floats Q (GSeq (x :: r))) with (gv_floats Q x /\ gv_floats Q (GSeq r)). rewrite IH. split.
  - intros [A B]. constructor; assumption.
  - intros H. inversion H; subst. split; assumption.
Qed.
Lemma gv_floats_map : forall Q l, gv_floats Q (GMap l) <-> Forall (fun kv => gv_floats Q (snd kv)) l.
Proof.
  intros Q. induction l as [|x r IH]; [split; intros; [constructor|exact I]|].
  change (gv_floats Q (GMap (x :: r))) with (gv_floats Q (snd x) /\ gv_floats Q (GMap r)). rewrite IH. split.
  - intros [A B]. constructor; assumption.
  - intros H. inversion H; subst. split; assumption.
Qed.
Lemma gv_floats_umap : forall Q l, gv_floats Q (GUMap l) <-> Forall (fun kv => gv_floats Q (snd kv)) l.
Proof.
  intros Q. induction l as [|x r IH]; [split; intros; [constructor|exact I]|].
  change (gv_floats Q (GUMap (x :: r))) with (gv_floats Q (snd x) /\ gv_floats Q (GUMap r)). rewrite IH. split.
  - intros [A B]. constructor; assumption.
  - intros H. inversion H; subst. split; assumption.
Qed.

Lemma gv_yf_map : forall l, gv_yf (GMap l) <-> rem_yf l.
Proof. intros. apply gv_floats_map. Qed.
Lemma gv_yf_umap : forall l, gv_yf (GUMap l) <-> rem_yf l.
Proof. intros. apply gv_floats_umap. Qed.
Lemma gv_yf_seq : forall l, gv_yf (GSeq l) <-> Forall gv_yf l.
Proof. intros. apply gv_floats_seq. Qed.

Lemma rem_yf_get : forall rem k v, rem_yf rem -> aget k rem = Some v -> gv_yf v.
Proof.
  intros rem k v H G. apply aget_some_in in G. unfold rem_yf in H. rewrite Forall_forall in H. apply (H (k, v) G).
Qed.

Definition ymap (rem : list (string * gv)) : list (string * gv) := map (fun kv => (fst kv, my_any (snd kv))) rem.

Lemma my_any_seq : forall l, my_any (GSeq l) = GSeq (map my_any l).
Proof. reflexivity. Qed.
Lemma my_any_map : forall l, my_any (GMap l) = GMap (ymap l).
Proof. reflexivity. Qed.
Lemma my_any_umap : forall l, my_any (GUMap l) = GMap (sort_keys (ymap l)).
Proof. reflexivity. Qed.

Lemma jmap_ymap : forall l, rem_yf l ->
  (forall kv, In kv l -> gv_yf (snd kv) -> gv_json (my_any (snd kv)) = gv_json (snd kv)) ->
  jmap (ymap l) = jmap l.
Proof.
  intros l Y H. unfold jmap, ymap. rewrite map_map. cbn [fst snd]. apply map_ext_in. intros [k v] I.
  cbn [fst snd]. f_equal. unfold rem_yf in Y. rewrite Forall_forall in Y. apply (H (k, v) I). apply (Y (k, v) I).
Qed.

(* (a) a free-form value keeps its JSON through the YAML leg *)
Theorem my_any_json : forall g, gv_yf g -> gv_json (my_any g) = gv_json g.
Proof.
  induction g using gv_ind'; intros Y; try reflexivity.
  - exact Y.
  - rewrite my_any_seq, !gv_json_seq. f_equal. rewrite map_map. apply map_ext_in. intros x Hx.
    apply gv_yf_seq in Y. rewrite Forall_forall in H, Y. apply H; auto.
  - rewrite my_any_map, !gv_json_map. f_equal. apply gv_yf_map in Y. apply jmap_ymap; [exact Y|].
    intros kv I Yk. rewrite Forall_forall in H. apply (H kv I Yk).
  - rewrite my_any_umap, gv_json_map, gv_json_umap. f_equal. apply gv_yf_umap in Y.
    unfold jmap at 1. rewrite <- (sort_keys_map gv_json (ymap l)). fold (jmap (ymap l)). f_equal.
    apply jmap_ymap; [exact Y|]. intros kv I Yk. rewrite Forall_forall in H. apply (H kv I Yk).
Qed.

Lemma jmap_ymap_eq : forall l, rem_yf l -> jmap (ymap l) = jmap l.
Proof. intros l Y. apply jmap_ymap; [exact Y|]. intros kv _ Yk. apply my_any_json. exact Yk. Qed.

(* what the coherence means in terms of the tokens *)
Lemma y_float_ok_cases : forall j st, y_float_ok j st ->
  (exists z, y_float j st = GInt z /\ z_to_string z = j) \/ y_float j st = GFloat j st.
Proof.
  intros j st H. unfold y_float_ok, y_float in *.
  destruct (int_token st); [|right; reflexivity].
  destruct (string_to_z st) as [z|]; [|right; reflexivity].
  left. exists z. split; [reflexivity|]. cbn [gv_json] in H. congruence.
Qed.

(* a JSON-stable token whose 'g' form, when integral, is the JSON token itself (strconv 'g' and
   encoding/json print integral floats below 1e6 alike) is coherent *)
Lemma y_float_ok_intro : forall j st, num_stable j -> (int_token st = true -> j = st) -> y_float_ok j st.
Proof.
  intros j st S C. unfold y_float_ok, y_float. destruct (int_token st) eqn:IT; [|reflexivity].
  specialize (C eq_refl). subst st. unfold num_stable in S. cbn [gv_of_json] in S. rewrite IT in S.
  destruct (string_to_z j); exact S.
Qed.

Lemma z_to_string_inj0 : forall z, z_to_string z = "0" -> z = 0%Z.
Proof.
  intros z H. pose proof (string_to_z_to_string z) as E. rewrite H in E. vm_compute in E. congruence.
Qed.
Lemma z_to_string_negzero : forall z, z_to_string z <> "-0".
Proof.
  intros z H. pose proof (string_to_z_to_string z) as E. rewrite H in E. vm_compute in E.
  inversion E; subst z. vm_compute in H. discriminate H.
Qed.

(* encoding/json's omitempty sees the same emptiness before and after the YAML leg, except for an
   empty Go map, which comes back as a (non-nil) ordered map *)
Lemma is_empty_my_any : forall g, gv_yf g -> g <> GUMap [] -> is_empty_any (my_any g) = is_empty_any g.
Proof.
  intros g Y N. destruct g; try reflexivity.
  cbn [my_any]. destruct (y_float_ok_cases _ _ Y) as [(z & E & Z)|E]; rewrite E; reflexivity.
Qed.

(** ------------------------------------------------------------------ *)
(** * 2. Re-read structs *)

Lemma opt_eta : forall {A} (o : option A), match o with Some v => Some v | None => None end = o.
Proof. intros A [v|]; reflexivity. Qed.

Lemma aget_app : forall {T} k (a b : list (string * T)),
  aget k (a ++ b) = match aget k a with Some v => Some v | None => aget k b end.
Proof.
  intros T k a b. induction a as [|[k0 v0] r IH]; [reflexivity|].
  cbn [app aget]. destruct (String.eqb k k0); [reflexivity|exact IH].
Qed.

Lemma NoDup_app_intro : forall {A} (a b : list A),
  NoDup a -> NoDup b -> (forall x, In x a -> ~ In x b) -> NoDup (a ++ b).
Proof.
  intros A a b Na Nb D. induction a as [|x r IH]; [exact Nb|].
  inversion Na; subst. cbn [app]. constructor.
  - rewrite in_app_iff. intros [I|I]; [contradiction|]. apply (D x); [left; reflexivity|exact I].
  - apply IH; [assumption|]. intros y Hy. apply D. right. exact Hy.
Qed.

Lemma filter_none : forall {A} (f : A -> bool) l, (forall x, In x l -> f x = false) -> filter f l = [].
Proof.
  intros A f l H. induction l as [|x r IH]; [reflexivity|]. cbn [filter].
  rewrite (H x) by (left; reflexivity). apply IH. intros y Hy. apply H. right. exact Hy.
Qed.

(* the struct fields the reflective encoder writes: omitted ones dropped *)
Definition ycompact (fields : list (string * option gv)) : list (string * gv) :=
  fold_right (fun kv acc => match snd kv with Some v => (fst kv, v) :: acc | None => acc end) [] fields.

Lemma y_struct_eq : forall fields rem, y_struct fields rem = GMap (ycompact fields ++ sort_keys (ymap rem)).
Proof. reflexivity. Qed.

Lemma ycompact_cons_some : forall k v r, ycompact ((k, Some v) :: r) = (k, v) :: ycompact r.
Proof. reflexivity. Qed.
Lemma ycompact_cons_none : forall k r, ycompact ((k, None) :: r) = ycompact r.
Proof. reflexivity. Qed.

Lemma ycompact_keys : forall ol k, In k (map fst (ycompact ol)) -> In k (map fst ol).
Proof.
  induction ol as [|[k0 o] r IH]; intros k H; [destruct H|].
  cbn [map fst]. destruct o as [v|].
  - rewrite ycompact_cons_some in H. cbn [map fst In] in H. destruct H as [<-|H]; [left; reflexivity|right; auto].
  - rewrite ycompact_cons_none in H. right. auto.
Qed.

Lemma ycompact_nodup : forall ol, NoDup (map fst ol) -> NoDup (map fst (ycompact ol)).
Proof.
  induction ol as [|[k0 o] r IH]; intros H; [constructor|].
  cbn [map fst] in H. inversion H; subst. destruct o as [v|].
  - rewrite ycompact_cons_some. cbn [map fst]. constructor; [|apply IH; assumption].
    intros I. apply ycompact_keys in I. contradiction.
  - rewrite ycompact_cons_none. apply IH; assumption.
Qed.

Lemma aget_ycompact : forall k ol, NoDup (map fst ol) ->
  aget k (ycompact ol) = match aget k ol with Some o => o | None => None end.
Proof.
  intros k. induction ol as [|[k0 o] r IH]; intros H; [reflexivity|].
  cbn [map fst] in H. inversion H; subst. destruct o as [v|].
  - rewrite ycompact_cons_some. cbn [aget].
    destruct (String.eqb_spec k k0) as [E|N]; [reflexivity|apply IH; assumption].
  - rewrite ycompact_cons_none. cbn [aget].
    destruct (String.eqb_spec k k0) as [E|N]; [|apply IH; assumption].
    subst k0. apply aget_none. intros I. apply ycompact_keys in I. contradiction.
Qed.

Lemma ycompact_keys_in : forall ol k v, In (k, Some v) ol -> In k (map fst (ycompact ol)).
Proof.
  induction ol as [|[k0 o] r IH]; intros k v H; [destruct H|].
  destruct H as [E|H].
  - inversion E; subst. left. reflexivity.
  - destruct o; [right|]; eapply IH; eassumption.
Qed.

Lemma keys_ymap : forall l, map fst (ymap l) = map fst l.
Proof. intros. unfold ymap. apply map_fst_map. Qed.

Lemma keys_sorted_ymap : forall k rem, In k (map fst (sort_keys (ymap rem))) <-> In k (map fst rem).
Proof. intros. rewrite sort_keys_in, keys_ymap. reflexivity. Qed.

Lemma aget_sorted_ymap : forall k rem, NoDup (map fst rem) ->
  aget k (sort_keys (ymap rem)) = option_map my_any (aget k rem).
Proof.
  intros k rem N. rewrite aget_sort_keys by (rewrite keys_ymap; exact N). unfold ymap. apply aget_map.
Qed.

(* lookups in a re-read struct: the struct fields come first *)
Lemma ystruct_get : forall ol rem k, NoDup (map fst ol) -> NoDup (map fst rem) ->
  aget k (ycompact ol ++ sort_keys (ymap rem)) =
  match aget k ol with Some (Some v) => Some v | _ => option_map my_any (aget k rem) end.
Proof.
  intros ol rem k No Nr. rewrite aget_app, aget_ycompact by exact No.
  rewrite aget_sorted_ymap by exact Nr. destruct (aget k ol) as [[v|]|]; reflexivity.
Qed.

Lemma ystruct_get_notin : forall ol rem k, NoDup (map fst ol) -> ~ In k (map fst rem) ->
  aget k (ycompact ol ++ sort_keys (ymap rem)) =
  match aget k ol with Some (Some v) => Some v | _ => None end.
Proof.
  intros ol rem k No Nk. rewrite aget_app, aget_ycompact by exact No.
  rewrite (aget_none k (sort_keys (ymap rem))) by (rewrite keys_sorted_ymap; exact Nk).
  destruct (aget k ol) as [[v|]|]; reflexivity.
Qed.

Lemma ystruct_schema_get : forall ol rem schema k, NoDup (map fst ol) -> rem_ok schema rem -> In k schema ->
  aget k (ycompact ol ++ sort_keys (ymap rem)) =
  match aget k ol with Some (Some v) => Some v | _ => None end.
Proof. intros ol rem schema k No (_ & Av & _) I. apply ystruct_get_notin; [exact No|apply Av; exact I]. Qed.

Lemma ystruct_keys : forall ol rem k,
  In k (map fst (ycompact ol ++ sort_keys (ymap rem))) <-> In k (map fst (ycompact ol)) \/ In k (map fst rem).
Proof. intros. rewrite map_app, in_app_iff, keys_sorted_ymap. reflexivity. Qed.

Lemma ystruct_nodup : forall ol rem, NoDup (map fst ol) -> NoDup (map fst rem) ->
  (forall k, In k (map fst ol) -> ~ In k (map fst rem)) ->
  NoDup (map fst (ycompact ol ++ sort_keys (ymap rem))).
Proof.
  intros ol rem No Nr D. rewrite map_app. apply NoDup_app_intro.
  - apply ycompact_nodup. exact No.
  - apply sort_keys_nodup. rewrite keys_ymap. exact Nr.
  - intros k I. rewrite keys_sorted_ymap. apply D. apply ycompact_keys. exact I.
Qed.

(* (b) the re-read struct, filtered by a key predicate that drops every written field key and keeps
   every key of the inline map, marshals (under any outline) like the original inline map *)
Lemma yobj_fix : forall (outline : list (string * json)) (yf : list (string * gv)) rem (q : string -> bool),
  NoDup (map fst outline) -> NoDup (map fst rem) -> rem_yf rem ->
  (forall k, In k (map fst yf) -> q k = false) ->
  (forall k, q k = false -> ~ In k (map fst rem)) ->
  inline_friendly outline (filter (fun kv => q (fst kv)) (yf ++ sort_keys (ymap rem)))
  = inline_friendly outline rem.
Proof.
  intros outline yf rem q No Nr Y Hf Hq.
  rewrite filter_app.
  rewrite (filter_none (fun kv => q (fst kv)) yf) by (intros [k v] I; apply Hf; apply (in_map fst) in I; exact I).
  cbn [app].
  set (rem' := filter (fun kv => q (fst kv)) (sort_keys (ymap rem))).
  assert (Nr' : NoDup (map fst rem')).
  { unfold rem'. apply nodup_map_filter. apply sort_keys_nodup. rewrite keys_ymap. exact Nr. }
  rewrite (inline_friendly_members outline rem'), (inline_friendly_members outline rem). f_equal.
  apply alist_sorted_ext; try apply inline_friendly_sorted; try apply inline_friendly_nodup.
  intros k. rewrite !inline_friendly_lookup by assumption.
  destruct (aget k outline) eqn:Eo; [reflexivity|].
  unfold rem'. rewrite aget_filter. destruct (q k) eqn:Q.
  - rewrite aget_sorted_ymap by exact Nr. destruct (aget k rem) eqn:Er; cbn [option_map]; [|reflexivity].
    f_equal. apply my_any_json. eapply rem_yf_get; eassumption.
  - cbn [option_map]. rewrite aget_none; [reflexivity|]. apply Hq. exact Q.
Qed.

(* a primary key that is present is consumed *)
Lemma primary_consumed : forall fields m pk al v,
  In (pk, al) (ktab fields) -> aget pk m = Some v -> In pk (DecodeProofs.consumed (partition_keys fields m)).
Proof.
  intros fields m pk al v Hin G. unfold ktab in Hin. apply in_map_iff in Hin.
  destruct Hin as (r & E & Hr). inversion E; subst pk al. clear E.
  apply keyed_In in Hr. destruct Hr as [Hr Hc].
  assert (L : field_lookup r m = Some (primary_key r, v)) by (unfold field_lookup; rewrite G; reflexivity).
  pose proof (assigned_complete fields m r _ _ Hr Hc L) as A.
  unfold DecodeProofs.consumed. apply in_map_iff. exists (r, primary_key r, v). split; [reflexivity|exact A].
Qed.

Lemma aget_in_keys : forall {T} k (l : list (string * T)), In k (map fst l) -> exists v, aget k l = Some v.
Proof.
  intros T k l I. destruct (aget k l) eqn:G; [eauto|]. exfalso. revert I. apply aget_none_iff. exact G.
Qed.

(* structs whose fields have no aliases *)
Lemma ystruct_noalias_fix : forall fields ol outline rem schema,
  (forall pk al, In (pk, al) (ktab fields) -> In pk schema /\ al = []) ->
  (forall k, In k (map fst ol) -> exists al, In (k, al) (ktab fields)) ->
  NoDup (map fst outline) -> rem_ok schema rem -> rem_yf rem ->
  inline_friendly outline (leftover (partition_keys fields (ycompact ol ++ sort_keys (ymap rem))))
  = inline_friendly outline rem.
Proof.
  intros fields ol outline rem schema HK HO No (Nr & Av & Vs) Y. rewrite leftover_spec.
  set (m := ycompact ol ++ sort_keys (ymap rem)).
  apply (yobj_fix outline (ycompact ol) rem
           (fun k => negb (existsb (String.eqb k) (DecodeProofs.consumed (partition_keys fields m)))));
    try assumption.
  - intros k I. apply negb_false_iff. apply existsb_eqb_In.
    destruct (HO k (ycompact_keys _ _ I)) as [al Hal].
    assert (G : exists v, aget k m = Some v).
    { apply aget_in_keys. unfold m. apply ystruct_keys. left. exact I. }
    destruct G as [v G]. eapply primary_consumed; eassumption.
  - apply consumed_not_in_rem. intros pk al Hin. destruct (HK pk al Hin) as [Hs ->].
    split; [apply Av; exact Hs|intros a []].
Qed.

(** decoding optional string / string-list members *)
Lemma mapM_gstrs : forall l, mapM unm_string (map GStr l) = Ok l 0.
Proof.
  intros l. rewrite (mapM_map_ok0 GStr unm_string (fun s => s)); [rewrite map_id; reflexivity|].
  intros a _. reflexivity.
Qed.

Lemma unm_strings_ystrs : forall l, unm_strings (ystrs l) = Ok (Some l) 0.
Proof. intros l. unfold ystrs. cbn [unm_strings]. rewrite mapM_gstrs, bind_ret_l. reflexivity. Qed.

Definition ystr_opt (s : string) : option gv := oy (String.eqb s "") (GStr s).

Lemma opt_str_field_y : forall name p s, field name p = ystr_opt s -> opt_field name p "" unm_string = Ok s 0.
Proof.
  intros name p s H. unfold ystr_opt, oy in H. destruct (String.eqb_spec s "") as [E|N].
  - rewrite (opt_field_none _ _ _ _ H). subst. reflexivity.
  - rewrite (opt_field_some _ _ _ _ _ H). reflexivity.
Qed.

Definition yne_opt {A} (l : list A) (v : gv) : option gv := oy (match l with [] => true | _ => false end) v.

Lemma opt_strs_field_y : forall name p l, field name p = yne_opt l (ystrs l) ->
  exists o, opt_field name p None unm_strings = Ok o 0 /\ strings_or_nil o = l.
Proof.
  intros name p l H. unfold yne_opt, oy in H. destruct l as [|x r].
  - rewrite (opt_field_none _ _ _ _ H). exists None. split; reflexivity.
  - rewrite (opt_field_some _ _ _ _ _ H). exists (Some (x :: r)). split; [apply unm_strings_ystrs|reflexivity].
Qed.

(** ------------------------------------------------------------------ *)
(** * 3. Signature *)

(* yaml.v3 writes a nil []string as [], which decodes to an empty non-nil slice: only signatures
   that carry a signed_fields list come back unchanged *)
Theorem sig_roundtrip_yaml : forall s, sg_fields s <> None -> unm_sig (my_sig s) = Ok (Some s) 0.
Proof.
  intros [a f v] Hf. cbn [sg_fields] in Hf. destruct f as [l|]; [clear Hf|congruence].
  unfold my_sig. cbn [sg_alg sg_fields sg_value]. cbn [unm_sig]. cbv zeta.
  set (m := [("algorithm", GStr a); ("signed_fields", ystrs l); ("value", GStr v)]).
  assert (E1 : field "Algorithm" (partition_keys struct_Signature m) = Some (GStr a)).
  { rewrite (field_keys_spec "Algorithm" struct_Signature ["algorithm"]) by
      (first [apply nodupb_sound; vm_compute; reflexivity|vm_compute; reflexivity]). reflexivity. }
  assert (E2 : field "SignedFields" (partition_keys struct_Signature m) = Some (ystrs l)).
  { rewrite (field_keys_spec "SignedFields" struct_Signature ["signed_fields"]) by
      (first [apply nodupb_sound; vm_compute; reflexivity|vm_compute; reflexivity]). reflexivity. }
  assert (E3 : field "Value" (partition_keys struct_Signature m) = Some (GStr v)).
  { rewrite (field_keys_spec "Value" struct_Signature ["value"]) by
      (first [apply nodupb_sound; vm_compute; reflexivity|vm_compute; reflexivity]). reflexivity. }
  rewrite (opt_field_some _ _ _ _ _ E1), (opt_field_some _ _ _ _ _ E2), (opt_field_some _ _ _ _ _ E3).
  change (unm_string (GStr a)) with (Ok a 0). change (unm_string (GStr v)) with (Ok v 0).
  rewrite bind_ret_l, unm_strings_ystrs, bind_ret_l, bind_ret_l. reflexivity.
Qed.

(** ------------------------------------------------------------------ *)
(** * 4. Cache *)

(* YAML has no `cache: false` shorthand: a disabled cache is written as a mapping with
   `disabled: true` and everything else it holds.  Its re-read must decode, which it does when no
   extra field is named like a struct field (otherwise the encoder panics, [y_pipeline_ok]);
   an enabled cache needs coherent floats in its extra fields. *)
Definition cache_y_ok (c : cache) : Prop :=
  if ca_disabled c then forall k, In k cache_primary -> ~ In k (map fst (ca_rem c))
  else rem_yf (ca_rem c).

Definition cache_yol (c : cache) : list (string * option gv) :=
  [("disabled", oy (negb (ca_disabled c)) (GBool true));
   ("name", ystr_opt (ca_name c));
   ("paths", yne_opt (ca_paths c) (ystrs (ca_paths c)));
   ("size", ystr_opt (ca_size c))].

Lemma my_cache_eq : forall c, my_cache c = GMap (ycompact (cache_yol c) ++ sort_keys (ymap (ca_rem c))).
Proof. reflexivity. Qed.

Theorem cache_roundtrip_yaml : forall c, cache_fix_ok c -> cache_y_ok c ->
  exists c', unm_cache (my_cache c) = Ok (Some c') 0 /\ mj_cache c' = mj_cache c.
Proof.
  intros c H Y. rewrite my_cache_eq. cbn [unm_cache]. cbv zeta.
  set (m := ycompact (cache_yol c) ++ sort_keys (ymap (ca_rem c))).
  set (p := partition_keys struct_Cache m).
  assert (Nol : NoDup (map fst (cache_yol c))) by (apply nodupb_sound; reflexivity).
  assert (Av : forall k, In k cache_primary -> ~ In k (map fst (ca_rem c))).
  { unfold cache_y_ok in Y. destruct (ca_disabled c) eqn:D; [exact Y|].
    destruct H as [H|(_ & Av & _)]; [congruence|exact Av]. }
  assert (G : forall k, In k cache_primary ->
            aget k m = match aget k (cache_yol c) with Some (Some v) => Some v | _ => None end).
  { intros k I. apply ystruct_get_notin; [exact Nol|apply Av; exact I]. }
  assert (F1 : field "Disabled" p = oy (negb (ca_disabled c)) (GBool true)).
  { unfold p. rewrite f_cache_disabled. cbn [first_key]. rewrite G by (unfold cache_primary; in_lit).
    cbn [aget cache_yol String.eqb Ascii.eqb Bool.eqb]. rewrite !opt_eta; reflexivity. }
  assert (F2 : field "Name" p = ystr_opt (ca_name c)).
  { unfold p. rewrite f_cache_name. cbn [first_key]. rewrite G by (unfold cache_primary; in_lit).
    cbn [aget cache_yol String.eqb Ascii.eqb Bool.eqb]. rewrite !opt_eta; reflexivity. }
  assert (F3 : field "Paths" p = yne_opt (ca_paths c) (ystrs (ca_paths c))).
  { unfold p. rewrite f_cache_paths. cbn [first_key]. rewrite G by (unfold cache_primary; in_lit).
    cbn [aget cache_yol String.eqb Ascii.eqb Bool.eqb]. rewrite !opt_eta; reflexivity. }
  assert (F4 : field "Size" p = ystr_opt (ca_size c)).
  { unfold p. rewrite f_cache_size. cbn [first_key]. rewrite G by (unfold cache_primary; in_lit).
    cbn [aget cache_yol String.eqb Ascii.eqb Bool.eqb]. rewrite !opt_eta; reflexivity. }
  assert (D1 : opt_field "Disabled" p false unm_bool = Ok (ca_disabled c) 0).
  { unfold opt_field. rewrite F1. destruct (ca_disabled c); reflexivity. }
  rewrite D1, bind_ret_l.
  rewrite (opt_str_field_y _ _ _ F2), bind_ret_l.
  destruct (opt_strs_field_y _ _ _ F3) as (o & Eo & So). rewrite Eo, bind_ret_l.
  rewrite (opt_str_field_y _ _ _ F4), bind_ret_l. rewrite So.
  eexists. split; [reflexivity|].
  destruct (ca_disabled c) eqn:D.
  - unfold mj_cache. cbn [ca_disabled]. rewrite D. reflexivity.
  - destruct H as [H|R]; [congruence|]. unfold cache_y_ok in Y. rewrite D in Y.
    rewrite (mj_cache_eq c D), mj_cache_eq by reflexivity.
    change (cache_ol (mkCache false (ca_name c) (ca_paths c) (ca_size c) (leftover p))) with (cache_ol c).
    cbn [ca_rem]. unfold p, m.
    apply (ystruct_noalias_fix struct_Cache (cache_yol c) _ (ca_rem c) cache_primary); try assumption.
    + intros pk al Hin. rewrite kt_cache in Hin.
      ktab_cases Hin; (split; [unfold cache_primary; in_lit|reflexivity]).
    + intros k I. rewrite kt_cache. cbn [cache_yol map fst In] in I.
      repeat (destruct I as [<-|I]; [eexists; in_lit|]). destruct I.
    + apply compact_nodup. apply nodupb_sound. reflexivity.
Qed.

(** ------------------------------------------------------------------ *)
(** * 5. Matrix *)

Lemma y_map_ss_eq : forall l, y_map_ss l = GMap (map (fun kv => (fst kv, GStr (snd kv))) (sort_keys l)).
Proof. intros l. unfold y_map_ss. rewrite (sort_keys_map (fun v => GStr v) l). reflexivity. Qed.

Lemma unm_with_y_map_ss : forall l, unm_with (y_map_ss l) = Ok (sort_keys l) 0.
Proof.
  intros l. rewrite y_map_ss_eq. cbn [unm_with].
  rewrite (mapM_map_ok0 _ _ (fun kv => kv)); [rewrite map_id; reflexivity|].
  intros [k v] _. reflexivity.
Qed.

Lemma unm_map_ss_y_map_ss : forall l, unm_map_ss (y_map_ss l) = Ok (sort_keys l) 0.
Proof.
  intros l. rewrite y_map_ss_eq. cbn [unm_map_ss].
  rewrite (mapM_map_ok0 _ _ (fun kv => kv)); [rewrite map_id; reflexivity|].
  intros [k v] _. reflexivity.
Qed.

(* an adjustment without a `with` is written `with: {}` in both formats *)
Lemma with_roundtrip_y : forall w, exists l', unm_with (my_with w) = Ok l' 0 /\ mj_with (Some l') = mj_with w.
Proof.
  intros [l|].
  - assert (G : exists l', unm_with (y_map_ss l) = Ok l' 0 /\ mj_with (Some l') = mj_with (Some l)).
    { exists (sort_keys l). split; [apply unm_with_y_map_ss|apply mj_with_sort]. }
    destruct l as [|[k v] [|y r]]; try exact G.
    cbn [my_with]. destruct (String.eqb k "") eqn:E.
    + apply String.eqb_eq in E. subst k. exists [("", v)]. split; reflexivity.
    + exact G.
  - exists []. split; reflexivity.
Qed.

(* yaml.v3 drops `skip` only when it is nil; encoding/json drops every empty value.  An empty Go
   map is the one value that is empty before the YAML leg and not after it (it comes back as an
   ordered map, which is a non-nil pointer). *)
Definition adj_y_ok (a : option madj) : Prop :=
  match a with
  | None => True
  | Some a => gv_yf (ma_skip a) /\ ma_skip a <> GUMap [] /\ rem_yf (ma_rem a)
  end.

Definition adj_yol (a : madj) : list (string * option gv) :=
  [("with", Some (my_with (ma_with a))); ("skip", oy (is_nil_any (ma_skip a)) (my_any (ma_skip a)))].

Lemma my_adj_eq : forall a, my_adj (Some a) = GMap (ycompact (adj_yol a) ++ sort_keys (ymap (ma_rem a))).
Proof. reflexivity. Qed.

Lemma adj_roundtrip_yaml : forall a, adj_fix_ok a -> adj_y_ok a ->
  exists a', unm_adj (my_adj a) = Ok a' 0 /\ mj_adj a' = mj_adj a.
Proof.
  intros [a|] H Y; [|exists None; split; reflexivity].
  destruct H as (Sk & R). destruct Y as (Ys & Nu & Yr).
  rewrite my_adj_eq. cbn [unm_adj]. cbv zeta.
  set (m := ycompact (adj_yol a) ++ sort_keys (ymap (ma_rem a))).
  set (p := partition_keys struct_MatrixAdjustment m).
  assert (Nol : NoDup (map fst (adj_yol a))) by (apply nodupb_sound; reflexivity).
  assert (F1 : field "With" p = Some (my_with (ma_with a))).
  { unfold p. rewrite f_adj_with. cbn [first_key]. unfold m.
    rewrite (ystruct_schema_get _ _ adj_schema) by (first [assumption|unfold adj_schema; in_lit]). reflexivity. }
  assert (F2 : field "Skip" p = oy (is_nil_any (ma_skip a)) (my_any (ma_skip a))).
  { unfold p. rewrite f_adj_skip. cbn [first_key]. unfold m.
    rewrite (ystruct_schema_get _ _ adj_schema) by (first [assumption|unfold adj_schema; in_lit]).
    cbn [aget adj_yol String.eqb Ascii.eqb Bool.eqb]. rewrite !opt_eta. reflexivity. }
  rewrite F1. destruct (with_roundtrip_y (ma_with a)) as (l' & E1 & E2).
  rewrite E1, bind_ret_l. unfold ret at 1. rewrite bind_ret_l.
  eexists. split; [reflexivity|].
  rewrite F2.
  assert (ES : match oy (is_nil_any (ma_skip a)) (my_any (ma_skip a)) with Some v => v | None => GNull end
               = my_any (ma_skip a)).
  { destruct (ma_skip a); reflexivity. }
  rewrite ES, !mj_adj_eq. cbn [ma_with ma_skip ma_rem].
  assert (EO : adj_ol (Some l') (my_any (ma_skip a)) = adj_ol (ma_with a) (ma_skip a)).
  { unfold adj_ol. rewrite E2, (is_empty_my_any _ Ys Nu), (my_any_json _ Ys). reflexivity. }
  rewrite EO. unfold p, m.
  apply (ystruct_noalias_fix struct_MatrixAdjustment (adj_yol a) _ (ma_rem a) adj_schema); try assumption.
  - intros pk al Hin. rewrite kt_adj in Hin. ktab_cases Hin; (split; [unfold adj_schema; in_lit|reflexivity]).
  - intros k I. rewrite kt_adj. cbn [adj_yol map fst In] in I.
    repeat (destruct I as [<-|I]; [eexists; in_lit|]). destruct I.
  - apply compact_nodup. apply nodupb_sound. reflexivity.
Qed.

Definition ydim (o : option (list string)) : gv := ystrs (match o with Some x => x | None => [] end).

Lemma setup_roundtrip_yaml : forall su, setup_fix_ok su ->
  exists su', unm_setup (my_setup su) = Ok su' 0 /\ mj_setup su' = mj_setup su /\ su_anon su' = su_anon su.
Proof.
  intros [l|] H; [|exists None; repeat split; reflexivity].
  destruct l as [|x0 r0]; [exists None; repeat split; reflexivity|].
  set (l := x0 :: r0) in *.
  assert (YL : my_setup (Some l) = match setup_anon l with
                                   | Some vs => ystrs vs
                                   | None => GMap (sort_keys (map (fun kv => (fst kv, ydim (snd kv))) l))
                                   end) by reflexivity.
  rewrite YL. destruct (setup_anon l) as [vs|] eqn:SA.
  - destruct (setup_anon_cons _ _ SA) as (x & r & -> & El).
    exists (Some [("", Some (x :: r))]). unfold ystrs. cbn [unm_setup].
    rewrite mapM_gstrs, bind_ret_l. split; [reflexivity|]. rewrite El. repeat split; reflexivity.
  - exists (Some (sort_keys l)). split.
    + cbn [unm_setup]. rewrite (sort_keys_map ydim l).
      rewrite (mapM_map_ok0 _ _ (fun kv => kv)); [rewrite map_id, bind_ret_l; reflexivity|].
      intros [k v] Hin. cbn [fst snd].
      assert (In (k, v) l) as Hl.
      { eapply Permutation_in; [apply sort_keys_perm|exact Hin]. }
      cbn [setup_fix_ok] in H. rewrite Forall_forall in H. specialize (H _ Hl). cbn [snd] in H.
      destruct v as [vs|]; [|congruence]. unfold ydim. rewrite unm_strings_ystrs, bind_ret_l. reflexivity.
    + destruct (setup_sort l) as [E1 E2]. split; [exact E1|]. cbn [su_anon]. exact E2.
Qed.

Definition matrix_y_ok (m : matrix) : Prop := Forall adj_y_ok (mx_adj m) /\ rem_yf (mx_rem m).

Definition matrix_yol (m : matrix) : list (string * option gv) :=
  [("setup", Some (my_setup (mx_setup m)));
   ("adjustments", yne_opt (mx_adj m) (GSeq (map my_adj (mx_adj m))))].

Lemma my_matrix_eq : forall m, mx_simple m = None ->
  my_matrix m = GMap (ycompact (matrix_yol m) ++ sort_keys (ymap (mx_rem m))).
Proof. intros m S. unfold my_matrix. rewrite S. reflexivity. Qed.

Lemma mapM_roundtrip_y : forall {A} (f : gv -> res A) (my : A -> gv) (mj : A -> json) (P : A -> Prop),
  (forall a, P a -> exists a', f (my a) = Ok a' 0 /\ mj a' = mj a) ->
  forall l, Forall P l -> exists l', mapM f (map my l) = Ok l' 0 /\ map mj l' = map mj l.
Proof.
  intros A f my mj P H l F. induction F as [|x r Hx Hr IH].
  - exists []. split; reflexivity.
  - destruct (H x Hx) as (x' & E1 & E2). destruct IH as (r' & E3 & E4).
    exists (x' :: r'). cbn [map mapM]. rewrite E1, bind_ret_l, E3, bind_ret_l. split; [reflexivity|].
    rewrite E2, E4. reflexivity.
Qed.

Lemma Forall_conj : forall {A} (P Q : A -> Prop) l, Forall P l -> Forall Q l -> Forall (fun x => P x /\ Q x) l.
Proof.
  intros A P Q l HP HQ. rewrite Forall_forall in *. intros x Hx. split; auto.
Qed.

Theorem matrix_roundtrip_yaml : forall m, matrix_fix_ok m -> matrix_y_ok m ->
  exists m', unm_matrix (my_matrix m) = Ok (Some m') 0 /\ mj_matrix m' = mj_matrix m.
Proof.
  intros m (HS & HA & R) (YA & YR). destruct (mx_simple m) as [vs|] eqn:S.
  - unfold mj_matrix, my_matrix. rewrite S. rewrite mx_simple_eq in S.
    destruct (mx_adj m); [|discriminate S]. destruct (mx_rem m); [|discriminate S].
    destruct (mx_setup m) as [l|]; [|discriminate S]. cbn [su_anon] in S.
    destruct (setup_anon_cons _ _ S) as (x & r & -> & _).
    exists (mkMx (Some [("", Some (x :: r))]) [] []).
    unfold ystrs. cbn [unm_matrix]. rewrite mapM_gstrs, bind_ret_l.
    split; reflexivity.
  - rewrite (my_matrix_eq m S). cbn [unm_matrix]. cbv zeta.
    set (m0 := ycompact (matrix_yol m) ++ sort_keys (ymap (mx_rem m))).
    set (p := partition_keys struct_Matrix m0).
    assert (Nol : NoDup (map fst (matrix_yol m))) by (apply nodupb_sound; reflexivity).
    assert (F1 : field "Setup" p = Some (my_setup (mx_setup m))).
    { unfold p. rewrite f_mx_setup. cbn [first_key]. unfold m0.
      rewrite (ystruct_schema_get _ _ matrix_schema) by (first [assumption|unfold matrix_schema; in_lit]). reflexivity. }
    assert (F2 : field "Adjustments" p = yne_opt (mx_adj m) (GSeq (map my_adj (mx_adj m)))).
    { unfold p. rewrite f_mx_adj. cbn [first_key]. unfold m0.
      rewrite (ystruct_schema_get _ _ matrix_schema) by (first [assumption|unfold matrix_schema; in_lit]).
      cbn [aget matrix_yol String.eqb Ascii.eqb Bool.eqb]. rewrite !opt_eta. reflexivity. }
    assert (FL : inline_friendly (compact (matrix_ol m)) (leftover p)
                 = inline_friendly (compact (matrix_ol m)) (mx_rem m)).
    { unfold p, m0.
      apply (ystruct_noalias_fix struct_Matrix (matrix_yol m) _ (mx_rem m) matrix_schema); try assumption.
      - intros pk al Hin. rewrite kt_matrix in Hin.
        ktab_cases Hin; (split; [unfold matrix_schema; in_lit|reflexivity]).
      - intros k I. rewrite kt_matrix. cbn [matrix_yol map fst In] in I.
        repeat (destruct I as [<-|I]; [eexists; in_lit|]). destruct I.
      - apply compact_nodup. apply nodupb_sound. reflexivity. }
    rewrite F1.
    destruct (setup_roundtrip_yaml _ HS) as (su' & E1 & E2 & E3). rewrite E1, bind_ret_l.
    assert (A : exists adj', opt_field "Adjustments" p [] unm_adjs = Ok adj' 0 /\
                             map mj_adj adj' = map mj_adj (mx_adj m)).
    { destruct (mx_adj m) as [|a0 r0] eqn:EA; unfold yne_opt, oy in F2.
      - rewrite (opt_field_none _ _ _ _ F2). exists []. split; reflexivity.
      - rewrite (opt_field_some _ _ _ _ _ F2). cbn [unm_adjs].
        apply (mapM_roundtrip_y unm_adj my_adj mj_adj (fun a => adj_fix_ok a /\ adj_y_ok a)).
        + intros a [Ha Hy]. apply adj_roundtrip_yaml; assumption.
        + apply Forall_conj; assumption. }
    destruct A as (adj' & E4 & E5). rewrite E4, bind_ret_l.
    eexists. split; [reflexivity|].
    assert (EO : matrix_ol (mkMx su' adj' (leftover p)) = matrix_ol m).
    { unfold matrix_ol. cbn [mx_setup mx_adj]. rewrite E2.
      pose proof (map_eq_nil_iff _ _ _ E5) as N.
      destruct adj' as [|a1 r1], (mx_adj m) as [|a0 r0]; try reflexivity.
      - exfalso. destruct N as [N _]. specialize (N eq_refl). discriminate N.
      - exfalso. destruct N as [_ N]. specialize (N eq_refl). discriminate N.
      - rewrite E5. reflexivity. }
    assert (S' : mx_simple (mkMx su' adj' (leftover p)) = None).
    { rewrite mx_simple_eq. cbn [mx_setup mx_adj mx_rem].
      destruct adj' as [|a1 r1]; [|reflexivity]. destruct (leftover p) eqn:EL; [|reflexivity].
      rewrite E3. rewrite mx_simple_eq in S.
      assert (EA : mx_adj m = []) by (apply (map_eq_nil_iff _ _ _ E5); reflexivity).
      assert (ER : mx_rem m = []).
      { apply (rem_empty_reflect (matrix_ol m) _ matrix_schema); [exact FL| |exact R].
        intros k I. unfold matrix_ol in I. cbn [map fst] in I. exact I. }
      rewrite EA, ER in S. exact S. }
    rewrite (mj_matrix_eq _ S'), (mj_matrix_eq m S). cbn [mx_rem]. rewrite EO. exact FL.
Qed.

(** ------------------------------------------------------------------ *)
(** * 6. Plugins *)

Lemma tmr_my_any_json : forall c, no_gmap c -> gv_yf c -> gv_json (to_map_recursive (my_any c)) = gv_json c.
Proof.
  induction c using gv_ind'; intros NG Y; try reflexivity.
  - cbn [my_any]. destruct (y_float_ok_cases _ _ Y) as [(z & E & Z)|E]; rewrite E;
      cbn [to_map_recursive gv_json]; congruence.
  - rewrite my_any_seq. cbn [to_map_recursive]. rewrite !gv_json_seq. f_equal. rewrite !map_map.
    apply map_ext_in. intros x Hx. apply no_gmap_seq in NG. apply gv_yf_seq in Y.
    rewrite Forall_forall in H, NG, Y. apply H; auto.
  - destruct NG.
  - rewrite my_any_umap. cbn [to_map_recursive]. rewrite !gv_json_umap. f_equal.
    apply no_gmap_umap in NG. apply gv_yf_umap in Y.
    unfold jmap at 1. rewrite map_map. cbn [fst snd].
    rewrite (sort_keys_map (fun v => gv_json (to_map_recursive v)) (sort_keys (ymap l))), sort_keys_idem,
      <- (sort_keys_map (fun v => gv_json (to_map_recursive v)) (ymap l)). f_equal.
    unfold ymap, jmap. rewrite map_map. cbn [fst snd]. apply map_ext_in. intros [k v] Hx. cbn [fst snd].
    unfold rem_yf in Y. rewrite Forall_forall in H, NG, Y. f_equal.
    apply (H (k, v) Hx); [apply (NG (k, v) Hx)|apply (Y (k, v) Hx)].
Qed.

Definition my_cfg (c : gv) : gv :=
  match c with
  | GUMap [] => GNull
  | GSeq [] => GNull
  | c => my_any c
  end.

Lemma my_plugin_eq : forall p, my_plugin p = GMap [(full_source (pl_source p), my_cfg (pl_config p))].
Proof. intros p. unfold my_plugin, my_cfg. destruct (pl_config p) as [| | | | | |[|]| |[|]]; reflexivity. Qed.

Lemma cfg_roundtrip_y : forall c, no_gmap c -> gv_yf c ->
  plugin_cfg (to_map_recursive (my_cfg c)) = plugin_cfg c.
Proof.
  intros c NG Y.
  assert (Sp : (my_cfg c = GNull /\ plugin_cfg c = JNull) \/ (my_cfg c = my_any c /\ plugin_cfg c = gv_json c)).
  { destruct c as [| | | | | |[|]| |[|]]; auto. }
  destruct Sp as [[E1 E2]|[E1 E2]]; [rewrite E1, E2; reflexivity|].
  rewrite E1, E2. pose proof (tmr_my_any_json c NG Y) as R.
  destruct (plugin_cfg_spec (to_map_recursive (my_any c))) as [E'|[E' [C|C]]].
  - rewrite E'. exact R.
  - rewrite C in R. cbn [gv_json jmap map sort_keys fold_right] in R. symmetry in R.
    apply gv_json_obj_nil in R. destruct R as [R|R]; subst c; [destruct NG|discriminate E2].
  - rewrite C in R. cbn [gv_json map] in R. symmetry in R.
    apply gv_json_arr_nil in R. subst c. discriminate E2.
Qed.

Definition reparse_plugin_y (p : plugin) : plugin :=
  mkPlugin (full_source (pl_source p)) (to_map_recursive (my_cfg (pl_config p))).

Theorem plugins_roundtrip_yaml : forall ps,
  Forall plugin_fix_ok ps -> Forall (fun p => gv_yf (pl_config p)) ps ->
  exists ps', unm_plugins (GSeq (map my_plugin ps)) = Ok ps' 0 /\ map mj_plugin ps' = map mj_plugin ps.
Proof.
  intros ps H Y. exists (map reparse_plugin_y ps). split.
  - cbn [unm_plugins].
    rewrite (mapM_map_ok0 _ _ (fun p => [reparse_plugin_y p])); [|intros p _; rewrite my_plugin_eq; reflexivity].
    rewrite bind_ret_l. unfold ret. rewrite concat_singletons. reflexivity.
  - rewrite map_map. apply map_ext_in. intros p Hp. rewrite Forall_forall in H, Y.
    destruct (H p Hp) as (S & NG & VS). rewrite !mj_plugin_eq. unfold reparse_plugin_y. cbn [pl_source pl_config].
    rewrite S, cfg_roundtrip_y by (try assumption; apply Y; exact Hp). reflexivity.
Qed.

(** ------------------------------------------------------------------ *)
(** * 7. Command steps *)

(* the YAML side condition restricted to a command step *)
Definition cmd_y_ok (c : command_step) : Prop :=
  rem_yf (cs_rem c) /\
  Forall (fun p => gv_yf (pl_config p)) (cs_plugins c) /\
  match cs_sig c with Some s => sg_fields s <> None | None => True end /\
  match cs_matrix c with Some m => matrix_y_ok m | None => True end /\
  match cs_cache c with Some x => cache_y_ok x | None => True end.

Definition cmd_yol (c : command_step) : list (string * option gv) :=
  [("key", ystr_opt (cs_key c));
   ("label", ystr_opt (cs_label c));
   ("command", Some (GStr (cs_command c)));
   ("plugins", yne_opt (cs_plugins c) (GSeq (map my_plugin (cs_plugins c))));
   ("env", yne_opt (cs_env c) (y_map_ss (cs_env c)));
   ("signature", option_map my_sig (cs_sig c));
   ("matrix", option_map my_matrix (cs_matrix c));
   ("cache", option_map my_cache (cs_cache c))].

Lemma my_command_eq : forall c, my_command c = GMap (ycompact (cmd_yol c) ++ sort_keys (ymap (cs_rem c))).
Proof. reflexivity. Qed.

Lemma cmd_reobj_y : forall o1 o2 v3 o4 o5 o6 o7 o8 rem,
  rem_ok cmd_primary rem -> rem_yf rem ->
  (o1 = None -> ~ In "id" (map fst rem) /\ ~ In "identifier" (map fst rem)) ->
  (o2 = None -> ~ In "name" (map fst rem)) ->
  let ol := [("key", o1); ("label", o2); ("command", Some v3); ("plugins", o4); ("env", o5);
             ("signature", o6); ("matrix", o7); ("cache", o8)] in
  let m := ycompact ol ++ sort_keys (ymap rem) in
  let outer := partition_keys struct_CommandStep_UnmarshalOrdered_anon0 m in
  let p := partition_keys struct_CommandStep (leftover outer) in
  field "Commands" outer = Some v3 /\
  field "Key" p = o1 /\ field "Label" p = o2 /\
  field "Command" p = None /\ field "Plugins" p = o4 /\
  field "Env" p = o5 /\ field "Signature" p = o6 /\
  field "Matrix" p = o7 /\ field "Cache" p = o8 /\
  forall outline, NoDup (map fst outline) ->
    inline_friendly outline (leftover p) = inline_friendly outline rem.
Proof.
  intros o1 o2 v3 o4 o5 o6 o7 o8 rem R Y A1 A2 ol m outer p.
  assert (Nol : NoDup (map fst ol)) by (apply nodupb_sound; reflexivity).
  pose proof R as (Nr & Av & Vs).
  assert (G : forall k, In k cmd_primary ->
            aget k m = match aget k ol with Some (Some v) => Some v | _ => None end).
  { intros k I. apply (ystruct_schema_get ol rem cmd_primary); assumption. }
  assert (C1 : aget "commands" m = None) by (rewrite G by (unfold cmd_primary; in_lit); reflexivity).
  assert (C2 : aget "command" m = Some v3) by (rewrite G by (unfold cmd_primary; in_lit); reflexivity).
  assert (CO : DecodeProofs.consumed outer = ["command"]) by (eapply outer_consumed; eassumption).
  assert (M2 : forall k, aget k (leftover outer) = if String.eqb k "command" then None else aget k m).
  { intros k. unfold outer. rewrite aget_leftover. fold outer. rewrite CO. cbn [existsb].
    rewrite orb_false_r. destruct (String.eqb k "command"); reflexivity. }
  assert (Gid : aget "id" m = option_map my_any (aget "id" rem)).
  { unfold m. rewrite ystruct_get by assumption. reflexivity. }
  assert (Gidf : aget "identifier" m = option_map my_any (aget "identifier" rem)).
  { unfold m. rewrite ystruct_get by assumption. reflexivity. }
  assert (Gname : aget "name" m = option_map my_any (aget "name" rem)).
  { unfold m. rewrite ystruct_get by assumption. reflexivity. }
  split. { unfold outer. rewrite f_outer_commands. cbn [first_key]. rewrite C1, C2. reflexivity. }
  unfold p. rewrite f_cmd_key, f_cmd_label, f_cmd_command, f_cmd_plugins, f_cmd_env, f_cmd_sig, f_cmd_matrix, f_cmd_cache.
  cbn [first_key]. rewrite !M2. cbn [String.eqb Ascii.eqb Bool.eqb].
  rewrite (G "key"), (G "label"), (G "plugins"), (G "env"), (G "signature"), (G "matrix"), (G "cache")
    by (unfold cmd_primary; in_lit).
  split.
  { destruct o1 as [j|]; [reflexivity|]. cbn [aget ol String.eqb Ascii.eqb Bool.eqb].
    destruct (A1 eq_refl) as [X Y']. rewrite Gid, Gidf, (aget_none _ _ X), (aget_none _ _ Y'). reflexivity. }
  split.
  { destruct o2 as [j|]; [reflexivity|]. cbn [aget ol String.eqb Ascii.eqb Bool.eqb].
    rewrite Gname, (aget_none _ _ (A2 eq_refl)). reflexivity. }
  split; [reflexivity|].
  split; [destruct o4; reflexivity|]. split; [destruct o5; reflexivity|]. split; [destruct o6; reflexivity|].
  split; [destruct o7; reflexivity|]. split; [destruct o8; reflexivity|].
  intros outline No.
  rewrite leftover_spec. unfold outer at 2. rewrite leftover_spec. fold m. fold outer.
  rewrite filter_filter'.
  apply (yobj_fix outline (ycompact ol) rem
           (fun k => negb (existsb (String.eqb k) (DecodeProofs.consumed outer)) &&
                     negb (existsb (String.eqb k) (DecodeProofs.consumed
                             (partition_keys struct_CommandStep (leftover outer)))))); try assumption.
  - intros k I. destruct (String.eqb_spec k "command") as [E|N].
    + subst k. rewrite CO. reflexivity.
    + apply andb_false_iff. right. apply negb_false_iff. apply existsb_eqb_In.
      assert (KT : exists al, In (k, al) (ktab struct_CommandStep)).
      { pose proof (ycompact_keys _ _ I) as I'. rewrite kt_cmd. cbn [ol map fst In] in I'.
        repeat (destruct I' as [<-|I']; [eexists; in_lit|]). destruct I'. }
      destruct KT as [al KT].
      assert (GK : exists v, aget k (leftover outer) = Some v).
      { rewrite M2. destruct (String.eqb_spec k "command"); [contradiction|].
        apply aget_in_keys. unfold m. apply ystruct_keys. left. exact I. }
      destruct GK as [v GK]. eapply primary_consumed; eassumption.
  - intros k Hk. apply andb_false_iff in Hk. destruct Hk as [Hk|Hk].
    + rewrite CO in Hk. cbn [existsb] in Hk. rewrite orb_false_r in Hk. apply negb_false_iff in Hk.
      apply String.eqb_eq in Hk. subst k. apply Av. unfold cmd_primary. in_lit.
    + revert k Hk. apply consumed_not_in_rem. intros pk al Hin. rewrite kt_cmd in Hin.
      ktab_cases Hin; (split; [apply Av; unfold cmd_primary; in_lit|]); try solve [intros ? []].
      * intros al0 Ha Hn. rewrite M2 in Hn. cbn [String.eqb Ascii.eqb Bool.eqb] in Hn.
        rewrite G in Hn by (unfold cmd_primary; in_lit). cbn [aget ol String.eqb Ascii.eqb Bool.eqb] in Hn.
        destruct o1 as [j|]; [discriminate Hn|]. destruct (A1 eq_refl) as [X Y'].
        cbn [In] in Ha. destruct Ha as [<-|[<-|[]]]; assumption.
      * intros al0 Ha Hn. rewrite M2 in Hn. cbn [String.eqb Ascii.eqb Bool.eqb] in Hn.
        rewrite G in Hn by (unfold cmd_primary; in_lit). cbn [aget ol String.eqb Ascii.eqb Bool.eqb] in Hn.
        destruct o2 as [j|]; [discriminate Hn|].
        cbn [In] in Ha. destruct Ha as [<-|[]]. apply A2. reflexivity.
Qed.

Lemma ystr_opt_none : forall s, ystr_opt s = None -> s = "".
Proof. intros s H. unfold ystr_opt, oy in H. destruct (String.eqb_spec s ""); [assumption|discriminate]. Qed.

Lemma yne_opt_some : forall {A} (x : A) r v, yne_opt (x :: r) v = Some v.
Proof. reflexivity. Qed.
Lemma yne_opt_nil : forall {A} v, @yne_opt A [] v = None.
Proof. reflexivity. Qed.

(* the re-read of a YAML-marshalled command step marshals to the same JSON *)
Theorem command_roundtrip_yaml : forall c, cmd_ok c -> cmd_y_ok c ->
  exists c', unm_command (match my_command c with GMap m => m | _ => [] end) = Ok c' 0 /\
             mj_command c' = mj_command c.
Proof.
  intros c (R & A1 & A2 & HP & HM & HC) (YR & YP & YS & YM & YC).
  rewrite my_command_eq.
  assert (A1' : ystr_opt (cs_key c) = None -> ~ In "id" (map fst (cs_rem c)) /\ ~ In "identifier" (map fst (cs_rem c))).
  { intros E. apply A1. apply ystr_opt_none. exact E. }
  assert (A2' : ystr_opt (cs_label c) = None -> ~ In "name" (map fst (cs_rem c))).
  { intros E. apply A2. apply ystr_opt_none. exact E. }
  pose proof (cmd_reobj_y (ystr_opt (cs_key c)) (ystr_opt (cs_label c)) (GStr (cs_command c))
                (yne_opt (cs_plugins c) (GSeq (map my_plugin (cs_plugins c))))
                (yne_opt (cs_env c) (y_map_ss (cs_env c)))
                (option_map my_sig (cs_sig c)) (option_map my_matrix (cs_matrix c))
                (option_map my_cache (cs_cache c)) (cs_rem c) R YR A1' A2') as X.
  cbv zeta in X. fold (cmd_yol c) in X.
  destruct X as (F0 & F1 & F2 & F3 & F4 & F5 & F6 & F7 & F8 & FL).
  unfold unm_command. cbv zeta.
  set (m := ycompact (cmd_yol c) ++ sort_keys (ymap (cs_rem c))) in *.
  set (outer := partition_keys struct_CommandStep_UnmarshalOrdered_anon0 m) in *.
  set (p := partition_keys struct_CommandStep (leftover outer)) in *.
  rewrite (opt_field_some _ _ _ _ _ F0).
  change (unm_strings (GStr (cs_command c))) with (Ok (Some [cs_command c]) 0).
  rewrite bind_ret_l.
  rewrite (opt_str_field_y _ _ _ F1), bind_ret_l. rewrite (opt_str_field_y _ _ _ F2), bind_ret_l.
  rewrite (opt_field_none _ _ _ _ F3). unfold ret at 1. rewrite bind_ret_l.
  assert (P : exists ps', opt_field "Plugins" p [] unm_plugins = Ok ps' 0 /\
                          map mj_plugin ps' = map mj_plugin (cs_plugins c)).
  { destruct (cs_plugins c) as [|p0 r0] eqn:EP.
    - rewrite yne_opt_nil in F4. rewrite (opt_field_none _ _ _ _ F4). exists []. split; reflexivity.
    - rewrite yne_opt_some in F4. rewrite (opt_field_some _ _ _ _ _ F4). apply plugins_roundtrip_yaml; assumption. }
  destruct P as (ps' & EP1 & EP2). rewrite EP1, bind_ret_l.
  assert (E : opt_field "Env" p [] unm_map_ss = Ok (sort_keys (cs_env c)) 0).
  { destruct (cs_env c) as [|e0 r0] eqn:EE.
    - rewrite yne_opt_nil in F5. rewrite (opt_field_none _ _ _ _ F5). reflexivity.
    - rewrite yne_opt_some in F5. rewrite (opt_field_some _ _ _ _ _ F5). apply unm_map_ss_y_map_ss. }
  rewrite E, bind_ret_l.
  assert (S : opt_field "Signature" p None unm_sig = Ok (cs_sig c) 0).
  { destruct (cs_sig c) as [s|]; cbn [option_map] in F6.
    - rewrite (opt_field_some _ _ _ _ _ F6). apply sig_roundtrip_yaml. exact YS.
    - rewrite (opt_field_none _ _ _ _ F6). reflexivity. }
  rewrite S, bind_ret_l.
  assert (M : exists mx', opt_field "Matrix" p None unm_matrix = Ok mx' 0 /\
                          option_map mj_matrix mx' = option_map mj_matrix (cs_matrix c)).
  { destruct (cs_matrix c) as [mx|]; cbn [option_map] in F7.
    - rewrite (opt_field_some _ _ _ _ _ F7). destruct (matrix_roundtrip_yaml mx HM YM) as (mx' & E1 & E2).
      exists (Some mx'). split; [exact E1|]. cbn [option_map]. rewrite E2. reflexivity.
    - rewrite (opt_field_none _ _ _ _ F7). exists None. split; reflexivity. }
  destruct M as (mx' & EM1 & EM2). rewrite EM1, bind_ret_l.
  assert (C : exists ca', opt_field "Cache" p None unm_cache = Ok ca' 0 /\
                          option_map mj_cache ca' = option_map mj_cache (cs_cache c)).
  { destruct (cs_cache c) as [ca|]; cbn [option_map] in F8.
    - rewrite (opt_field_some _ _ _ _ _ F8). destruct (cache_roundtrip_yaml ca HC YC) as (ca' & E1 & E2).
      exists (Some ca'). split; [exact E1|]. cbn [option_map]. rewrite E2. reflexivity.
    - rewrite (opt_field_none _ _ _ _ F8). exists None. split; reflexivity. }
  destruct C as (ca' & EC1 & EC2). rewrite EC1, bind_ret_l.
  eexists. split; [reflexivity|].
  rewrite !mj_command_ol. cbn [cs_rem].
  match goal with |- inline_friendly (compact ?o) _ = _ => assert (EO : o = cmd_ol c) end.
  { unfold cmd_ol. cbn [cs_key cs_label cs_command cs_plugins cs_env cs_sig cs_matrix cs_cache].
    rewrite EP2, EM2, EC2, mj_map_ss_sort.
    rewrite (ne_opt_eq ps' (cs_plugins c)) by (apply (map_eq_nil_iff _ _ _ EP2)).
    rewrite (ne_opt_eq (sort_keys (cs_env c)) (cs_env c)) by apply sort_keys_nil_iff.
    reflexivity. }
  rewrite EO. apply FL. apply compact_nodup. apply nodupb_sound. reflexivity.
Qed.

(** ------------------------------------------------------------------ *)
(** * 8. Steps *)

Lemma cmd_map_kind_y : forall c, rem_ok cmd_primary (cs_rem c) -> type_selects KCommand (cs_rem c) ->
  map_kind (ycompact (cmd_yol c) ++ sort_keys (ymap (cs_rem c))) = Some KCommand.
Proof.
  intros c R T. pose proof R as (Nr & _ & _).
  assert (Nol : NoDup (map fst (cmd_yol c))) by (apply nodupb_sound; reflexivity).
  unfold map_kind. rewrite ystruct_get by assumption.
  assert (E : aget "type" (cmd_yol c) = None) by reflexivity. rewrite E.
  unfold type_selects in T. destruct (aget "type" (cs_rem c)) as [v|]; cbn [option_map].
  - destruct v; try (exfalso; exact T). cbn [my_any]. rewrite T. reflexivity.
  - f_equal. apply keys_command. apply ystruct_keys. left.
    apply (ycompact_keys_in _ _ (GStr (cs_command c))). unfold cmd_yol. in_lit.
Qed.

Definition group_yol (k : string) (g : option string) (ss : list step) : list (string * option gv) :=
  [("key", ystr_opt k);
   ("group", Some (match g with Some x => GStr x | None => GNull end));
   ("steps", Some (GSeq (map my_step ss)))].

Lemma my_group_eq : forall k g ss rem,
  my_step (SGroup k g ss rem) = GMap (ycompact (group_yol k g ss) ++ sort_keys (ymap rem)).
Proof. reflexivity. Qed.

Lemma group_map_kind_y : forall k g ss rem, rem_ok group_primary rem -> group_selects rem ->
  map_kind (ycompact (group_yol k g ss) ++ sort_keys (ymap rem)) = Some KGroup.
Proof.
  intros k g ss rem R T. pose proof R as (Nr & _ & _).
  assert (Nol : NoDup (map fst (group_yol k g ss))) by (apply nodupb_sound; reflexivity).
  unfold map_kind. rewrite ystruct_get by assumption.
  assert (E : aget "type" (group_yol k g ss) = None) by reflexivity. rewrite E.
  unfold group_selects in T. destruct (aget "type" rem) as [v|]; cbn [option_map].
  - destruct v; try (exfalso; exact T). cbn [my_any]. rewrite T. reflexivity.
  - f_equal. apply keys_group.
    + apply ystruct_keys. left. eapply ycompact_keys_in. unfold group_yol. right. left. reflexivity.
    + intros x Hx I. apply ystruct_keys in I. destruct I as [I|I]; [|exact (T x Hx I)].
      apply ycompact_keys in I. unfold group_yol in I. cbn [map fst In] in I. unfold earlier_keys in Hx. cbn [In] in Hx.
      repeat (destruct Hx as [<-|Hx]; [repeat (destruct I as [I|I]; [discriminate I|]); destruct I|]). destruct Hx.
Qed.

Lemma grp_reobj_y : forall o1 v2 v3 rem,
  rem_ok group_primary rem -> rem_yf rem ->
  (o1 = None -> ~ In "id" (map fst rem) /\ ~ In "identifier" (map fst rem)) ->
  let ol := [("key", o1); ("group", Some v2); ("steps", Some v3)] in
  let m := ycompact ol ++ sort_keys (ymap rem) in
  let p := partition_keys struct_GroupStep m in
  field "Key" p = o1 /\ field "Group" p = Some v2 /\
  field "Steps" p = Some v3 /\ aget "steps" m = Some v3 /\
  forall outline, NoDup (map fst outline) ->
    inline_friendly outline (leftover p) = inline_friendly outline rem.
Proof.
  intros o1 v2 v3 rem R Y A1 ol m p.
  assert (Nol : NoDup (map fst ol)) by (apply nodupb_sound; reflexivity).
  pose proof R as (Nr & Av & Vs).
  assert (G : forall k, In k group_primary ->
            aget k m = match aget k ol with Some (Some v) => Some v | _ => None end).
  { intros k I. apply (ystruct_schema_get ol rem group_primary); assumption. }
  assert (Gid : aget "id" m = option_map my_any (aget "id" rem)).
  { unfold m. rewrite ystruct_get by assumption. reflexivity. }
  assert (Gidf : aget "identifier" m = option_map my_any (aget "identifier" rem)).
  { unfold m. rewrite ystruct_get by assumption. reflexivity. }
  unfold p. rewrite f_grp_key, f_grp_group, f_grp_steps. cbn [first_key].
  rewrite (G "key"), (G "group"), (G "steps") by (unfold group_primary; in_lit).
  split.
  { destruct o1 as [j|]; [reflexivity|]. cbn [aget ol String.eqb Ascii.eqb Bool.eqb].
    destruct (A1 eq_refl) as [X Y']. rewrite Gid, Gidf, (aget_none _ _ X), (aget_none _ _ Y'). reflexivity. }
  split; [reflexivity|]. split; [reflexivity|]. split; [reflexivity|].
  intros outline No. rewrite leftover_spec.
  apply (yobj_fix outline (ycompact ol) rem
           (fun k => negb (existsb (String.eqb k) (DecodeProofs.consumed (partition_keys struct_GroupStep m)))));
    try assumption.
  - intros k I. apply negb_false_iff. apply existsb_eqb_In.
    assert (KT : exists al, In (k, al) (ktab struct_GroupStep)).
    { pose proof (ycompact_keys _ _ I) as I'. rewrite kt_group. cbn [ol map fst In] in I'.
      repeat (destruct I' as [<-|I']; [eexists; in_lit|]). destruct I'. }
    destruct KT as [al KT].
    assert (GK : exists v, aget k m = Some v).
    { apply aget_in_keys. unfold m. apply ystruct_keys. left. exact I. }
    destruct GK as [v GK]. eapply primary_consumed; eassumption.
  - apply consumed_not_in_rem. intros pk al Hin. rewrite kt_group in Hin.
    ktab_cases Hin; (split; [apply Av; unfold group_primary; in_lit|]); try solve [intros ? []].
    + intros al0 Ha Hn. rewrite G in Hn by (unfold group_primary; in_lit).
      cbn [aget ol String.eqb Ascii.eqb Bool.eqb] in Hn.
      destruct o1 as [j|]; [discriminate Hn|]. destruct (A1 eq_refl) as [X Y'].
      cbn [In] in Ha. destruct Ha as [<-|[<-|[]]]; assumption.
    + intros al0 Ha Hn. rewrite G in Hn by (unfold group_primary; in_lit). discriminate Hn.
Qed.

(** contents steps *)
Lemma my_contents_eq : forall ct, my_contents ct = GMap (sort_keys (ymap ct)).
Proof. reflexivity. Qed.

Lemma contents_fix_y : forall ct, rem_yf ct -> mj_contents (sort_keys (ymap ct)) = mj_contents ct.
Proof.
  intros ct Y. rewrite !mj_contents_eq. f_equal.
  unfold jmap at 1. rewrite <- (sort_keys_map gv_json (ymap ct)). fold (jmap (ymap ct)).
  rewrite sort_keys_idem, jmap_ymap_eq by exact Y. reflexivity.
Qed.

Lemma contents_map_kind_y : forall K ct, contents_ok K ct -> map_kind (sort_keys (ymap ct)) = Some K.
Proof.
  intros K ct (Nd & Vs & MK). unfold map_kind in *. rewrite aget_sorted_ymap by exact Nd.
  destruct (aget "type" ct) as [v|]; cbn [option_map].
  - destruct v; try discriminate MK. cbn [my_any]. exact MK.
  - rewrite <- MK. f_equal. unfold kind_by_keys. apply by_keys_ext. intros y.
    rewrite keys_sorted_ymap. reflexivity.
Qed.

Lemma reread_nonempty_y : forall ct, ct <> [] -> sort_keys (ymap ct) <> [].
Proof.
  intros ct H E. apply (f_equal (@length _)) in E. unfold ymap in E.
  rewrite sort_keys_length, map_length in E. destruct ct; [congruence|discriminate E].
Qed.

Lemma my_wait_ne : forall ct, ct <> [] -> my_step (SWait "" ct) = my_contents ct.
Proof. intros [|x r] H; [congruence|reflexivity]. Qed.
Lemma mj_wait_ne : forall ct, ct <> [] -> mj_step (SWait "" ct) = mj_contents ct.
Proof. intros [|x r] H; [congruence|reflexivity]. Qed.
Lemma mj_trigger_ne : forall ct, ct <> [] -> mj_step (STrigger ct) = mj_contents ct.
Proof. intros [|x r] H; [congruence|reflexivity]. Qed.

(* the YAML side condition on a step: coherent floats wherever a free-form value is written
   (not under a scalar wait/input step, whose contents are not written), the command-step
   condition, and an unknown step must again be an unknown step as the YAML scanner reads it *)
Fixpoint step_y_ok (s : step) : Prop :=
  match s with
  | SCommand c => cmd_y_ok c
  | SWait sc ct => sc = "" -> rem_yf ct
  | SInput sc ct => sc = "" -> rem_yf ct
  | STrigger ct => rem_yf ct
  | SGroup k g ss rem =>
      rem_yf rem /\
      (fix all (l : list step) : Prop := match l with [] => True | x :: r => step_y_ok x /\ all r end) ss
  | SUnknown c => gv_yf c /\ unknown_again (my_any c)
  end.

Lemma step_y_ok_group : forall k g ss rem,
  step_y_ok (SGroup k g ss rem) <-> rem_yf rem /\ Forall step_y_ok ss.
Proof.
  intros k g ss rem. cbn [step_y_ok].
  assert (E : (fix all (l : list step) : Prop := match l with [] => True | x :: r => step_y_ok x /\ all r end) ss
              <-> Forall step_y_ok ss).
  { induction ss as [|x r IH]; [split; intros; [constructor|exact I]|].
    rewrite IH. split; [intros [A B]; constructor; assumption|intros H; inversion H; subst; split; assumption]. }
  rewrite E. reflexivity.
Qed.

Lemma steps_mapM_roundtrip_y : forall f ss,
  Forall (fun s => exists s' w, unm_step f (my_step s) = Ok s' w /\ mj_step s' = mj_step s) ss ->
  exists ss' w, mapM (unm_step f) (map my_step ss) = Ok ss' w /\ map mj_step ss' = map mj_step ss.
Proof.
  intros f ss H. induction H as [|x r (x' & w1 & E1 & E2) Hr (r' & w2 & E3 & E4)].
  - exists [], 0. split; reflexivity.
  - exists (x' :: r'), (w1 + (w2 + 0)). cbn [map mapM]. rewrite E1, E3. split; [reflexivity|].
    rewrite E2, E4. reflexivity.
Qed.

Lemma group_field_dec_y : forall p g,
  field "Group" p = Some (match g with Some x => GStr x | None => GNull end) ->
  match field "Group" p with
  | Some GNull => ret None
  | Some v => do s <- unm_string v; ret (Some s)
  | None => ret None
  end = Ok g 0.
Proof. intros p g H. rewrite H. destruct g; reflexivity. Qed.

(* (c) every step shape the YAML encoder writes is read back to a step with the same JSON *)
Theorem step_roundtrip_yaml : forall s, step_fix_ok s -> step_y_ok s ->
  forall f, gv_depth (my_step s) <= f ->
  exists s' w, unm_step f (my_step s) = Ok s' w /\ mj_step s' = mj_step s.
Proof.
  induction s using step_ind'; intros OK Y f Hf.
  - (* command *)
    destruct f as [|f]; [pose proof (depth_pos (my_step (SCommand c))); lia|].
    destruct OK as [CO T]. cbn [my_step step_y_ok] in *.
    rewrite my_command_eq, unm_step_map_kind, (cmd_map_kind_y c (proj1 CO) T). cbn [typed_body].
    destruct (command_roundtrip_yaml c CO Y) as (c' & E1 & E2). rewrite my_command_eq in E1.
    cbv beta iota in E1. rewrite E1.
    exists (SCommand c'), 0. split; [reflexivity|]. cbn [mj_step]. exact E2.
  - (* wait *)
    destruct f as [|f]; [pose proof (depth_pos (my_step (SWait sc ct))); lia|].
    destruct (String.eqb_spec sc "") as [E|N].
    + subst sc. destruct OK as [OK|[OK|OK]]; [congruence| |].
      * subst ct. apply (scalar_roundtrip "wait" f). discriminate.
      * pose proof (contents_nonempty _ _ OK) as NE.
        assert (NE' : ct <> []) by (apply NE; intros e; discriminate).
        rewrite (my_wait_ne ct NE'), (mj_wait_ne ct NE').
        rewrite my_contents_eq, unm_step_map_kind, (contents_map_kind_y _ _ OK). cbn [typed_body].
        eexists. eexists. split; [reflexivity|].
        rewrite (mj_wait_ne _ (reread_nonempty_y ct NE')).
        apply contents_fix_y. apply Y. reflexivity.
    + assert (EY : my_step (SWait sc ct) = GStr sc).
      { cbn [my_step]. destruct (String.eqb_spec sc ""); [contradiction|reflexivity]. }
      assert (EJ : mj_step (SWait sc ct) = JStr sc).
      { cbn [mj_step]. destruct (String.eqb_spec sc ""); [contradiction|reflexivity]. }
      rewrite EY, EJ. apply (scalar_roundtrip sc f N).
  - (* input *)
    destruct f as [|f]; [pose proof (depth_pos (my_step (SInput sc ct))); lia|].
    destruct (String.eqb_spec sc "") as [E|N].
    + subst sc. destruct OK as [OK|OK]; [congruence|].
      change (my_step (SInput "" ct)) with (my_contents ct).
      change (mj_step (SInput "" ct)) with (mj_contents ct).
      rewrite my_contents_eq, unm_step_map_kind, (contents_map_kind_y _ _ OK). cbn [typed_body].
      eexists. eexists. split; [reflexivity|].
      change (mj_step (SInput "" (sort_keys (ymap ct)))) with (mj_contents (sort_keys (ymap ct))).
      apply contents_fix_y. apply Y. reflexivity.
    + assert (EY : my_step (SInput sc ct) = GStr sc).
      { cbn [my_step]. destruct (String.eqb_spec sc ""); [contradiction|reflexivity]. }
      assert (EJ : mj_step (SInput sc ct) = JStr sc).
      { cbn [mj_step]. destruct (String.eqb_spec sc ""); [contradiction|reflexivity]. }
      rewrite EY, EJ. apply (scalar_roundtrip sc f N).
  - (* trigger *)
    destruct f as [|f]; [pose proof (depth_pos (my_step (STrigger ct))); lia|].
    cbn [step_fix_ok step_y_ok] in OK, Y.
    pose proof (contents_nonempty _ _ OK) as NE.
    assert (NE' : ct <> []) by (apply NE; intros e; discriminate).
    change (my_step (STrigger ct)) with (my_contents ct). rewrite (mj_trigger_ne ct NE').
    rewrite my_contents_eq, unm_step_map_kind, (contents_map_kind_y _ _ OK). cbn [typed_body].
    eexists. eexists. split; [reflexivity|].
    rewrite (mj_trigger_ne _ (reread_nonempty_y ct NE')).
    apply contents_fix_y. exact Y.
  - (* group *)
    apply step_fix_ok_group in OK. destruct OK as (R & AF & GS & FS).
    apply step_y_ok_group in Y. destruct Y as (YR & YS).
    rewrite my_group_eq in Hf |- *.
    destruct f as [|f]; [cbn [gv_depth] in Hf; lia|].
    rewrite unm_step_map_kind, (group_map_kind_y k g ss rem R GS). cbn [typed_body]. unfold group_body. cbv zeta.
    assert (A1 : ystr_opt k = None -> ~ In "id" (map fst rem) /\ ~ In "identifier" (map fst rem)).
    { intros E. apply AF. apply ystr_opt_none. exact E. }
    pose proof (grp_reobj_y (ystr_opt k) (match g with Some x => GStr x | None => GNull end)
                  (GSeq (map my_step ss)) rem R YR A1) as X.
    cbv zeta in X. fold (group_yol k g ss) in X. destruct X as (F1 & F2 & F3 & GSt & FL).
    set (m := ycompact (group_yol k g ss) ++ sort_keys (ymap rem)) in *.
    set (p := partition_keys struct_GroupStep m) in *.
    rewrite (opt_str_field_y _ _ _ F1), bind_ret_l.
    rewrite (group_field_dec_y p g F2), bind_ret_l.
    rewrite (opt_field_some _ _ _ _ _ F3).
    (* fuel *)
    assert (D1 : gv_depth (GSeq (map my_step ss)) < gv_depth (GMap m)).
    { apply (depth_in_map m "steps"). apply aget_some_in. exact GSt. }
    destruct f as [|f]; [pose proof (depth_pos (GSeq (map my_step ss))); lia|].
    rewrite unm_steps_S.
    assert (FR : Forall (fun s => exists s' w, unm_step f (my_step s) = Ok s' w /\ mj_step s' = mj_step s) ss).
    { rewrite Forall_forall in H, FS, YS |- *. intros s Hs. apply (H s Hs (FS s Hs) (YS s Hs)).
      assert (D2 : gv_depth (my_step s) < gv_depth (GSeq (map my_step ss))).
      { apply depth_in_seq. apply in_map. exact Hs. }
      lia. }
    destruct (steps_mapM_roundtrip_y f ss FR) as (ss' & w & E1 & E2). rewrite E1.
    unfold bind, ret. eexists. eexists. split; [reflexivity|].
    rewrite !mj_group_ol.
    assert (EO : group_ol k g ss' = group_ol k g ss) by (unfold group_ol; rewrite E2; reflexivity).
    rewrite EO. apply FL. apply compact_nodup. apply nodupb_sound. reflexivity.
  - (* unknown *)
    destruct f as [|f]; [pose proof (depth_pos (my_step (SUnknown c))); lia|].
    destruct Y as [YF UA]. cbn [my_step mj_step].
    destruct (my_any c) as [| | | |s0| | |m|] eqn:EG; try (exfalso; exact UA).
    + destruct UA as [U1 U2]. exists (SUnknown (GStr s0)), 1. rewrite unm_step_S. cbn [step_body].
      split; [destruct (kind_of_scalar s0); try reflexivity; congruence|].
      cbn [mj_step]. rewrite <- EG. apply my_any_json. exact YF.
    + destruct UA as [e MK]. exists (SUnknown (GMap m)), 1. rewrite unm_step_map_kind, MK.
      split; [reflexivity|]. cbn [mj_step]. rewrite <- EG. apply my_any_json. exact YF.
Qed.

(** ------------------------------------------------------------------ *)
(** * 9. The pipeline: the YAML leg reaches the same normal form *)

(* What the YAML leg needs beyond [pipeline_fix_ok]:
   - [pp_env p <> Some []]: an empty top-level env is "env":{} in JSON, but yaml.v3 omits it
     (ordered.Map.IsZero) and the re-parse has no env at all ([empty_env_counterexample]);
   - [step_y_ok] on every step, i.e.
     * coherent float tokens ([y_float_ok]) in every free-form value that is written
       ([incoherent_float_counterexample]; used in [yobj_fix], [contents_fix_y],
       [cfg_roundtrip_y], [adj_roundtrip_yaml], and the unknown-step case of [step_roundtrip_yaml]),
     * every signature carries a signed_fields list ([nil_signed_fields_counterexample]),
     * no adjustment's `skip` is an empty Go map (needed by the proof of [adj_roundtrip_yaml]; since the fix of
       finding F21 no longer necessary in the implementation, see [empty_map_skip_agrees]),
     * the extra fields of a disabled cache do not collide with a field key
       ([disabled_cache_clash_counterexample]; then yaml.Marshal panics, [y_pipeline_ok]),
     * an unknown step is again one as the YAML scanner reads it ([unknown_timestamp_counterexample]);
   - coherent float tokens in the top-level extra fields. *)
Definition yaml_side_ok (p : pipeline) : Prop :=
  pp_env p <> Some [] /\ Forall step_y_ok (pp_steps p) /\ rem_yf (pp_rem p).

Definition pp_yol (p : pipeline) : list (string * option gv) :=
  [("steps", Some (GSeq (map my_step (pp_steps p))));
   ("env", match pp_env p with
           | Some [] => None
           | Some e => Some (my_env_block e)
           | None => None
           end)].

Lemma my_pipeline_eq : forall p, my_pipeline p = GMap (ycompact (pp_yol p) ++ sort_keys (ymap (pp_rem p))).
Proof. reflexivity. Qed.

Lemma env_block_roundtrip_y : forall e, unm_env_block (my_env_block e) = Ok (Some e) 0.
Proof.
  intros e. unfold my_env_block. cbn [unm_env_block].
  rewrite (mapM_map_ok0 _ _ (fun kv => kv)); [rewrite map_id, bind_ret_l; reflexivity|].
  intros [k v] _. reflexivity.
Qed.

(* MAIN *)
Theorem reparse_yaml_fixpoint : forall p, pipeline_fix_ok p -> yaml_side_ok p ->
  exists p' w', reparse_yaml p = Ok p' w' /\ mj_pipeline p' = mj_pipeline p.
Proof.
  intros p (FS & R) (NE & YS & YR). unfold reparse_yaml. rewrite my_pipeline_eq.
  set (m := ycompact (pp_yol p) ++ sort_keys (ymap (pp_rem p))).
  assert (Nol : NoDup (map fst (pp_yol p))) by (apply nodupb_sound; reflexivity).
  unfold parse_doc, parse. cbv zeta.
  set (P := partition_keys struct_Pipeline m).
  set (d := gv_depth (GMap m)).
  assert (GSt : aget "steps" m = Some (GSeq (map my_step (pp_steps p)))).
  { unfold m. rewrite (ystruct_schema_get _ _ pipeline_primary) by (first [assumption|unfold pipeline_primary; in_lit]).
    reflexivity. }
  assert (F1 : field "Steps" P = Some (GSeq (map my_step (pp_steps p)))).
  { unfold P. rewrite f_pp_steps. cbn [first_key]. rewrite GSt. reflexivity. }
  assert (F2 : field "Env" P = option_map my_env_block (pp_env p)).
  { unfold P. rewrite f_pp_env. cbn [first_key]. unfold m.
    rewrite (ystruct_schema_get _ _ pipeline_primary) by (first [assumption|unfold pipeline_primary; in_lit]).
    cbn [aget pp_yol String.eqb Ascii.eqb Bool.eqb].
    destruct (pp_env p) as [[|e0 r0]|]; [congruence|reflexivity|reflexivity]. }
  assert (FL : inline_friendly (compact (pp_ol p)) (leftover P) = inline_friendly (compact (pp_ol p)) (pp_rem p)).
  { unfold P, m.
    apply (ystruct_noalias_fix struct_Pipeline (pp_yol p) _ (pp_rem p) pipeline_primary); try assumption.
    - intros pk al Hin. rewrite kt_pipeline in Hin.
      ktab_cases Hin; (split; [unfold pipeline_primary; in_lit|reflexivity]).
    - intros k I. rewrite kt_pipeline. cbn [pp_yol map fst In] in I.
      repeat (destruct I as [<-|I]; [eexists; in_lit|]). destruct I.
    - apply compact_nodup. apply nodupb_sound. reflexivity. }
  assert (D1 : gv_depth (GSeq (map my_step (pp_steps p))) < d).
  { apply (depth_in_map m "steps"). apply aget_some_in. exact GSt. }
  assert (FR : Forall (fun s => exists s' w, unm_step d (my_step s) = Ok s' w /\ mj_step s' = mj_step s)
                      (pp_steps p)).
  { rewrite Forall_forall in FS, YS |- *. intros s Hs. apply (step_roundtrip_yaml s (FS s Hs) (YS s Hs)).
    assert (D2 : gv_depth (my_step s) < gv_depth (GSeq (map my_step (pp_steps p)))).
    { apply depth_in_seq. apply in_map. exact Hs. }
    lia. }
  destruct (steps_mapM_roundtrip_y d _ FR) as (ss' & w & E1 & E2).
  assert (ES : unm_steps (S d) (GSeq (map my_step (pp_steps p))) = Ok ss' w).
  { rewrite unm_steps_S. exact E1. }
  rewrite (pp_steps_dec P (S d) _ ss' w F1 ES).
  assert (EE : opt_field "Env" P None unm_env_block = Ok (pp_env p) 0).
  { destruct (pp_env p) as [e|]; cbn [option_map] in F2.
    - rewrite (opt_field_some _ _ _ _ _ F2). apply env_block_roundtrip_y.
    - rewrite (opt_field_none _ _ _ _ F2). reflexivity. }
  unfold bind at 1. rewrite EE, bind_ret_l. unfold ret.
  eexists. eexists. split; [reflexivity|].
  rewrite !mj_pipeline_ol. cbn [pp_rem].
  match goal with |- inline_friendly (compact ?o) _ = _ => assert (EO : o = pp_ol p) end.
  { unfold pp_ol. cbn [pp_steps pp_env]. rewrite E2. reflexivity. }
  rewrite EO. exact FL.
Qed.

(* both re-parses reach the same JSON *)
Corollary yaml_json_legs_agree : forall p, pipeline_fix_ok p -> yaml_side_ok p ->
  exists pj wj py wy, reparse_json p = Ok pj wj /\ reparse_yaml p = Ok py wy /\ mj_pipeline py = mj_pipeline pj.
Proof.
  intros p F Y. destruct (reparse_fixpoint p F) as (pj & wj & E1 & E2).
  destruct (reparse_yaml_fixpoint p F Y) as (py & wy & E3 & E4).
  exists pj, wj, py, wy. split; [exact E1|]. split; [exact E3|]. congruence.
Qed.

(** ------------------------------------------------------------------ *)
(** * 10. Signatures survive the YAML leg *)

Lemma my_command_nodup : forall c, rem_ok cmd_primary (cs_rem c) ->
  NoDup (map fst (ycompact (cmd_yol c) ++ sort_keys (ymap (cs_rem c)))).
Proof.
  intros c (Nr & Av & _). apply ystruct_nodup; [apply nodupb_sound; reflexivity|exact Nr|].
  intros k I. apply Av. cbn [cmd_yol map fst In] in I. unfold cmd_primary.
  repeat (destruct I as [<-|I]; [in_lit|]). destruct I.
Qed.

(* the command step obtained by re-reading the YAML-marshalled step has the same signed content *)
Corollary command_roundtrip_yaml_signed_content : forall c, cmd_ok c -> cmd_y_ok c ->
  exists c', unm_command (match my_command c with GMap m => m | _ => [] end) = Ok c' 0 /\
             same_signed_content c c'.
Proof.
  intros c OK Y. destruct (command_roundtrip_yaml c OK Y) as (c' & E1 & E2).
  exists c'. split; [exact E1|].
  apply mj_command_signed_content_gen; [apply cmd_ok_keys_ok; exact OK| |exact E2].
  eapply unm_command_keys_ok; [|exact E1]. apply (my_command_nodup c). apply OK.
Qed.

(** composed with [signed_roundtrip]: a signature made over a command step verifies against the step
    obtained by marshalling it to YAML and parsing it back *)
Section LinkYaml.
  Variable K PK : Type.
  Variable pub : K -> PK.
  Variable alg_of : K -> string.
  Variable sgn : K -> string -> string.
  Variable vrf : PK -> string -> string -> bool.
  Hypothesis vrf_ideal : forall pk m s, vrf pk m s = true <-> exists k, pk = pub k /\ s = sgn k m.

  Theorem signature_survives_yaml_reparse : forall k c repo penv penv',
    cmd_ok c -> cmd_y_ok c -> NoDup (map fst penv) -> NoDup (map fst penv') ->
    (forall n v, aget n penv = Some v -> aget n penv' = Some v) ->
    exists c', unm_command (match my_command c with GMap m => m | _ => [] end) = Ok c' 0 /\
               verify PK vrf (pub k) (sign K alg_of sgn k c repo penv) c' repo penv' = true.
  Proof.
    intros k c repo penv penv' OK Y N N' Hs.
    destruct (command_roundtrip_yaml_signed_content c OK Y) as (c' & E & SC).
    exists c'. split; [exact E|].
    apply (signed_roundtrip K PK pub alg_of sgn vrf vrf_ideal); assumption.
  Qed.
End LinkYaml.

(** ------------------------------------------------------------------ *)
(** * 11. What Parse produces satisfies the YAML side condition *)

(* the hypothesis on the float tokens of the document: a float whose fmt/strconv 'g' token is
   integral has that same token in JSON (true of Go: both print integral floats below 1e6 plainly) *)
Definition float_tokens_coherent : gv -> Prop := gv_floats (fun j st => int_token st = true -> j = st).

Lemma doc_floats_ok : forall g, doc_ok g -> float_tokens_coherent g -> gv_yf g.
Proof.
  unfold doc_ok, float_tokens_coherent, gv_yf.
  induction g using gv_ind'; intros W C; try exact I.
  - apply y_float_ok_intro; [exact W|exact C].
  - apply gv_floats_seq. apply gv_floats_seq in C. apply gv_wf_seq in W.
    rewrite Forall_forall in *. intros x Hx. apply H; auto.
  - apply gv_floats_map. apply gv_floats_map in C. apply gv_wf_map in W. destruct W as [_ W].
    rewrite Forall_forall in *. intros x Hx. apply H; auto.
  - destruct W.
Qed.

Lemma rem_yf_leftover : forall fields m, rem_yf m -> rem_yf (leftover (partition_keys fields m)).
Proof.
  intros fields m Y. unfold rem_yf in *. rewrite Forall_forall in *. intros kv Hkv. apply Y.
  eapply leftover_incl. exact Hkv.
Qed.

Lemma gv_yf_field : forall name fields m v,
  rem_yf m -> field name (partition_keys fields m) = Some v -> gv_yf v.
Proof.
  intros name fields m v Y F. apply field_in in F. destruct F as [k F].
  unfold rem_yf in Y. rewrite Forall_forall in Y. apply (Y (k, v) F).
Qed.

Lemma gv_yf_tmr : forall g, gv_yf g -> gv_yf (to_map_recursive g).
Proof.
  induction g using gv_ind'; intros Y; try exact Y.
  - cbn [to_map_recursive]. apply gv_yf_seq. apply gv_yf_seq in Y. rewrite Forall_map.
    rewrite Forall_forall in *. intros x Hx. apply H; auto.
  - cbn [to_map_recursive]. apply gv_yf_umap. apply gv_yf_map in Y. unfold rem_yf in *. rewrite Forall_map.
    cbn [snd]. rewrite Forall_forall in *. intros x Hx. apply H; auto.
Qed.

Lemma rem_yf_in : forall m k v, rem_yf m -> In (k, v) m -> gv_yf v.
Proof. intros m k v Y I. unfold rem_yf in Y. rewrite Forall_forall in Y. apply (Y (k, v) I). Qed.

(** plugins *)
Definition plugin_yf (p : plugin) : Prop := gv_yf (pl_config p).

Lemma yf_plugins_of_map : forall m, rem_yf m -> Forall plugin_yf (plugins_of_map m).
Proof.
  intros m Y. unfold plugins_of_map. rewrite Forall_map. rewrite Forall_forall. intros [k v] Hin.
  unfold plugin_yf. cbn [pl_config snd]. apply gv_yf_tmr. eapply rem_yf_in; eassumption.
Qed.

Lemma yf_unm_plugins : forall g, gv_yf g -> res_all (Forall plugin_yf) (unm_plugins g).
Proof.
  intros g Y. unfold unm_plugins. destruct g; try all_err.
  - constructor.
  - apply all_bind with (P := Forall (Forall plugin_yf)).
    + apply all_mapM_P. intros x Hx. apply gv_yf_seq in Y. rewrite Forall_forall in Y. specialize (Y x Hx).
      destruct x; try all_err.
      * apply all_ret. constructor; [exact I|constructor].
      * apply all_ret. apply yf_plugins_of_map. apply gv_yf_map. exact Y.
    + intros ps Hps. apply all_ret. apply Forall_concat. exact Hps.
  - apply all_ret. apply yf_plugins_of_map. apply gv_yf_map. exact Y.
Qed.

(** matrix *)
Lemma yf_unm_adj : forall g, gv_wf g -> gv_yf g -> res_all adj_y_ok (unm_adj g).
Proof.
  intros g W Y. unfold unm_adj. destruct g; try all_err; [exact I|].
  cbv zeta. apply gv_yf_map in Y. skipb. apply all_ret. cbn [adj_y_ok ma_skip ma_rem].
  destruct (field "Skip" (partition_keys struct_MatrixAdjustment l)) as [v|] eqn:F.
  - split; [eapply gv_yf_field; eassumption|]. split; [|apply rem_yf_leftover; exact Y].
    intros E. subst v. pose proof (gv_wf_field _ _ _ _ W F) as X. exact X.
  - split; [exact I|]. split; [discriminate|apply rem_yf_leftover; exact Y].
Qed.

Lemma yf_unm_adjs : forall g, gv_wf g -> gv_yf g -> res_all (Forall adj_y_ok) (unm_adjs g).
Proof.
  intros g W Y. unfold unm_adjs. destruct g; try all_err; [constructor|].
  apply all_mapM_P. intros x Hx. apply gv_wf_seq in W. apply gv_yf_seq in Y. rewrite Forall_forall in W, Y.
  apply yf_unm_adj; auto.
Qed.

Lemma yf_unm_matrix : forall g, gv_wf g -> gv_yf g ->
  res_all (fun o => match o with Some m => matrix_y_ok m | None => True end) (unm_matrix g).
Proof.
  intros g W Y. unfold unm_matrix. destruct g; try all_err; [exact I| |].
  - skipb. apply all_ret. split; constructor.
  - cbv zeta. apply gv_yf_map in Y. skipb.
    apply all_bind with (P := Forall adj_y_ok).
    { apply all_opt_field; [constructor|]. intros v F.
      apply yf_unm_adjs; [eapply gv_wf_field; eassumption|eapply gv_yf_field; eassumption]. }
    intros ad Had. apply all_ret. split; [exact Had|]. cbn [mx_rem]. apply rem_yf_leftover. exact Y.
Qed.

Lemma yf_unm_cache : forall g, gv_yf g ->
  res_all (fun o => match o with Some c => cache_y_ok c | None => True end) (unm_cache g).
Proof.
  intros g Y. unfold unm_cache. destruct g; try all_err; [exact I| | | |].
  - apply all_ret. unfold cache_y_ok. cbn [ca_disabled ca_rem]. destruct (negb b); [intros k _ []|constructor].
  - apply all_ret. unfold cache_y_ok. cbn [ca_disabled ca_rem]. constructor.
  - skipb. apply all_ret. unfold cache_y_ok. cbn [ca_disabled ca_rem]. constructor.
  - cbv zeta. apply gv_yf_map in Y.
    apply all_bind with (P := fun _ => True); [apply all_True|intros d _].
    skipb. skipb. skipb. apply all_ret. unfold cache_y_ok. cbn [ca_disabled ca_rem]. destruct d.
    + intros k Hk. unfold cache_primary in Hk. cbn [In] in Hk.
      repeat (destruct Hk as [<-|Hk]; [eapply primary_not_leftover; rewrite kt_cache; in_lit|]). destruct Hk.
    + apply rem_yf_leftover. exact Y.
Qed.

(** command steps: everything but the signature clause, which is a hypothesis on the result *)
Definition cmd_y_pre (c : command_step) : Prop :=
  rem_yf (cs_rem c) /\ Forall plugin_yf (cs_plugins c) /\
  match cs_matrix c with Some m => matrix_y_ok m | None => True end /\
  match cs_cache c with Some x => cache_y_ok x | None => True end.

Lemma yf_unm_command : forall m, gv_wf (GMap m) -> rem_yf m -> res_all cmd_y_pre (unm_command m).
Proof.
  intros m W Y. unfold unm_command. cbv zeta.
  set (outer := partition_keys struct_CommandStep_UnmarshalOrdered_anon0 m).
  assert (Wo : gv_wf (GMap (leftover outer))) by (apply gv_wf_leftover; exact W).
  assert (Yo : rem_yf (leftover outer)) by (apply rem_yf_leftover; exact Y).
  set (p := partition_keys struct_CommandStep (leftover outer)).
  skipb. skipb. skipb. skipb.
  apply all_bind with (P := Forall plugin_yf).
  { apply all_opt_field; [constructor|]. intros v F. apply yf_unm_plugins. eapply gv_yf_field; eassumption. }
  intros pl Hpl. skipb. skipb.
  apply all_bind with (P := fun o => match o with Some m => matrix_y_ok m | None => True end).
  { apply all_opt_field; [exact I|]. intros v F.
    apply yf_unm_matrix; [eapply gv_wf_field; eassumption|eapply gv_yf_field; eassumption]. }
  intros mx Hmx.
  apply all_bind with (P := fun o => match o with Some c => cache_y_ok c | None => True end).
  { apply all_opt_field; [exact I|]. intros v F. apply yf_unm_cache. eapply gv_yf_field; eassumption. }
  intros ca Hca. apply all_ret.
  unfold cmd_y_pre. cbn [cs_plugins cs_rem cs_matrix cs_cache].
  split; [apply rem_yf_leftover; exact Yo|]. split; [exact Hpl|]. split; [exact Hmx|exact Hca].
Qed.

Lemma map_kind_ymap : forall m K, map_kind m = Some K -> map_kind (ymap m) = Some K.
Proof.
  intros m K MK. unfold map_kind in *. unfold ymap at 1. rewrite aget_map.
  destruct (aget "type" m) as [v|]; cbn [option_map].
  - destruct v; try discriminate MK. cbn [my_any]. exact MK.
  - rewrite keys_ymap. exact MK.
Qed.

(** the classes the YAML-leg theorem excludes beyond the JSON-leg ones, as predicates on the parsed pipeline *)
Definition sig_local (s : step) : Prop :=
  match s with
  | SCommand c => match cs_sig c with Some sg => sg_fields sg <> None | None => True end
  | _ => True
  end.
(* every signature carries a signed_fields list *)
Definition signatures_list_fields (p : pipeline) : Prop := pipeline_all sig_local p.
(* the top-level env is not an empty mapping *)
Definition env_not_empty (p : pipeline) : Prop := pp_env p <> Some [].

Definition yrestr (s : step) : Prop := sig_local s /\ unknown_local s.

Lemma yside_mutual : forall f,
  (forall g ss w, unm_steps f g = Ok ss w -> gv_wf g -> gv_yf g -> Forall (steps_all yrestr) ss -> Forall step_y_ok ss) /\
  (forall g s w, unm_step f g = Ok s w -> gv_wf g -> gv_yf g -> steps_all yrestr s -> step_y_ok s).
Proof.
  induction f as [|f [IH1 IH2]]; [split; intros; discriminate|]. split.
  - intros g ss w H W Y R. rewrite unm_steps_S in H. destruct g; try discriminate H.
    + inversion H; subst. constructor.
    + apply mapM_Forall2 in H. apply gv_wf_seq in W. apply gv_yf_seq in Y. clear w.
      induction H as [|x y l ss' [w' Hxy] HF IH]; [constructor|].
      inversion W; subst. inversion Y; subst. inversion R; subst.
      constructor; [eapply IH2; eassumption|apply IH; assumption].
  - intros g s w H W Y R. rewrite unm_step_S in H. pose proof H as H0. apply step_body_inv in H.
    pose proof (steps_all_head _ _ R) as RL.
    assert (U : forall m, g = GMap m -> s = SUnknown g -> step_y_ok s).
    { intros m -> ->. split; [exact Y|].
      destruct RL as (_ & e & MK). rewrite my_any_map. exists e. apply map_kind_ymap. exact MK. }
    assert (T : forall m K, g = GMap m -> typed_shape (unm_steps f) m K s w -> step_y_ok s).
    { intros m K Hg Hs. subst g. pose proof Y as Ym. apply gv_yf_map in Ym.
      destruct Hs as [Hs ?|c HK Hc Hs ?|HK Hs ?|HK Hs ?|HK Hs ?|key gr ss HK Hs Hf].
      - eapply U; [reflexivity|exact Hs].
      - subst s K. cbn [step_y_ok].
        pose proof (all_ok _ _ _ _ (yf_unm_command m W Ym) Hc) as (P1 & P2 & P3 & P4).
        destruct RL as (SL & _). cbn [sig_local] in SL.
        split; [exact P1|]. split; [exact P2|]. split; [exact SL|]. split; [exact P3|exact P4].
      - subst s K. intros _. exact Ym.
      - subst s K. intros _. exact Ym.
      - subst s K. exact Ym.
      - subst s K. apply step_y_ok_group. apply steps_all_group in R. destruct R as [_ RN].
        split; [apply rem_yf_leftover; exact Ym|].
        destruct (field "Steps" (partition_keys struct_GroupStep m)) as [v|] eqn:F.
        + eapply IH1; [exact Hf| | |exact RN]; [eapply gv_wf_field; eassumption|eapply gv_yf_field; eassumption].
        + destruct Hf as [-> _]. constructor. }
    destruct H as [str Hg Hk Hs Hw|str Hg Hk Hs Hw|str Hg Hs Hw|m t Hg Ht Hs|m Hg Ht Hs].
    + subst s. intros _. constructor.
    + subst s. intros _. constructor.
    + subst g s. split; [exact I|]. cbn [my_any unknown_again].
      cbn [step_body] in H0. destruct (kind_of_scalar str); try discriminate H0; split; discriminate.
    + eapply T; [exact Hg|exact Hs].
    + eapply T; [exact Hg|exact Hs].
Qed.

Lemma parse_result_yaml_side_ok_core : forall g p w,
  parse_doc g = Ok p w -> doc_ok g -> gv_yf g -> pipeline_all yrestr p -> env_not_empty p -> yaml_side_ok p.
Proof.
  intros g p w H W Y R NE. unfold parse_doc in H. apply parse_inv in H. unfold pipeline_all in R.
  split; [exact NE|].
  destruct H as [(l & ss & Hg & H & Hp)|(m & Hg & Hr & H)]; subst g.
  - subst p. cbn [pp_steps pp_rem] in *. split; [|constructor].
    eapply (proj1 (yside_mutual _)); eassumption.
  - pose proof Y as Ym. apply gv_yf_map in Ym. split.
    + destruct (field "Steps" (partition_keys struct_Pipeline m)) as [v|] eqn:F.
      * eapply (proj1 (yside_mutual _)); [exact H| | |exact R];
          [eapply gv_wf_field; eassumption|eapply gv_yf_field; eassumption].
      * destruct H as [-> _]. constructor.
    + rewrite Hr. apply rem_yf_leftover. exact Ym.
Qed.

(* the YAML side condition holds for what Parse produces from any well-formed document with coherent
   float tokens, outside the JSON leg's classes and the two YAML-specific ones *)
Theorem parse_result_yaml_side_ok : forall g p w,
  parse_doc g = Ok p w -> doc_ok g ->
  no_empty_primary_with_alias p -> plugin_sources_canonical p -> no_fallback_unknown p ->
  float_tokens_coherent g ->
  signatures_list_fields p -> env_not_empty p ->
  yaml_side_ok p.
Proof.
  intros g p w H W _ _ R4 C RS NE.
  eapply parse_result_yaml_side_ok_core; [exact H|exact W|apply doc_floats_ok; assumption| |exact NE].
  unfold signatures_list_fields, no_fallback_unknown, pipeline_all in *.
  rewrite Forall_forall in *. intros s Hs. unfold yrestr. apply steps_all_and; auto.
Qed.

(* parse, marshal to YAML, re-parse, marshal to JSON: equal to the JSON of the first parse, and to
   the JSON reached through the JSON leg *)
Corollary parse_marshal_reparse_yaml : forall g p w,
  parse_doc g = Ok p w -> doc_ok g ->
  no_empty_primary_with_alias p -> plugin_sources_canonical p -> no_fallback_unknown p ->
  float_tokens_coherent g -> signatures_list_fields p -> env_not_empty p ->
  exists pj wj py wy, reparse_json p = Ok pj wj /\ reparse_yaml p = Ok py wy /\
                      mj_pipeline py = mj_pipeline p /\ mj_pipeline pj = mj_pipeline p.
Proof.
  intros g p w H W R1 R2 R4 C RS NE.
  pose proof (parse_result_fix_ok g p w H W R1 R2 R4) as F.
  pose proof (parse_result_yaml_side_ok g p w H W R1 R2 R4 C RS NE) as Y.
  destruct (reparse_fixpoint p F) as (pj & wj & E1 & E2).
  destruct (reparse_yaml_fixpoint p F Y) as (py & wy & E3 & E4).
  exists pj, wj, py, wy. auto.
Qed.

(** ------------------------------------------------------------------ *)
(** * 12. The YAML encoder does not fail on these pipelines *)

Lemma no_clash_intro : forall keys (rem : list (string * gv)),
  (forall k, In k keys -> ~ In k (map fst rem)) -> no_clash keys rem = true.
Proof.
  intros keys rem H. unfold no_clash. apply forallb_forall. intros [k v] I. cbn [fst].
  apply negb_true_iff. destruct (existsb (String.eqb k) keys) eqn:E; [|reflexivity].
  exfalso. apply existsb_eqb_In in E. apply (H k E). apply (in_map fst) in I. exact I.
Qed.

Lemma rem_ok_no_clash : forall schema keys rem,
  rem_ok schema rem -> (forall k, In k keys -> In k schema) -> no_clash keys rem = true.
Proof. intros schema keys rem (_ & Av & _) S. apply no_clash_intro. intros k I. apply Av. apply S. exact I. Qed.

Lemma y_matrix_ok_of_fix : forall m, matrix_fix_ok m -> y_matrix_ok m = true.
Proof.
  intros m (_ & HA & R). unfold y_matrix_ok. destruct (mx_simple m); [reflexivity|].
  apply andb_true_iff. split.
  - apply (rem_ok_no_clash matrix_schema); [exact R|]. intros k I. exact I.
  - apply forallb_forall. intros a Ha. rewrite Forall_forall in HA. specialize (HA a Ha).
    destruct a as [a|]; [|reflexivity]. destruct HA as [_ R'].
    apply (rem_ok_no_clash adj_schema); [exact R'|]. intros k I. exact I.
Qed.

Lemma y_command_ok_of_fix : forall c, cmd_ok c ->
  match cs_cache c with Some x => cache_y_ok x | None => True end -> y_command_ok c = true.
Proof.
  intros c (R & _ & _ & _ & HM & HC) YC. unfold y_command_ok. rewrite !andb_true_iff. split; [split|].
  - apply (rem_ok_no_clash cmd_primary); [exact R|]. intros k I. cbn [In] in I. unfold cmd_primary.
    repeat (destruct I as [<-|I]; [in_lit|]). destruct I.
  - destruct (cs_matrix c); [apply y_matrix_ok_of_fix; exact HM|reflexivity].
  - destruct (cs_cache c) as [x|]; [|reflexivity]. unfold cache_y_ok in YC.
    destruct (ca_disabled x) eqn:D.
    + apply no_clash_intro. exact YC.
    + destruct HC as [HC|HC]; [congruence|]. apply (rem_ok_no_clash cache_primary); [exact HC|]. intros k I. exact I.
Qed.

Lemma y_step_ok_of_fix : forall s, step_fix_ok s -> step_y_ok s -> y_step_ok s = true.
Proof.
  induction s using step_ind'; intros OK Y; try reflexivity.
  - cbn [y_step_ok]. apply y_command_ok_of_fix; [apply OK|apply Y].
  - cbn [y_step_ok]. destruct OK as [N|C].
    + destruct (String.eqb_spec sc ""); [contradiction|reflexivity].
    + pose proof (contents_nonempty _ _ C) as NE.
      destruct ct; [exfalso; apply NE; [intros e; discriminate|reflexivity]|apply orb_true_r].
  - apply step_fix_ok_group in OK. destruct OK as (R & _ & _ & FS).
    apply step_y_ok_group in Y. destruct Y as (_ & YS).
    cbn [y_step_ok]. apply andb_true_iff. split.
    + apply forallb_forall. intros s Hs. rewrite Forall_forall in H, FS, YS. apply H; auto.
    + apply (rem_ok_no_clash group_primary); [exact R|]. intros x I. exact I.
Qed.

(* yaml.Marshal neither fails nor panics on a pipeline inside the theorem's domain: the tree
   [reparse_yaml] reads is the one [marshal_yaml] produces *)
Theorem fix_ok_marshals_yaml : forall p, pipeline_fix_ok p -> yaml_side_ok p ->
  marshal_yaml p = Some (my_pipeline p).
Proof.
  intros p (FS & R) (_ & YS & _). unfold marshal_yaml.
  assert (E : y_pipeline_ok p = true).
  { unfold y_pipeline_ok. apply andb_true_iff. split.
    - apply forallb_forall. intros s Hs. rewrite Forall_forall in FS, YS. apply y_step_ok_of_fix; auto.
    - apply (rem_ok_no_clash pipeline_primary); [exact R|]. intros k I. exact I. }
  rewrite E. reflexivity.
Qed.

(** ------------------------------------------------------------------ *)
(** * 13. Non-vacuity and the excluded classes *)

(* a command step with plugins, env, a matrix whose adjustment has `skip: false`, `cache: false`, a
   signature with signed_fields, extra fields holding the float 1.5 and the integral float 3.0;
   a group; a wait step; a top-level env and a top-level integral float *)
Definition ydemo_doc : gv :=
  GMap [("steps", GSeq [
           GMap [("command", GStr "make"); ("key", GStr "k"); ("ratio", GFloat "1.5" "1.5"); ("three", GFloat "3" "3");
                 ("plugins", GSeq [GMap [("docker#v1.0", GMap [("image", GStr "x"); ("n", GFloat "3" "3")])]]);
                 ("env", GMap [("Z", GStr "1"); ("B", GInt 2)]);
                 ("matrix", GMap [("setup", GMap [("os", GSeq [GStr "a"; GStr "b"])]);
                                  ("adjustments", GSeq [GMap [("with", GMap [("os", GStr "a")]); ("skip", GBool false)]])]);
                 ("cache", GBool false);
                 ("signature", GMap [("algorithm", GStr "HS256");
                                     ("signed_fields", GSeq [GStr "command"; GStr "env"]);
                                     ("value", GStr "sig")])];
           GMap [("group", GStr "G"); ("key", GStr "gk");
                 ("steps", GSeq [GMap [("command", GStr "x")]; GStr "wait"])];
           GStr "wait"]);
        ("env", GMap [("A", GStr "b")]);
        ("other", GFloat "3" "3")].

Ltac ypred :=
  repeat first
    [ exact I
    | match goal with
      | |- _ /\ _ => split
      | |- NoDup _ => nd
      | |- Forall _ _ => constructor
      | |- num_stable _ => first [apply num_stable_float; reflexivity|vm_compute; reflexivity]
      | |- _ <> _ => discriminate
      | |- exists _, _ => eexists
      | |- _ = _ => reflexivity
      | |- ~ In _ _ => (cbn [In map fst]; intuition discriminate)
      | |- _ -> _ => let H := fresh in intro H; try discriminate H
      end ].

Ltac dc_doc := unfold doc_ok; cbn [gv_wf map fst snd]; ypred.
Ltac dc_alias :=
  unfold no_empty_primary_with_alias, pipeline_all; cbn [pp_steps];
  repeat constructor; cbn [alias_local alias_free cs_key cs_label cs_rem]; try (intros; discriminate); ypred.
Ltac dc_src :=
  unfold plugin_sources_canonical, pipeline_all; cbn [pp_steps];
  repeat constructor; cbn [sources_local cs_plugins]; ypred.
Ltac dc_unk :=
  unfold no_fallback_unknown, pipeline_all; cbn [pp_steps];
  repeat constructor; cbn [unknown_local]; ypred.

Example ydemo_ok : exists p w,
  parse_doc ydemo_doc = Ok p w /\ doc_ok ydemo_doc /\
  no_empty_primary_with_alias p /\ plugin_sources_canonical p /\ no_fallback_unknown p /\
  float_tokens_coherent ydemo_doc /\ signatures_list_fields p /\ env_not_empty p.
Proof.
  remember (parse_doc ydemo_doc) as r eqn:Er. vm_compute in Er.
  eexists. eexists. split; [rewrite Er; reflexivity|].
  split; [unfold ydemo_doc; dc_doc|]. split; [dc_alias|]. split; [dc_src|]. split; [dc_unk|].
  split. { unfold float_tokens_coherent, ydemo_doc. cbn [gv_floats map fst snd]. ypred. }
  split. { unfold signatures_list_fields, pipeline_all. cbn [pp_steps].
           repeat constructor; cbn [sig_local cs_sig sg_fields]; ypred. }
  unfold env_not_empty. cbn [pp_env]. discriminate.
Qed.

(* the parse result satisfies both side conditions, the encoder does not fail on it, and the YAML
   leg reaches the JSON of the first parse *)
Example ydemo_fixpoint : exists p w py wy,
  parse_doc ydemo_doc = Ok p w /\ pipeline_fix_ok p /\ yaml_side_ok p /\
  marshal_yaml p = Some (my_pipeline p) /\
  reparse_yaml p = Ok py wy /\ mj_pipeline py = mj_pipeline p.
Proof.
  destruct ydemo_ok as (p & w & H & W & R1 & R2 & R4 & C & RS & NE).
  pose proof (parse_result_fix_ok _ _ _ H W R1 R2 R4) as F.
  pose proof (parse_result_yaml_side_ok _ _ _ H W R1 R2 R4 C RS NE) as Y.
  destruct (reparse_yaml_fixpoint p F Y) as (py & wy & E1 & E2).
  exists p, w, py, wy. split; [exact H|]. split; [exact F|]. split; [exact Y|].
  split; [apply fix_ok_marshals_yaml; assumption|]. split; assumption.
Qed.

(* ... and the conclusion computes *)
Example ydemo_computes :
  match parse_doc ydemo_doc with
  | Ok p _ => match reparse_yaml p, reparse_json p with
              | Ok py _, Ok pj _ => mj_pipeline py = mj_pipeline p /\ mj_pipeline pj = mj_pipeline p
              | _, _ => False
              end
  | Err => False
  end.
Proof. vm_compute. split; reflexivity. Qed.

(* the YAML tree really differs from the JSON re-read where the formats differ: `skip: false` is
   kept, the disabled cache is a mapping, the integral float comes back as an int *)
Example ydemo_shapes : exists p w c m a x,
  parse_doc ydemo_doc = Ok p w /\ nth_error (pp_steps p) 0 = Some (SCommand c) /\
  cs_matrix c = Some m /\ mx_adj m = [Some a] /\ cs_cache c = Some x /\
  aget "skip" (match my_adj (Some a) with GMap l => l | _ => [] end) = Some (GBool false) /\
  aget "skip" (members (mj_adj (Some a))) = None /\
  my_cache x = GMap [("disabled", GBool true)] /\ mj_cache x = JBool false /\
  aget "three" (match my_command c with GMap l => l | _ => [] end) = Some (GInt 3) /\
  aget "ratio" (match my_command c with GMap l => l | _ => [] end) = Some (GFloat "1.5" "1.5").
Proof.
  do 6 eexists.
  split; [vm_compute; reflexivity|]. split; [vm_compute; reflexivity|].
  split; [vm_compute; reflexivity|]. split; [vm_compute; reflexivity|].
  split; [vm_compute; reflexivity|]. repeat split; vm_compute; reflexivity.
Qed.

(** the excluded classes are real *)
Ltac legs_of d :=
  let r := fresh "r" in let Er := fresh "Er" in let Er' := fresh "Er'" in
  remember (parse_doc d) as r eqn:Er; pose proof Er as Er'; vm_compute in Er';
  do 6 eexists;
  split; [rewrite Er'; reflexivity|];
  split; [eapply (parse_result_fix_ok d); [rewrite <- Er; exact Er'|unfold d; dc_doc|dc_alias|dc_src|dc_unk]|];
  split; [vm_compute; reflexivity|]; split; [vm_compute; reflexivity|];
  split; [vm_compute; reflexivity|]; vm_compute; discriminate.

(* a signature without signed_fields: the nil slice is null in JSON and [] in YAML, which decodes to
   an empty non-nil slice and marshals "signed_fields":[].  The document is inside the JSON leg's
   domain, so here the two legs disagree. *)
Definition d_nosf : gv :=
  GSeq [GMap [("command", GStr "x"); ("signature", GMap [("algorithm", GStr "a"); ("value", GStr "v")])]].
Example nil_signed_fields_counterexample :
  doc_ok d_nosf /\ float_tokens_coherent d_nosf /\
  exists p w pj wj py wy,
    parse_doc d_nosf = Ok p w /\ pipeline_fix_ok p /\
    reparse_json p = Ok pj wj /\ mj_pipeline pj = mj_pipeline p /\
    reparse_yaml p = Ok py wy /\ mj_pipeline py <> mj_pipeline p.
Proof.
  split; [unfold doc_ok, d_nosf; cbn [gv_wf map fst snd]; ypred|].
  split; [unfold float_tokens_coherent, d_nosf; cbn [gv_floats map fst snd]; ypred|].
  legs_of d_nosf.
Qed.

(* an empty top-level env: "env":{} in JSON; yaml.v3 omits the zero ordered map, and the re-parse has
   no env.  Again inside the JSON leg's domain. *)
Definition d_env0 : gv := GMap [("steps", GSeq [GStr "wait"]); ("env", GMap [])].
Example empty_env_counterexample :
  doc_ok d_env0 /\ float_tokens_coherent d_env0 /\
  exists p w pj wj py wy,
    parse_doc d_env0 = Ok p w /\ pipeline_fix_ok p /\
    reparse_json p = Ok pj wj /\ mj_pipeline pj = mj_pipeline p /\
    reparse_yaml p = Ok py wy /\ mj_pipeline py <> mj_pipeline p.
Proof.
  split; [unfold doc_ok, d_env0; cbn [gv_wf map fst snd]; ypred|].
  split; [unfold float_tokens_coherent, d_env0; cbn [gv_floats map fst snd]; ypred|].
  legs_of d_env0.
Qed.

(* the remaining classes cannot come out of Parse (documents hold no Go maps, a non-string `type` is a
   parse error, Parse leaves no schema key among the extra fields, the harness reports coherent
   tokens); they are shown on constructed pipelines that satisfy [pipeline_fix_ok] *)

(* `skip` holding an empty Go map: before the fix of finding F21 it was dropped by the JSON marshaller's omitempty and
   kept by yaml.v3 (`skip: {}`), so the two legs disagreed; now both keep it (it means "skip") and the legs agree *)
Definition p_skip0 : pipeline :=
  mkPipeline [SCommand (mkCmd "" "" "c" [] [] None
                          (Some (mkMx None [Some (mkMAdj None (GUMap []) [])] [])) None [])] None [] false.
Example empty_map_skip_agrees :
  pipeline_fix_ok p_skip0 /\
  exists py wy, reparse_yaml p_skip0 = Ok py wy /\ mj_pipeline py = mj_pipeline p_skip0.
Proof.
  split.
  - unfold pipeline_fix_ok, p_skip0. cbn [pp_steps pp_rem]. split; [|apply rem_ok_nil]. constructor; [|constructor].
    cbn [step_fix_ok cs_rem]. split; [|exact I].
    unfold cmd_ok. cbn [cs_rem cs_key cs_label cs_plugins cs_matrix cs_cache].
    split; [apply rem_ok_nil|]. split; [intros _; split; intros []|]. split; [intros _ []|]. split; [constructor|].
    split; [|exact I]. unfold matrix_fix_ok. cbn [mx_setup mx_adj mx_rem].
    split; [exact I|]. split; [|apply rem_ok_nil]. constructor; [|constructor].
    cbn [adj_fix_ok ma_skip ma_rem]. split; [|apply rem_ok_nil]. split; exact I.
  - eexists. eexists. split; vm_compute; reflexivity.
Qed.

(* an unknown step whose `type` is a timestamp: a string once written as JSON (an unknown step
   again), still a timestamp when written as YAML, and a non-string `type` is a parse error *)
Definition p_utime : pipeline := mkPipeline [SUnknown (GMap [("type", GTime "2001-01-01T00:00:00Z")])] None [] false.
Example unknown_timestamp_counterexample :
  pipeline_fix_ok p_utime /\ reparse_yaml p_utime = Err /\
  exists pj wj, reparse_json p_utime = Ok pj wj /\ mj_pipeline pj = mj_pipeline p_utime.
Proof.
  split; [|split].
  - unfold pipeline_fix_ok, p_utime. cbn [pp_steps pp_rem]. split; [|apply rem_ok_nil]. constructor; [|constructor].
    cbn [step_fix_ok]. split.
    + unfold val_stable. cbn. auto.
    + cbn [gv_json gv_of_json map fst snd unknown_again]. vm_compute. eexists. reflexivity.
  - vm_compute. reflexivity.
  - eexists. eexists. split; vm_compute; reflexivity.
Qed.

(* a disabled cache with an extra field named like a struct field: JSON writes `false`; the YAML
   encoder panics on the duplicate key ([marshal_yaml] is None), and the tree it would have written
   does not decode *)
Definition p_cclash : pipeline :=
  mkPipeline [SCommand (mkCmd "" "" "c" [] [] None None (Some (mkCache true "" [] "" [("name", GSeq [])])) [])]
             None [] false.
Example disabled_cache_clash_counterexample :
  pipeline_fix_ok p_cclash /\ marshal_yaml p_cclash = None /\
  exists py wy, reparse_yaml p_cclash = Ok py wy /\ mj_pipeline py <> mj_pipeline p_cclash.
Proof.
  split; [|split].
  - unfold pipeline_fix_ok, p_cclash. cbn [pp_steps pp_rem]. split; [|apply rem_ok_nil]. constructor; [|constructor].
    cbn [step_fix_ok cs_rem]. split; [|exact I].
    unfold cmd_ok. cbn [cs_rem cs_key cs_label cs_plugins cs_matrix cs_cache].
    split; [apply rem_ok_nil|]. split; [intros _; split; intros []|]. split; [intros _ []|]. split; [constructor|].
    split; [exact I|]. left. reflexivity.
  - vm_compute. reflexivity.
  - eexists. eexists. split; [vm_compute; reflexivity|]. vm_compute. discriminate.
Qed.

(* incoherent float tokens (JSON token 1.5, 'g' token 3): the YAML leg reads the int 3 *)
Definition p_float : pipeline :=
  mkPipeline [SCommand (mkCmd "" "" "c" [] [] None None None [("z", GFloat "1.5" "3")])] None [] false.
Example incoherent_float_counterexample :
  pipeline_fix_ok p_float /\
  exists py wy, reparse_yaml p_float = Ok py wy /\ mj_pipeline py <> mj_pipeline p_float.
Proof.
  split.
  - unfold pipeline_fix_ok, p_float. cbn [pp_steps pp_rem]. split; [|apply rem_ok_nil]. constructor; [|constructor].
    cbn [step_fix_ok cs_rem]. split; [|exact I].
    unfold cmd_ok. cbn [cs_rem cs_key cs_label cs_plugins cs_matrix cs_cache].
    split.
    { split; [nd|]. split.
      - intros k Hk. cbn [map fst In]. intros [<-|[]]. unfold cmd_primary in Hk. cbn [In] in Hk. intuition discriminate.
      - constructor; [|constructor]. cbn [snd]. unfold val_stable. cbn [gv_json json_stable].
        apply num_stable_float. reflexivity. }
    split; [intros _; split; cbn [map fst In]; intuition discriminate|].
    split; [intros _; cbn [map fst In]; intuition discriminate|]. split; [constructor|].
    split; exact I.
  - eexists. eexists. split; [vm_compute; reflexivity|]. vm_compute. discriminate.
Qed.

Print Assumptions reparse_yaml_fixpoint.
Print Assumptions yaml_json_legs_agree.
Print Assumptions parse_result_yaml_side_ok.
Print Assumptions command_roundtrip_yaml.
Print Assumptions signature_survives_yaml_reparse.
Print Assumptions fix_ok_marshals_yaml.
