(** Proofs about the canonical JSON serialisation (Model/Jcs.v):
    escaping is uniquely decodable, the serialisation depends only on the
    canonical form, and it is injective (prefix-free in context) on
    well-formed values up to canonical form. *)
From Coq Require Import String List Ascii Bool Arith Lia Permutation Sorted.
From GP Require Import Model.Gv Model.Jcs.
From GP Require Import Proofs.MarshalProofs.
Import ListNotations.
Local Open Scope string_scope.
Local Open Scope list_scope.

(** ------------------------------------------------------------------ *)
(** examples *)

Example ser_example :
  ser (JObj [("b", JStr "x"); ("a", JArr [JNum "1"; JNull; JBool true])]) = "{""a"":[1,null,true],""b"":""x""}"%string.
Proof. vm_compute. reflexivity. Qed.

Example boundary_shift_example :
  ser (JObj [("a", JStr "xy"); ("b", JStr "z")]) <> ser (JObj [("a", JStr "x"); ("b", JStr "yz")]).
Proof. intros H. vm_compute in H. discriminate H. Qed.

(** ------------------------------------------------------------------ *)
(** induction principle for the nested inductive *)

Section JsonInd.
  Variable P : json -> Prop.
  Hypothesis Hnull : P JNull.
  Hypothesis Hbool : forall b, P (JBool b).
  Hypothesis Hnum : forall t, P (JNum t).
  Hypothesis Hstr : forall s, P (JStr s).
  Hypothesis Harr : forall l, Forall P l -> P (JArr l).
  Hypothesis Hobj : forall l, Forall (fun kv => P (snd kv)) l -> P (JObj l).

  Fixpoint json_ind' (j : json) : P j :=
    match j with
    | JNull => Hnull
    | JBool b => Hbool b
    | JNum t => Hnum t
    | JStr s => Hstr s
    | JArr l => Harr l ((fix go (l : list json) : Forall P l :=
                           match l with
                           | [] => Forall_nil _
                           | x :: r => Forall_cons x (json_ind' x) (go r)
                           end) l)
    | JObj l => Hobj l ((fix go (l : list (string * json)) : Forall (fun kv => P (snd kv)) l :=
                           match l with
                           | [] => Forall_nil _
                           | (k, v) :: r => Forall_cons (P := fun kv => P (snd kv)) (k, v) (json_ind' v) (go r)
                           end) l)
    end.
End JsonInd.

(** ------------------------------------------------------------------ *)
(** string append *)

Lemma sapp_assoc : forall a b c : string, ((a ++ b) ++ c)%string = (a ++ (b ++ c))%string.
Proof. induction a as [|x a IH]; intros b c; cbn [append]; [reflexivity|]. rewrite IH. reflexivity. Qed.

Lemma sapp_inv_head : forall a b c : string, (a ++ b)%string = (a ++ c)%string -> b = c.
Proof. induction a as [|x a IH]; intros b c H; cbn [append] in H; [exact H|]. injection H as H. auto. Qed.

Lemma sapp_nil_r : forall a : string, (a ++ "")%string = a.
Proof. induction a as [|x a IH]; cbn [append]; [reflexivity|]. rewrite IH. reflexivity. Qed.

Fixpoint pfx (a b : string) : bool :=
  match a, b with
  | EmptyString, _ => true
  | String x a', String y b' => Ascii.eqb x y && pfx a' b'
  | _, _ => false
  end.

Lemma app_eq_pfx : forall x y r r', (x ++ r)%string = (y ++ r')%string -> pfx x y = true \/ pfx y x = true.
Proof.
  induction x as [|a x IH]; intros y r r' H.
  - left. reflexivity.
  - destruct y as [|b y].
    + right. reflexivity.
    + cbn [append] in H. injection H as E H. subst b. cbn [pfx]. rewrite Ascii.eqb_refl. cbn [andb].
      eapply IH. exact H.
Qed.

(** ------------------------------------------------------------------ *)
(** all bytes *)

Definition all_bytes : list ascii := map ascii_of_nat (seq 0 256).

Lemma all_bytes_in : forall a, In a all_bytes.
Proof.
  intros a. rewrite <- (ascii_nat_embedding a). unfold all_bytes. apply in_map. apply in_seq.
  pose proof (nat_ascii_bounded a). lia.
Qed.

(** ------------------------------------------------------------------ *)
(** escaping *)

Lemma esc_byte_check :
  forallb (fun a => forallb (fun b => implb (pfx (esc_byte a) (esc_byte b)) (Ascii.eqb a b)) all_bytes) all_bytes = true.
Proof. vm_compute. reflexivity. Qed.

Lemma esc_byte_pfx : forall a b, pfx (esc_byte a) (esc_byte b) = true -> a = b.
Proof.
  intros a b H. pose proof esc_byte_check as C.
  rewrite forallb_forall in C. specialize (C a (all_bytes_in a)).
  rewrite forallb_forall in C. specialize (C b (all_bytes_in b)).
  rewrite H in C. cbn [implb] in C. apply Ascii.eqb_eq. exact C.
Qed.

Lemma esc_byte_prefix_free : forall a b r r',
  (esc_byte a ++ r)%string = (esc_byte b ++ r')%string -> a = b /\ r = r'.
Proof.
  intros a b r r' H.
  assert (E : a = b).
  { destruct (app_eq_pfx _ _ _ _ H) as [P|P]; apply esc_byte_pfx in P; congruence. }
  subst b. split; [reflexivity|]. eapply sapp_inv_head. exact H.
Qed.

Lemma esc_byte_head_check :
  forallb (fun a => match esc_byte a with String c _ => negb (Ascii.eqb c "034") | EmptyString => false end) all_bytes = true.
Proof. vm_compute. reflexivity. Qed.

Lemma esc_byte_head : forall a, exists c t, esc_byte a = String c t /\ c <> "034"%char.
Proof.
  intros a. pose proof esc_byte_head_check as C.
  rewrite forallb_forall in C. specialize (C a (all_bytes_in a)).
  destruct (esc_byte a) as [|c t]; [discriminate|].
  exists c, t. split; [reflexivity|]. intros ->. discriminate.
Qed.

Lemma esc_term : forall s s' r r',
  (esc s ++ String "034" r)%string = (esc s' ++ String "034" r')%string -> s = s' /\ r = r'.
Proof.
  induction s as [|a s IH]; destruct s' as [|b s']; intros r r' H; cbn [esc] in H.
  - cbn [append] in H. injection H as H. auto.
  - exfalso. destruct (esc_byte_head b) as (c & t & E & Hc). rewrite E in H. cbn [append] in H.
    injection H as H1 _. congruence.
  - exfalso. destruct (esc_byte_head a) as (c & t & E & Hc). rewrite E in H. cbn [append] in H.
    injection H as H1 _. congruence.
  - rewrite !sapp_assoc in H. apply esc_byte_prefix_free in H. destruct H as [-> H].
    apply IH in H. destruct H as [-> ->]. auto.
Qed.

Lemma quote_app : forall s r, (quote s ++ r)%string = String "034" (esc s ++ String "034" r)%string.
Proof. intros s r. unfold quote. rewrite !sapp_assoc. reflexivity. Qed.

Theorem esc_injective : forall s s', esc s = esc s' -> s = s'.
Proof.
  intros s s' H. assert (H' : (esc s ++ String "034" "")%string = (esc s' ++ String "034" "")%string) by (rewrite H; reflexivity).
  apply esc_term in H'. tauto.
Qed.

Theorem quote_prefix_free : forall s s' r r',
  (quote s ++ r)%string = (quote s' ++ r')%string -> s = s' /\ r = r'.
Proof.
  intros s s' r r' H. rewrite !quote_app in H. injection H as H. apply esc_term in H. exact H.
Qed.

(** ------------------------------------------------------------------ *)
(** sort_keys *)

Lemma sort_keys_cons : forall {T} k (v : T) r, sort_keys ((k, v) :: r) = ins_sorted k v (sort_keys r).
Proof. reflexivity. Qed.

Lemma ins_sorted_map : forall {T U} (f : T -> U) k v (l : list (string * T)),
  ins_sorted k (f v) (map (fun kv => (fst kv, f (snd kv))) l) =
  map (fun kv => (fst kv, f (snd kv))) (ins_sorted k v l).
Proof.
  intros T U f k v l. induction l as [|[k0 v0] r IH]; cbn [ins_sorted map fst snd].
  - reflexivity.
  - destruct (String.leb k k0); cbn [map fst snd]; [reflexivity|]. rewrite IH. reflexivity.
Qed.

Lemma sort_keys_map : forall {T U} (f : T -> U) (l : list (string * T)),
  sort_keys (map (fun kv => (fst kv, f (snd kv))) l) = map (fun kv => (fst kv, f (snd kv))) (sort_keys l).
Proof.
  intros T U f l. induction l as [|[k v] r IH]; [reflexivity|].
  cbn [map fst snd]. rewrite !sort_keys_cons, IH. apply ins_sorted_map.
Qed.

Lemma sort_keys_sorted_id : forall {T} (l : list (string * T)),
  StronglySorted sle (map fst l) -> sort_keys l = l.
Proof.
  intros T l. induction l as [|[k v] r IH]; intros S; [reflexivity|].
  rewrite sort_keys_cons. cbn [map fst] in S. inversion S as [|? ? S' F]; subst.
  rewrite (IH S'). destruct r as [|[k' v'] r']; [reflexivity|].
  cbn [ins_sorted]. cbn [map fst] in F. inversion F as [|? ? L _]; subst. unfold sle in L. rewrite L. reflexivity.
Qed.

Lemma sort_keys_idem : forall {T} (l : list (string * T)), sort_keys (sort_keys l) = sort_keys l.
Proof. intros T l. apply sort_keys_sorted_id. apply sort_keys_sorted. Qed.

Lemma sorted_perm_unique : forall {T} (l1 l2 : list (string * T)),
  StronglySorted sle (map fst l1) -> StronglySorted sle (map fst l2) ->
  NoDup (map fst l1) -> Permutation l1 l2 -> l1 = l2.
Proof.
  intros T l1. induction l1 as [|[k v] r1 IH]; intros l2 S1 S2 N Pm.
  - apply Permutation_nil in Pm. subst. reflexivity.
  - destruct l2 as [|[k' v'] r2].
    { apply Permutation_sym in Pm. exfalso. eapply Permutation_nil_cons. exact Pm. }
    cbn [map fst] in S1, S2, N.
    inversion S1 as [|? ? S1' F1]; subst. inversion S2 as [|? ? S2' F2]; subst.
    inversion N as [|? ? N1 N']; subst.
    assert (I1 : In (k, v) ((k', v') :: r2)) by (eapply Permutation_in; [exact Pm|left; reflexivity]).
    assert (I2 : In (k', v') ((k, v) :: r1)) by (eapply Permutation_in; [apply Permutation_sym; exact Pm|left; reflexivity]).
    assert (Ek : k = k').
    { destruct (string_dec k k') as [E|NE]; [exact E|]. exfalso.
      destruct I1 as [E|I1]; [injection E; congruence|].
      destruct I2 as [E|I2]; [injection E; congruence|].
      rewrite Forall_forall in F1, F2.
      apply (in_map fst) in I1. apply (in_map fst) in I2. cbn [fst] in I1, I2.
      apply NE. apply String.leb_antisym; [apply F1; exact I2|apply F2; exact I1]. }
    subst k'.
    assert (Ev : v = v').
    { destruct I2 as [E|I2]; [injection E; congruence|]. exfalso. apply N1.
      apply (in_map fst) in I2. exact I2. }
    subst v'. f_equal. apply IH; try assumption. eapply Permutation_cons_inv. exact Pm.
Qed.

Lemma sort_keys_perm_eq : forall {T} (l l' : list (string * T)),
  NoDup (map fst l) -> Permutation l l' -> sort_keys l = sort_keys l'.
Proof.
  intros T l l' N Pm. apply sorted_perm_unique.
  - apply sort_keys_sorted.
  - apply sort_keys_sorted.
  - apply sort_keys_nodup. exact N.
  - eapply Permutation_trans; [apply sort_keys_perm|].
    eapply Permutation_trans; [exact Pm|]. apply Permutation_sym. apply sort_keys_perm.
Qed.

Lemma aget_map : forall {T U} (f : T -> U) k (l : list (string * T)),
  aget k (map (fun kv => (fst kv, f (snd kv))) l) = option_map f (aget k l).
Proof.
  intros T U f k l. induction l as [|[k0 v0] r IH]; cbn [map aget fst snd]; [reflexivity|].
  destruct (String.eqb k k0); [reflexivity|exact IH].
Qed.

Lemma map_fst_map : forall {T U} (f : T -> U) (l : list (string * T)),
  map fst (map (fun kv => (fst kv, f (snd kv))) l) = map fst l.
Proof. intros. rewrite map_map. apply map_ext. reflexivity. Qed.

(** ------------------------------------------------------------------ *)
(** unfolding lemmas for ser / canon *)

Definition mem (kv : string * json) : string := (quote (fst kv) ++ ":" ++ ser (snd kv))%string.
Definition cg (kv : string * json) : string * json := (fst kv, canon (snd kv)).

Lemma ser_arr_eq : forall l, ser (JArr l) = ("[" ++ join_comma (map ser l) ++ "]")%string.
Proof. reflexivity. Qed.

Lemma ser_obj_raw : forall l,
  ser (JObj l) = ("{" ++ join_comma (map (fun kv : string * string => quote (fst kv) ++ ":" ++ snd kv)
                                        (sort_keys (map (fun kv => (fst kv, ser (snd kv))) l))) ++ "}")%string.
Proof. reflexivity. Qed.

Lemma ser_obj_eq : forall l, ser (JObj l) = ("{" ++ join_comma (map mem (sort_keys l)) ++ "}")%string.
Proof. intros l. rewrite ser_obj_raw, (sort_keys_map ser), map_map. reflexivity. Qed.

Lemma canon_arr_eq : forall l, canon (JArr l) = JArr (map canon l).
Proof. reflexivity. Qed.

Lemma canon_obj_raw : forall l, canon (JObj l) = JObj (sort_keys (map cg l)).
Proof. reflexivity. Qed.

Lemma canon_obj_eq : forall l, canon (JObj l) = JObj (map cg (sort_keys l)).
Proof. intros l. rewrite canon_obj_raw. unfold cg. rewrite (sort_keys_map canon). reflexivity. Qed.

Lemma ser_arr : forall l r,
  (ser (JArr l) ++ r)%string = String "[" (join_comma (map ser l) ++ String "]" r)%string.
Proof. intros. rewrite ser_arr_eq, !sapp_assoc. reflexivity. Qed.

Lemma ser_obj : forall l r,
  (ser (JObj l) ++ r)%string = String "{" (join_comma (map mem (sort_keys l)) ++ String "}" r)%string.
Proof. intros. rewrite ser_obj_eq, !sapp_assoc. reflexivity. Qed.

Lemma mem_app : forall kv r,
  (mem kv ++ r)%string = (quote (fst kv) ++ String ":" (ser (snd kv) ++ r))%string.
Proof. intros. unfold mem. rewrite !sapp_assoc. reflexivity. Qed.

(** ------------------------------------------------------------------ *)
(** canonical form *)

Theorem canon_str : forall s s', canon (JStr s) = canon (JStr s') -> s = s'.
Proof. intros s s' H. cbn [canon] in H. injection H as H. exact H. Qed.

Theorem canon_idem : forall j, canon (canon j) = canon j.
Proof.
  induction j as [| | | |l IH|l IH] using json_ind'; try reflexivity.
  - rewrite !canon_arr_eq. f_equal. rewrite map_map. apply map_ext_in.
    rewrite Forall_forall in IH. exact IH.
  - rewrite canon_obj_eq, canon_obj_raw. f_equal.
    assert (E : map cg (map cg (sort_keys l)) = map cg (sort_keys l)).
    { rewrite map_map. apply map_ext_in. intros [k v] I. unfold cg; cbn [fst snd]. f_equal.
      rewrite Forall_forall in IH. apply (IH (k, v)).
      eapply Permutation_in; [apply sort_keys_perm|exact I]. }
    rewrite E. unfold cg. rewrite (sort_keys_map canon), sort_keys_idem. reflexivity.
Qed.

Theorem ser_canon : forall j, ser (canon j) = ser j.
Proof.
  induction j as [| | | |l IH|l IH] using json_ind'; try reflexivity.
  - rewrite canon_arr_eq, !ser_arr_eq. do 3 f_equal. rewrite map_map. apply map_ext_in.
    rewrite Forall_forall in IH. exact IH.
  - rewrite canon_obj_eq, !ser_obj_eq. do 3 f_equal.
    assert (E : map mem (sort_keys (map cg (sort_keys l))) = map mem (sort_keys l)).
    { unfold cg. rewrite (sort_keys_map canon), sort_keys_idem, map_map. apply map_ext_in.
      intros [k v] I. unfold mem; cbn [fst snd]. do 2 f_equal.
      rewrite Forall_forall in IH. apply (IH (k, v)).
      eapply Permutation_in; [apply sort_keys_perm|exact I]. }
    exact E.
Qed.

Theorem ser_perm : forall l l', NoDup (map fst l) -> Permutation l l' -> ser (JObj l) = ser (JObj l').
Proof.
  intros l l' N Pm. rewrite !ser_obj_eq, (sort_keys_perm_eq l l' N Pm). reflexivity.
Qed.

Theorem canon_obj_lookup : forall l l' k,
  NoDup (map fst l) -> NoDup (map fst l') -> canon (JObj l) = canon (JObj l') ->
  option_map canon (aget k l) = option_map canon (aget k l').
Proof.
  intros l l' k N N' H. rewrite !canon_obj_raw in H. injection H as H.
  rewrite <- !(aget_map canon).
  change (aget k (map cg l) = aget k (map cg l')).
  rewrite <- (aget_sort_keys k (map cg l)) by (unfold cg; rewrite map_fst_map; exact N).
  rewrite <- (aget_sort_keys k (map cg l')) by (unfold cg; rewrite map_fst_map; exact N').
  rewrite H. reflexivity.
Qed.

(** ------------------------------------------------------------------ *)
(** parsing a comma separated list element by element *)

Lemma join_comma_cons2 : forall a b l, join_comma (a :: b :: l) = (a ++ "," ++ join_comma (b :: l))%string.
Proof. reflexivity. Qed.

Definition jtail {A} (f : A -> string) (c : ascii) (xs : list A) (r : string) : string :=
  match xs with
  | [] => String c r
  | _ => String "," (join_comma (map f xs) ++ String c r)%string
  end.

Lemma join_cons : forall {A} (f : A -> string) c x xs r,
  (join_comma (map f (x :: xs)) ++ String c r)%string = (f x ++ jtail f c xs r)%string.
Proof.
  intros A f c x xs r. destruct xs as [|y ys]; [reflexivity|].
  cbn [map]. rewrite join_comma_cons2. unfold jtail. rewrite !sapp_assoc. reflexivity.
Qed.

Definition sepd (c : ascii) (r : string) : Prop :=
  match r with String d _ => d = ","%char \/ d = c | EmptyString => False end.

Lemma jtail_sepd : forall {A} (f : A -> string) c xs r, sepd c (jtail f c xs r).
Proof. intros A f c xs r. destruct xs; cbn [jtail sepd]; auto. Qed.

Lemma join_parse : forall {A} (f : A -> string) (R : A -> A -> Prop) (Q : A -> Prop) (c : ascii),
  c <> ","%char ->
  (forall y r, Q y -> exists d t, (f y ++ r)%string = String d t /\ d <> c) ->
  forall xs,
  Forall (fun x => forall y r r', Q x -> Q y -> sepd c r -> sepd c r' ->
                   (f x ++ r)%string = (f y ++ r')%string -> R x y /\ r = r') xs ->
  forall ys ra rb, Forall Q xs -> Forall Q ys ->
  (join_comma (map f xs) ++ String c ra)%string = (join_comma (map f ys) ++ String c rb)%string ->
  Forall2 R xs ys /\ ra = rb.
Proof.
  intros A f R Q c Hc Hstart xs. induction xs as [|x xs IH]; intros HF ys ra rb Qx Qy H.
  - destruct ys as [|y ys].
    + cbn [map join_comma append] in H. injection H as H. split; [constructor|exact H].
    + exfalso. rewrite join_cons in H. cbn [map join_comma append] in H.
      inversion Qy as [|? ? Qy1 _]; subst.
      destruct (Hstart y (jtail f c ys rb) Qy1) as (d & t & E & Hd). rewrite E in H.
      injection H as H1 _. congruence.
  - destruct ys as [|y ys].
    + exfalso. rewrite join_cons in H. cbn [map join_comma append] in H.
      inversion Qx as [|? ? Qx1 _]; subst.
      destruct (Hstart x (jtail f c xs ra) Qx1) as (d & t & E & Hd). rewrite E in H.
      injection H as H1 _. congruence.
    + rewrite !join_cons in H.
      inversion HF as [|? ? Hx HF']; subst.
      inversion Qx as [|? ? Qx1 Qx']; subst. inversion Qy as [|? ? Qy1 Qy']; subst.
      apply Hx in H; [|assumption|assumption|apply jtail_sepd|apply jtail_sepd].
      destruct H as [Rxy Ht].
      destruct xs as [|x' xs']; destruct ys as [|y' ys']; cbn [jtail] in Ht.
      * injection Ht as Ht. split; [constructor; [exact Rxy|constructor]|exact Ht].
      * exfalso. injection Ht as Ht _. apply Hc. exact Ht.
      * exfalso. injection Ht as Ht _. apply Hc. symmetry. exact Ht.
      * injection Ht as Ht. destruct (IH HF' (y' :: ys') ra rb Qx' Qy' Ht) as [F2 Er]. split; [constructor; assumption|exact Er].
Qed.

(** ------------------------------------------------------------------ *)
(** first characters *)

Definition num_start (d : ascii) : bool :=
  let n := nat_of_ascii d in (Nat.leb 48 n && Nat.leb n 57) || Nat.eqb n 45.

Definition kind_of_char (d : ascii) : nat :=
  if num_start d then 3
  else if Ascii.eqb d "n" then 0
  else if Ascii.eqb d "t" then 1
  else if Ascii.eqb d "f" then 2
  else if Ascii.eqb d "034" then 4
  else if Ascii.eqb d "[" then 5
  else if Ascii.eqb d "{" then 6
  else 7.

Definition kind (j : json) : nat :=
  match j with
  | JNull => 0 | JBool true => 1 | JBool false => 2 | JNum _ => 3 | JStr _ => 4 | JArr _ => 5 | JObj _ => 6
  end.

Lemma kind_ne7 : forall j, kind j <> 7.
Proof. intros [|[]| | | |]; cbn [kind]; discriminate. Qed.

Lemma num_ok_cons : forall a t, num_ok (String a t) = num_start a && all_chars num_char (String a t).
Proof. reflexivity. Qed.

Lemma ser_head : forall j r, wf_json j = true ->
  exists d t, (ser j ++ r)%string = String d t /\ kind_of_char d = kind j.
Proof.
  intros j r W. destruct j as [|[]|t|s|l|l].
  - eexists _, _. split; reflexivity.
  - eexists _, _. split; reflexivity.
  - eexists _, _. split; reflexivity.
  - cbn [wf_json] in W. destruct t as [|a t]; [discriminate|].
    rewrite num_ok_cons in W. apply andb_prop in W. destruct W as [W1 _].
    exists a, (t ++ r)%string. split; [reflexivity|]. unfold kind_of_char. rewrite W1. reflexivity.
  - cbn [ser]. rewrite quote_app. eexists _, _. split; reflexivity.
  - rewrite ser_arr. eexists _, _. split; reflexivity.
  - rewrite ser_obj. eexists _, _. split; reflexivity.
Qed.

Lemma same_kind : forall a b ra rb, wf_json a = true -> wf_json b = true ->
  (ser a ++ ra)%string = (ser b ++ rb)%string -> kind a = kind b.
Proof.
  intros a b ra rb Wa Wb H.
  destruct (ser_head a ra Wa) as (d & t & E & K). destruct (ser_head b rb Wb) as (d' & t' & E' & K').
  rewrite E, E' in H. injection H as -> _. congruence.
Qed.

(** ------------------------------------------------------------------ *)
(** unique decodability in context *)

Definition delim (r : string) : Prop :=
  match r with EmptyString => True | String a _ => num_char a = false end.

Lemma sepd_delim : forall c r, num_char c = false -> sepd c r -> delim r.
Proof.
  intros c r Hc S. destruct r as [|d r]; [destruct S|]. cbn [sepd] in S. cbn [delim].
  destruct S as [->| ->]; [reflexivity|exact Hc].
Qed.

Lemma num_ctx : forall t t' ra rb,
  all_chars num_char t = true -> all_chars num_char t' = true -> delim ra -> delim rb ->
  (t ++ ra)%string = (t' ++ rb)%string -> t = t' /\ ra = rb.
Proof.
  induction t as [|a t IH]; destruct t' as [|b t']; intros ra rb A A' Da Db H; cbn [append] in H.
  - auto.
  - exfalso. subst ra. cbn [delim] in Da. cbn [all_chars] in A'. apply andb_prop in A'. destruct A' as [A' _]. congruence.
  - exfalso. subst rb. cbn [delim] in Db. cbn [all_chars] in A. apply andb_prop in A. destruct A as [A _]. congruence.
  - injection H as -> H. cbn [all_chars] in A, A'. apply andb_prop in A. apply andb_prop in A'.
    destruct A as [_ A]. destruct A' as [_ A'].
    destruct (IH t' ra rb A A' Da Db H) as [-> ->]. auto.
Qed.

Lemma num_ok_all : forall t, num_ok t = true -> all_chars num_char t = true.
Proof. intros [|a t] H; [discriminate|]. rewrite num_ok_cons in H. apply andb_prop in H. tauto. Qed.

Lemma Forall2_canon : forall xs ys, Forall2 (fun x y => canon x = canon y) xs ys -> map canon xs = map canon ys.
Proof. induction 1 as [|x y xs ys E _ IH]; cbn [map]; [reflexivity|]. rewrite E, IH. reflexivity. Qed.

Lemma Forall2_cg : forall xs ys,
  Forall2 (fun x y : string * json => fst x = fst y /\ canon (snd x) = canon (snd y)) xs ys -> map cg xs = map cg ys.
Proof.
  induction 1 as [|x y xs ys [E1 E2] _ IH]; cbn [map]; [reflexivity|]. unfold cg at 1 3. rewrite E1, E2, IH. reflexivity.
Qed.

Definition PF (a : json) : Prop :=
  forall b ra rb, wf_json a = true -> wf_json b = true -> delim ra -> delim rb ->
  (ser a ++ ra)%string = (ser b ++ rb)%string -> canon a = canon b /\ ra = rb.

Lemma PF_all : forall a, PF a.
Proof.
  induction a as [|b0|t|s|l IH|l IH] using json_ind'; intros b ra rb Wa Wb Da Db H;
    pose proof (same_kind _ _ _ _ Wa Wb H) as K.
  - destruct b as [|[]|t'|s'|l'|l']; cbn [kind] in K; try discriminate K.
    cbn in H. injection H as H. auto.
  - destruct b0; destruct b as [|[]|t'|s'|l'|l']; cbn [kind] in K; try discriminate K;
      cbn in H; injection H as H; auto.
  - destruct b as [|[]|t'|s'|l'|l']; cbn [kind] in K; try discriminate K.
    cbn [ser wf_json] in *. apply num_ok_all in Wa. apply num_ok_all in Wb.
    destruct (num_ctx _ _ _ _ Wa Wb Da Db H) as [-> ->]. auto.
  - destruct b as [|[]|t'|s'|l'|l']; cbn [kind] in K; try discriminate K.
    cbn [ser] in H. apply quote_prefix_free in H. destruct H as [-> ->]. auto.
  - destruct b as [|[]|t'|s'|l'|l']; cbn [kind] in K; try discriminate K.
    rewrite !ser_arr in H. injection H as H.
    cbn [wf_json] in Wa, Wb. rewrite forallb_forall in Wa, Wb.
    apply (join_parse ser (fun x y => canon x = canon y) (fun x => wf_json x = true)) in H.
    + destruct H as [F2 ->]. rewrite !canon_arr_eq, (Forall2_canon _ _ F2). auto.
    + discriminate.
    + intros y r Wy. destruct (ser_head y r Wy) as (d & t & E & Kd). exists d, t. split; [exact E|].
      intros ->. apply (kind_ne7 y). rewrite <- Kd. reflexivity.
    + eapply Forall_impl; [|exact IH]. intros x Px y r r' Wx Wy Sr Sr' E.
      apply Px; try assumption; eapply sepd_delim; try eassumption; reflexivity.
    + apply Forall_forall. exact Wa.
    + apply Forall_forall. exact Wb.
  - destruct b as [|[]|t'|s'|l'|l']; cbn [kind] in K; try discriminate K.
    rewrite !ser_obj in H. injection H as H.
    cbn [wf_json] in Wa, Wb. apply andb_prop in Wa. apply andb_prop in Wb.
    destruct Wa as [_ Wa]. destruct Wb as [_ Wb]. rewrite forallb_forall in Wa, Wb.
    apply (join_parse mem (fun x y => fst x = fst y /\ canon (snd x) = canon (snd y))
                      (fun kv => wf_json (snd kv) = true)) in H.
    + destruct H as [F2 ->]. rewrite !canon_obj_eq, (Forall2_cg _ _ F2). auto.
    + discriminate.
    + intros y r _. rewrite mem_app, quote_app. eexists _, _. split; [reflexivity|discriminate].
    + apply Forall_forall. intros x Ix.
      assert (Px : PF (snd x)).
      { rewrite Forall_forall in IH. apply IH. eapply Permutation_in; [apply sort_keys_perm|exact Ix]. }
      intros y r r' Wx Wy Sr Sr' E. rewrite !mem_app in E. apply quote_prefix_free in E.
      destruct E as [Ek E]. injection E as E. split; [|]. 
      * split; [exact Ek|]. apply (Px (snd y) r r'); try assumption; eapply sepd_delim; try eassumption; reflexivity.
      * apply (Px (snd y) r r'); try assumption; eapply sepd_delim; try eassumption; reflexivity.
    + apply Forall_forall. intros x Ix. apply Wa. eapply Permutation_in; [apply sort_keys_perm|exact Ix].
    + apply Forall_forall. intros x Ix. apply Wb. eapply Permutation_in; [apply sort_keys_perm|exact Ix].
Qed.

Theorem ser_prefix_free : forall a b ra rb,
  wf_json a = true -> wf_json b = true -> delim ra -> delim rb ->
  (ser a ++ ra)%string = (ser b ++ rb)%string -> canon a = canon b /\ ra = rb.
Proof. intros a b ra rb. apply PF_all. Qed.

Theorem ser_injective : forall a b, wf_json a = true -> wf_json b = true -> ser a = ser b -> canon a = canon b.
Proof.
  intros a b Wa Wb H.
  destruct (ser_prefix_free a b "" "" Wa Wb I I) as [E _]; [rewrite H; reflexivity|exact E].
Qed.

Print Assumptions ser_injective.
Print Assumptions ser_perm.
