(** "Parse then marshal loses nothing": every key of an input mapping that the
    schema does not name survives marshalling exactly once with its value
    unchanged, at every struct level (Model/Pipeline.v + Model/Marshal.v). *)
From Coq Require Import String List Ascii Bool Arith Lia ZArith NArith Permutation Sorted.
From GP Require Import Base.Sexp Model.Gv Model.Decode Model.Kinds Model.Plugin Model.Pipeline Model.Marshal Gen.Structs.
Import ListNotations.
Local Open Scope string_scope.

Definition members (j : json) : list (string * json) := match j with JObj l => l | _ => [] end.

(** ------------------------------------------------------------------ *)
(** String.leb is a total preorder *)

Lemma string_compare_trans_le : forall a b c,
  String.compare a b <> Gt -> String.compare b c <> Gt -> String.compare a c <> Gt.
Proof.
  induction a as [|x a IH]; intros b c Hab Hbc.
  - destruct c; cbn; discriminate.
  - destruct b as [|y b]; [cbn in Hab; congruence|].
    destruct c as [|z c]; [cbn in Hbc; congruence|].
    cbn [String.compare] in *.
    unfold Ascii.compare in *.
    destruct (N.compare_spec (N_of_ascii x) (N_of_ascii y)) as [Exy|Lxy|Gxy];
      [| |congruence].
    + destruct (N.compare_spec (N_of_ascii y) (N_of_ascii z)) as [Eyz|Lyz|Gyz];
        [| |congruence].
      * rewrite Exy, Eyz, N.compare_refl. eapply IH; eassumption.
      * rewrite Exy. apply N.compare_lt_iff in Lyz. rewrite Lyz. discriminate.
    + destruct (N.compare_spec (N_of_ascii y) (N_of_ascii z)) as [Eyz|Lyz|Gyz];
        [| |congruence].
      * rewrite <- Eyz. apply N.compare_lt_iff in Lxy. rewrite Lxy. discriminate.
      * assert (L : (N_of_ascii x < N_of_ascii z)%N) by lia.
        apply N.compare_lt_iff in L. rewrite L. discriminate.
Qed.

Lemma leb_iff_not_gt : forall a b, String.leb a b = true <-> String.compare a b <> Gt.
Proof.
  intros a b. unfold String.leb. destruct (String.compare a b); split; intros; congruence.
Qed.

Lemma string_leb_trans : forall a b c,
  String.leb a b = true -> String.leb b c = true -> String.leb a c = true.
Proof.
  intros a b c H1 H2. apply leb_iff_not_gt in H1. apply leb_iff_not_gt in H2.
  apply leb_iff_not_gt. eapply string_compare_trans_le; eassumption.
Qed.

Lemma string_leb_false_flip : forall a b, String.leb a b = false -> String.leb b a = true.
Proof.
  intros a b H. destruct (String.leb_total a b) as [T|T]; [congruence|exact T].
Qed.

(** ------------------------------------------------------------------ *)
(** association lists *)

Section Alist.
  Context {T : Type}.
  Implicit Types (l : list (string * T)) (k : string) (v : T).

  Lemma aget_aset : forall k k' v l,
    aget k (aset k' v l) = if String.eqb k k' then Some v else aget k l.
  Proof.
    intros k k' v l. induction l as [|[k0 v0] r IH]; cbn [aset aget].
    - destruct (String.eqb_spec k k'); reflexivity.
    - destruct (String.eqb_spec k' k0) as [E|N]; cbn [aget].
      + subst k0. destruct (String.eqb_spec k k'); reflexivity.
      + destruct (String.eqb_spec k k0) as [E0|N0].
        * subst k0. destruct (String.eqb_spec k k'); [congruence|reflexivity].
        * exact IH.
  Qed.

  Lemma aset_keys : forall k k' v l,
    In k (map fst (aset k' v l)) <-> k = k' \/ In k (map fst l).
  Proof.
    intros k k' v l. induction l as [|[k0 v0] r IH]; cbn [aset map fst In].
    - intuition.
    - destruct (String.eqb_spec k' k0) as [E|N]; cbn [map fst In].
      + subst k0. intuition.
      + rewrite IH. intuition.
  Qed.

  Lemma aset_nodup : forall k v l, NoDup (map fst l) -> NoDup (map fst (aset k v l)).
  Proof.
    intros k v l. induction l as [|[k0 v0] r IH]; cbn [aset map fst]; intros H.
    - constructor; [intros []|constructor].
    - destruct (String.eqb_spec k k0) as [E|N]; cbn [map fst].
      + subst k0. exact H.
      + inversion H as [|? ? Hn Hr]; subst. constructor.
        * rewrite aset_keys. intros [E|I]; [congruence|contradiction].
        * apply IH. exact Hr.
  Qed.

  Lemma aget_none : forall k l, ~ In k (map fst l) -> aget k l = None.
  Proof.
    intros k l. induction l as [|[k0 v0] r IH]; cbn [aget map fst In]; intros H.
    - reflexivity.
    - destruct (String.eqb_spec k k0) as [E|N].
      + exfalso. apply H. left. congruence.
      + apply IH. intros I. apply H. right. exact I.
  Qed.

  Lemma aget_some_in : forall k v l, aget k l = Some v -> In (k, v) l.
  Proof.
    intros k v l. induction l as [|[k0 v0] r IH]; cbn [aget In]; intros H.
    - discriminate.
    - destruct (String.eqb_spec k k0) as [E|N].
      + left. congruence.
      + right. apply IH. exact H.
  Qed.

  Lemma in_aget : forall k v l, NoDup (map fst l) -> In (k, v) l -> aget k l = Some v.
  Proof.
    intros k v l. induction l as [|[k0 v0] r IH]; cbn [aget In map fst]; intros N H.
    - destruct H.
    - inversion N as [|? ? Hn Hr]; subst.
      destruct H as [E|I].
      + inversion E; subst. rewrite String.eqb_refl. reflexivity.
      + destruct (String.eqb_spec k k0) as [E|N0].
        * subst k0. exfalso. apply Hn. apply (in_map fst) in I. exact I.
        * apply IH; assumption.
  Qed.

  Lemma aget_perm : forall k l l', Permutation l l' -> NoDup (map fst l) -> aget k l = aget k l'.
  Proof.
    intros k l l' P N.
    assert (N' : NoDup (map fst l')).
    { eapply Permutation_NoDup; [apply Permutation_map; exact P|exact N]. }
    destruct (aget k l) as [v|] eqn:E.
    - symmetry. apply in_aget; [exact N'|].
      eapply Permutation_in; [exact P|]. apply aget_some_in. exact E.
    - destruct (aget k l') as [v|] eqn:E'; [|reflexivity].
      apply aget_some_in in E'.
      assert (I : In (k, v) l) by (eapply Permutation_in; [apply Permutation_sym; exact P|exact E']).
      rewrite (in_aget _ _ _ N I) in E. discriminate.
  Qed.

  (** sort_keys *)
  Lemma ins_sorted_perm : forall k v l, Permutation (ins_sorted k v l) ((k, v) :: l).
  Proof.
    intros k v l. induction l as [|[k0 v0] r IH]; cbn [ins_sorted].
    - apply Permutation_refl.
    - destruct (String.leb k k0).
      + apply Permutation_refl.
      + eapply Permutation_trans; [apply perm_skip; exact IH|apply perm_swap].
  Qed.

  Lemma sort_keys_perm : forall l, Permutation (sort_keys l) l.
  Proof.
    induction l as [|[k v] r IH]; cbn [sort_keys fold_right fst snd].
    - apply Permutation_refl.
    - eapply Permutation_trans; [apply ins_sorted_perm|]. apply perm_skip. exact IH.
  Qed.

  Lemma sort_keys_keys_perm : forall l, Permutation (map fst (sort_keys l)) (map fst l).
  Proof. intros l. apply Permutation_map. apply sort_keys_perm. Qed.

  Lemma sort_keys_nodup : forall l, NoDup (map fst l) -> NoDup (map fst (sort_keys l)).
  Proof.
    intros l N. eapply Permutation_NoDup; [apply Permutation_sym; apply sort_keys_keys_perm|exact N].
  Qed.

  Lemma sort_keys_in : forall k l, In k (map fst (sort_keys l)) <-> In k (map fst l).
  Proof.
    intros k l. split; apply Permutation_in;
      [apply sort_keys_keys_perm|apply Permutation_sym; apply sort_keys_keys_perm].
  Qed.

  Lemma aget_sort_keys : forall k l, NoDup (map fst l) -> aget k (sort_keys l) = aget k l.
  Proof.
    intros k l N. symmetry. apply aget_perm; [apply Permutation_sym; apply sort_keys_perm|exact N].
  Qed.

  Definition sle (a b : string) : Prop := String.leb a b = true.

  Lemma ins_sorted_sorted : forall k v l,
    StronglySorted sle (map fst l) -> StronglySorted sle (map fst (ins_sorted k v l)).
  Proof.
    intros k v l. induction l as [|[k0 v0] r IH]; cbn [ins_sorted map fst]; intros S.
    - constructor; [constructor|constructor].
    - inversion S as [|? ? Sr Fr]; subst.
      destruct (String.leb k k0) eqn:L; cbn [map fst].
      + constructor; [exact S|]. constructor; [exact L|].
        eapply Forall_impl; [|exact Fr]. intros x Hx. eapply string_leb_trans; eassumption.
      + constructor; [apply IH; exact Sr|].
        apply Forall_forall. intros x Hx.
        assert (Hx' : In x (map fst ((k, v) :: r))).
        { eapply Permutation_in; [apply Permutation_map; apply ins_sorted_perm|exact Hx]. }
        cbn [map fst In] in Hx'. destruct Hx' as [<-|Hx'].
        * apply string_leb_false_flip. exact L.
        * rewrite Forall_forall in Fr. apply Fr. exact Hx'.
  Qed.

  Lemma sort_keys_sorted : forall l, StronglySorted sle (map fst (sort_keys l)).
  Proof.
    induction l as [|[k v] r IH]; cbn [sort_keys fold_right fst snd].
    - constructor.
    - apply ins_sorted_sorted. exact IH.
  Qed.
End Alist.

(** fold_left of aset: last write wins *)
Section FoldAset.
  Context {A B : Type} (g : A -> B).
  Let step := fun (acc : list (string * B)) (kv : string * A) => aset (fst kv) (g (snd kv)) acc.

  Lemma fold_aset_nodup : forall l acc,
    NoDup (map fst acc) -> NoDup (map fst (fold_left step l acc)).
  Proof.
    induction l as [|[k v] r IH]; intros acc N; cbn [fold_left].
    - exact N.
    - apply IH. apply aset_nodup. exact N.
  Qed.

  Lemma fold_aset_keys : forall k l acc,
    In k (map fst (fold_left step l acc)) <-> In k (map fst l) \/ In k (map fst acc).
  Proof.
    intros k. induction l as [|[k0 v0] r IH]; intros acc; cbn [fold_left map fst In].
    - intuition.
    - rewrite IH. unfold step. cbn [fst snd]. rewrite aset_keys. intuition.
  Qed.

  Lemma fold_aset_get_notin : forall k l acc,
    ~ In k (map fst l) -> aget k (fold_left step l acc) = aget k acc.
  Proof.
    intros k. induction l as [|[k0 v0] r IH]; intros acc H; cbn [fold_left].
    - reflexivity.
    - cbn [map fst In] in H. rewrite IH by (intros I; apply H; right; exact I).
      unfold step. cbn [fst snd]. rewrite aget_aset.
      destruct (String.eqb_spec k k0) as [E|N]; [exfalso; apply H; left; congruence|reflexivity].
  Qed.

  Lemma fold_aset_get : forall k l acc,
    NoDup (map fst l) ->
    aget k (fold_left step l acc) =
      match aget k l with Some v => Some (g v) | None => aget k acc end.
  Proof.
    intros k. induction l as [|[k0 v0] r IH]; intros acc N; cbn [fold_left aget].
    - reflexivity.
    - cbn [map fst] in N. inversion N as [|? ? Hn Hr]; subst.
      destruct (String.eqb_spec k k0) as [E|Ne].
      + subst k0. rewrite fold_aset_get_notin by exact Hn.
        unfold step. cbn [fst snd]. rewrite aget_aset, String.eqb_refl. reflexivity.
      + rewrite IH by exact Hr. destruct (aget k r); [reflexivity|].
        unfold step. cbn [fst snd]. rewrite aget_aset.
        destruct (String.eqb_spec k k0); [congruence|reflexivity].
  Qed.
End FoldAset.

(** ------------------------------------------------------------------ *)
(** inlineFriendlyMarshalJSON *)

Definition idj (x : json) : json := x.
Definition if_merge (outline : list (string * json)) (inline : list (string * gv)) : list (string * json) :=
  fold_left (fun acc kv => aset (fst kv) (idj (snd kv)) acc) outline
            (fold_left (fun acc kv => aset (fst kv) (gv_json (snd kv)) acc) inline []).

Lemma inline_friendly_eq : forall outline inline,
  members (inline_friendly outline inline) = sort_keys (if_merge outline inline).
Proof. reflexivity. Qed.

Lemma if_merge_nodup : forall outline inline, NoDup (map fst (if_merge outline inline)).
Proof.
  intros. unfold if_merge. apply fold_aset_nodup. apply fold_aset_nodup. constructor.
Qed.

Lemma inline_friendly_lookup_gen : forall outline inline k,
  NoDup (map fst inline) ->
  aget k (members (inline_friendly outline inline)) =
    match (if existsb (String.eqb k) (map fst outline) then aget k (if_merge outline inline) else None) with
    | Some j => Some j
    | None => option_map gv_json (aget k inline)
    end.
Proof.
  intros outline inline k Ni.
  rewrite inline_friendly_eq, aget_sort_keys by apply if_merge_nodup.
  destruct (existsb (String.eqb k) (map fst outline)) eqn:E.
  - destruct (aget k (if_merge outline inline)) eqn:G; [reflexivity|].
    exfalso. apply existsb_exists in E. destruct E as (x & Hx & Ex).
    apply String.eqb_eq in Ex. subst x.
    assert (I : In k (map fst (if_merge outline inline))).
    { unfold if_merge. apply fold_aset_keys. left. exact Hx. }
    apply in_map_iff in I. destruct I as ([k' j] & Ek & I). cbn in Ek. subst k'.
    rewrite (in_aget _ _ _ (if_merge_nodup _ _) I) in G. discriminate.
  - unfold if_merge. rewrite fold_aset_get_notin.
    + rewrite fold_aset_get by exact Ni. cbn [aget]. destruct (aget k inline); reflexivity.
    + intros I. assert (X : existsb (String.eqb k) (map fst outline) = true).
      { apply existsb_exists. exists k. split; [exact I|apply String.eqb_refl]. }
      congruence.
Qed.

(** a key the outline does not have comes from the inline map *)
Lemma inline_friendly_lookup_notin : forall outline inline k,
  ~ In k (map fst outline) -> NoDup (map fst inline) ->
  aget k (members (inline_friendly outline inline)) = option_map gv_json (aget k inline).
Proof.
  intros outline inline k Hn Ni.
  rewrite inline_friendly_eq, aget_sort_keys by apply if_merge_nodup.
  unfold if_merge. rewrite fold_aset_get_notin by exact Hn.
  rewrite fold_aset_get by exact Ni. cbn [aget]. destruct (aget k inline); reflexivity.
Qed.

(* inlineFriendlyMarshalJSON: typed fields win over inline ones; every key appears exactly once; keys sorted *)
Theorem inline_friendly_lookup : forall outline inline k,
  NoDup (map fst outline) -> NoDup (map fst inline) ->
  aget k (members (inline_friendly outline inline)) =
    match aget k outline with
    | Some j => Some j
    | None => option_map gv_json (aget k inline)
    end.
Proof.
  intros outline inline k No Ni.
  rewrite inline_friendly_eq, aget_sort_keys by apply if_merge_nodup.
  unfold if_merge. rewrite fold_aset_get by exact No.
  destruct (aget k outline); [reflexivity|].
  rewrite fold_aset_get by exact Ni. cbn [aget]. destruct (aget k inline); reflexivity.
Qed.

Theorem inline_friendly_nodup : forall outline inline,
  NoDup (map fst (members (inline_friendly outline inline))).
Proof.
  intros. rewrite inline_friendly_eq. apply sort_keys_nodup. apply if_merge_nodup.
Qed.

Theorem inline_friendly_keys : forall outline inline k,
  In k (map fst (members (inline_friendly outline inline))) <-> In k (map fst outline) \/ In k (map fst inline).
Proof.
  intros. rewrite inline_friendly_eq, sort_keys_in. unfold if_merge.
  rewrite fold_aset_keys, fold_aset_keys. cbn [map In]. intuition.
Qed.

Theorem inline_friendly_sorted : forall outline inline,
  StronglySorted (fun a b => String.leb a b = true) (map fst (members (inline_friendly outline inline))).
Proof.
  intros. rewrite inline_friendly_eq. apply (sort_keys_sorted (if_merge outline inline)).
Qed.

(** ------------------------------------------------------------------ *)
(** partition_keys: what a struct descriptor can consume *)

Definition consumed (fields : list field_row) (m : list (string * gv)) : list string :=
  map (fun a : field_row * string * gv => snd (fst a)) (fst (fst (assign_fields fields m))).

Lemma leftover_eq : forall fields m,
  leftover (partition_keys fields m) =
  filter (fun kv => negb (existsb (String.eqb (fst kv)) (consumed fields m))) m.
Proof.
  intros. unfold partition_keys, consumed.
  destruct (assign_fields fields m) as [[asg inf] multi]. reflexivity.
Qed.

Definition nonempty (a : string) : bool := negb (String.eqb a "").

(** the keys a descriptor answers to: primary keys and non-empty aliases of keyed fields *)
Definition key_bound (fields : list field_row) : list string :=
  flat_map (fun r => match classify r with
                     | FKeyed => primary_key r :: filter nonempty (split_comma (row_aliases r))
                     | _ => []
                     end) fields.

Lemma first_alias_in : forall al m k v, first_alias al m = Some (k, v) -> In k (filter nonempty al).
Proof.
  induction al as [|a r IH]; intros m k v H; cbn [first_alias filter] in *.
  - discriminate.
  - unfold nonempty at 1. destruct (String.eqb a "") eqn:E; cbn [negb].
    + eapply IH. exact H.
    + destruct (aget a m) as [v'|].
      * inversion H; subst. left. reflexivity.
      * right. eapply IH. exact H.
Qed.

Lemma consumed_bound : forall fields m k, In k (consumed fields m) -> In k (key_bound fields).
Proof.
  induction fields as [|r rest IH]; intros m k H.
  - destruct H.
  - unfold consumed in H. cbn [assign_fields] in H.
    specialize (IH m k). unfold consumed in IH.
    destruct (assign_fields rest m) as [[asg inf] multi].
    cbn [key_bound flat_map]. apply in_or_app.
    destruct (classify r).
    + right. apply IH. exact H.
    + right. apply IH. exact H.
    + destruct (field_lookup r m) as [[k' v']|] eqn:F.
      * cbn [fst snd map In] in H. destruct H as [<-|H]; [left|right; apply IH; exact H].
        unfold field_lookup in F. destruct (aget (primary_key r) m).
        -- inversion F; subst. left. reflexivity.
        -- right. eapply first_alias_in. exact F.
      * right. apply IH. exact H.
Qed.

Lemma in_leftover : forall fields m k v,
  In (k, v) m -> ~ In k (key_bound fields) -> In (k, v) (leftover (partition_keys fields m)).
Proof.
  intros fields m k v I Hn. rewrite leftover_eq. apply filter_In. split; [exact I|].
  cbn [fst]. destruct (existsb (String.eqb k) (consumed fields m)) eqn:E; [|reflexivity].
  exfalso. apply existsb_exists in E. destruct E as (x & Hx & Ex).
  apply String.eqb_eq in Ex. subst x. apply Hn. eapply consumed_bound. exact Hx.
Qed.

Lemma nodup_map_filter : forall {A B} (f : A -> B) p (l : list A),
  NoDup (map f l) -> NoDup (map f (filter p l)).
Proof.
  intros A B f p l. induction l as [|x r IH]; cbn [map filter]; intros N.
  - constructor.
  - inversion N as [|? ? Hn Hr]; subst. destruct (p x); cbn [map].
    + constructor; [|apply IH; exact Hr].
      intros I. apply Hn. apply in_map_iff in I. destruct I as (y & Ey & Iy).
      apply filter_In in Iy. apply in_map_iff. exists y. tauto.
    + apply IH. exact Hr.
Qed.

Lemma leftover_nodup : forall fields m,
  NoDup (map fst m) -> NoDup (map fst (leftover (partition_keys fields m))).
Proof. intros. rewrite leftover_eq. apply nodup_map_filter. assumption. Qed.

(** the core step: an unnamed key of m reaches the marshalled object through the leftover *)
Lemma survive_core : forall fields m outline k v,
  NoDup (map fst m) -> In (k, v) m -> ~ In k (key_bound fields) -> ~ In k (map fst outline) ->
  aget k (members (inline_friendly outline (leftover (partition_keys fields m)))) = Some (gv_json v).
Proof.
  intros fields m outline k v N I Hb Ho.
  rewrite inline_friendly_lookup_notin; [|exact Ho|apply leftover_nodup; exact N].
  rewrite (in_aget k v); [reflexivity|apply leftover_nodup; exact N|apply in_leftover; assumption].
Qed.

(** closed descriptors *)
Lemma kb_command_outer : key_bound struct_CommandStep_UnmarshalOrdered_anon0 = ["commands"; "command"].
Proof. vm_compute. reflexivity. Qed.
Lemma kb_command : key_bound struct_CommandStep =
  ["key"; "id"; "identifier"; "label"; "name"; "command"; "plugins"; "env"; "signature"; "matrix"; "cache"].
Proof. vm_compute. reflexivity. Qed.
Lemma kb_pipeline : key_bound struct_Pipeline = ["steps"; "env"].
Proof. vm_compute. reflexivity. Qed.
Lemma kb_group : key_bound struct_GroupStep = ["key"; "id"; "identifier"; "group"; "label"; "name"; "steps"].
Proof. vm_compute. reflexivity. Qed.
Lemma kb_matrix : key_bound struct_Matrix = ["setup"; "adjustments"].
Proof. vm_compute. reflexivity. Qed.
Lemma kb_cache : key_bound struct_Cache = ["disabled"; "name"; "paths"; "size"].
Proof. vm_compute. reflexivity. Qed.

(** literal membership helpers *)
Ltac in_lit := cbn [In]; repeat (first [left; reflexivity | right]).
(* X : In k [literal list]  |-  In k [literal superset] *)
Ltac lit_incl X := cbn [In] in X; repeat (destruct X as [<-|X]; [in_lit|]); destruct X.

Lemma oe_in : forall c k' v k, In k (map fst (oe c k' v)) -> k = k'.
Proof. intros c k' v k H. unfold oe in H. destruct c; cbn in H; [destruct H|]. destruct H as [<-|[]]. reflexivity. Qed.

(** bind chains *)
Lemma bind_ok : forall {T U} (r : res T) (f : T -> res U) y w,
  bind r f = Ok y w -> exists x w1 w2, r = Ok x w1 /\ f x = Ok y w2.
Proof.
  intros T U r f y w H. unfold bind in H. destruct r as [x w1|]; [|discriminate].
  destruct (f x) as [y' w2|] eqn:F; [|discriminate]. inversion H; subst. eauto.
Qed.

Ltac binv H :=
  repeat (apply bind_ok in H; destruct H as (? & ? & ? & _ & H); cbv beta in H).

(** ------------------------------------------------------------------ *)
(** command steps *)

(* keys the command-step schema names (both partitions in CommandStep.UnmarshalOrdered) *)
Definition command_schema_keys : list string :=
  ["commands"; "command"; "key"; "id"; "identifier"; "label"; "name"; "plugins"; "env"; "signature"; "matrix"; "cache"].

Lemma unm_command_rem : forall m c w, unm_command m = Ok c w ->
  cs_rem c = leftover (partition_keys struct_CommandStep
               (leftover (partition_keys struct_CommandStep_UnmarshalOrdered_anon0 m))).
Proof.
  intros m c w H. unfold unm_command in H. cbv zeta in H. binv H.
  unfold ret in H. inversion H; subst. reflexivity.
Qed.

Definition command_outline (c : command_step) : list (string * json) :=
  (oe (String.eqb (cs_key c) "") "key" (JStr (cs_key c))
       ++ oe (String.eqb (cs_label c) "") "label" (JStr (cs_label c))
       ++ [("command", JStr (cs_command c))]
       ++ oe (match cs_plugins c with [] => true | _ => false end) "plugins" (JArr (map mj_plugin (cs_plugins c)))
       ++ oe (match cs_env c with [] => true | _ => false end) "env" (mj_map_ss (cs_env c))
       ++ match cs_sig c with Some s => [("signature", mj_sig s)] | None => [] end
       ++ match cs_matrix c with Some m => [("matrix", mj_matrix m)] | None => [] end
       ++ match cs_cache c with Some x => [("cache", mj_cache x)] | None => [] end)%list.

Lemma mj_command_eq : forall c, mj_command c = inline_friendly (command_outline c) (cs_rem c).
Proof. reflexivity. Qed.

Definition command_tail (c : command_step) : list (string * json) :=
  (oe (match cs_plugins c with [] => true | _ => false end) "plugins" (JArr (map mj_plugin (cs_plugins c)))
       ++ oe (match cs_env c with [] => true | _ => false end) "env" (mj_map_ss (cs_env c))
       ++ match cs_sig c with Some s => [("signature", mj_sig s)] | None => [] end
       ++ match cs_matrix c with Some m => [("matrix", mj_matrix m)] | None => [] end
       ++ match cs_cache c with Some x => [("cache", mj_cache x)] | None => [] end)%list.

Lemma command_tail_keys : forall c k, In k (map fst (command_tail c)) ->
  In k ["plugins"; "env"; "signature"; "matrix"; "cache"].
Proof.
  intros c k H. unfold command_tail in H.
  repeat rewrite map_app in H. repeat rewrite in_app_iff in H.
  destruct H as [H|[H|[H|[H|H]]]].
  - apply oe_in in H. subst. in_lit.
  - apply oe_in in H. subst. in_lit.
  - destruct (cs_sig c); cbn in H; [destruct H as [<-|[]]; in_lit|destruct H].
  - destruct (cs_matrix c); cbn in H; [destruct H as [<-|[]]; in_lit|destruct H].
  - destruct (cs_cache c); cbn in H; [destruct H as [<-|[]]; in_lit|destruct H].
Qed.

Lemma command_outline_split : forall c,
  command_outline c =
  ((oe (String.eqb (cs_key c) "") "key" (JStr (cs_key c))
       ++ oe (String.eqb (cs_label c) "") "label" (JStr (cs_label c)))
   ++ ("command", JStr (cs_command c)) :: command_tail c)%list.
Proof. intros c. unfold command_outline, command_tail. rewrite <- app_assoc. reflexivity. Qed.

Lemma command_outline_keys : forall c k, In k (map fst (command_outline c)) ->
  In k ["key"; "label"; "command"; "plugins"; "env"; "signature"; "matrix"; "cache"].
Proof.
  intros c k H. rewrite command_outline_split in H.
  repeat rewrite map_app in H. repeat rewrite in_app_iff in H. cbn [map fst In] in H.
  destruct H as [[H|H]|[H|H]].
  - apply oe_in in H. subst. in_lit.
  - apply oe_in in H. subst. in_lit.
  - subst. in_lit.
  - apply command_tail_keys in H. lit_incl H.
Qed.

Theorem command_unknown_keys_survive : forall m c w k v,
  NoDup (map fst m) -> unm_command m = Ok c w -> In (k, v) m -> ~ In k command_schema_keys ->
  aget k (members (mj_command c)) = Some (gv_json v).
Proof.
  intros m c w k v N H I Hs.
  rewrite mj_command_eq, (unm_command_rem _ _ _ H).
  apply survive_core.
  - apply leftover_nodup. exact N.
  - apply in_leftover; [exact I|]. rewrite kb_command_outer. intros X. apply Hs.
    unfold command_schema_keys. lit_incl X.
  - rewrite kb_command. intros X. apply Hs. unfold command_schema_keys. lit_incl X.
  - intros X. apply command_outline_keys in X. apply Hs. unfold command_schema_keys. lit_incl X.
Qed.

(* and the marshalled command step has each key once *)
Theorem command_members_nodup : forall c, NoDup (map fst (cs_rem c)) -> NoDup (map fst (members (mj_command c))).
Proof. intros c _. rewrite mj_command_eq. apply inline_friendly_nodup. Qed.

(* the collapsed command: one "command" member holding the newline-joined string *)
Theorem command_member : forall c, NoDup (map fst (cs_rem c)) ->
  aget "command" (members (mj_command c)) = Some (JStr (cs_command c)).
Proof.
  intros c _. rewrite mj_command_eq, inline_friendly_eq.
  rewrite aget_sort_keys by apply if_merge_nodup.
  unfold if_merge. rewrite command_outline_split, fold_left_app. cbn [fold_left fst snd].
  rewrite fold_aset_get_notin.
  - rewrite aget_aset, String.eqb_refl. reflexivity.
  - intros X. apply command_tail_keys in X. cbn [In] in X.
    repeat (destruct X as [X|X]; [discriminate X|]). destruct X.
Qed.

(** ------------------------------------------------------------------ *)
(** top level *)

Lemma parse_rem : forall f m p w, parse f (GMap m) = Ok p w ->
  pp_rem p = leftover (partition_keys struct_Pipeline m).
Proof.
  intros f m p w H. unfold parse in H. cbv zeta in H. binv H.
  unfold ret in H. inversion H; subst. reflexivity.
Qed.

Theorem pipeline_unknown_keys_survive : forall f m p w k v,
  NoDup (map fst m) -> parse f (GMap m) = Ok p w -> In (k, v) m -> k <> "steps" -> k <> "env" ->
  aget k (members (mj_pipeline p)) = Some (gv_json v).
Proof.
  intros f m p w k v N H I H1 H2. unfold mj_pipeline. rewrite (parse_rem _ _ _ _ H).
  apply survive_core; [exact N|exact I| |].
  - rewrite kb_pipeline. cbn [In]. intuition.
  - rewrite map_app, in_app_iff. cbn [map fst In]. intros [[X|[]]|X]; [congruence|].
    destruct (pp_env p); cbn in X; [destruct X as [X|[]]; congruence|destruct X].
Qed.

(** ------------------------------------------------------------------ *)
(** steps *)

Definition typed_fn (fuel' : nat) (m : list (string * gv)) (k : kind) : res step :=
  let fallback := warn1 (SUnknown (GMap m)) in
  match k with
  | KUnknown _ => fallback
  | KCommand => match unm_command m with Ok c w => Ok (SCommand c) w | Err => fallback end
  | KWait => ret (SWait "" m)
  | KInput => ret (SInput "" m)
  | KTrigger => ret (STrigger m)
  | KGroup =>
      let p := partition_keys struct_GroupStep m in
      match (do k <- opt_field "Key" p "" unm_string;
             do gr <- match field "Group" p with
                      | Some GNull => ret None
                      | Some v => do s <- unm_string v; ret (Some s)
                      | None => ret None
                      end;
             do ss <- opt_field "Steps" p [] (unm_steps fuel');
             ret (SGroup k gr ss (leftover p))) with
      | Ok st w => Ok st w
      | Err => fallback
      end
  end.

Lemma unm_step_map : forall f m,
  unm_step (S f) (GMap m) =
  match aget "type" m with
  | Some (GStr t) => typed_fn f m (kind_by_type t)
  | Some _ => Err
  | None => typed_fn f m (kind_by_keys (map fst m))
  end.
Proof. reflexivity. Qed.

Lemma unm_step_typed : forall f m s w, unm_step f (GMap m) = Ok s w ->
  exists f' k, typed_fn f' m k = Ok s w.
Proof.
  intros f m s w H. destruct f as [|f]; [discriminate H|].
  rewrite unm_step_map in H.
  destruct (aget "type" m) as [[]|]; try discriminate H; eauto.
Qed.

Lemma typed_group_rem : forall f m k k0 gr ss rem w,
  typed_fn f m k = Ok (SGroup k0 gr ss rem) w -> rem = leftover (partition_keys struct_GroupStep m).
Proof.
  intros f m k k0 gr ss rem w H. unfold typed_fn in H. cbv zeta in H.
  destruct k; try discriminate H.
  - destruct (unm_command m); discriminate H.
  - match type of H with match ?b with _ => _ end = _ => destruct b as [st w'|] eqn:B end;
      [|discriminate H].
    inversion H; subst. binv B. unfold ret in B. inversion B; subst. reflexivity.
Qed.

(* group steps *)
Definition group_schema_keys : list string := ["key"; "id"; "identifier"; "group"; "label"; "name"; "steps"].

Theorem group_unknown_keys_survive : forall f m k0 gr ss rem w k v,
  NoDup (map fst m) -> unm_step f (GMap m) = Ok (SGroup k0 gr ss rem) w -> In (k, v) m -> ~ In k group_schema_keys ->
  aget k (members (mj_step (SGroup k0 gr ss rem))) = Some (gv_json v).
Proof.
  intros f m k0 gr ss rem w k v N H I Hs.
  apply unm_step_typed in H. destruct H as (f' & kd & H).
  apply typed_group_rem in H. subst rem.
  cbn [mj_step]. apply survive_core; [exact N|exact I| |].
  - rewrite kb_group. exact Hs.
  - rewrite map_app, in_app_iff. cbn [map fst In]. intros [X|[X|[X|[]]]].
    + apply oe_in in X. subst. apply Hs. unfold group_schema_keys. in_lit.
    + subst. apply Hs. unfold group_schema_keys. in_lit.
    + subst. apply Hs. unfold group_schema_keys. in_lit.
Qed.

(* wait / input / trigger mappings and unknown steps are kept whole *)
Theorem contents_steps_verbatim : forall f m s w,
  unm_step f (GMap m) = Ok s w ->
  match s with
  | SWait sc ct => sc = "" /\ ct = m
  | SInput sc ct => sc = "" /\ ct = m
  | STrigger ct => ct = m
  | SUnknown c => c = GMap m
  | _ => True
  end.
Proof.
  intros f m s w H. apply unm_step_typed in H. destruct H as (f' & k & H).
  unfold typed_fn in H. cbv zeta in H. unfold warn1, ret in H.
  destruct k.
  - destruct (unm_command m); inversion H; subst; [exact I|reflexivity].
  - inversion H; subst. split; reflexivity.
  - inversion H; subst. split; reflexivity.
  - inversion H; subst. reflexivity.
  - match type of H with match ?b with _ => _ end = _ => destruct b as [st w'|] eqn:B end.
    + inversion H; subst. binv B. inversion B; subst. exact I.
    + inversion H; subst. reflexivity.
  - inversion H; subst. reflexivity.
Qed.

(** ------------------------------------------------------------------ *)
(** matrix and cache levels *)

Lemma unm_matrix_rem : forall m mx w, unm_matrix (GMap m) = Ok (Some mx) w ->
  mx_rem mx = leftover (partition_keys struct_Matrix m).
Proof.
  intros m mx w H. unfold unm_matrix in H. cbv zeta in H. binv H.
  unfold ret in H. inversion H; subst. reflexivity.
Qed.

Theorem matrix_unknown_keys_survive : forall m mx w k v,
  NoDup (map fst m) -> unm_matrix (GMap m) = Ok (Some mx) w -> In (k, v) m -> k <> "setup" -> k <> "adjustments" ->
  aget k (members (mj_matrix mx)) = Some (gv_json v).
Proof.
  intros m mx w k v N H I H1 H2.
  pose proof (unm_matrix_rem _ _ _ H) as R.
  assert (Hb : ~ In k (key_bound struct_Matrix)) by (rewrite kb_matrix; cbn [In]; intuition).
  assert (IL : In (k, v) (mx_rem mx)) by (rewrite R; apply in_leftover; assumption).
  assert (S : mx_simple mx = None).
  { unfold mx_simple. destruct (mx_setup mx); [|reflexivity].
    destruct (mx_adj mx); [|reflexivity]. destruct (mx_rem mx); [destruct IL|reflexivity]. }
  unfold mj_matrix. rewrite S, R.
  apply survive_core; [exact N|exact I|exact Hb|].
  rewrite map_app, in_app_iff. cbn [map fst In]. intros [[X|[]]|X]; [congruence|].
  apply oe_in in X. congruence.
Qed.

Lemma unm_cache_rem : forall m ca w, unm_cache (GMap m) = Ok (Some ca) w ->
  ca_rem ca = leftover (partition_keys struct_Cache m).
Proof.
  intros m ca w H. unfold unm_cache in H. cbv zeta in H. binv H.
  unfold ret in H. inversion H; subst. reflexivity.
Qed.

Theorem cache_unknown_keys_survive : forall m ca w k v,
  NoDup (map fst m) -> unm_cache (GMap m) = Ok (Some ca) w -> In (k, v) m ->
  ~ In k ["disabled"; "name"; "paths"; "size"] -> ca_disabled ca = false ->
  aget k (members (mj_cache ca)) = Some (gv_json v).
Proof.
  intros m ca w k v N H I Hs D.
  unfold mj_cache. rewrite D, (unm_cache_rem _ _ _ H).
  apply survive_core; [exact N|exact I| |].
  - rewrite kb_cache. exact Hs.
  - repeat rewrite map_app. repeat rewrite in_app_iff. intros [X|[X|X]];
      apply oe_in in X; subst; apply Hs; in_lit.
Qed.

(** ------------------------------------------------------------------ *)
(** plugins: ordered list of single-entry objects keyed by the canonical source; empty configs become null *)

Theorem plugin_shape : forall p, exists cfg, mj_plugin p = JObj [(full_source (pl_source p), cfg)] /\
  (pl_config p = GUMap [] \/ pl_config p = GSeq [] \/ pl_config p = GNull -> cfg = JNull).
Proof.
  intros p. unfold mj_plugin. eexists. split; [reflexivity|].
  intros [H|[H|H]]; rewrite H; reflexivity.
Qed.

Theorem plugins_of_mapping_order : forall m, map pl_source (plugins_of_map m) = map fst m.
Proof.
  intros m. unfold plugins_of_map. rewrite map_map. apply map_ext. intros a. reflexivity.
Qed.

Print Assumptions command_unknown_keys_survive.
Print Assumptions inline_friendly_lookup.
