(** The constructor MapFromItems: Set of each pair in turn on a fresh map.  Its abstraction is the
    list-of-pairs model built the same way, so a key that occurs twice in the pair list is ONE entry,
    standing where it first stood and holding the value given last. *)
From Coq Require Import String List Arith Bool.
From GP Require Import Model.OMap Proofs.OMapProofs.
Import ListNotations.
Local Open Scope string_scope.

Section FromItems.
  Variable V : Type.

  (** ordered.MapFromItems *)
  Definition from_items (l : list (string * V)) : omap V :=
    fold_left (fun m kv => set (fst kv) (snd kv) m) l (@empty V).

  Definition spec_from_items (l : list (string * V)) : pairs V :=
    fold_left (fun acc kv => p_set (fst kv) (snd kv) acc) l [].

  Lemma from_items_as_history : forall l (m : omap V),
    fold_left (fun m kv => set (fst kv) (snd kv) m) l m =
    fold_left (@step V) (map (fun kv => OSet (fst kv) (snd kv)) l) m.
  Proof. induction l as [|kv l IH]; intros m; cbn [fold_left map step]; [reflexivity|apply IH]. Qed.

  Lemma spec_from_items_as_history : forall l (acc : pairs V),
    fold_left (fun acc kv => p_set (fst kv) (snd kv) acc) l acc =
    fold_left (@spec_step V) (map (fun kv => OSet (fst kv) (snd kv)) l) acc.
  Proof. induction l as [|kv l IH]; intros acc; cbn [fold_left map spec_step]; [reflexivity|apply IH]. Qed.

  Theorem from_items_inv : forall l, Inv V (from_items l).
  Proof. intros l. unfold from_items. rewrite from_items_as_history. apply inv_reachable. Qed.

  Theorem from_items_refines : forall l, abs (from_items l) = spec_from_items l.
  Proof.
    intros l. unfold from_items, spec_from_items.
    rewrite from_items_as_history, spec_from_items_as_history. apply abs_refines.
  Qed.

End FromItems.

(** a repeated key: one entry, first position, last value *)
Example from_items_repeated_key :
  abs (from_items nat [("a", 1); ("b", 2); ("a", 3); ("c", 4); ("b", 5)]) = [("a", 3); ("b", 5); ("c", 4)].
Proof. vm_compute. reflexivity. Qed.
