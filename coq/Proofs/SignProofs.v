(** Step signing (Model/Sign.v): what is signed, and soundness / completeness
    of Verify relative to an ideal signature scheme and the canonical
    serialiser facts (taken as Section hypotheses; proved in Proofs/JcsProofs.v). *)
From Coq Require Import String List Ascii Bool Arith Lia Permutation.
From GP Require Import Model.Gv Model.Plugin Model.Pipeline Model.Marshal Model.Jcs Model.Sign Proofs.MarshalProofs.
Import ListNotations.
Local Open Scope string_scope.
Local Open Scope list_scope.

(** ------------------------------------------------------------------ *)
(** more association-list facts *)

Section AlistExtra.
  Context {T : Type}.
  Implicit Types (l : list (string * T)) (k : string) (v : T).

  Lemma aget_none_iff : forall k l, aget k l = None <-> ~ In k (map fst l).
  Proof.
    intros k l. induction l as [|[k0 v0] r IH]; cbn [aget map fst In].
    - tauto.
    - destruct (String.eqb_spec k k0) as [E|N].
      + split; [discriminate|]. intros H. exfalso. apply H. left. congruence.
      + rewrite IH. split; intros H.
        * intros [E|I]; [congruence|tauto].
        * tauto.
  Qed.

  Lemma ahas_in : forall k l, ahas k l = true <-> In k (map fst l).
  Proof.
    intros k l. unfold ahas. destruct (aget k l) as [v|] eqn:E.
    - split; intros _; [|reflexivity].
      apply aget_some_in in E. apply (in_map fst) in E. exact E.
    - apply aget_none_iff in E. split; [discriminate|intros; contradiction].
  Qed.

  Lemma ahas_false : forall k l, ahas k l = false <-> ~ In k (map fst l).
  Proof.
    intros k l. rewrite <- ahas_in. destruct (ahas k l); split; congruence.
  Qed.

  Lemma ahas_some : forall k l, ahas k l = true -> exists v, aget k l = Some v.
  Proof.
    intros k l. unfold ahas. destruct (aget k l) as [v|]; [eauto|discriminate].
  Qed.

  Lemma aget_ahas : forall k l v, aget k l = Some v -> ahas k l = true.
  Proof. intros k l v H. unfold ahas. rewrite H. reflexivity. Qed.

  Lemma fold_id_nodup : forall l acc,
    NoDup (map fst acc) -> NoDup (map fst (fold_left (fun acc kv => aset (fst kv) (snd kv) acc) l acc)).
  Proof. exact (fold_aset_nodup (fun x : T => x)). Qed.

  Lemma fold_id_keys : forall k l acc,
    In k (map fst (fold_left (fun acc kv => aset (fst kv) (snd kv) acc) l acc)) <->
    In k (map fst l) \/ In k (map fst acc).
  Proof. exact (fold_aset_keys (fun x : T => x)). Qed.

  Lemma fold_id_get_notin : forall k l acc,
    ~ In k (map fst l) -> aget k (fold_left (fun acc kv => aset (fst kv) (snd kv) acc) l acc) = aget k acc.
  Proof. exact (fold_aset_get_notin (fun x : T => x)). Qed.

  Lemma fold_id_get : forall k l acc,
    NoDup (map fst l) ->
    aget k (fold_left (fun acc kv => aset (fst kv) (snd kv) acc) l acc) =
      match aget k l with Some v => Some v | None => aget k acc end.
  Proof. exact (fold_aset_get (fun x : T => x)). Qed.

  Lemma fold_id_get_inv : forall l acc k v,
    aget k (fold_left (fun acc kv => aset (fst kv) (snd kv) acc) l acc) = Some v ->
    In (k, v) l \/ aget k acc = Some v.
  Proof.
    induction l as [|[k0 v0] r IH]; intros acc k v H; cbn [fold_left fst snd] in H.
    - right. exact H.
    - apply IH in H. destruct H as [H|H]; [left; right; exact H|].
      rewrite aget_aset in H. destruct (String.eqb_spec k k0) as [E|N].
      + left. left. congruence.
      + right. exact H.
  Qed.

  Lemma alist_perm : forall l l',
    NoDup (map fst l) -> NoDup (map fst l') -> (forall k, aget k l = aget k l') -> Permutation l l'.
  Proof.
    intros l l' N N' H. apply NoDup_Permutation.
    - eapply NoDup_map_inv; exact N.
    - eapply NoDup_map_inv; exact N'.
    - intros [k v]. split; intros I.
      + apply aget_some_in. rewrite <- H. apply in_aget; assumption.
      + apply aget_some_in. rewrite H. apply in_aget; assumption.
  Qed.

  Lemma nodup_keys_of_NoDup : forall l, NoDup (map fst l) -> nodup_keys l = true.
  Proof.
    induction l as [|[k v] r IH]; cbn [nodup_keys map fst]; intros N.
    - reflexivity.
    - inversion N as [|? ? Hn Hr]; subst. rewrite IH by exact Hr.
      destruct (existsb (fun kv => String.eqb k (fst kv)) r) eqn:E; [|reflexivity].
      exfalso. apply existsb_exists in E. destruct E as ([k1 v1] & I & E).
      cbn [fst] in E. apply String.eqb_eq in E. subst k1.
      apply Hn. apply (in_map fst) in I. exact I.
  Qed.
End AlistExtra.

(** ------------------------------------------------------------------ *)
(** induction over step trees *)

Section StepInd.
  Variable P : step -> Prop.
  Hypothesis Hc : forall c, P (SCommand c).
  Hypothesis Hw : forall s m, P (SWait s m).
  Hypothesis Hi : forall s m, P (SInput s m).
  Hypothesis Ht : forall m, P (STrigger m).
  Hypothesis Hg : forall k g ss rem, Forall P ss -> P (SGroup k g ss rem).
  Hypothesis Hu : forall g, P (SUnknown g).
  Fixpoint step_ind' (s : step) : P s :=
    match s with
    | SCommand c => Hc c
    | SWait a b => Hw a b
    | SInput a b => Hi a b
    | STrigger m => Ht m
    | SGroup k g ss rem =>
        Hg k g ss rem
           ((fix go (l : list step) : Forall P l :=
               match l with
               | [] => Forall_nil P
               | x :: r => Forall_cons x (step_ind' x) (go r)
               end) ss)
    | SUnknown g => Hu g
    end.
End StepInd.

(** ------------------------------------------------------------------ *)
(** names *)

Lemma prefix_inj : forall n n', (env_prefix ++ n)%string = (env_prefix ++ n')%string -> n = n'.
Proof. intros n n' H. unfold env_prefix in H. cbn [append] in H. congruence. Qed.

Lemma prefix_eqb : forall n n', String.eqb (env_prefix ++ n)%string (env_prefix ++ n')%string = String.eqb n n'.
Proof.
  intros n n'. destruct (String.eqb_spec n n') as [E|N].
  - subst. apply String.eqb_refl.
  - apply String.eqb_neq. intros E. apply prefix_inj in E. contradiction.
Qed.

Lemma has_prefix_env : forall n, has_prefix env_prefix (env_prefix ++ n)%string = true.
Proof. intros n. reflexivity. Qed.

Lemma mandatory_cases : forall f, In f mandatory_fields ->
  f = "command" \/ f = "env" \/ f = "plugins" \/ f = "matrix" \/ f = "repository_url".
Proof.
  intros f [H|[H|[H|[H|[H|[]]]]]]; subst; auto 10.
Qed.

Lemma mandatory_no_prefix : forall f, In f mandatory_fields -> has_prefix env_prefix f = false.
Proof.
  intros f H. apply mandatory_cases in H.
  destruct H as [->|[->|[->|[->| ->]]]]; reflexivity.
Qed.

Lemma mandatory_not_env : forall n, ~ In (env_prefix ++ n)%string mandatory_fields.
Proof.
  intros n H. apply mandatory_no_prefix in H. rewrite has_prefix_env in H. discriminate.
Qed.

Lemma mandatory_nodup : NoDup mandatory_fields.
Proof.
  unfold mandatory_fields.
  repeat (constructor; [cbn [In]; intros H; repeat (destruct H as [H|H]; [discriminate H|]); exact H|]).
  constructor.
Qed.

Lemma field_value_mandatory : forall c repo f, In f mandatory_fields -> exists j, field_value c repo f = Some j.
Proof.
  intros c repo f H. apply mandatory_cases in H.
  destruct H as [->|[->|[->|[->| ->]]]]; eexists; reflexivity.
Qed.

Lemma field_value_some : forall c repo f j, field_value c repo f = Some j -> In f mandatory_fields.
Proof.
  intros c repo f j. unfold field_value, mandatory_fields.
  destruct (String.eqb_spec f "command"); [subst; cbn [In]; auto|].
  destruct (String.eqb_spec f "env"); [subst; cbn [In]; auto|].
  destruct (String.eqb_spec f "plugins"); [subst; cbn [In]; auto|].
  destruct (String.eqb_spec f "matrix"); [subst; cbn [In]; auto 6|].
  destruct (String.eqb_spec f "repository_url"); [subst; cbn [In]; auto 6|].
  discriminate.
Qed.

Lemma field_value_command : forall c repo, field_value c repo "command" = Some (JStr (cs_command c)).
Proof. reflexivity. Qed.
Lemma field_value_repo : forall c repo, field_value c repo "repository_url" = Some (JStr repo).
Proof. reflexivity. Qed.

(** ------------------------------------------------------------------ *)
(** env_values *)

Lemma env_values_cons : forall c k0 v0 r,
  env_values c ((k0, v0) :: r) =
  if negb (ahas k0 (cs_env c)) then ((env_prefix ++ k0)%string, JStr v0) :: env_values c r else env_values c r.
Proof.
  intros. unfold env_values. cbn [filter fst snd].
  destruct (negb (ahas k0 (cs_env c))); reflexivity.
Qed.

Lemma env_values_in : forall c penv k j,
  In (k, j) (env_values c penv) <->
  exists n v, k = (env_prefix ++ n)%string /\ j = JStr v /\ In (n, v) penv /\ ahas n (cs_env c) = false.
Proof.
  intros c penv k j. unfold env_values. rewrite in_map_iff. split.
  - intros ([n v] & E & I). apply filter_In in I. destruct I as [I S]. cbn [fst snd] in *.
    inversion E; subst. exists n, v. repeat split; auto.
    destruct (ahas n (cs_env c)); [discriminate|reflexivity].
  - intros (n & v & -> & -> & I & S). exists (n, v). split; [reflexivity|].
    apply filter_In. split; [exact I|]. cbn [fst]. rewrite S. reflexivity.
Qed.

Lemma env_values_keys : forall c penv k,
  In k (map fst (env_values c penv)) <->
  exists n, k = (env_prefix ++ n)%string /\ ahas n penv = true /\ ahas n (cs_env c) = false.
Proof.
  intros c penv k. rewrite in_map_iff. split.
  - intros ([k' j] & E & I). cbn [fst] in E. subst k'. apply env_values_in in I.
    destruct I as (n & v & -> & _ & I & S). exists n. repeat split; auto.
    apply ahas_in. apply (in_map fst) in I. exact I.
  - intros (n & -> & H & S). apply ahas_some in H. destruct H as [v H].
    exists ((env_prefix ++ n)%string, JStr v). split; [reflexivity|].
    apply env_values_in. exists n, v. repeat split; auto. apply aget_some_in. exact H.
Qed.

Lemma env_values_not_mandatory : forall c penv f, In f mandatory_fields -> ~ In f (map fst (env_values c penv)).
Proof.
  intros c penv f M I. apply env_values_keys in I. destruct I as (n & -> & _).
  eapply mandatory_not_env. exact M.
Qed.

Lemma env_values_nodup : forall c penv, NoDup (map fst penv) -> NoDup (map fst (env_values c penv)).
Proof.
  intros c penv. induction penv as [|[k0 v0] r IH]; intros N.
  - constructor.
  - cbn [map fst] in N. inversion N as [|? ? Hn Hr]; subst.
    rewrite env_values_cons. destruct (negb (ahas k0 (cs_env c))); [|apply IH; exact Hr].
    cbn [map fst]. constructor; [|apply IH; exact Hr].
    intros I. apply env_values_keys in I. destruct I as (n & E & H & _).
    apply prefix_inj in E. subst n. apply ahas_in in H. contradiction.
Qed.

Lemma aget_env_values : forall c penv n,
  aget (env_prefix ++ n)%string (env_values c penv) =
  if ahas n (cs_env c) then None else option_map JStr (aget n penv).
Proof.
  intros c penv n. induction penv as [|[k0 v0] r IH].
  - cbn. destruct (ahas n (cs_env c)); reflexivity.
  - rewrite env_values_cons. cbn [aget].
    destruct (ahas k0 (cs_env c)) eqn:A0; cbn [negb].
    + rewrite IH. destruct (String.eqb_spec n k0) as [E|N]; [|reflexivity].
      subst k0. rewrite A0. reflexivity.
    + cbn [aget]. rewrite prefix_eqb. destruct (String.eqb_spec n k0) as [E|N]; [|exact IH].
      subst k0. rewrite A0. reflexivity.
Qed.

(** ------------------------------------------------------------------ *)
(** values_for_fields / require_keys / all_mandatory *)

Lemma all_mandatory_in : forall fields,
  all_mandatory fields = true <-> (forall m, In m mandatory_fields -> In m fields).
Proof.
  intros fields. unfold all_mandatory. rewrite forallb_forall. split; intros H m Hm.
  - apply H in Hm. apply existsb_exists in Hm. destruct Hm as (x & Hx & E).
    apply String.eqb_eq in E. subst. exact Hx.
  - apply existsb_exists. exists m. split; [apply H; exact Hm|apply String.eqb_refl].
Qed.

Lemma vff_some : forall c repo fields vals, values_for_fields c repo fields = Some vals ->
  forall f j, aget f vals = Some j -> field_value c repo f = Some j.
Proof.
  intros c repo. induction fields as [|f0 r IH]; intros vals H f j G; cbn [values_for_fields] in H.
  - inversion H; subst. discriminate G.
  - destruct (values_for_fields c repo r) as [acc|] eqn:R; [|discriminate].
    destruct (field_value c repo f0) as [j0|] eqn:F0.
    + inversion H; subst. rewrite aget_aset in G.
      destruct (String.eqb_spec f f0) as [E|N]; [subst; congruence|].
      eapply IH; [reflexivity|exact G].
    + destruct (has_prefix env_prefix f0); [|discriminate]. inversion H; subst.
      eapply IH; [reflexivity|exact G].
Qed.

Lemma vff_get : forall c repo fields vals, values_for_fields c repo fields = Some vals ->
  forall f, In f fields -> aget f vals = field_value c repo f.
Proof.
  intros c repo. induction fields as [|f0 r IH]; intros vals H f I; cbn [values_for_fields] in H.
  - destruct I.
  - destruct (values_for_fields c repo r) as [acc|] eqn:R; [|discriminate].
    destruct (field_value c repo f0) as [j0|] eqn:F0.
    + inversion H; subst. rewrite aget_aset.
      destruct (String.eqb_spec f f0) as [E|N]; [subst; congruence|].
      destruct I as [E|I]; [congruence|]. apply IH; [reflexivity|exact I].
    + destruct (has_prefix env_prefix f0); [|discriminate]. inversion H; subst.
      destruct (String.eqb_spec f f0) as [E|N].
      * subst f0. rewrite F0. destruct (aget f vals) as [j|] eqn:G; [|reflexivity].
        apply (vff_some _ _ _ _ R) in G. congruence.
      * destruct I as [E|I]; [congruence|]. apply IH; [reflexivity|exact I].
Qed.

Lemma vff_exists : forall c repo fields,
  (forall f, In f fields -> In f mandatory_fields \/ has_prefix env_prefix f = true) ->
  exists vals, values_for_fields c repo fields = Some vals.
Proof.
  intros c repo. induction fields as [|f0 r IH]; intros H; cbn [values_for_fields].
  - eauto.
  - destruct IH as [acc R]; [intros f I; apply H; right; exact I|]. rewrite R.
    destruct (field_value c repo f0) as [j0|] eqn:F0; [eauto|].
    destruct (H f0 (or_introl eq_refl)) as [M|P].
    + apply (field_value_mandatory c repo) in M. destruct M as [j M]. congruence.
    + rewrite P. eauto.
Qed.

Lemma rk_spec : forall vals keys req, require_keys vals keys = Some req ->
  NoDup (map fst req) /\ (forall f, In f (map fst req) <-> In f keys) /\
  (forall f, In f keys -> aget f req = aget f vals).
Proof.
  intros vals. induction keys as [|k r IH]; intros req H; cbn [require_keys] in H.
  - inversion H; subst. cbn. split; [constructor|]. split; [tauto|intros f []].
  - destruct (aget k vals) as [v|] eqn:G; [|discriminate].
    destruct (require_keys vals r) as [acc|] eqn:R; [|discriminate].
    inversion H; subst. destruct (IH acc eq_refl) as (N & Ks & Gs).
    split; [apply aset_nodup; exact N|]. split.
    + intros f. rewrite aset_keys, Ks. cbn [In]. split; intros [E|I]; auto.
    + intros f I. rewrite aget_aset. destruct (String.eqb_spec f k) as [E|Ne]; [subst; congruence|].
      destruct I as [E|I]; [congruence|]. apply Gs. exact I.
Qed.

Lemma rk_exists : forall vals keys, (forall f, In f keys -> aget f vals <> None) ->
  exists req, require_keys vals keys = Some req.
Proof.
  intros vals. induction keys as [|k r IH]; intros H; cbn [require_keys].
  - eauto.
  - destruct IH as [acc R]; [intros f I; apply H; right; exact I|]. rewrite R.
    destruct (aget k vals) as [v|] eqn:G; [eauto|].
    exfalso. apply (H k); [left; reflexivity|exact G].
Qed.

(** ------------------------------------------------------------------ *)
(** serialiser shape *)

Lemma wf_json_obj : forall l, wf_json (JObj l) = nodup_keys l && forallb (fun kv => wf_json (snd kv)) l.
Proof. reflexivity. Qed.

Lemma wf_payload_obj : forall a j, wf_json j = true ->
  wf_json (JObj [("alg", JStr a); ("values", j)]) = true.
Proof. intros a j H. cbn. rewrite H. reflexivity. Qed.

Lemma ser_obj_unfold : forall l,
  ser (JObj l) = ("{" ++ join_comma (map (fun kv => quote (fst kv) ++ ":" ++ snd kv)
                                        (sort_keys (map (fun kv => (fst kv, ser (snd kv))) l))) ++ "}")%string.
Proof. reflexivity. Qed.

Lemma ser_payload_congr : forall a j j', ser j = ser j' ->
  ser (JObj [("alg", JStr a); ("values", j)]) = ser (JObj [("alg", JStr a); ("values", j')]).
Proof.
  intros a j j' H.
  rewrite (ser_obj_unfold [("alg", JStr a); ("values", j)]).
  rewrite (ser_obj_unfold [("alg", JStr a); ("values", j')]).
  cbn [map fst snd]. rewrite H. reflexivity.
Qed.

Lemma payload_keys_nodup : forall a j, NoDup (map fst [("alg", JStr a); ("values", j)]).
Proof.
  intros. cbn [map fst]. constructor; [cbn [In]; intros [E|[]]; discriminate|].
  constructor; [intros []|constructor].
Qed.

(** ------------------------------------------------------------------ *)

Section SignProofs.
  Variable K PK : Type.
  Variable pub : K -> PK.
  Variable alg_of : K -> string.
  Variable sgn : K -> string -> string.
  Variable vrf : PK -> string -> string -> bool.
  (* the IDEAL signature scheme: a value verifies under pk for message m iff it was
     produced for m by a key whose public half is pk, and signature values determine
     the (public) key and the message *)
  Hypothesis vrf_ideal : forall pk m s, vrf pk m s = true <-> exists k, pk = pub k /\ s = sgn k m.
  Hypothesis sgn_inj : forall k m k' m', sgn k m = sgn k' m' -> pub k = pub k' /\ m = m'.
  (* canonical serialiser facts (Proofs/JcsProofs.v) *)
  Hypothesis ser_injective : forall a b, wf_json a = true -> wf_json b = true -> ser a = ser b -> canon a = canon b.
  Hypothesis ser_perm : forall l l', NoDup (map fst l) -> Permutation l l' -> ser (JObj l) = ser (JObj l').
  Hypothesis canon_obj_lookup : forall l l' k, NoDup (map fst l) -> NoDup (map fst l') ->
     canon (JObj l) = canon (JObj l') -> option_map canon (aget k l) = option_map canon (aget k l').
  Hypothesis canon_str : forall s s', canon (JStr s) = canon (JStr s') -> s = s'.

  Definition wf_values (vs : list (string * json)) : Prop := wf_json (JObj vs) = true.

  (** payload: determined by, and determines, algorithm name and canonical content *)
  Theorem payload_injective : forall a vs a' vs', wf_values vs -> wf_values vs' ->
    payload a vs = payload a' vs' -> a = a' /\ canon (JObj vs) = canon (JObj vs').
  Proof using ser_injective canon_obj_lookup canon_str.
    intros a vs a' vs' W W' H. unfold payload in H.
    apply ser_injective in H; [|apply wf_payload_obj; exact W|apply wf_payload_obj; exact W'].
    split.
    - pose proof (canon_obj_lookup _ _ "alg" (payload_keys_nodup a (JObj vs)) (payload_keys_nodup a' (JObj vs')) H) as L.
      change (Some (canon (JStr a)) = Some (canon (JStr a'))) in L.
      apply canon_str. congruence.
    - pose proof (canon_obj_lookup _ _ "values" (payload_keys_nodup a (JObj vs)) (payload_keys_nodup a' (JObj vs')) H) as L.
      change (Some (canon (JObj vs)) = Some (canon (JObj vs'))) in L.
      congruence.
  Qed.

  Theorem payload_order_insensitive : forall a vs vs', NoDup (map fst vs) -> Permutation vs vs' ->
    payload a vs = payload a vs'.
  Proof using ser_perm.
    intros a vs vs' N P. unfold payload. apply ser_payload_congr. apply ser_perm; assumption.
  Qed.

  (** what the signed map contains *)
  Theorem sign_values_mandatory : forall c repo penv f, In f mandatory_fields ->
    aget f (sign_values c repo penv) = field_value c repo f.
  Proof using.
    intros c repo penv f M. unfold sign_values.
    rewrite fold_id_get_notin by (apply env_values_not_mandatory; exact M).
    apply mandatory_cases in M.
    destruct M as [->|[->|[->|[->| ->]]]]; reflexivity.
  Qed.

  Theorem sign_values_env : forall c repo penv n v, NoDup (map fst penv) ->
    aget n penv = Some v -> ahas n (cs_env c) = false ->
    aget (env_prefix ++ n)%string (sign_values c repo penv) = Some (JStr v).
  Proof using.
    intros c repo penv n v N G S. unfold sign_values.
    rewrite fold_id_get by (apply env_values_nodup; exact N).
    rewrite aget_env_values, S, G. reflexivity.
  Qed.

  Theorem sign_values_keys : forall c repo penv f,
    In f (map fst (sign_values c repo penv)) <->
    In f mandatory_fields \/ exists n, f = (env_prefix ++ n)%string /\ ahas n penv = true /\ ahas n (cs_env c) = false.
  Proof using.
    intros c repo penv f. unfold sign_values. rewrite fold_id_keys, env_values_keys.
    rewrite map_map. cbn [fst]. rewrite map_id. tauto.
  Qed.

  Theorem sign_values_nodup : forall c repo penv, NoDup (map fst (sign_values c repo penv)).
  Proof using.
    intros c repo penv. unfold sign_values. apply fold_id_nodup.
    rewrite map_map. cbn [fst]. rewrite map_id. exact mandatory_nodup.
  Qed.

  (** the signed-field list Sign records: sorted names of exactly those entries *)
  Theorem sign_fields : forall k c repo penv,
    sg_fields (sign K alg_of sgn k c repo penv) = Some (map fst (sort_keys (sign_values c repo penv))) /\
    sg_alg (sign K alg_of sgn k c repo penv) = alg_of k.
  Proof using. intros. split; reflexivity. Qed.

  Lemma sign_value : forall k c repo penv,
    sg_value (sign K alg_of sgn k c repo penv) = sgn k (payload (alg_of k) (sign_values c repo penv)).
  Proof using. reflexivity. Qed.

  (** sign_values only reads command / env / plugins / matrix *)
  Lemma sign_values_ext : forall c c0 repo penv,
    cs_command c = cs_command c0 -> cs_env c = cs_env c0 -> cs_plugins c = cs_plugins c0 -> cs_matrix c = cs_matrix c0 ->
    sign_values c repo penv = sign_values c0 repo penv.
  Proof using.
    intros c c0 repo penv H1 H2 H3 H4. unfold sign_values, env_values, field_value.
    rewrite H1, H2, H3, H4. reflexivity.
  Qed.

  (** VERIFY, inverted *)
  Theorem verify_true_inv : forall pk sg c repo penv,
    verify PK vrf pk sg c repo penv = true ->
    exists p k2, verify_payload sg c repo penv = Some p /\ pk = pub k2 /\ sg_value sg = sgn k2 p.
  Proof using vrf_ideal.
    intros pk sg c repo penv H. unfold verify in H.
    destruct (verify_payload sg c repo penv) as [p|]; [|discriminate].
    apply vrf_ideal in H. destruct H as (k2 & E1 & E2). exists p, k2. auto.
  Qed.

  Lemma verify_payload_some : forall sg c repo penv fields vals req,
    sg_fields sg = Some fields -> fields <> [] -> all_mandatory fields = true ->
    values_for_fields c repo fields = Some vals ->
    require_keys (fold_left (fun acc kv => aset (fst kv) (snd kv) acc) (env_values c penv) vals) fields = Some req ->
    verify_payload sg c repo penv = Some (payload (sg_alg sg) req).
  Proof using.
    intros sg c repo penv fields vals req H0 H1 H2 H3 H4. unfold verify_payload. rewrite H0.
    destruct fields as [|f0 fs]; [congruence|]. rewrite H2. cbn [negb]. rewrite H3.
    cbv zeta. rewrite H4. reflexivity.
  Qed.

  Lemma verify_payload_some_inv : forall sg c repo penv p,
    verify_payload sg c repo penv = Some p ->
    exists fields vals req, sg_fields sg = Some fields /\ fields <> [] /\ all_mandatory fields = true /\
      values_for_fields c repo fields = Some vals /\
      require_keys (fold_left (fun acc kv => aset (fst kv) (snd kv) acc) (env_values c penv) vals) fields = Some req /\
      p = payload (sg_alg sg) req.
  Proof using.
    intros sg c repo penv p H. unfold verify_payload in H.
    destruct (sg_fields sg) as [[|f0 fs]|] eqn:F; try discriminate.
    destruct (all_mandatory (f0 :: fs)) eqn:A; cbn [negb] in H; [|discriminate].
    destruct (values_for_fields c repo (f0 :: fs)) as [vals|] eqn:V; [|discriminate].
    cbv zeta in H.
    destruct (require_keys _ (f0 :: fs)) as [req|] eqn:R; [|discriminate].
    inversion H; subst. exists (f0 :: fs), vals, req. repeat split; auto. discriminate.
  Qed.

  Theorem verify_payload_inv : forall sg c repo penv p,
    verify_payload sg c repo penv = Some p ->
    exists fields req, sg_fields sg = Some fields /\ fields <> [] /\ all_mandatory fields = true /\
      p = payload (sg_alg sg) req /\ NoDup (map fst req) /\
      (forall f, In f (map fst req) <-> In f fields) /\
      (forall f, In f mandatory_fields -> aget f req = field_value c repo f) /\
      (forall f j, aget f req = Some j -> ~ In f mandatory_fields ->
          exists n v, f = (env_prefix ++ n)%string /\ j = JStr v /\ In (n, v) penv /\ ahas n (cs_env c) = false).
  Proof using.
    intros sg c repo penv p H. apply verify_payload_some_inv in H.
    destruct H as (fields & vals & req & F & Ne & A & V & R & ->).
    apply rk_spec in R. destruct R as (N & Ks & Gs).
    exists fields, req. repeat split; auto.
    - apply Ks.
    - apply Ks.
    - intros f M. assert (I : In f fields) by (apply all_mandatory_in with (m := f) in A; assumption).
      rewrite Gs by exact I.
      rewrite fold_id_get_notin by (apply env_values_not_mandatory; exact M).
      apply (vff_get _ _ _ _ V). exact I.
    - intros f j G NM.
      assert (I : In f fields). { apply Ks. apply ahas_in. eapply aget_ahas. exact G. }
      rewrite Gs in G by exact I. apply fold_id_get_inv in G. destruct G as [G|G].
      + apply env_values_in in G. exact G.
      + apply (vff_some _ _ _ _ V) in G. apply field_value_some in G. contradiction.
  Qed.

  (** COMPLETENESS (used by C02/C06) *)
  Lemma sign_then_verify_payload : forall k c repo penv penv',
    NoDup (map fst penv) -> NoDup (map fst penv') ->
    (forall n v, aget n penv = Some v -> aget n penv' = Some v) ->
    verify_payload (sign K alg_of sgn k c repo penv) c repo penv' =
      Some (payload (alg_of k) (sign_values c repo penv)).
  Proof using ser_perm.
    intros k c repo penv penv' N N' Sub. clear ser_injective canon_str.
    set (sv := sign_values c repo penv).
    set (fields := map fst (sort_keys sv)).
    assert (Fk : forall f, In f fields <-> In f (map fst sv)) by (intros f; apply sort_keys_in).
    assert (Fc : forall f, In f fields ->
              In f mandatory_fields \/
              exists n, f = (env_prefix ++ n)%string /\ ahas n penv = true /\ ahas n (cs_env c) = false).
    { intros f I. apply Fk in I. apply sign_values_keys in I. exact I. }
    assert (Fm : forall m, In m mandatory_fields -> In m fields).
    { intros m M. apply Fk. apply sign_values_keys. left. exact M. }
    destruct (vff_exists c repo fields) as [vals V].
    { intros f I. destruct (Fc f I) as [M|(n & -> & _)]; [left; exact M|right; apply has_prefix_env]. }
    set (vals' := fold_left (fun acc kv => aset (fst kv) (snd kv) acc) (env_values c penv') vals).
    assert (G : forall f, In f fields -> aget f vals' = aget f sv).
    { intros f I. destruct (Fc f I) as [M|(n & -> & Hp & Hs)].
      - unfold vals'. rewrite fold_id_get_notin by (apply env_values_not_mandatory; exact M).
        rewrite (vff_get _ _ _ _ V) by exact I. unfold sv. rewrite sign_values_mandatory by exact M. reflexivity.
      - apply ahas_some in Hp. destruct Hp as [v Hp].
        unfold vals'. rewrite fold_id_get by (apply env_values_nodup; exact N').
        rewrite aget_env_values, Hs, (Sub _ _ Hp). cbn [option_map].
        unfold sv. rewrite (sign_values_env c repo penv n v N Hp Hs). reflexivity. }
    destruct (rk_exists vals' fields) as [req R].
    { intros f I. rewrite (G f I). intros E. apply aget_none_iff in E. apply E. apply Fk. exact I. }
    pose proof (rk_spec _ _ _ R) as (Nr & Ks & Gs).
    assert (P : Permutation req sv).
    { apply alist_perm; [exact Nr|apply sign_values_nodup|].
      intros f. destruct (in_dec string_dec f fields) as [I|NI].
      - rewrite Gs by exact I. apply G. exact I.
      - rewrite (proj2 (aget_none_iff f req)) by (rewrite Ks; exact NI).
        symmetry. apply aget_none_iff. rewrite <- Fk. exact NI. }
    rewrite (verify_payload_some (sign K alg_of sgn k c repo penv) c repo penv' fields vals req).
    - cbn [sg_alg sign]. f_equal. apply payload_order_insensitive; assumption.
    - reflexivity.
    - intros E. assert (I : In "command" fields) by (apply Fm; cbn; auto). rewrite E in I. destruct I.
    - apply all_mandatory_in. exact Fm.
    - exact V.
    - exact R.
  Qed.

  Theorem sign_then_verify : forall k c repo penv penv',
    NoDup (map fst penv) -> NoDup (map fst penv') ->
    (forall n v, aget n penv = Some v -> aget n penv' = Some v) ->
    verify PK vrf (pub k) (sign K alg_of sgn k c repo penv) c repo penv' = true.
  Proof using vrf_ideal ser_perm.
    intros k c repo penv penv' N N' Sub. unfold verify.
    rewrite (sign_then_verify_payload k c repo penv penv' N N' Sub).
    rewrite sign_value. apply vrf_ideal. exists k. split; reflexivity.
  Qed.

  (** SOUNDNESS (C01) *)
  Lemma verify_sound_strong : forall k c repo penv pk sg' c' repo' penv',
    sg_value sg' = sg_value (sign K alg_of sgn k c repo penv) ->
    verify PK vrf pk sg' c' repo' penv' = true ->
    wf_values (sign_values c repo penv) ->
    (forall req, verify_payload sg' c' repo' penv' = Some (payload (sg_alg sg') req) -> NoDup (map fst req) ->
       (forall f, In f mandatory_fields -> aget f req = field_value c' repo' f) ->
       (forall f j, aget f req = Some j -> ~ In f mandatory_fields -> exists v, j = JStr v) ->
       wf_values req) ->
    pk = pub k /\ sg_alg sg' = alg_of k /\
    exists fields req, sg_fields sg' = Some fields /\ all_mandatory fields = true /\
      verify_payload sg' c' repo' penv' = Some (payload (sg_alg sg') req) /\
      NoDup (map fst req) /\
      (forall f, In f (map fst req) <-> In f fields) /\
      (forall f, In f mandatory_fields -> aget f req = field_value c' repo' f) /\
      (forall f j, aget f req = Some j -> ~ In f mandatory_fields ->
          exists n v, f = (env_prefix ++ n)%string /\ j = JStr v /\ In (n, v) penv' /\ ahas n (cs_env c') = false) /\
      canon (JObj req) = canon (JObj (sign_values c repo penv)).
  Proof using vrf_ideal sgn_inj ser_injective canon_obj_lookup canon_str.
    intros k c repo penv pk sg' c' repo' penv' Hv Hver Wsv Wreq.
    apply verify_true_inv in Hver. destruct Hver as (p & k2 & Hp & -> & Hs).
    rewrite Hv, sign_value in Hs. apply sgn_inj in Hs. destruct Hs as [Hk <-].
    pose proof (verify_payload_inv _ _ _ _ _ Hp) as (fields & req & F & Ne & A & E & N & Ks & Gm & Ge).
    rewrite E in Hp.
    assert (W : wf_values req).
    { apply Wreq; auto. intros f j G NM. destruct (Ge f j G NM) as (n & v & _ & -> & _). eauto. }
    symmetry in E. apply payload_injective in E; [|exact W|exact Wsv]. destruct E as [Ea Ec].
    split; [symmetry; exact Hk|]. split; [exact Ea|].
    exists fields, req. repeat split; auto; apply Ks.
  Qed.

  Theorem verify_sound : forall k c repo penv pk sg' c' repo' penv',
    sg_value sg' = sg_value (sign K alg_of sgn k c repo penv) ->
    verify PK vrf pk sg' c' repo' penv' = true ->
    wf_values (sign_values c repo penv) ->
    (forall req, verify_payload sg' c' repo' penv' = Some (payload (sg_alg sg') req) -> NoDup (map fst req) -> wf_values req) ->
    pk = pub k /\ sg_alg sg' = alg_of k /\
    exists fields req, sg_fields sg' = Some fields /\
      verify_payload sg' c' repo' penv' = Some (payload (sg_alg sg') req) /\
      (forall f, In f (map fst req) <-> In f fields) /\
      canon (JObj req) = canon (JObj (sign_values c repo penv)).
  Proof using vrf_ideal sgn_inj ser_injective canon_obj_lookup canon_str.
    intros k c repo penv pk sg' c' repo' penv' Hv Hver Wsv Wreq.
    destruct (verify_sound_strong k c repo penv pk sg' c' repo' penv' Hv Hver Wsv)
      as (H1 & H2 & fields & req & F & _ & Hp & _ & Ks & _ & _ & Ec).
    { intros req Hp N _ _. apply Wreq; assumption. }
    split; [exact H1|]. split; [exact H2|]. exists fields, req. auto.
  Qed.

  (** the same, with well-formedness of the rebuilt payload derived from well-formedness
      of the presented step's object-field values (env:: entries are strings) *)
  Lemma wf_values_of_fields : forall c repo (req : list (string * json)),
    (forall f j, In f mandatory_fields -> field_value c repo f = Some j -> wf_json j = true) ->
    NoDup (map fst req) ->
    (forall f, In f mandatory_fields -> aget f req = field_value c repo f) ->
    (forall f j, aget f req = Some j -> ~ In f mandatory_fields -> exists v, j = JStr v) ->
    wf_values req.
  Proof using.
    intros c repo req Wf N Gm Ge. unfold wf_values. rewrite wf_json_obj.
    rewrite (nodup_keys_of_NoDup req N). cbn [andb]. apply forallb_forall.
    intros [f j] I. cbn [snd]. apply (in_aget _ _ _ N) in I.
    destruct (in_dec string_dec f mandatory_fields) as [M|NM].
    - apply (Wf f j M). rewrite <- Gm by exact M. exact I.
    - destruct (Ge f j I NM) as [v ->]. reflexivity.
  Qed.

  Theorem verify_sound_wf : forall k c repo penv pk sg' c' repo' penv',
    sg_value sg' = sg_value (sign K alg_of sgn k c repo penv) ->
    verify PK vrf pk sg' c' repo' penv' = true ->
    wf_values (sign_values c repo penv) ->
    (forall f j, In f mandatory_fields -> field_value c' repo' f = Some j -> wf_json j = true) ->
    pk = pub k /\ sg_alg sg' = alg_of k /\
    exists fields req, sg_fields sg' = Some fields /\
      verify_payload sg' c' repo' penv' = Some (payload (sg_alg sg') req) /\
      (forall f, In f (map fst req) <-> In f fields) /\
      canon (JObj req) = canon (JObj (sign_values c repo penv)).
  Proof using vrf_ideal sgn_inj ser_injective canon_obj_lookup canon_str.
    intros k c repo penv pk sg' c' repo' penv' Hv Hver Wsv Wf.
    destruct (verify_sound_strong k c repo penv pk sg' c' repo' penv' Hv Hver Wsv)
      as (H1 & H2 & fields & req & F & _ & Hp & _ & Ks & _ & _ & Ec).
    { intros req _ N Gm Ge. eapply wf_values_of_fields; eassumption. }
    split; [exact H1|]. split; [exact H2|]. exists fields, req. auto.
  Qed.

  (** wf of what Sign signs, from wf of the signed step's object-field values *)
  Lemma sign_values_wf : forall c repo penv,
    (forall f j, In f mandatory_fields -> field_value c repo f = Some j -> wf_json j = true) ->
    wf_values (sign_values c repo penv).
  Proof using.
    intros c repo penv Wf. apply (wf_values_of_fields c repo); auto.
    - apply sign_values_nodup.
    - intros f M. apply sign_values_mandatory. exact M.
    - intros f j G NM. unfold sign_values in G. apply fold_id_get_inv in G. destruct G as [G|G].
      + apply env_values_in in G. destruct G as (n & v & _ & -> & _). eauto.
      + exfalso. apply NM. apply aget_some_in in G. apply (in_map fst) in G.
        rewrite map_map in G. cbn [fst] in G. rewrite map_id in G. exact G.
  Qed.

  (** corollaries: each mutation class of the property *)
  Lemma verify_sound_full : forall k c repo penv pk sg' c' repo' penv',
    sg_value sg' = sg_value (sign K alg_of sgn k c repo penv) ->
    verify PK vrf pk sg' c' repo' penv' = true ->
    wf_values (sign_values c repo penv) ->
    (forall req, verify_payload sg' c' repo' penv' = Some (payload (sg_alg sg') req) -> NoDup (map fst req) -> wf_values req) ->
    exists fields req, sg_fields sg' = Some fields /\
      (forall f, In f (map fst req) <-> In f fields) /\
      (forall f, In f mandatory_fields -> aget f req = field_value c' repo' f) /\
      (forall f j, aget f req = Some j -> ~ In f mandatory_fields ->
          exists n v, f = (env_prefix ++ n)%string /\ j = JStr v /\ In (n, v) penv' /\ ahas n (cs_env c') = false) /\
      (forall f, option_map canon (aget f req) = option_map canon (aget f (sign_values c repo penv))).
  Proof using vrf_ideal sgn_inj ser_injective canon_obj_lookup canon_str.
    intros k c repo penv pk sg' c' repo' penv' Hv Hver Wsv Wreq.
    destruct (verify_sound_strong k c repo penv pk sg' c' repo' penv' Hv Hver Wsv)
      as (_ & _ & fields & req & F & _ & _ & N & Ks & Gm & Ge & Ec).
    { intros req Hp N _ _. apply Wreq; assumption. }
    exists fields, req. repeat split; auto; try apply Ks.
    intros f. apply canon_obj_lookup; [exact N|apply sign_values_nodup|exact Ec].
  Qed.

  Lemma lookup_keys : forall (l l' : list (string * json)) f,
    option_map canon (aget f l) = option_map canon (aget f l') ->
    (In f (map fst l) <-> In f (map fst l')).
  Proof using.
    intros l l' f H. rewrite <- !ahas_in. unfold ahas.
    destruct (aget f l), (aget f l'); cbn [option_map] in H; try discriminate; tauto.
  Qed.

  Corollary verify_sound_fields : forall k c repo penv pk sg' c' repo' penv',
    sg_value sg' = sg_value (sign K alg_of sgn k c repo penv) ->
    verify PK vrf pk sg' c' repo' penv' = true ->
    wf_values (sign_values c repo penv) ->
    (forall req, verify_payload sg' c' repo' penv' = Some (payload (sg_alg sg') req) -> NoDup (map fst req) -> wf_values req) ->
    forall f, (exists fields, sg_fields sg' = Some fields /\ In f fields) <-> In f (map fst (sign_values c repo penv)).
  Proof using vrf_ideal sgn_inj ser_injective canon_obj_lookup canon_str.
    intros k c repo penv pk sg' c' repo' penv' Hv Hver Wsv Wreq f.
    destruct (verify_sound_full k c repo penv pk sg' c' repo' penv' Hv Hver Wsv Wreq)
      as (fields & req & F & Ks & _ & _ & L).
    rewrite <- (lookup_keys _ _ f (L f)), Ks. split.
    - intros (fields0 & F0 & I). congruence.
    - intros I. exists fields. auto.
  Qed.

  Corollary verify_sound_field : forall k c repo penv pk sg' c' repo' penv',
    sg_value sg' = sg_value (sign K alg_of sgn k c repo penv) ->
    verify PK vrf pk sg' c' repo' penv' = true ->
    wf_values (sign_values c repo penv) ->
    (forall req, verify_payload sg' c' repo' penv' = Some (payload (sg_alg sg') req) -> NoDup (map fst req) -> wf_values req) ->
    forall f, In f mandatory_fields ->
      option_map canon (field_value c' repo' f) = option_map canon (field_value c repo f).
  Proof using vrf_ideal sgn_inj ser_injective canon_obj_lookup canon_str.
    intros k c repo penv pk sg' c' repo' penv' Hv Hver Wsv Wreq f M.
    destruct (verify_sound_full k c repo penv pk sg' c' repo' penv' Hv Hver Wsv Wreq)
      as (fields & req & F & Ks & Gm & _ & L).
    rewrite <- (Gm f M), <- (sign_values_mandatory c repo penv f M). apply L.
  Qed.

  Corollary verify_sound_command : forall k c repo penv pk sg' c' repo' penv',
    sg_value sg' = sg_value (sign K alg_of sgn k c repo penv) ->
    verify PK vrf pk sg' c' repo' penv' = true ->
    wf_values (sign_values c repo penv) ->
    (forall req, verify_payload sg' c' repo' penv' = Some (payload (sg_alg sg') req) -> NoDup (map fst req) -> wf_values req) ->
    cs_command c' = cs_command c.
  Proof using vrf_ideal sgn_inj ser_injective canon_obj_lookup canon_str.
    intros k c repo penv pk sg' c' repo' penv' Hv Hver Wsv Wreq.
    assert (M : In "command" mandatory_fields) by (cbn; auto).
    pose proof (verify_sound_field k c repo penv pk sg' c' repo' penv' Hv Hver Wsv Wreq _ M) as H.
    rewrite !field_value_command in H. cbn [option_map] in H. apply canon_str. congruence.
  Qed.

  Corollary verify_sound_repo : forall k c repo penv pk sg' c' repo' penv',
    sg_value sg' = sg_value (sign K alg_of sgn k c repo penv) ->
    verify PK vrf pk sg' c' repo' penv' = true ->
    wf_values (sign_values c repo penv) ->
    (forall req, verify_payload sg' c' repo' penv' = Some (payload (sg_alg sg') req) -> NoDup (map fst req) -> wf_values req) ->
    repo' = repo.
  Proof using vrf_ideal sgn_inj ser_injective canon_obj_lookup canon_str.
    intros k c repo penv pk sg' c' repo' penv' Hv Hver Wsv Wreq.
    assert (M : In "repository_url" mandatory_fields) by (cbn; auto 6).
    pose proof (verify_sound_field k c repo penv pk sg' c' repo' penv' Hv Hver Wsv Wreq _ M) as H.
    rewrite !field_value_repo in H. cbn [option_map] in H. apply canon_str. congruence.
  Qed.

  Corollary verify_sound_env_var : forall k c repo penv pk sg' c' repo' penv',
    sg_value sg' = sg_value (sign K alg_of sgn k c repo penv) ->
    verify PK vrf pk sg' c' repo' penv' = true ->
    wf_values (sign_values c repo penv) ->
    (forall req, verify_payload sg' c' repo' penv' = Some (payload (sg_alg sg') req) -> NoDup (map fst req) -> wf_values req) ->
    NoDup (map fst penv) -> NoDup (map fst penv') ->
    forall n v, aget n penv = Some v -> ahas n (cs_env c) = false ->
      aget n penv' = Some v /\ ahas n (cs_env c') = false.
  Proof using vrf_ideal sgn_inj ser_injective canon_obj_lookup canon_str.
    intros k c repo penv pk sg' c' repo' penv' Hv Hver Wsv Wreq N N' n v G S.
    destruct (verify_sound_full k c repo penv pk sg' c' repo' penv' Hv Hver Wsv Wreq)
      as (fields & req & F & Ks & _ & Ge & L).
    specialize (L (env_prefix ++ n)%string).
    rewrite (sign_values_env c repo penv n v N G S) in L.
    destruct (aget (env_prefix ++ n)%string req) as [j|] eqn:R; [|discriminate L].
    destruct (Ge _ _ R (mandatory_not_env n)) as (n' & v' & E & -> & I & S').
    apply prefix_inj in E. subst n'. cbn [option_map] in L.
    assert (v' = v) by (apply canon_str; congruence). subst v'.
    split; [apply in_aget; assumption|exact S'].
  Qed.

  Corollary verify_other_key_fails : forall k c repo penv pk sg' c' repo' penv',
    sg_value sg' = sg_value (sign K alg_of sgn k c repo penv) -> pk <> pub k ->
    verify PK vrf pk sg' c' repo' penv' = false.
  Proof using vrf_ideal sgn_inj.
    intros k c repo penv pk sg' c' repo' penv' Hv Hk.
    destruct (verify PK vrf pk sg' c' repo' penv') eqn:V; [|reflexivity].
    exfalso. apply verify_true_inv in V. destruct V as (p & k2 & _ & -> & Hs).
    rewrite Hv, sign_value in Hs. apply sgn_inj in Hs. destruct Hs as [E _]. apply Hk. symmetry. exact E.
  Qed.

  (** C06: SignSteps *)
  Fixpoint has_unknown (s : step) : bool :=
    match s with SUnknown _ => true | SGroup _ _ ss _ => existsb has_unknown ss | _ => false end.
  Fixpoint erase_sig (s : step) : step :=
    match s with
    | SCommand c => SCommand (mkCmd (cs_key c) (cs_label c) (cs_command c) (cs_plugins c) (cs_env c) None (cs_matrix c) (cs_cache c) (cs_rem c))
    | SGroup k g ss rem => SGroup k g (map erase_sig ss) rem
    | o => o
    end.
  Fixpoint commands_deep (s : step) : list command_step :=
    match s with SCommand c => [c] | SGroup _ _ ss _ => concat (map commands_deep ss) | _ => [] end.

  (** the nested loop of sign_step on a group is sign_steps *)
  Lemma sign_step_group : forall k repo penv key g ss rem,
    sign_step K alg_of sgn k repo penv (SGroup key g ss rem) =
    match sign_steps K alg_of sgn k repo penv ss with
    | Some ss' => Some (SGroup key g ss' rem)
    | None => None
    end.
  Proof using.
    intros k repo penv key g ss rem. cbn [sign_step].
    assert (E : forall l,
      (fix go (ss : list step) : option (list step) :=
         match ss with
         | [] => Some []
         | x :: r => match sign_step K alg_of sgn k repo penv x with
                     | Some x' => match go r with Some r' => Some (x' :: r') | None => None end
                     | None => None
                     end
         end) l = sign_steps K alg_of sgn k repo penv l).
    { induction l as [|x r IH]; [reflexivity|]. cbn [sign_steps]. rewrite <- IH. reflexivity. }
    rewrite E. reflexivity.
  Qed.

  Lemma sign_steps_cons_inv : forall k repo penv x r ss',
    sign_steps K alg_of sgn k repo penv (x :: r) = Some ss' ->
    exists x' r', ss' = x' :: r' /\ sign_step K alg_of sgn k repo penv x = Some x' /\
                  sign_steps K alg_of sgn k repo penv r = Some r'.
  Proof using.
    intros k repo penv x r ss' H. cbn [sign_steps] in H.
    destruct (sign_step K alg_of sgn k repo penv x) as [x'|]; [|discriminate].
    destruct (sign_steps K alg_of sgn k repo penv r) as [r'|]; [|discriminate].
    inversion H; subst. eauto.
  Qed.

  Lemma sign_steps_none_Forall : forall k repo penv ss,
    Forall (fun s => sign_step K alg_of sgn k repo penv s = None <-> has_unknown s = true) ss ->
    (sign_steps K alg_of sgn k repo penv ss = None <-> existsb has_unknown ss = true).
  Proof using.
    intros k repo penv ss F. induction F as [|x r Hx Fr IH]; cbn [sign_steps existsb].
    - split; discriminate.
    - rewrite orb_true_iff, <- Hx, <- IH.
      destruct (sign_step K alg_of sgn k repo penv x) as [x'|];
        destruct (sign_steps K alg_of sgn k repo penv r) as [r'|]; split; intros H; auto; try discriminate.
      destruct H; discriminate.
  Qed.

  Lemma sign_step_none : forall k repo penv s,
    sign_step K alg_of sgn k repo penv s = None <-> has_unknown s = true.
  Proof using.
    intros k repo penv. induction s using step_ind'; try (cbn; split; discriminate).
    - rewrite sign_step_group. cbn [has_unknown].
      rewrite <- (sign_steps_none_Forall k repo penv ss H).
      destruct (sign_steps K alg_of sgn k repo penv ss); split; intros; congruence.
    - cbn. split; reflexivity.
  Qed.

  Theorem sign_steps_refuses_iff : forall k repo penv ss,
    sign_steps K alg_of sgn k repo penv ss = None <-> existsb has_unknown ss = true.
  Proof using.
    intros k repo penv ss. apply sign_steps_none_Forall. apply Forall_forall.
    intros s _. apply sign_step_none.
  Qed.

  Lemma sign_steps_frame_Forall : forall k repo penv ss,
    Forall (fun s => forall s', sign_step K alg_of sgn k repo penv s = Some s' -> erase_sig s' = erase_sig s) ss ->
    forall ss', sign_steps K alg_of sgn k repo penv ss = Some ss' -> map erase_sig ss' = map erase_sig ss.
  Proof using.
    intros k repo penv ss F. induction F as [|x r Hx Fr IH]; intros ss' H.
    - cbn in H. inversion H; subst. reflexivity.
    - apply sign_steps_cons_inv in H. destruct H as (x' & r' & -> & Sx & Sr).
      cbn [map]. rewrite (Hx _ Sx), (IH _ Sr). reflexivity.
  Qed.

  Lemma sign_step_frame : forall k repo penv s s',
    sign_step K alg_of sgn k repo penv s = Some s' -> erase_sig s' = erase_sig s.
  Proof using.
    intros k repo penv. induction s using step_ind'; intros s' E;
      try (cbn in E; inversion E; subst; reflexivity).
    rewrite sign_step_group in E.
    destruct (sign_steps K alg_of sgn k repo penv ss) as [ss'|] eqn:S; [|discriminate].
    inversion E; subst. cbn [erase_sig]. f_equal.
    eapply sign_steps_frame_Forall; eassumption.
  Qed.

  Theorem sign_steps_frame : forall k repo penv ss ss',
    sign_steps K alg_of sgn k repo penv ss = Some ss' -> map erase_sig ss' = map erase_sig ss.
  Proof using.
    intros k repo penv ss ss'. apply sign_steps_frame_Forall. apply Forall_forall.
    intros s _ s'. apply sign_step_frame.
  Qed.

  Lemma sign_steps_signs_Forall : forall k repo penv ss,
    Forall (fun s => forall s', sign_step K alg_of sgn k repo penv s = Some s' ->
              forall c, In c (commands_deep s') -> cs_sig c = Some (sign K alg_of sgn k c repo penv)) ss ->
    forall ss', sign_steps K alg_of sgn k repo penv ss = Some ss' ->
    forall c, In c (concat (map commands_deep ss')) -> cs_sig c = Some (sign K alg_of sgn k c repo penv).
  Proof using.
    intros k repo penv ss F. induction F as [|x r Hx Fr IH]; intros ss' H c I.
    - cbn in H. inversion H; subst. destruct I.
    - apply sign_steps_cons_inv in H. destruct H as (x' & r' & -> & Sx & Sr).
      cbn [map concat] in I. apply in_app_or in I. destruct I as [I|I].
      + eapply Hx; eassumption.
      + eapply IH; eassumption.
  Qed.

  Lemma sign_step_signs : forall k repo penv s s',
    sign_step K alg_of sgn k repo penv s = Some s' ->
    forall c, In c (commands_deep s') -> cs_sig c = Some (sign K alg_of sgn k c repo penv).
  Proof using.
    intros k repo penv. induction s using step_ind'; intros s' E c0 I;
      try (cbn in E; inversion E; subst; cbn in I; contradiction).
    - cbn [sign_step] in E. inversion E; subst. cbn [commands_deep In] in I.
      destruct I as [<-|[]]. cbn [cs_sig].
      (* sign reads only command / env / plugins / matrix (sign_values_ext): convertible *)
      reflexivity.
    - rewrite sign_step_group in E.
      destruct (sign_steps K alg_of sgn k repo penv ss) as [ss'|] eqn:S; [|discriminate].
      inversion E; subst. cbn [commands_deep] in I.
      eapply sign_steps_signs_Forall; eassumption.
  Qed.

  Theorem sign_steps_signs_all : forall k repo penv ss ss',
    sign_steps K alg_of sgn k repo penv ss = Some ss' ->
    forall c, In c (concat (map commands_deep ss')) ->
      cs_sig c = Some (sign K alg_of sgn k c repo penv).
  Proof using.
    intros k repo penv ss ss'. apply sign_steps_signs_Forall. apply Forall_forall.
    intros s _ s'. apply sign_step_signs.
  Qed.

  Theorem sign_steps_verify : forall k repo penv ss ss',
    NoDup (map fst penv) ->
    sign_steps K alg_of sgn k repo penv ss = Some ss' ->
    forall c sg, In c (concat (map commands_deep ss')) -> cs_sig c = Some sg ->
      verify PK vrf (pub k) sg c repo penv = true /\ sg_alg sg = alg_of k /\
      sg_fields sg = Some (map fst (sort_keys (sign_values c repo penv))).
  Proof using vrf_ideal ser_perm.
    intros k repo penv ss ss' N S c sg I E.
    rewrite (sign_steps_signs_all k repo penv ss ss' S c I) in E. inversion E; subst sg.
    split; [apply sign_then_verify; auto|]. split; reflexivity.
  Qed.
End SignProofs.

Print Assumptions verify_sound.
Print Assumptions sign_then_verify.
Print Assumptions sign_steps_verify.
