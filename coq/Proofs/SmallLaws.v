(** Small laws about three existing models:

    1. Pipeline.parse_doc on documents that are neither a mapping nor a list,
       and on step lists with a null entry (top level: hard error; inside a
       group: the whole group falls back to an unknown step with one warning);
    2. YamlGraph.oset: two keys of one YAML mapping that canonicalise to the
       same string are one entry, at the first position, with the last value;
    3. OMap's list-of-pairs dictionary model p_set / p_get. *)
From Coq Require Import String List Ascii Bool ZArith Lia.
From GP Require Import Base.Sexp Model.Gv Model.Decode Model.Kinds Gen.Structs
     Model.Pipeline Model.YamlGraph Model.OMap.
Import ListNotations.
Local Open Scope string_scope.
Local Open Scope list_scope.

(** ------------------------------------------------------------------ *)
(** * Group 1: non-mapping, non-list documents; null step entries      *)

Theorem parse_doc_scalar_err : forall g,
  (match g with GMap _ | GSeq _ => False | _ => True end) -> parse_doc g = Err.
Proof.
  intros g H. destruct g; try reflexivity; contradiction.
Qed.

(** the per-entry decoder rejects a null entry whatever the fuel *)
Lemma unm_step_null : forall fuel, unm_step fuel GNull = Err.
Proof. destruct fuel; reflexivity. Qed.

Lemma bind_err_r : forall T U (r : res T), bind r (fun _ => @Err U) = Err.
Proof. intros T U r. destruct r; reflexivity. Qed.

(** one failing element fails the whole mapM *)
Lemma mapM_err_at : forall T U (f : T -> res U) before x after,
  f x = Err -> mapM f (before ++ x :: after) = Err.
Proof.
  intros T U f before x after Hx.
  induction before as [|b before IH]; simpl.
  - rewrite Hx. reflexivity.
  - rewrite IH. destruct (f b); reflexivity.
Qed.

(** a step list with a null entry is a hard error, whatever the fuel *)
Lemma unm_steps_null_entry : forall fuel before after,
  unm_steps fuel (GSeq (before ++ GNull :: after)) = Err.
Proof.
  intros fuel before after. destruct fuel as [|fuel]; simpl.
  - reflexivity.
  - apply mapM_err_at. apply unm_step_null.
Qed.

Lemma parse_null_step_entry : forall fuel before after,
  parse fuel (GSeq (before ++ GNull :: after)) = Err.
Proof.
  intros fuel before after. unfold parse.
  rewrite unm_steps_null_entry. reflexivity.
Qed.

(** a null entry in a top-level step list: the document is a hard error *)
Theorem parse_doc_null_step_entry : forall before after,
  parse_doc (GSeq (before ++ GNull :: after)) = Err.
Proof.
  intros before after. unfold parse_doc. apply parse_null_step_entry.
Qed.

(** the same list under the "steps" key of a top-level mapping *)
Theorem parse_doc_null_step_entry_in_mapping : forall m before after,
  field "Steps" (partition_keys struct_Pipeline m) = Some (GSeq (before ++ GNull :: after)) ->
  parse_doc (GMap m) = Err.
Proof.
  intros m before after H. unfold parse_doc, parse.
  rewrite H. rewrite unm_steps_null_entry. reflexivity.
Qed.

(** A null entry inside a group's "steps": the inner step list is an error,
    and the group decoder turns any error below it into the fallback, so the
    whole group becomes one unknown step holding the original mapping, with
    one warning.  Holds for every non-zero fuel. *)
Definition is_group_map (m : list (string * gv)) : Prop :=
  (aget "type" m = None /\ kind_by_keys (map fst m) = KGroup)
  \/ (exists t, aget "type" m = Some (GStr t) /\ kind_by_type t = KGroup).

Theorem unm_step_group_null_entry : forall fuel m before after,
  is_group_map m ->
  field "Steps" (partition_keys struct_GroupStep m) = Some (GSeq (before ++ GNull :: after)) ->
  unm_step (S fuel) (GMap m) = Ok (SUnknown (GMap m)) 1.
Proof.
  intros fuel m before after Hg Hs.
  assert (Hinner :
    (do k <- opt_field "Key" (partition_keys struct_GroupStep m) "" unm_string;
     do gr <- match field "Group" (partition_keys struct_GroupStep m) with
              | Some GNull => ret None
              | Some v => do s <- unm_string v; ret (Some s)
              | None => ret None
              end;
     do ss <- opt_field "Steps" (partition_keys struct_GroupStep m) [] (unm_steps fuel);
     ret (SGroup k gr ss (leftover (partition_keys struct_GroupStep m)))) = Err).
  { unfold opt_field at 2. rewrite Hs. rewrite unm_steps_null_entry.
    cbn [bind].
    match goal with |- bind ?a (fun _ => bind ?b _) = _ =>
      rewrite (bind_err_r _ _ b); apply bind_err_r end. }
  destruct Hg as [[Ht Hk] | [t [Ht Hk]]].
  - cbn [unm_step]. rewrite Ht, Hk. rewrite Hinner. reflexivity.
  - cbn [unm_step]. rewrite Ht, Hk. rewrite Hinner. reflexivity.
Qed.

(** the document-level consequence: a single top-level group with a null
    entry parses to one unknown step and one warning *)
Example parse_doc_group_null_entry :
  let grp := GMap [("group", GStr "g"); ("steps", GSeq [GStr "wait"; GNull])] in
  parse_doc (GSeq [grp]) = Ok (mkPipeline [SUnknown grp] None [] false) 1.
Proof. vm_compute. reflexivity. Qed.

(** the instance of the general lemma for that group mapping *)
Example unm_step_group_null_entry_example : forall fuel,
  let m := [("group", GStr "g"); ("steps", GSeq [GStr "wait"; GNull])] in
  unm_step (S fuel) (GMap m) = Ok (SUnknown (GMap m)) 1.
Proof.
  intros fuel m.
  apply (unm_step_group_null_entry fuel m [GStr "wait"] []).
  - left. split; vm_compute; reflexivity.
  - vm_compute. reflexivity.
Qed.

(** for contrast: without the null entry the same group parses as a group *)
Example parse_doc_group_no_null_entry :
  parse_doc (GSeq [GMap [("group", GStr "g"); ("steps", GSeq [GStr "wait"])]])
  = Ok (mkPipeline [SGroup "" (Some "g") [SWait "wait" []] []] None [] false) 0.
Proof. vm_compute. reflexivity. Qed.

(** ------------------------------------------------------------------ *)
(** * Group 2: oset (ordered.Map.Set on the pairs decoded so far)       *)

Theorem oset_same_key_twice : forall k v1 v2 l,
  oset k v2 (oset k v1 l) = oset k v2 l.
Proof.
  intros k v1 v2 l. induction l as [|[k' v'] r IH]; simpl.
  - rewrite String.eqb_refl. reflexivity.
  - destruct (String.eqb k k') eqn:E; simpl.
    + rewrite String.eqb_refl. reflexivity.
    + rewrite E, IH. reflexivity.
Qed.

Theorem oset_keeps_first_position : forall k v l,
  In k (map fst l) -> map fst (oset k v l) = map fst l.
Proof.
  intros k v l. induction l as [|[k' v'] r IH]; simpl; intros H.
  - contradiction.
  - destruct (String.eqb k k') eqn:E; simpl.
    + apply String.eqb_eq in E. subst. reflexivity.
    + f_equal. apply IH. destruct H as [H | H]; [|exact H].
      subst. rewrite String.eqb_refl in E. discriminate.
Qed.

Theorem oset_new_key_appends : forall k v l,
  ~ In k (map fst l) -> oset k v l = l ++ [(k, v)].
Proof.
  intros k v l. induction l as [|[k' v'] r IH]; simpl; intros H.
  - reflexivity.
  - destruct (String.eqb k k') eqn:E.
    + apply String.eqb_eq in E. subst. exfalso. apply H. left. reflexivity.
    + f_equal. apply IH. intros Hin. apply H. right. exact Hin.
Qed.

Theorem oset_lookup : forall k v l, aget k (oset k v l) = Some v.
Proof.
  intros k v l. induction l as [|[k' v'] r IH]; simpl.
  - rewrite String.eqb_refl. reflexivity.
  - destruct (String.eqb k k') eqn:E; simpl.
    + rewrite String.eqb_refl. reflexivity.
    + rewrite E. exact IH.
Qed.

(** ------------------------------------------------------------------ *)
(** * Group 3: the list-of-pairs dictionary model                       *)

Section PairsLaws.
  Variable V : Type.

  Lemma p_get_update_same : forall k v (l : pairs V),
    p_has k l = true -> p_get k (p_update k v l) = Some v.
  Proof.
    intros k v l. unfold p_has. induction l as [|[k' v'] r IH]; simpl.
    - discriminate.
    - destruct (String.eqb k k') eqn:E; simpl; rewrite E.
      + reflexivity.
      + exact IH.
  Qed.

  Lemma p_get_app_new : forall k v (l : pairs V),
    p_has k l = false -> p_get k (l ++ [(k, v)]) = Some v.
  Proof.
    intros k v l. unfold p_has. induction l as [|[k' v'] r IH]; simpl.
    - rewrite String.eqb_refl. reflexivity.
    - destruct (String.eqb k k') eqn:E.
      + discriminate.
      + exact IH.
  Qed.

  Theorem p_set_lookup : forall k v (l : pairs V),
    p_get k (p_set k v l) = Some v.
  Proof.
    intros k v l. unfold p_set. destruct (p_has k l) eqn:E.
    - apply p_get_update_same. exact E.
    - apply p_get_app_new. exact E.
  Qed.

  Lemma p_has_set : forall k v (l : pairs V), p_has k (p_set k v l) = true.
  Proof. intros k v l. unfold p_has at 1. rewrite p_set_lookup. reflexivity. Qed.

  Lemma p_update_update : forall k v1 v2 (l : pairs V),
    p_update k v2 (p_update k v1 l) = p_update k v2 l.
  Proof.
    intros k v1 v2 l. induction l as [|[k' v'] r IH]; simpl.
    - reflexivity.
    - destruct (String.eqb k k') eqn:E; simpl; rewrite E.
      + reflexivity.
      + rewrite IH. reflexivity.
  Qed.

  Lemma p_update_app_new : forall k v1 v2 (l : pairs V),
    p_has k l = false -> p_update k v2 (l ++ [(k, v1)]) = l ++ [(k, v2)].
  Proof.
    intros k v1 v2 l. unfold p_has. induction l as [|[k' v'] r IH]; simpl.
    - rewrite String.eqb_refl. reflexivity.
    - destruct (String.eqb k k') eqn:E.
      + discriminate.
      + intros H. rewrite (IH H). reflexivity.
  Qed.

  Theorem p_set_same_key_twice : forall k v1 v2 (l : pairs V),
    p_set k v2 (p_set k v1 l) = p_set k v2 l.
  Proof.
    intros k v1 v2 l. unfold p_set at 1. rewrite p_has_set.
    unfold p_set. destruct (p_has k l) eqn:E.
    - apply p_update_update.
    - apply p_update_app_new. exact E.
  Qed.

  Lemma p_get_update_other : forall k k' v (l : pairs V),
    k <> k' -> p_get k' (p_update k v l) = p_get k' l.
  Proof.
    intros k k' v l Hne. induction l as [|[k0 v0] r IH]; simpl.
    - reflexivity.
    - destruct (String.eqb k k0) eqn:E; simpl.
      + apply String.eqb_eq in E. subst k0.
        destruct (String.eqb k' k) eqn:E'; [|reflexivity].
        apply String.eqb_eq in E'. subst. exfalso. apply Hne. reflexivity.
      + rewrite IH. reflexivity.
  Qed.

  Lemma p_get_app_other : forall k k' v (l : pairs V),
    k <> k' -> p_get k' (l ++ [(k, v)]) = p_get k' l.
  Proof.
    intros k k' v l Hne. induction l as [|[k0 v0] r IH]; simpl.
    - destruct (String.eqb k' k) eqn:E; [|reflexivity].
      apply String.eqb_eq in E. subst. exfalso. apply Hne. reflexivity.
    - rewrite IH. reflexivity.
  Qed.

  Theorem p_set_keeps_others : forall k k' v (l : pairs V),
    k <> k' -> p_get k' (p_set k v l) = p_get k' l.
  Proof.
    intros k k' v l Hne. unfold p_set. destruct (p_has k l).
    - apply p_get_update_other. exact Hne.
    - apply p_get_app_other. exact Hne.
  Qed.
End PairsLaws.

(** ------------------------------------------------------------------ *)
Print Assumptions parse_doc_scalar_err.
Print Assumptions parse_doc_null_step_entry.
Print Assumptions parse_doc_null_step_entry_in_mapping.
Print Assumptions unm_step_group_null_entry.
Print Assumptions parse_doc_group_null_entry.
Print Assumptions unm_step_group_null_entry_example.
Print Assumptions parse_doc_group_no_null_entry.
Print Assumptions oset_same_key_twice.
Print Assumptions oset_keeps_first_position.
Print Assumptions oset_new_key_appends.
Print Assumptions oset_lookup.
Print Assumptions p_set_same_key_twice.
Print Assumptions p_set_lookup.
Print Assumptions p_set_keeps_others.
